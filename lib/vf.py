"""Shared machinery of the /verif checks: build the Go harness from /repo's
working tree (tag verif), (re)build the Coq development, compile a property's
theorem file and capture its Print Assumptions output, evaluate correspondence
cases inside Coq with vm_compute, apply the known-findings file, write the
evidence file and the VIOLATION / KNOWN-FINDING lines."""
import json, os, re, subprocess, sys, time, hashlib, shutil
from concurrent.futures import ThreadPoolExecutor

ROOT = os.path.dirname(os.path.dirname(os.path.abspath(__file__)))
COQ = os.path.join(ROOT, 'coq')
HARNESS = os.path.join(ROOT, 'harness')
BUILD = os.path.join(ROOT, 'build')
BIN = os.path.join(BUILD, 'bin')
REPO = os.environ.get('VERIF_REPO', '/repo')

ALLOWED_AXIOMS = {
    # standard-library axioms that may appear (none is expected); anything
    # else listed by Print Assumptions fails the check
    'functional_extensionality_dep', 'proof_irrelevance', 'JMeq_eq',
    'Eqdep.Eq_rect_eq.eq_rect_eq', 'classic', 'propositional_extensionality',
}

FORBIDDEN = re.compile(r'\b(Admitted|admit|Axiom|Axioms|Parameter|Parameters|Conjecture|Conjectures|Admit Obligations|bypass_check|native_compute)\b|Unset Guard|Unset Positivity|Unset Universe|type-in-type|impredicative-set')

TRUSTED_BASE = [
    "Coq 8.16.1 kernel (coqc; vm_compute used for correspondence cases and finite-domain lemmas; native_compute not used)",
    "no axioms: Print Assumptions under every theorem of the property file must say 'Closed under the global context'",
    "hand-written Gallina model of the anchored Go code (coq/), tied to /repo by the correspondence check (Go harness built from /repo with -tags verif; model evaluated by vm_compute on the same inputs)",
    "Go harness: generators, AST/observable dumpers, message->class mapping, reference oracle (harness/)",
    "translator for data tables (harness dump + lib/gen_coq.py) where the property uses coq/Gen",
    "python driver (check, lib/vf.py): sharding, diffing, known-findings filter",
]


def goenv():
    e = dict(os.environ)
    e.update(GOFLAGS='-mod=mod', GOPROXY='off', GOSUMDB='off', GOTOOLCHAIN='local', CGO_ENABLED=e.get('CGO_ENABLED', '0'))
    return e


def sh(cmd, cwd=None, env=None, timeout=None, input=None):
    """run, return (rc, stdout+stderr)"""
    try:
        p = subprocess.run(cmd, cwd=cwd, env=env, timeout=timeout, input=input,
                           stdout=subprocess.PIPE, stderr=subprocess.STDOUT, text=True, errors='replace')
        return p.returncode, p.stdout
    except subprocess.TimeoutExpired as ex:
        out = ex.stdout or ''
        if isinstance(out, bytes):
            out = out.decode('utf-8', 'replace')
        return 124, out + '\n[timeout]'


class Ctx:
    def __init__(self, prop, tier, seed):
        self.prop = prop
        self.tier = tier
        self.seed = seed
        self.t0 = time.time()
        self.out = os.path.join(BUILD, prop.lower())
        if os.path.isdir(self.out):
            shutil.rmtree(self.out)
        os.makedirs(self.out, exist_ok=True)
        os.makedirs(BIN, exist_ok=True)
        # replays of earlier runs of this property are stale: start clean
        rp = os.path.join(ROOT, 'replays', prop)
        if os.path.isdir(rp):
            shutil.rmtree(rp, ignore_errors=True)
        self.notes = []          # free text for the evidence
        self.violations = []     # dicts: {what, key, replay(obj), no_input(bool)}
        self.coverage = {}       # merged into evidence coverage
        self.assumptions = []
        self.broken = []         # names of theorems / correspondences that no longer check

    def thorough(self):
        return self.tier == 'thorough'


# ---------------------------------------------------------------- building

def build_harness(ctx, cmds=None, race=False):
    """go build the harness commands against the working tree of REPO
    (/repo, or $VERIF_REPO for experiments on a scratch worktree)."""
    env = goenv()
    modargs = []
    if REPO == '/repo':
        try:
            shutil.copyfile(os.path.join(REPO, 'go.sum'), os.path.join(HARNESS, 'go.sum'))
        except OSError:
            pass
    else:
        tag = hashlib.sha1(REPO.encode()).hexdigest()[:8]
        mf = os.path.join(BUILD, 'go.%s.mod' % tag)
        os.makedirs(BUILD, exist_ok=True)
        open(mf, 'w').write(open(os.path.join(HARNESS, 'go.mod')).read().replace('=> /repo', '=> ' + REPO))
        shutil.copyfile(os.path.join(REPO, 'go.sum'), os.path.join(BUILD, 'go.%s.sum' % tag))
        modargs = ['-modfile=' + mf]
    targets = ['./cmd/' + c for c in cmds] if cmds else ['./cmd/...']
    args = ['go', 'build', '-tags', 'verif'] + modargs
    if race:
        env['CGO_ENABLED'] = '1'
        args.append('-race')
    out = BIN + ('-race' if race else '') + '/'
    os.makedirs(out, exist_ok=True)
    rc, log = sh(args + ['-o', out] + targets, cwd=HARNESS, env=env, timeout=900)
    return rc == 0, log


def ensure_makefile():
    sh([os.path.join(ROOT, 'tools', 'mkcoqproject.sh')])


def coq_make(targets=None, timeout=3000):
    ensure_makefile()
    cmd = ['make', '-j16'] + (targets or [])
    rc, log = sh(cmd, cwd=COQ, timeout=timeout)
    return rc == 0, log


def grep_gate():
    bad = []
    for d, _, fs in os.walk(COQ):
        if os.path.basename(d) == 'cases':
            continue
        for f in fs:
            if not f.endswith('.v'):
                continue
            p = os.path.join(d, f)
            text = open(p, errors='replace').read()
            # strip comments (non-nested approximation is enough for a gate: nested handled by loop)
            prev = None
            while prev != text:
                prev = text
                text = re.sub(r'\(\*(?:(?!\(\*|\*\)).)*\*\)', ' ', text, flags=re.S)
            for i, line in enumerate(text.split('\n'), 1):
                if FORBIDDEN.search(line):
                    bad.append('%s:%d: %s' % (os.path.relpath(p, ROOT), i, line.strip()))
            if re.search(r'^\s*(Variable|Variables|Hypothesis|Hypotheses)\b', text, flags=re.M):
                # allowed only inside sections: every such file must open a Section before
                for m in re.finditer(r'^\s*(Variable|Variables|Hypothesis|Hypotheses)\b', text, flags=re.M):
                    before = text[:m.start()]
                    opened = len(re.findall(r'^\s*Section\s', before, flags=re.M))
                    closed = len(re.findall(r'^\s*End\s', before, flags=re.M))
                    mods = len(re.findall(r'^\s*Module\s+(?!Type|Import|Export)\w+\s*\.', before, flags=re.M))
                    if opened - (closed - mods) <= 0:
                        bad.append('%s: Variable/Hypothesis outside a section' % os.path.relpath(p, ROOT))
    return bad


def check_props(ctx, name=None):
    """Build Props/<ID>.vo through make (so every dependency is a full .vo),
    then compile a copy of the property file once more to capture what
    Print Assumptions prints.  Returns (theorems, closed, text)."""
    name = name or ctx.prop
    rel = 'Props/%s.v' % name
    src = os.path.join(COQ, rel)
    ok, log = coq_make([rel + 'o'])
    if not ok:
        ctx.broken.append('coq build of %s failed' % rel)
        open(os.path.join(ctx.out, 'coq_build.log'), 'w').write(log)
        ctx.coq_log = log
        return 0, 0, log
    tmp = os.path.join(ctx.out, 'pa')
    os.makedirs(tmp, exist_ok=True)
    cp = os.path.join(tmp, '%s_pa.v' % name)
    shutil.copyfile(src, cp)
    rc, text = sh(['coqc', '-R', COQ, 'AL', cp], cwd=tmp, timeout=600)
    thms = re.findall(r'^\s*(?:Theorem|Corollary)\s+(\w+)', open(src).read(), flags=re.M)
    closed = text.count('Closed under the global context')
    axioms = []
    for blk in re.findall(r'Axioms:\n((?:.+\n?)*)', text):
        for l in blk.split('\n'):
            m = re.match(r'^(\S+)\s*:', l)
            if m:
                axioms.append(m.group(1))
    bad_ax = [a for a in axioms if a not in ALLOWED_AXIOMS]
    if rc != 0:
        ctx.broken.append('property file %s does not compile' % rel)
        ctx.coq_log = text
    if bad_ax:
        ctx.broken.append('non-standard axioms under %s: %s' % (rel, ', '.join(sorted(set(bad_ax)))))
    ctx.assumptions.append('%s: %d theorems, %d closed under the global context, axioms: %s'
                           % (rel, len(thms), closed, sorted(set(axioms)) or 'none'))
    ctx.coverage['theorems'] = ctx.coverage.get('theorems', []) + thms
    discharged = len(thms) if (rc == 0 and not bad_ax and closed + (1 if axioms else 0) >= 1) else 0
    if rc == 0 and not bad_ax and closed < len(thms) and not axioms:
        # every theorem must be followed by Print Assumptions
        ctx.broken.append('%s: %d theorems but only %d Print Assumptions results' % (rel, len(thms), closed))
        discharged = closed
    if ctx.thorough() and rc == 0:
        # thorough tier: re-check the compiled property module and everything it depends on with
        # the independent checker, and record the axioms it reports
        rcc, outc = sh(['coqchk', '-silent', '-o', '-R', COQ, 'AL', 'AL.Props.' + name], cwd=COQ, timeout=2400)
        m = re.search(r'\* Axioms:\s*(.*?)\n\s*\n', outc, flags=re.S)
        ax = ' '.join(m.group(1).split()) if m else 'unparsed'
        ctx.coverage['coqchk'] = {'exit': rcc, 'axioms': ax,
                                  'no_type_in_type': 'type-in-type: <none>' in outc.replace('\n', ' ').replace('  ', ' '),
                                  'cmd': 'coqchk -silent -o -R coq AL AL.Props.' + name}
        ctx.assumptions.append('coqchk AL.Props.%s: exit %d, axioms: %s' % (name, rcc, ax))
        if rcc != 0:
            ctx.broken.append('coqchk rejects AL.Props.%s: %s' % (name, outc[-300:]))
        elif ax not in ('<none>',):
            bad = [a for a in re.split(r'[\s,]+', ax) if a and a.split('.')[-1] not in ALLOWED_AXIOMS and a not in ALLOWED_AXIOMS]
            if bad:
                ctx.broken.append('coqchk reports axioms under AL.Props.%s: %s' % (name, ax))
    return len(thms), discharged, text


# ---------------------------------------------------------------- cases in Coq

def _run_shard(args):
    idx, path, wd = args
    rc, out = sh(['coqc', '-R', COQ, 'AL', path], cwd=wd, timeout=1800)
    return idx, rc, out


def coq_cases(ctx, tag, imports, typ, run_fn, terms, shard=400, ordered=False):
    """terms: list of Coq terms '(input, [obs...])'.  Evaluates
    mismatches run_fn terms inside Coq (vm_compute) in parallel shards.
    Returns (list of global indices that mismatch, error text or None)."""
    d = os.path.join(COQ, 'cases')
    os.makedirs(d, exist_ok=True)
    # the case files import these modules: make sure their .vo exist
    ok, log = coq_make(['Base/Corr.vo'] + [i.replace('.', '/') + '.vo' for i in imports])
    if not ok:
        return [], 'coq build of the modules needed by the cases failed: ' + log[-1500:]
    for f in os.listdir(d):
        if f.startswith(tag + '_'):
            os.remove(os.path.join(d, f))
    jobs = []
    for s in range(0, len(terms), shard):
        chunk = terms[s:s + shard]
        name = '%s_%04d' % (tag, s // shard)
        p = os.path.join(d, name + '.v')
        fn = 'mismatches_ord' if ordered else 'mismatches'
        with open(p, 'w') as f:
            f.write('From AL Require Import Base.Corr %s.\n' % ' '.join(imports))
            f.write('From Coq Require Import String List NArith.\nImport ListNotations.\nOpen Scope string_scope.\n')
            f.write('Definition cases : list (%s * list tuple) := [\n' % typ)
            f.write(';\n'.join(chunk))
            f.write('\n].\nDefinition M := Eval vm_compute in %s %s cases.\nPrint M.\n' % (fn, run_fn))
        jobs.append((s, p, d))
    bad = []
    err = None
    with ThreadPoolExecutor(max_workers=16) as ex:
        for s, rc, out in ex.map(_run_shard, jobs):
            if rc != 0:
                err = (err or '') + out[-2000:]
                continue
            m = re.search(r'M\s*=\s*(\[[^\]]*\])', out.replace('\n', ' '))
            if not m:
                err = (err or '') + 'unparsable coqc output: ' + out[-500:]
                continue
            body = m.group(1).strip('[]').strip()
            if body:
                for t in body.split(';'):
                    t = t.strip()
                    if t:
                        bad.append(s + int(t))
    for f in os.listdir(d):
        if f.startswith(tag + '_'):
            os.remove(os.path.join(d, f))
    return sorted(bad), err


# ---------------------------------------------------------------- findings

def load_known():
    out = []
    p = os.path.join(ROOT, 'known_findings.json')
    if os.path.exists(p):
        out += json.load(open(p)).get('findings', [])
    d = os.path.join(ROOT, 'known_findings.d')
    if os.path.isdir(d):
        for f in sorted(os.listdir(d)):
            if f.endswith('.json'):
                out += json.load(open(os.path.join(d, f))).get('findings', [])
    return out


def match_known(prop, fail, known):
    for k in known:
        if k.get('property') != prop:
            continue
        if 'key' in k and k['key'] == fail.get('key'):
            return k
        if 'key_re' in k and re.search(k['key_re'], fail.get('key', ''), flags=re.S):
            return k
    return None


def write_replay(ctx, name, obj):
    d = os.path.join(ROOT, 'replays', ctx.prop)
    os.makedirs(d, exist_ok=True)
    p = os.path.join(d, name + '.json')
    json.dump(obj, open(p, 'w'), indent=1)
    return p


def finish(ctx, level, oracle_fails, technique_note=''):
    """oracle_fails: list of dicts with 'what', 'key', and the replay material.
    ctx.broken: broken proof obligations / correspondences.  Writes evidence,
    prints lines, exits."""
    known = load_known()
    seen_known = {}
    real = []
    for f in oracle_fails:
        k = match_known(ctx.prop, f, known)
        if k is not None:
            seen_known.setdefault(k.get('id', k.get('key', k.get('key_re'))), (k, f))
        else:
            real.append(f)
    lines = []
    for kid, (k, f) in seen_known.items():
        lines.append('KNOWN-FINDING: property=%s %s' % (ctx.prop, k.get('what', kid)))
    nviol = 0
    if real:
        # one VIOLATION line per distinct key, at most 5 replays written
        keys = []
        for f in real:
            if f.get('key') not in keys:
                keys.append(f.get('key'))
        for i, key in enumerate(keys[:1]):
            f = [x for x in real if x.get('key') == key][0]
            p = write_replay(ctx, 'violation_%d' % i, dict(f, property=ctx.prop, broken=ctx.broken, other_failing_keys=[str(k)[:300] for k in keys[1:20]], failing_inputs_total=len(real)))
            lines.append('VIOLATION property=%s replay=%s' % (ctx.prop, p))
            nviol += 1
    elif ctx.broken:
        p = write_replay(ctx, 'broken', {
            'property': ctx.prop, 'broken': ctx.broken,
            'first_disagreement': getattr(ctx, 'first_disagreement', None),
            'coq_log_tail': getattr(ctx, 'coq_log', '')[-3000:],
            'note': 'a proof obligation or the correspondence no longer checks; the failing-input search (property oracle on the implementation over the generated and enumerated inputs of this run) found no input on which the property itself fails'})
        lines.append('VIOLATION property=%s replay=%s no-failing-input-found' % (ctx.prop, p))
        nviol += 1
    cov = dict(ctx.coverage)
    cov.setdefault('checker_cmd', 'make -C /verif/coq Props/%s.vo && coqc Props/%s.v (Print Assumptions captured)' % (ctx.prop, ctx.prop))
    cov.setdefault('trusted_base', TRUSTED_BASE + ctx.assumptions)
    ev = {
        'property_id': ctx.prop, 'tier': ctx.tier, 'seed': ctx.seed, 'level': level,
        'coverage': cov,
        'assumptions': ctx.notes + ctx.assumptions,
        'wall_s': round(time.time() - ctx.t0, 2),
        'violations': nviol,
    }
    if seen_known:
        ev['coverage']['known_findings_reproduced'] = [k.get('what') for k, _ in seen_known.values()]
    if ctx.broken:
        ev['coverage']['broken'] = ctx.broken
    # keep the evidence schema-valid: typed keys
    c = ev['coverage']
    if 'exhaustive' in c and not isinstance(c['exhaustive'], bool):
        c['exhaustive_scope'] = str(c['exhaustive']); c['exhaustive'] = False
    for k in ('evaluations', 'distinct_nontrivial', 'obligations', 'discharged', 'states', 'transitions',
              'traces_validated_against_impl', 'programs', 'disagreements_checked'):
        if k in c and not isinstance(c[k], int):
            try:
                c[k] = int(c[k])
            except Exception:
                c[k + '_note'] = str(c.pop(k))
    if not isinstance(c.get('samples', []), list):
        c['samples'] = [c['samples']]
    if not c.get('samples'):
        c['samples'] = [{'note': 'no sample recorded by this run'}]
    os.makedirs(os.path.join(ROOT, 'evidence'), exist_ok=True)
    json.dump(ev, open(os.path.join(ROOT, 'evidence', ctx.prop + '.json'), 'w'), indent=1)
    for l in lines:
        print(l)
    print('%s %s: %s in %.1fs (obligations %s/%s, evaluations %s)' % (
        ctx.prop, ctx.tier, 'VIOLATION' if nviol else 'ok', time.time() - ctx.t0,
        cov.get('discharged'), cov.get('obligations'), cov.get('evaluations')))
    sys.exit(1 if nviol else 0)


def load_json(p):
    with open(p) as f:
        return json.load(f)


def read_lines(p):
    with open(p, errors='replace') as f:
        return [l.rstrip('\n') for l in f if l.strip()]
