"""C07 — diagnostics point at the exact source position.
Proof: coq/Props/C07.v over coq/Expr/{PosModel,Template,TemplateProofs}.v.
Tie: K1 PosLex token positions vs actionlint.LexExpression; K2 the position
arithmetic of checkExprsIn & co. (model evaluated by vm_compute) vs the
positions Linter.Lint reports for planted diagnostics; the property oracle
compares reported positions with the planted truth and applies both shifts."""
import os, subprocess, json
from lib import vf

MANIFEST = {
 'text': "Coq theorems over a model of the position arithmetic (text/scanner position bookkeeping of the expression lexer, token starts and lexing-error positions of a position-only lexer model, the checkExprsIn loop over the placeholders of one scalar, convertExprLineColToPos, checkString/checkOneExpression/checkIfCondition/checkRawYAMLString, errorAtExpr, globErrors, posAt/errorAt): the loop invariant (remaining string = suffix of the scalar at the accumulated offset, >= 3 bytes consumed per iteration, termination); for a one-line ASCII scalar at (line, col) every expression diagnostic whose token starts at byte offset o of the scalar text is reported at exactly (line, col + quoted + o) for any number of earlier placeholders and any filler, for lexer, parser and semantic diagnostics; glob, key and value diagnostics; the two shift corollaries; line/column bounds. Unbounded in string length, number of placeholders, offsets. Two call sites that dropped the quoted flag (matrix values, if: without ${{ }}) are refuted for the old code and proved for the code after two fix: patches. Tie: vm_compute evaluation of the same model functions on thousands of generated placements vs the positions reported by Linter.Lint, and of the lexer model vs LexExpression; oracle: reported position vs the position of a unique marker in the rendered file, plus both shift relations (k spaces / k characters of filler / k lines). Recorded finding: an anchor or an explicit tag before the scalar puts the node (hypothesis scalar_pos_exact) at the anchor, so columns inside the scalar are that far left.",
 'note': "Trusted: Coq kernel; the hand-written model (correspondence-checked, not proved equal to the Go code); yaml.v3 node positions (hypothesis scalar_pos_exact, asserted on every planted scalar by parsing with gopkg.in/yaml.v3); which token the parser / semantic checker blames is an input of the model (the generator's planted offset), the lexer's tokenisation is modelled. Not claimed: exactness for multi-line, escaped or non-ASCII scalars (the model still predicts what the code reports there and is compared). Known finding: a double-quoted scalar with \\n escapes inside a placeholder can be reported on a line after the end of the file.",
 'technique': "machine-checked proof in Coq (loop invariant over string suffixes, induction over the scanned prefix) + vm_compute correspondence against Linter.Lint / LexExpression + planted-truth and shift oracle",
}

def run(ctx):
    ok, log = vf.build_harness(ctx, ['c07'])
    if not ok:
        ctx.broken.append('harness does not build against /repo: ' + log[-400:])
        vf.finish(ctx, 'proof', [])
    nthm, ndis, _ = vf.check_props(ctx)
    gate = vf.grep_gate()
    if gate:
        ctx.broken.append('forbidden constructs in coq/: ' + '; '.join(gate[:5]))
    n, nlex = (2600, 500) if not ctx.thorough() else (100000, 10000)
    rc, out = vf.sh([os.path.join(vf.BIN, 'c07'), '-seed', str(ctx.seed), '-n', str(n), '-nlex', str(nlex),
                     '-out', ctx.out, '-tier', ctx.tier, '-repo', vf.REPO], timeout=3000)
    if rc != 0:
        ctx.broken.append('harness c07 failed: ' + out[-400:])
        vf.finish(ctx, 'proof', [])
    s = vf.load_json(os.path.join(ctx.out, 'summary.json'))
    terms = vf.read_lines(os.path.join(ctx.out, 'cases.txt'))
    lex = vf.read_lines(os.path.join(ctx.out, 'cases_lex.txt'))
    srcs = vf.read_lines(os.path.join(ctx.out, 'sources.jsonl'))
    imports = ['Expr.PosModel', 'Expr.Template', 'Expr.TemplateObs']
    bad, err = vf.coq_cases(ctx, 'C07', imports, 'c07_case', 'run_c07', terms, shard=(200 if not ctx.thorough() else 2000))
    bad2, err2 = vf.coq_cases(ctx, 'C07L', imports, 'c07_case', 'run_c07', lex, shard=(100 if not ctx.thorough() else 500), ordered=True)
    for e in (err, err2):
        if e:
            ctx.broken.append('correspondence cases did not evaluate: ' + e[-400:])
    if bad:
        ctx.broken.append('correspondence C07 (model of checkExprsIn/globErrors/posAt vs positions reported by Linter.Lint): %d of %d placements disagree' % (len(bad), len(terms)))
        ctx.first_disagreement = {'case_index': bad[0], 'input': json.loads(srcs[bad[0]]), 'model_term': terms[bad[0]][:3000]}
    if bad2:
        ctx.broken.append('correspondence C07/lexer (PosLex token offsets/lines/columns vs LexExpression): %d of %d sources disagree' % (len(bad2), len(lex)))
        if not bad:
            ctx.first_disagreement = {'lexer_case': lex[bad2[0]][:3000]}
    ex = s.get('extra', {})
    if s['evaluations'] and ex.get('untriggered', 0) * 20 > s['evaluations']:
        ctx.broken.append('placement generator: %d of %d planted constructs produced no diagnostic of the planted class (generator or message classes out of date)' % (ex.get('untriggered'), s['evaluations']))
    ctx.coverage.update({
        'obligations': nthm, 'discharged': ndis,
        'evaluations': s['evaluations'], 'distinct_nontrivial': s['distinct_nontrivial'],
        'rule': s['rule'], 'samples': s['samples'], 'distribution': s['distribution'],
        'shifted_variants': ex.get('shifted_variants'), 'untriggered': ex.get('untriggered'),
        'hypothesis_scalar_pos_exact_failures': ex.get('hypothesis_failures'),
        'corpus_files_bounds_checked': ex.get('corpus_files_bounds_checked'),
        'traces_validated_against_impl': len(terms) + len(lex), 'disagreements': len(bad) + len(bad2),
        'exhaustive': False,
    })
    ctx.notes.append('hypothesis scalar_pos_exact (yaml.v3 reports a one-line scalar at its first character, Value = source text) asserted on every planted scalar')
    vf.finish(ctx, 'proof', s['oracle_failures'])

def replay(path):
    ctx = vf.Ctx('C07', 'quick', 1)
    ok, log = vf.build_harness(ctx, ['c07'])
    if not ok:
        print(log); return 2
    return subprocess.call([os.path.join(vf.BIN, 'c07'), '-replay', path])
