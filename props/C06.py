"""C06 — unknown (`any`) types never cause a diagnostic.
Proof: coq/Props/C06.v over the model of expr_type.go / expr_sema.go
(coq/Expr/Types.v, Sema.v).  Tie: T — built-in function signatures, global
variable types and special-function names regenerated from /repo into
coq/Gen/GenFuncs.v on every run; K — the model evaluated by vm_compute against
ExprSemanticsChecker.Check on generated (environment, expression) pairs.
Oracle: the monotonicity relation itself on the real checker."""
import json, os, subprocess
from lib import vf

MANIFEST = {
  'text': "Coq theorems over a model of the expression type system (Assignable, Merge, typeOfJSONValue) and of ExprSemanticsChecker (every node kind, narrowing, overload resolution, format()/fromJSON() special checks, configuration variables, context availability): an expression accepted under a typing environment is accepted under every looser environment (types replaced by any, closed objects opened, function results typed any) with a looser result type (accept_mono, by structural induction over expressions and types, no bound), with the supporting monotonicity lemmas for Assignable, Merge, comparison operands and overload resolution, and any_never_blamed: no diagnostic names `any` as the offending type. The two defects that refute the statement on the pinned code (`.*` on a strict object whose members are all any; ArrayType.Merge losing the Deref flag depending on which operand is array<any>) are proved as *_old_refuted witnesses and repaired by fix patches. The model is tied to the code by regenerating the built-in tables into Coq on every run and by evaluating the model with vm_compute on ~1 500 generated (environment, parsed expression) pairs against ExprSemanticsChecker.Check (ordered positions + diagnostic classes + result type); the property itself is evaluated on the real checker for every accepted pair and every single-point loosening of its environment.",
  'note': "Trusted: Coq kernel; the hand-written model (correspondence-checked, not proved equal to the Go code); harness generators/dumper/class table; encoding/json and strconv enter as oracle inputs. Types are immutable in the model: the in-place Deref mutation of checkArrayDeref (defect #10, C09) is outside it, and generated cases in which the real checker flips a flag inside the environment are not compared. Not modelled: message texts, the untrusted-input checker hooked into check.",
  'technique': "machine-checked proof in Coq (structural induction over expression trees and nested types) + regenerated tables + vm_compute correspondence against the Go implementation + metamorphic oracle on the implementation",
}

GEN = os.path.join(vf.COQ, 'Gen', 'GenFuncs.v')


def _regen(ctx):
    tmp = os.path.join(ctx.out, 'GenFuncs.v')
    rc, out = vf.sh([os.path.join(vf.BIN, 'c06'), '-gen', tmp], timeout=120)
    if rc != 0:
        ctx.broken.append('table dump failed: ' + out[-300:])
        return
    new = open(tmp).read()
    old = open(GEN).read() if os.path.exists(GEN) else ''
    if new != old:
        open(GEN, 'w').write(new)
        ctx.notes.append('coq/Gen/GenFuncs.v changed: built-in tables of /repo differ from the committed copy')


def run(ctx):
    ok, log = vf.build_harness(ctx, ['c06', 'c06m'])
    if not ok:
        ctx.broken.append('harness does not build against /repo: ' + log[-400:])
        vf.finish(ctx, 'proof', [])
    _regen(ctx)
    nthm, ndis, _ = vf.check_props(ctx)
    ok, log = vf.coq_make(['Base/Corr.vo', 'Expr/SemaObs.vo'])
    if not ok:
        ctx.broken.append('coq build of Expr/SemaObs.v failed: ' + log[-400:])
    gate = vf.grep_gate()
    if gate:
        ctx.broken.append('forbidden constructs in coq/: ' + '; '.join(gate[:5]))
    n, extra = (2000, 8000) if not ctx.thorough() else (12000, 400000)
    rc, out = vf.sh([os.path.join(vf.BIN, 'c06'), '-seed', str(ctx.seed), '-n', str(n), '-oracle-n', str(extra),
                     '-tier', ctx.tier, '-out', ctx.out], timeout=3000)
    if rc != 0:
        ctx.broken.append('harness c06 failed: ' + out[-400:])
        vf.finish(ctx, 'proof', [])
    s = vf.load_json(os.path.join(ctx.out, 'summary.json'))
    terms = vf.read_lines(os.path.join(ctx.out, 'cases.txt'))
    srcs = vf.read_lines(os.path.join(ctx.out, 'sources.jsonl'))
    bad, err = vf.coq_cases(ctx, 'C06', ['Expr.Sema', 'Expr.SemaObs'], '(kcase * ty)', 'run_k', terms,
                            shard=max(100, (len(terms) + 15) // 16), ordered=True)
    if err:
        ctx.broken.append('correspondence cases did not evaluate: ' + err[-400:])
    if bad:
        ctx.broken.append('correspondence C06 (model check vs ExprSemanticsChecker.Check): %d of %d cases disagree' % (len(bad), len(terms)))
        ctx.first_disagreement = {'case_index': bad[0], 'input': json.loads(srcs[bad[0]]), 'model_term': terms[bad[0]][:4000]}
    # matrix typing (rule_expression.go checkMatrix): K against the model Expr/MatrixTy.v and the
    # end-to-end loosening oracle through Linter.Lint
    nm = 150 if not ctx.thorough() else 3000
    rc, out = vf.sh([os.path.join(vf.BIN, 'c06m'), '-seed', str(ctx.seed), '-n', str(nm), '-out', ctx.out], timeout=3000)
    mfails = []
    if rc != 0:
        ctx.broken.append('harness c06m failed: ' + out[-400:])
    else:
        sm = vf.load_json(os.path.join(ctx.out, 'summary_matrix.json'))
        mterms = vf.read_lines(os.path.join(ctx.out, 'cases_matrix.txt'))
        mbad, merr = vf.coq_cases(ctx, 'C06m', ['Expr.MatrixTy', 'Expr.MatrixTyObs'], '(mtx * ty)', 'run_matrix_ty', mterms, shard=100, ordered=True)
        if merr:
            ctx.broken.append('matrix-typing cases did not evaluate: ' + merr[-400:])
        if mbad:
            ctx.broken.append('correspondence C06/matrix (model matrix_ty vs RuleExpression.checkMatrix): %d of %d matrices disagree' % (len(mbad), len(mterms)))
            ctx.first_disagreement = {'case': mterms[mbad[0]][:3000]}
        mfails = sm['oracle_failures']
        s['evaluations'] += sm['evaluations']
        s['distinct_nontrivial'] += sm['distinct_nontrivial']
        s['distribution'].update({'matrix_' + k: v for k, v in sm['distribution'].items()})
        s['samples'] = s['samples'] + sm['samples'][:1]
        s['rule'] += ' | ' + sm['rule']
        ctx.coverage['matrix_traces_validated'] = len(mterms)
    ctx.coverage.update({
        'obligations': nthm, 'discharged': ndis,
        'evaluations': s['evaluations'], 'distinct_nontrivial': s['distinct_nontrivial'],
        'rule': s['rule'], 'samples': s['samples'], 'distribution': s['distribution'],
        'traces_validated_against_impl': len(terms), 'disagreements': len(bad),
        'accepted_pairs': s['extra'].get('accepted_pairs'),
        'exhaustive': False,
    })
    vf.finish(ctx, 'proof', s['oracle_failures'] + mfails)


def replay(path):
    ctx = vf.Ctx('C06', 'quick', 1)
    ok, log = vf.build_harness(ctx, ['c06'])
    if not ok:
        print(log); return 2
    try:
        j = json.load(open(path))
    except Exception:
        j = {}
    if 'loosened_workflow' in j:
        vf.build_harness(ctx, ['c06m'])
        return subprocess.call([os.path.join(vf.BIN, 'c06m'), '-replay', path])
    return subprocess.call([os.path.join(vf.BIN, 'c06'), '-replay', path])
