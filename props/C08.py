"""C08 — names are matched case-insensitively everywhere.
Proof: coq/Props/C08.v over the shared semantic-checker model (coq/Expr/Sema.v,
Types.v) with the vocabulary of coq/Expr/Recase.v.  Tie: K — the model is
evaluated by vm_compute on generated (environment, expression as written,
re-cased expression) triples against ExprSemanticsChecker.Check (run_c08:
both spellings through parser_fold + check, equal to each other and to the
implementation; the pair must be in recase_rel when only name occurrences
changed); T — built-in tables regenerated (shared with C06).  Oracle: the
property verbatim on the real linter (generated workflows x re-casings)."""
import json, os, subprocess
from lib import vf

MANIFEST = {
  'text': "Coq theorems over the model of the expression semantic checker and type system: for every typing environment and every pair of expression trees that are equal up to the ASCII letter case of their name occurrences (relation recase_rel: variable names, property names of `.name`, function names, string literals used as an index; keywords true/false/null, numbers and all other string literals identical) the checker returns the same result type and the same list of diagnostics (token position + class), in every mode incl. narrowing of && / || and calls with overload resolution, format() and fromJSON() special checks (check_recase_expr, structural induction over the expression, no bound); typeOfJSONValue gives the same object type for a JSON value and the same value with re-cased keys (json_keys_recase; keys that differ in case only are merged in sorted key order); the two defects of the pinned code (index literal looked up as written; fromJSON keys keeping their case) are proved as *_old_refuted witnesses against the pre-repair definitions and repaired by fix patches; the case folding at the other definition / lookup sites is re-exported from the models of C05 (steps / needs scope), C11 (untrusted-input checker), C12 (availability), C13 (duplicate keys of case-insensitive YAML mappings), C18 (needs references). The model is tied to the code by evaluating it with vm_compute on generated (environment, expression as written, re-cased expression) triples against ExprSemanticsChecker.Check; the property itself is evaluated on the real linter: generated workflows (with a local action and a local reusable workflow on disk) using every name kind the property lists x every single-occurrence re-casing and random subsets of definition and use sites, linted through NewLinter+Lint, multiset of (line, column, kind, lower-cased message) compared; a negative stream re-cases keywords and ordinary string literals and measures that the verdict does change there.",
  'note': "Trusted: Coq kernel; the hand-written model (correspondence-checked, not proved equal to the Go code); harness generators, token-level occurrence finder, dumper, class table; encoding/json enters as oracle input. ASCII letter case only (strings.ToLower on non-ASCII letters is outside the model). The end-to-end statement for whole workflows (C08_main of the design) is not a Coq theorem: the workflow level is covered by the re-exported per-site lemmas and by the oracle on the real linter. json_keys_recase assumes that no two keys of one object differ in case only (such keys are merged; covered by K and the oracle only). calls_recase (C14) is not re-exported here.",
  'technique': "machine-checked proof in Coq (structural induction over expression trees and JSON values) + vm_compute correspondence against the Go implementation + metamorphic oracle on the real linter",
}

GEN = os.path.join(vf.COQ, 'Gen', 'GenFuncs.v')


def _regen(ctx):
    """the built-in tables the model's environment is made of (same generator as C06)"""
    tmp = os.path.join(ctx.out, 'GenFuncs.v')
    rc, out = vf.sh([os.path.join(vf.BIN, 'c06'), '-gen', tmp], timeout=120)
    if rc != 0:
        ctx.broken.append('table dump failed: ' + out[-300:])
        return
    new = open(tmp).read()
    old = open(GEN).read() if os.path.exists(GEN) else ''
    if new != old:
        open(GEN, 'w').write(new)
        ctx.notes.append('coq/Gen/GenFuncs.v changed: built-in tables of /repo differ from the committed copy')


def run(ctx):
    ok, log = vf.build_harness(ctx, ['c06', 'c08'])
    if not ok:
        ctx.broken.append('harness does not build against /repo: ' + log[-400:])
        vf.finish(ctx, 'proof', [])
    _regen(ctx)
    nthm, ndis, _ = vf.check_props(ctx)
    ok, log = vf.coq_make(['Base/Corr.vo', 'Expr/RecaseObs.vo'])
    if not ok:
        ctx.broken.append('coq build of Expr/RecaseObs.v failed: ' + log[-400:])
    gate = vf.grep_gate()
    if gate:
        ctx.broken.append('forbidden constructs in coq/: ' + '; '.join(gate[:5]))
    nw, ne = (1500, 600) if not ctx.thorough() else (40000, 6000)
    rc, out = vf.sh([os.path.join(vf.BIN, 'c08'), '-seed', str(ctx.seed), '-n', str(nw), '-ne', str(ne),
                     '-tier', ctx.tier, '-out', ctx.out], timeout=3000)
    if rc != 0:
        ctx.broken.append('harness c08 failed: ' + out[-600:])
        vf.finish(ctx, 'proof', [])
    s = vf.load_json(os.path.join(ctx.out, 'summary.json'))
    terms = vf.read_lines(os.path.join(ctx.out, 'cases.txt'))
    srcs = vf.read_lines(os.path.join(ctx.out, 'sources.jsonl'))
    bad, err = vf.coq_cases(ctx, 'C08', ['Expr.Sema', 'Expr.SemaObs', 'Expr.Recase', 'Expr.RecaseObs'], 'rcase', 'run_c08', terms,
                            shard=max(50, (len(terms) + 15) // 16), ordered=True)
    if err:
        ctx.broken.append('correspondence cases did not evaluate: ' + err[-400:])
    if bad:
        ctx.broken.append('correspondence C08 (model check on both spellings vs ExprSemanticsChecker.Check): %d of %d cases disagree' % (len(bad), len(terms)))
        ctx.first_disagreement = {'case_index': bad[0], 'input': json.loads(srcs[bad[0]]), 'model_term': terms[bad[0]][:4000]}
    # the negative stream must be non-trivial: re-casing keywords / ordinary literals does change verdicts
    if s['extra'].get('negative_variants', 0) > 0 and s['extra'].get('negative_changed', 0) == 0:
        ctx.broken.append('negative stream is trivial: no re-casing of a keyword or ordinary string literal changed a verdict')
    ctx.coverage.update({
        'obligations': nthm, 'discharged': ndis,
        'evaluations': s['evaluations'], 'distinct_nontrivial': s['distinct_nontrivial'],
        'rule': s['rule'], 'samples': s['samples'][:2], 'distribution': s['distribution'],
        'traces_validated_against_impl': len(terms), 'disagreements': len(bad),
        'positive_variants': s['extra'].get('positive_variants'),
        'negative_variants': s['extra'].get('negative_variants'),
        'negative_variants_verdict_changed': s['extra'].get('negative_changed'),
        'exhaustive': False,
    })
    vf.finish(ctx, 'proof', s['oracle_failures'])


def replay(path):
    ctx = vf.Ctx('C08r', 'quick', 1)
    ok, log = vf.build_harness(ctx, ['c08'])
    if not ok:
        print(log); return 2
    f = json.load(open(path))
    if 'files' not in f and 'expr' not in f:
        print(json.dumps(f, indent=1)[:3000]); return 1
    return subprocess.call([os.path.join(vf.BIN, 'c08'), '-out', ctx.out, '-replay', path])
