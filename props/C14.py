"""C14 — calls are checked exactly against the callee's declared interface.
Proof: coq/Props/C14.v over the model coq/Wf/Calls*.v and the regenerated data
set coq/Gen/GenPopular.v.  Tie: T (PopularActions dumped on every run), K
(model evaluated by vm_compute on every lint of the harness: exhaustive over
the bundled data set x call-site shapes, generated local actions and reusable
workflows), property oracle computed from the generator's own knowledge of
the interface."""
import os, subprocess, json
from lib import vf

MANIFEST = {
 'text': "Coq theorems, generic over ALL interfaces (association lists with lower-cased keys) and ALL call sites (any names in any letter case): an input/secret given at a call is reported iff the callee does not declare it (step `with:` keys `args`/`entrypoint` excepted: they are diverted by the parser and never reported — refuted lemma and recorded finding); a declared input is reported missing iff it is required, has no (non-null) default — per derivation — and is not supplied (secrets: unless `secrets: inherit`); the three derivations of `required` (action.yml, reusable workflow read from its file, reusable workflow taken from the AST) compute `required: true` and no default, and the two reusable-workflow derivations yield the same interface (the pre-fix AST derivation is refuted on `default:` null); the outputs object of a step / called job is strict with exactly the declared outputs unless skip_outputs / actions/github-script / unknown action / missing metadata; a typed reusable-workflow input is reported iff the declared type does not accept the type of the literal / single expression; letter case of names at definition or call site never changes the verdicts. Theorem instances over the whole bundled data set (regenerated from actionlint.PopularActions on every run) by vm_compute. Tie: every spec of the data set x call-site shapes {none, required only, all, one extra, one missing, case-flipped} x output references {declared, undeclared}, generated local actions and reusable workflows on disk (defaults incl. null, types, secrets, inherit, typed values), all through actionlint.NewLinter + Lint/LintFiles, compared with the model (vm_compute) and with an oracle computed from the generator's knowledge of the interface; the interface as the implementation derives it (FindMetadata, WriteWorkflowCallEvent) is compared with the model's derivations.",
 'note': "Trusted: Coq kernel; hand-written model of checkAction / checkWorkflowCallUsesLocal / outputs typing / typed-input check / the three derivations (correspondence-checked, not proved equal to the Go code); harness generators, message->class mapping and oracle. Oracle inputs of the model: the types of ${{ }} placeholders (expression typing is C06) and strconv.ParseFloat. Not modelled: yaml.v3 decoding, the file system, unparsable metadata, remote reusable workflows (never checked by actionlint), order of same-position diagnostics (C02), non-ASCII letter case.",
 'technique': "machine-checked proof in Coq (association-list interfaces, all call sites) + regenerated data set + vm_compute correspondence against the full linter, exhaustive over the bundled data set",
}

def _gen_popular(ctx):
    src = os.path.join(ctx.out, 'GenPopular.v')
    dst = os.path.join(vf.COQ, 'Gen', 'GenPopular.v')
    new = open(src).read()
    old = open(dst).read() if os.path.exists(dst) else None
    if new != old:
        os.makedirs(os.path.dirname(dst), exist_ok=True)
        open(dst, 'w').write(new)
        ctx.notes.append('coq/Gen/GenPopular.v regenerated (content changed)')
        return True
    return False

def run(ctx):
    ok, log = vf.build_harness(ctx, ['c14'])
    if not ok:
        ctx.broken.append('harness does not build against /repo: ' + log[-400:])
        vf.finish(ctx, 'proof', [])
    nlocal, nwf = (40, 35) if not ctx.thorough() else (1500, 1400)
    rc, out = vf.sh([os.path.join(vf.BIN, 'c14'), '-seed', str(ctx.seed), '-nlocal', str(nlocal), '-nwf', str(nwf), '-out', ctx.out],
                    env=vf.goenv(), timeout=3000)
    if rc != 0:
        ctx.broken.append('harness c14 failed: ' + out[-600:])
        vf.finish(ctx, 'proof', [])
    _gen_popular(ctx)
    nthm, ndis, _ = vf.check_props(ctx)
    gate = vf.grep_gate()
    if gate:
        ctx.broken.append('forbidden constructs in coq/: ' + '; '.join(gate[:5]))
    s = vf.load_json(os.path.join(ctx.out, 'summary.json'))
    streams = [
        ('pop', 'C14p', '(string * list string * list string)', 'run_pop', 60),
        ('local', 'C14l', '(list (string * adecl) * list string * list string * list string)', 'run_local', 60),
        ('wf', 'C14w', '(bool * list (string * wdecl) * list (string * option bool) * list string * list (string * cvalue) * ysecrets * list string)', 'run_wf', 60),
        ('derive', 'C14d', 'derive_case', 'run_derive', 40),
    ]
    total = 0; nbad = 0
    for name, tag, typ, fn, shard in streams:
        terms = vf.read_lines(os.path.join(ctx.out, 'cases_%s.txt' % name))
        if ctx.thorough():
            shard = max(shard, (len(terms) + 31) // 32)
        total += len(terms)
        bad, err = vf.coq_cases(ctx, tag, ['Wf.Calls', 'Wf.RequiredExpr', 'Wf.CallsObs'], typ, fn, terms, shard=shard)
        if err:
            ctx.broken.append('correspondence cases (%s) did not evaluate: %s' % (name, err[-400:]))
        if bad:
            nbad += len(bad)
            ctx.broken.append('correspondence C14/%s (model %s vs the linter): %d of %d cases disagree' % (name, fn, len(bad), len(terms)))
            if not getattr(ctx, 'first_disagreement', None):
                fd = {'stream': name, 'case_index': bad[0], 'model_term': terms[bad[0]][:4000]}
                sp = os.path.join(ctx.out, 'sources_%s.jsonl' % name)
                if os.path.exists(sp):
                    srcs = vf.read_lines(sp)
                    if bad[0] < len(srcs):
                        fd['input'] = json.loads(srcs[bad[0]])
                ctx.first_disagreement = fd
    ctx.coverage.update({
        'obligations': nthm, 'discharged': ndis,
        'evaluations': s['evaluations'], 'distinct_nontrivial': s['distinct_nontrivial'],
        'rule': s['rule'], 'samples': s['samples'], 'distribution': s['distribution'],
        'traces_validated_against_impl': total, 'disagreements': nbad,
        'exhaustive': 'every spec of the bundled data set (%d specs) x 6 call-site shapes x 2 output references; generated interfaces are sampled' % s['extra']['popular_specs'],
        'data_set': {'popular_specs': s['extra']['popular_specs'], 'outdated_specs': s['extra']['outdated_specs']},
        'other_diagnostics_ignored': s['extra']['other_diagnostics'],
        'classes': s['extra']['classes'],
    })
    vf.finish(ctx, 'proof', s['oracle_failures'])

def replay(path):
    ctx = vf.Ctx('C14', 'quick', 1)
    ok, log = vf.build_harness(ctx, ['c14'])
    if not ok:
        print(log); return 2
    return subprocess.call([os.path.join(vf.BIN, 'c14'), '-replay', path], env=vf.goenv())
