"""C18 — job dependency checks are exact for every `needs` graph.
Proof: coq/Props/C18.v over the model coq/Graph/*.v (RuleJobNeeds: node table,
resolution of references, three-colour DFS, cycle reconstruction, printing
loop; the map iteration order is an input `ord`, theorems hold for every order).
Tie: correspondence (K) between the model and RuleJobNeeds run through the
exported visitor on enumerated / generated `needs` graphs: exhaustively for
<= 3 jobs inside Coq (vm_compute, every order), exhaustively for 4 jobs and on
large samples beyond through the extracted OCaml model; property oracle
(Kahn, edge-by-edge check of the printed cycle, exact unresolved pairs) on
every input."""
import json, os, shutil, subprocess, sys
from concurrent.futures import ThreadPoolExecutor
from lib import vf

MANIFEST = {
  'text': "Coq theorems over a model of RuleJobNeeds (coq/Graph): for every needs graph and every iteration order of the node map, the reported unresolved pairs are exactly the (job, reference) pairs whose lower-cased reference is not a job id, reported at the referring job; if all references resolve, a cyclic-dependency diagnostic is produced iff the graph has a cycle (self-dependency included), never more than one, and the printed sequence is a closed walk along edges of the graph; acyclic graphs get none; the DFS, the cycle reconstruction and the printing loop terminate within the fuel the wrapper supplies and never dereference nil. Unbounded (all graphs, all orders). The model is tied to the code by running RuleJobNeeds through the exported visitor on every edge set over <= 4 jobs (both orders of the needs entries, both spellings), all needs lists up to a length bound with dangling/duplicate/case-variant/empty references, 5-job graphs and random graphs up to 40 jobs, and comparing its diagnostics with the model evaluated for every iteration order (vm_compute in Coq for <= 3 jobs and a sample, the extracted OCaml model for everything); the property itself is evaluated on the implementation by an independent reference (Kahn's algorithm, edge check of the printed path, exact unresolved set, watchdog for termination).",
  'note': "Trusted: Coq kernel; the hand-written model (correspondence-checked, not proved equal to the Go code); ExtrOcamlBasic extraction and the OCaml driver for the bulk comparison (the in-Coq subset is independent of it); harness generators/dumper/oracle. Go's map iteration order is an input of the model; the model sorts the start nodes of the cycle search by position like the implementation, its result is proved independent of the order (C18_order_independent) and the correspondence demands that every outcome of the implementation equals the model's for every order tried. Not modelled: yaml.v3, parse.go (the model starts from the Job AST: id, position, needs entries); an empty needs entry is a parser error, not a reference.",
  'technique': "machine-checked proof in Coq (DFS invariants: active nodes form the stack path, finished nodes are closed under successors and lie on no cycle) + vm_compute / extracted-model correspondence against the Go implementation, exhaustive for small graphs",
 }


def build_ocaml(ctx):
    """extract the model (coqc on Extract/GraphExtract.v with cwd = build dir) and
    compile it with the driver"""
    ok, log = vf.coq_make(['Graph/NeedsObs.vo'])
    if not ok:
        return None, 'coq build of Graph/NeedsObs.vo failed: ' + log[-600:]
    d = os.path.join(ctx.out, 'ml')
    os.makedirs(d, exist_ok=True)
    rc, out = vf.sh(['coqc', '-R', vf.COQ, 'AL', os.path.join(vf.COQ, 'Extract', 'GraphExtract.v'),
                     '-o', os.path.join(d, 'GraphExtract.vo')], cwd=d, timeout=600)
    if rc != 0 or not os.path.exists(os.path.join(d, 'needs_model.ml')):
        return None, 'extraction failed: ' + out[-600:]
    shutil.copyfile(os.path.join(vf.ROOT, 'ocaml', 'c18', 'driver.ml'), os.path.join(d, 'driver.ml'))
    rc, out = vf.sh(['ocamlfind', 'ocamlopt', '-O3', '-w', '-a', 'needs_model.mli', 'needs_model.ml', 'driver.ml', '-o', 'c18model'], cwd=d, timeout=600)
    if rc != 0:
        return None, 'ocaml build failed: ' + out[-600:]
    return os.path.join(d, 'c18model'), None


def run_bulk(binary, out, shards):
    """returns (cases, list of global bulk indices that mismatch, error)"""
    def one(i):
        rc, txt = vf.sh([binary, os.path.join(out, 'bulk-%d.txt' % i)], timeout=3000)
        return i, rc, txt
    total, bad, err = 0, [], None
    with ThreadPoolExecutor(max_workers=shards) as ex:
        for i, rc, txt in ex.map(one, range(shards)):
            done = False
            for l in txt.split('\n'):
                if l.startswith('MISMATCH '):
                    bad.append(int(l.split()[1]) * shards + i)
                elif l.startswith('BADLINE '):
                    err = (err or '') + 'shard %d: %s; ' % (i, l)
                elif l.startswith('DONE '):
                    total += int(l.split()[1]); done = True
            if rc != 0 or not done:
                err = (err or '') + 'shard %d: driver failed (rc %d): %s; ' % (i, rc, txt[-300:])
    return total, sorted(bad), err


def bulk_source(out, idx, shards):
    """rebuild the workflow text of bulk case idx from its line (same layout as spec.yaml() of the harness)"""
    shard, k = idx % shards, idx // shards
    line = None
    with open(os.path.join(out, 'bulk-%d.txt' % shard)) as f:
        for i, l in enumerate(f):
            if i == k:
                line = l.split(' ')
                break
    if line is None:
        return None
    pos = 1
    n = int(line[pos]); pos += 1
    jobs = []
    for _ in range(n):
        jid = line[pos][1:]; jl = int(line[pos + 1]); k2 = int(line[pos + 3]); pos += 4
        needs = []
        for _ in range(k2):
            needs.append(line[pos][1:]); pos += 3
        jobs.append((jid, jl, needs))
    if n > 1 and len(set(j[1] for j in jobs)) == 1:
        # flow style: the whole jobs mapping on one line
        parts = []
        for jid, _, needs in jobs:
            nd = 'needs: [%s], ' % ', '.join(json.dumps(x) for x in needs) if needs else ''
            parts.append('%s: {%sruns-on: x, steps: [{run: echo}]}' % (jid, nd))
        return 'on: push\njobs: {' + ', '.join(parts) + '}\n'
    y = 'on: push\njobs:\n'
    for jid, _, needs in jobs:
        y += '  %s:\n' % jid
        if needs:
            y += '    needs: [%s]\n' % ', '.join(json.dumps(x) for x in needs)
        y += '    runs-on: x\n    steps:\n      - run: echo\n'
    return y


def run(ctx):
    ok, log = vf.build_harness(ctx, ['c18'])
    if not ok:
        ctx.broken.append('harness does not build against /repo: ' + log[-400:])
        vf.finish(ctx, 'proof', [])
    nthm, ndis, _ = vf.check_props(ctx)
    gate = vf.grep_gate()
    if gate:
        ctx.broken.append('forbidden constructs in coq/: ' + '; '.join(gate[:5]))
    binary, err = build_ocaml(ctx)
    if err:
        ctx.broken.append('extracted model does not build: ' + err)
    shards = 8
    rc, out = vf.sh([os.path.join(vf.BIN, 'c18'), '-seed', str(ctx.seed), '-tier', ctx.tier, '-out', ctx.out,
                     '-shards', str(shards), '-workers', '8'], timeout=3000)
    if rc != 0:
        ctx.broken.append('harness c18 failed: ' + out[-400:])
        vf.finish(ctx, 'proof', [])
    s = vf.load_json(os.path.join(ctx.out, 'summary.json'))
    fails = s['oracle_failures']
    if any(f.get('key', '').startswith('hang:') for f in fails):
        # the harness stopped at the non-terminating input
        ctx.coverage.update({'obligations': nthm, 'discharged': ndis, 'evaluations': s['evaluations'],
                             'distinct_nontrivial': s['distinct_nontrivial'], 'rule': s['rule'], 'samples': s['samples']})
        vf.finish(ctx, 'proof', fails)
    # K, bulk: extracted model, every iteration order
    nbulk, bad_bulk = 0, []
    if binary:
        nbulk, bad_bulk, berr = run_bulk(binary, ctx.out, shards)
        if berr:
            ctx.broken.append('bulk correspondence did not evaluate: ' + berr[-400:])
        if nbulk != s['extra']['bulk_cases']:
            ctx.broken.append('bulk correspondence evaluated %d of %d cases' % (nbulk, s['extra']['bulk_cases']))
        if bad_bulk:
            ctx.broken.append('correspondence C18 (extracted model vs RuleJobNeeds): %d of %d cases disagree' % (len(bad_bulk), nbulk))
            ctx.first_disagreement = {'bulk_index': bad_bulk[0], 'workflow': bulk_source(ctx.out, bad_bulk[0], shards)}
    # K, in Coq: vm_compute, all graphs on <= 3 jobs and a sample of the rest
    terms = vf.read_lines(os.path.join(ctx.out, 'cases.txt'))
    srcs = vf.read_lines(os.path.join(ctx.out, 'sources.jsonl'))
    bad, cerr = vf.coq_cases(ctx, 'C18', ['Graph.Needs', 'Graph.NeedsObs'], 'kcase', 'run_k', terms, shard=100)
    if cerr:
        ctx.broken.append('correspondence cases did not evaluate: ' + cerr[-400:])
    if bad:
        ctx.broken.append('correspondence C18 (model by vm_compute vs RuleJobNeeds): %d of %d cases disagree' % (len(bad), len(terms)))
        if not getattr(ctx, 'first_disagreement', None):
            ctx.first_disagreement = {'case_index': bad[0], 'input': json.loads(srcs[bad[0]]), 'model_term': terms[bad[0]][:4000]}
    ctx.coverage.update({
        'obligations': nthm, 'discharged': ndis,
        'evaluations': s['evaluations'], 'distinct_nontrivial': s['distinct_nontrivial'],
        'rule': s['rule'], 'samples': s['samples'], 'distribution': s['distribution'],
        'traces_validated_against_impl': nbulk, 'validated_in_coq': len(terms),
        'disagreements': len(bad) + len(bad_bulk),
        'exhaustive': True, 'exhaustive_scope': 'all edge sets over <= 4 jobs (both orders of the needs entries); <= 3 jobs inside Coq; larger graphs random',
    })
    vf.finish(ctx, 'proof', fails)


def replay(path):
    ctx = vf.Ctx('C18', 'quick', 1)
    ok, log = vf.build_harness(ctx, ['c18'])
    if not ok:
        print(log); return 2
    return subprocess.call([os.path.join(vf.BIN, 'c18'), '-replay', path])
