"""C19 — matrix duplicate and exclude checks are exact and order-insensitive.
Proof: coq/Props/C19.v over the model coq/Matrix/*.v.  Tie: correspondence
(K) between the model evaluated by vm_compute and RuleMatrix run through the
exported visitor on the same Matrix ASTs; property oracle on the implementation."""
import os, subprocess, sys
from lib import vf

MANIFEST = {
  'text': "Coq theorems over the model of RawYAML*.Equals, isYAMLValueSubset and RuleMatrix (coq/Matrix): Equals decides structural equality with mappings as finite maps, is symmetric and independent of member order; a row value is flagged iff an earlier value of the row is structurally equal; subset decides the declarative containment relation; the verdict for every exclude entry is the unique one the property demands. Unbounded (all values, all nesting depths, all rows). The model is tied to the code by evaluating it with vm_compute on the Matrix ASTs the real parser produced for generated workflows and comparing with RuleMatrix's diagnostics (kind, position, cited position); the property itself is also evaluated on the implementation by a reference written from the property text. A value is built from an expression iff a `${{` is followed anywhere after it by `}}` (contains_expr_spec; the comparison of the FIRST `}}` with the first `${{` before the repair 226984b is refuted).",
  'note': "Trusted: Coq kernel; the hand-written model (correspondence-checked, not proved equal to the Go code); harness generators/dumper; Go map iteration is modelled as an association list in an arbitrary order. Not modelled: yaml.v3, parse.go (the model starts from the Matrix AST).",
  'technique': "machine-checked proof in Coq (structural induction over nested YAML values) + vm_compute correspondence against the Go implementation",
 }

def run(ctx):
    ok, log = vf.build_harness(ctx, ['c19'])
    if not ok:
        ctx.broken.append('harness does not build against /repo: ' + log[-400:])
        vf.finish(ctx, 'proof', [])
    nthm, ndis, _ = vf.check_props(ctx)
    gate = vf.grep_gate()
    if gate:
        ctx.broken.append('forbidden constructs in coq/: ' + '; '.join(gate[:5]))
    n = 3000 if not ctx.thorough() else 40000
    rc, out = vf.sh([os.path.join(vf.BIN, 'c19'), '-seed', str(ctx.seed), '-n', str(n), '-out', ctx.out], timeout=3000)
    if rc != 0:
        ctx.broken.append('harness c19 failed: ' + out[-400:])
        vf.finish(ctx, 'proof', [])
    s = vf.load_json(os.path.join(ctx.out, 'summary.json'))
    terms = vf.read_lines(os.path.join(ctx.out, 'cases.txt'))
    srcs = vf.read_lines(os.path.join(ctx.out, 'sources.jsonl'))
    bad, err = vf.coq_cases(ctx, 'C19', ['Matrix.MatrixRule', 'Matrix.MatrixObs'], 'matrix', 'run_matrix', terms, shard=500)
    if err:
        ctx.broken.append('correspondence cases did not evaluate: ' + err[-400:])
    if bad:
        ctx.broken.append('correspondence C19 (model check_matrix vs RuleMatrix): %d of %d cases disagree' % (len(bad), len(terms)))
        import json
        ctx.first_disagreement = {'case_index': bad[0], 'input': json.loads(srcs[bad[0]]), 'model_term': terms[bad[0]][:4000]}
    ctx.coverage.update({
        'obligations': nthm, 'discharged': ndis,
        'evaluations': s['evaluations'], 'distinct_nontrivial': s['distinct_nontrivial'],
        'rule': s['rule'], 'samples': s['samples'], 'distribution': s['distribution'],
        'traces_validated_against_impl': len(terms), 'disagreements': len(bad),
        'exhaustive': False,
    })
    vf.finish(ctx, 'proof', s['oracle_failures'])

def replay(path):
    ctx = vf.Ctx('C19', 'quick', 1)
    ok, log = vf.build_harness(ctx, ['c19'])
    if not ok:
        print(log); return 2
    return subprocess.call([os.path.join(vf.BIN, 'c19'), '-replay', path])
