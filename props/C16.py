"""C16 — every output format renders the diagnostics faithfully, one per line.
Proof: coq/Props/C16.v over the models coq/Out/Render.v (Error.Error,
PrettyPrint, getLine, getIndicator, GetTemplateFields, printErrors) and
coq/Out/Matcher.v (the shipped problem-matcher pattern).  Tie: K on (a) whole
stdout of Command.Main in default and -oneline mode for workflows echoing
hostile strings, (b) PrettyPrint/GetTemplateFields on every (line, col) of a
pool of sources, (c) the shipped pattern on real and edited header lines; T:
the pattern text is read from .github/actionlint-matcher.json on every run and
compared with the one the model implements.  The property text is evaluated on
the implementation by the harness (round trip through the shipped pattern and
a JSON decoder, one header per diagnostic, no panic)."""
import json, os, subprocess
from lib import vf

MANIFEST = {
  'text': "Coq theorems over the model of error.go / linter.go printErrors (coq/Out/Render.v) and of the shipped problem-matcher pattern (coq/Out/Matcher.v): the header written piece by piece by PrettyPrint is exactly `file:line:col: message [kind]` + line feed; in -oneline mode the output lines are exactly the headers of the diagnostics in order and count, provided no field contains a line feed; in every mode the output is, per diagnostic and in order, header then snippet block; a shown snippet is the (line-1)th bufio.ScanLines token of the source followed by an indicator whose caret is preceded by as many spaces as the display width of the line's first col-1 bytes (= col-1 for printable ASCII); PrettyPrint and GetTemplateFields cannot hit an out-of-range slice for any (line, column, source) and any answer of the width library; the shipped pattern's leftmost/lazy semantics parses a header back to its five fields when the file has no ':' and the message no \" [\" (the unrestricted statement is refuted by a witness). Message construction: strconv.Quote output never contains a line feed; a format whose user-controlled arguments enter through %q (or through audited safe arguments) yields a one-line message. Unbounded (all diagnostics, sources, positions). Tied to the code by vm_compute evaluation of the models on recorded runs of actionlint.Command.Main / Error.PrettyPrint / GetTemplateFields / Go regexp on the shipped pattern. Source gate: every %s / %v argument of every diagnostic format (and every message glued together with +) is re-listed from the .go files on every run and proved to be a quoted value, a fixed word, a position, a number, a library error text or a tool text (coq/Out/FormatArgs.v): strings of the workflow are printed with %q only. The text of a library error is flattened by oneLine: no LF, CR, NEL, LS or PS is left, other text is kept in order (coq/Out/OneLine.v, K through the verif export VerifOneLine; the LF-only flattening before 040a767 is refuted). In the harness a line break is LF, CR, NEL, LS or PS, and the shipped matcher pattern is treated as the ECMAScript pattern it is (its dot stops at CR, LS, PS).",
  'note': "Partial for 'messages never contain line breaks': proved for the format model, established for the real format sites by the harness (56 echo sites x hostile strings through all output modes) and, where built, the verb audit; sites not reached by the generators are not covered. Trusted: Coq kernel; hand-written models (correspondence-checked); harness. Library code not modelled (oracle tables or K only): go-runewidth, encoding/json, text/template, fatih/color (checks run with -no-color; -color is exercised by the oracle only), bufio.Scanner's 64 KiB token limit, Go int overflow. The matcher model covers ESC-free input. Line break = line feed (U+000A).",
  'technique': "machine-checked proof in Coq (induction over byte strings and diagnostic lists; backtracking matcher) + vm_compute correspondence against Command.Main, PrettyPrint, GetTemplateFields and Go regexp + property oracle on the implementation",
 }


GENF = os.path.join(vf.COQ, 'Gen', 'GenFormats.v')


def regen_formats(ctx):
    """re-list the %s / %v arguments of the diagnostic formats of the package; write Gen only when changed"""
    tmp = os.path.join(ctx.out, 'GenFormats.v')
    rc, out = vf.sh([os.path.join(vf.BIN, 'c16'), '-extract-formats', vf.REPO, '-gen', tmp], timeout=120)
    if rc != 0:
        ctx.broken.append('listing the diagnostic formats of the package failed: ' + out[-400:])
        return
    new = open(tmp).read()
    old = open(GENF).read() if os.path.exists(GENF) else None
    if new != old:
        open(GENF, 'w').write(new)
        ctx.notes.append('coq/Gen/GenFormats.v regenerated (content changed)')


def run(ctx):
    ok, log = vf.build_harness(ctx, ['c16'])
    if not ok:
        ctx.broken.append('harness does not build against /repo: ' + log[-400:])
        vf.finish(ctx, 'proof', [])
    regen_formats(ctx)
    nthm, ndis, _ = vf.check_props(ctx)
    if 'FormatArgs' in (getattr(ctx, 'coq_log', '') or ''):
        known = open(os.path.join(vf.COQ, 'Out', 'FormatArgs.v')).read()
        new = [l.strip().rstrip(';') for l in open(GENF).read().split('\n') if l.strip().startswith('("') and l.strip().rstrip(';')[:-1] not in known]
        ctx.broken.append('coq/Out/FormatArgs.v (format_args_known_b): a diagnostic prints a value without quoting (%s / %v, or a message glued together with +) at a place that is not one of the known ones: ' + ' '.join(new[:4]))
    okm, logm = vf.coq_make(['Out/C16Obs.vo', 'Base/Corr.vo'])
    if not okm:
        ctx.broken.append('coq build of Out/C16Obs.v failed: ' + logm[-400:])
    gate = vf.grep_gate()
    if gate:
        ctx.broken.append('forbidden constructs in coq/: ' + '; '.join(gate[:5]))
    rc, out = vf.sh([os.path.join(vf.BIN, 'c16'), '-seed', str(ctx.seed), '-tier', ctx.tier, '-out', ctx.out, '-repo', vf.REPO], timeout=3000)
    if rc != 0:
        ctx.broken.append('harness c16 failed: ' + out[-400:])
        vf.finish(ctx, 'proof', [])
    s = vf.load_json(os.path.join(ctx.out, 'summary.json'))
    total = 0
    disagreements = 0
    for tag, fname, typ, fn, shard in (('C16a', 'cases_render.txt', 'rcase', 'run_render', None),
                                       ('C16b', 'cases_sweep.txt', 'scase', 'run_sweep', 2),
                                       ('C16c', 'cases_matcher.txt', 'mcase', 'run_matcher', 2)):
        terms = vf.read_lines(os.path.join(ctx.out, fname))
        total += len(terms)
        sh = shard or max(4, (len(terms) + 15) // 16)
        bad, err = vf.coq_cases(ctx, tag, ['Out.Render', 'Out.Matcher', 'Out.C16Obs'], typ, fn, terms, shard=sh, ordered=True)
        if err:
            ctx.broken.append('correspondence cases %s did not evaluate: %s' % (fname, err[-400:]))
        if bad:
            disagreements += len(bad)
            ctx.broken.append('correspondence C16 (%s: model %s vs implementation): %d of %d cases disagree' % (fname, fn, len(bad), len(terms)))
            if not getattr(ctx, 'first_disagreement', None):
                ctx.first_disagreement = {'file': fname, 'case_index': bad[0], 'model_term': terms[bad[0]][:3000]}
    oterms = vf.read_lines(os.path.join(ctx.out, 'cases_oneline.txt'))
    total += len(oterms)
    bad, err = vf.coq_cases(ctx, 'C16e', ['Out.OneLine'], '(list N)', 'run_one_line', oterms, shard=200, ordered=True)
    if err:
        ctx.broken.append('correspondence cases cases_oneline.txt did not evaluate: %s' % err[-400:])
    if bad:
        disagreements += len(bad)
        ctx.broken.append('correspondence C16 (oneLine of error.go vs model Out/OneLine.v one_line): %d of %d texts disagree' % (len(bad), len(oterms)))
        if not getattr(ctx, 'first_disagreement', None):
            ctx.first_disagreement = {'file': 'cases_oneline.txt', 'case_index': bad[0], 'model_term': oterms[bad[0]][:3000]}
    ctx.coverage.update({
        'obligations': nthm, 'discharged': ndis,
        'evaluations': s['evaluations'], 'distinct_nontrivial': s['distinct_nontrivial'],
        'rule': s['rule'], 'samples': s['samples'], 'distribution': s['distribution'],
        'traces_validated_against_impl': total, 'disagreements': disagreements,
        'exhaustive': False, 'exhaustive_scope': 'snippet positions only: exhaustive per source in [-1, len+2]^2', 'extra': s.get('extra', {}),
    })
    vf.finish(ctx, 'proof', s['oracle_failures'])


def replay(path):
    ctx = vf.Ctx('C16', 'quick', 1)
    ok, log = vf.build_harness(ctx, ['c16'])
    if not ok:
        print(log)
        return 2
    return subprocess.call([os.path.join(vf.BIN, 'c16'), '-replay', path, '-repo', vf.REPO])
