"""C20 — shellcheck/pyflakes integration loses nothing and bounds concurrency.
Proof: coq/Props/C20.v over the models coq/Proc/*.v (transition system of the
semaphore / WaitGroup / errgroup protocol; pure models of the placeholder
replacement, shell selection, exit classification, output parsing).
Tie: (a) trace validation — real Linter runs with stand-in tools and the
schedule hooks of process.go emit event traces; every trace must be a path
of the transition system whose final state predicts the observed diagnostics
/ fatal error (evaluated by vm_compute); (b) the pure functions on generated
inputs.  Oracle: the property text evaluated on the implementation (tool
log, diagnostics, fatal error)."""
import json, os, subprocess, sys
from lib import vf

MANIFEST = {
  'text': "Coq theorems over a labelled transition system of concurrentProcess / externalCommand / LintFiles (state: free semaphore slots, WaitGroup counter, phase of every invocation, errgroup of every rule instance, program counters of the file threads and of the main thread; events: every schedule point, any tool behaviour and latency): for every valid trace (every interleaving, every failure pattern, any number of files and invocations) the number of invocations holding a slot never exceeds the capacity, no invocation is started after proc.wait() began, on return every invocation is done, the returned diagnostics are exactly the issues of the invocations (each once, at its step's run: position) and a fatal error is returned iff some invocation failed; every requested invocation belongs to exactly one run step with an applicable effective shell. Pure models: placeholder replacement preserves length and every byte outside placeholders and leaves no placeholder; exit classification; shellcheck / pyflakes output parsing; shell selection by step > job > workflow > runner. Tie to the code: real Linter runs with stand-in tools under taskset (1, 2, 4, all CPUs) with build-tag guarded schedule points in process.go; each observed event trace is replayed on the model inside Coq and the predicted diagnostics / fatal error / per-invocation outcomes are compared with the observed ones; the pure functions are compared on generated inputs. The property itself is evaluated on every run from the stand-in tool's own log. Source gate: the Acquire / Release / Add / Done / Wait / Go / Lock / Unlock calls of the package are re-listed in source order on every run and proved to be exactly the modelled protocol, balanced per function (coq/Proc/SyncSites.v).",
  'note': "Trusted: Coq kernel; the hand-written model (validated on observed traces, not proved equal to the Go code); hooks in process.go (positions chosen so that the trace order is a linearisation); harness, stand-in tool. Not modelled: os/exec, the Go scheduler and memory model, encoding/json (its verdict is a model input), golang.org/x/sync internals (their specification is what the transition system assumes and the traces test). Needs repo_patches/proc applied to /repo (two hook patches, one fix).",
  'technique': "machine-checked proof in Coq (invariant induction over event traces of a transition system) + trace validation against the instrumented Go implementation with vm_compute",
 }

IMPORTS = ['Proc.ShellSel', 'Proc.ExecOutcome', 'Proc.ProcModel', 'Proc.ProcObs']
TOOL = os.path.join(vf.HARNESS, 'cmd', 'c20', 'fake_tool.py')


def cpu_sets():
    av = sorted(os.sched_getaffinity(0))
    sets = [av[:1]]      # a machine (container, cpuset) with ONE CPU: at most one tool process at a time
    if len(av) >= 2:
        sets.append(av[:2])
    if len(av) >= 6:
        sets.append(av[2:6])
    elif len(av) >= 4:
        sets.append(av[:4])
    sets.append(av)
    return sets


GENS = os.path.join(vf.COQ, 'Gen', 'GenSyncSites.v')


def regen_sync(ctx):
    """re-list the synchronisation operations of the package; write Gen only when changed"""
    tmp = os.path.join(ctx.out, 'GenSyncSites.v')
    rc, out = vf.sh([os.path.join(vf.BIN, 'c20'), '-extract-sync', vf.REPO, '-gen', tmp], timeout=120)
    if rc != 0:
        ctx.broken.append('listing the synchronisation operations of the package failed: ' + out[-400:])
        return
    new = open(tmp).read()
    old = open(GENS).read() if os.path.exists(GENS) else None
    if new != old:
        open(GENS, 'w').write(new)
        ctx.notes.append('coq/Gen/GenSyncSites.v regenerated (content changed)')


def run(ctx):
    ok, log = vf.build_harness(ctx, ['c20'])
    if not ok:
        ctx.broken.append('harness does not build against the repository (are repo_patches/proc applied?): ' + log[-600:])
        vf.finish(ctx, 'proof', [])
    regen_sync(ctx)
    exe = os.path.join(vf.BIN, 'c20')
    thorough = ctx.thorough()
    # start the real runs first (they mostly sleep), prove meanwhile
    groups = []
    per = [20, 40, 40, 30] if not thorough else [600, 1500, 1500, 1000]
    for g, cpus in enumerate(cpu_sets()):
        out = os.path.join(ctx.out, 'g%d' % g)
        cmd = ['taskset', '-c', ','.join(map(str, cpus)), exe, '-mode', 'runs', '-seed', str(ctx.seed * 16 + g),
               '-n', str(per[min(g, len(per) - 1)]), '-cap', str(len(cpus)), '-python', sys.executable, '-tool', TOOL,
               '-out', out, '-tier', ctx.tier]
        env = dict(os.environ)
        if len(cpus) <= 2:
            # the bound is the number of CPUs of the machine (here: of the taskset), not the number of
            # OS threads the Go scheduler may use: run the smallest sets with GOMAXPROCS four times larger
            env['GOMAXPROCS'] = str(4 * len(cpus))
        groups.append((out, len(cpus), subprocess.Popen(cmd, stdout=subprocess.PIPE, stderr=subprocess.STDOUT, text=True, env=env)))
    pout = os.path.join(ctx.out, 'pure')
    os.makedirs(pout, exist_ok=True)
    pure = subprocess.Popen([exe, '-mode', 'pure', '-seed', str(ctx.seed), '-n', '300' if not thorough else '3000',
                             '-out', pout, '-tier', ctx.tier], stdout=subprocess.PIPE, stderr=subprocess.STDOUT, text=True)

    nthm, ndis, _ = vf.check_props(ctx)
    if 'SyncSites' in (getattr(ctx, 'coq_log', '') or ''):
        exp = [l.strip().rstrip(';') for l in open(os.path.join(vf.COQ, 'Proc', 'SyncSites.v')).read().split('\n') if l.strip().startswith('("')]
        now = [l.strip().rstrip(';') for l in open(GENS).read().split('\n') if l.strip().startswith('("')]
        ctx.broken.append('coq/Proc/SyncSites.v: the synchronisation operations of the source are no longer the ones the transition system was written from; added: %s; removed: %s'
                          % ([x for x in now if x not in exp][:4], [x for x in exp if x not in now][:4]))
    gate = vf.grep_gate()
    if gate:
        ctx.broken.append('forbidden constructs in coq/: ' + '; '.join(gate[:5]))

    fails = []
    # ---- pure functions
    plog, _ = pure.communicate(timeout=1500)
    if pure.returncode != 0:
        ctx.broken.append('harness c20 -mode pure failed: ' + plog[-400:])
        vf.finish(ctx, 'proof', [])
    ps = vf.load_json(os.path.join(pout, 'summary.json'))
    pterms = vf.read_lines(os.path.join(pout, 'cases.txt'))
    fails += ps['oracle_failures']
    pbad, perr = vf.coq_cases(ctx, 'C20P', IMPORTS, 'pure_case', 'run_pure', pterms, shard=400, ordered=True)
    if perr:
        ctx.broken.append('correspondence cases (pure functions) did not evaluate: ' + perr[-400:])
    if pbad:
        ctx.broken.append('correspondence C20 pure functions (sanitize / exec_outcome / py_messages / shell selection vs the Go functions): %d of %d cases disagree' % (len(pbad), len(pterms)))
        ctx.first_disagreement = {'kind': 'pure', 'case_index': pbad[0], 'model_term': pterms[pbad[0]][:3000]}
    # ---- trace validation
    terms, srcs, dist, extra = [], [], {}, []
    evals = nontriv = 0
    for out, cap, p in groups:
        glog, _ = p.communicate(timeout=3000)
        if p.returncode != 0:
            ctx.broken.append('harness c20 -mode runs (cap %d) failed: %s' % (cap, glog[-400:]))
            vf.finish(ctx, 'proof', fails)
        s = vf.load_json(os.path.join(out, 'summary.json'))
        fails += s['oracle_failures']
        terms += vf.read_lines(os.path.join(out, 'cases.txt'))
        srcs += vf.read_lines(os.path.join(out, 'sources.jsonl'))
        evals += s['evaluations']
        nontriv += s['distinct_nontrivial']
        for k, v in s['distribution'].items():
            dist[k] = dist.get(k, 0) + v
        extra.append(s.get('extra', {}))
        samples = s['samples']
        rule = s['rule']
    bad, err = vf.coq_cases(ctx, 'C20F', IMPORTS, 'run_input', 'run_full', terms, shard=4 if not thorough else 40)
    if err:
        ctx.broken.append('correspondence cases (traces) did not evaluate: ' + err[-400:])
    if bad:
        ctx.broken.append('trace validation C20: %d of %d observed runs are not a valid path of the transition system or end in a state that predicts other diagnostics / fatal error / invocation outcomes than observed' % (len(bad), len(terms)))
        if not getattr(ctx, 'first_disagreement', None):
            ctx.first_disagreement = {'kind': 'trace', 'case_index': bad[0], 'run': json.loads(srcs[bad[0]]), 'model_term': terms[bad[0]][:6000]}
    ctx.coverage.update({
        'obligations': nthm, 'discharged': ndis,
        'evaluations': evals + ps['evaluations'], 'distinct_nontrivial': nontriv + ps['distinct_nontrivial'],
        'rule': rule + ' || ' + ps['rule'], 'samples': samples[:2], 'distribution': dist,
        'pure_distribution': ps['distribution'], 'pure_extra': ps.get('extra'),
        'traces_validated_against_impl': len(terms), 'disagreements': len(bad) + len(pbad),
        'groups': extra, 'exhaustive': False,
    })
    ctx.notes.append('runs per CPU set: ' + ', '.join('cap %s: %s invocations, max concurrent %s, %s runs saturating the semaphore, %s fatal'
                     % (e.get('cap'), e.get('invocations'), e.get('max_concurrent'), e.get('runs_saturating_semaphore'), e.get('runs_fatal')) for e in extra))
    vf.finish(ctx, 'proof', fails)


def replay(path):
    ctx = vf.Ctx('C20', 'quick', 1)
    ok, log = vf.build_harness(ctx, ['c20'])
    if not ok:
        print(log); return 2
    cmd = [os.path.join(vf.BIN, 'c20'), '-replay', path, '-python', sys.executable, '-tool', TOOL]
    try:
        d = json.load(open(path))
        cap = (d.get('run') or (d.get('first_disagreement') or {}).get('run') or {}).get('cap')
        av = sorted(os.sched_getaffinity(0))
        if cap and cap < len(av):
            cmd = ['taskset', '-c', ','.join(map(str, av[:cap]))] + cmd
    except Exception:
        cap = None
    env = dict(os.environ)
    if cap and cap <= 2:
        env['GOMAXPROCS'] = str(4 * cap)    # as in the run (group 0)
    return subprocess.call(cmd, env=env)
