"""C01 — no input makes actionlint panic, crash or hang.
Proof: coq/Props/C01.v over the partiality-explicit model of parse.go's
scalar / value layer (coq/Wf/Scalars*.v) and of Command.Main's exit status
(coq/Wf/ScalarExit.v).  Tie: correspondence (K) between the model evaluated
by vm_compute and actionlint.Parse / Command.Main on the same inputs.  Oracle
(the failing-input search for the whole property): node substitution,
expression text and byte damage on all four input channels, every case in a
child process under recover() and a wall-clock limit (harness/cmd/c01)."""
import os, subprocess, json
from lib import vf

MANIFEST = {
  'text': "Coq theorems over a model of parse.go's value layer in which every partial Go operation is explicit (nodeKindName's default panic, err.Error() on a nil error, field access through a nil *Int/*Float, the index ss[1]) and the results of strconv.Atoi/ParseFloat and of the regexp are universally quantified oracle inputs: no value parser (parseString, checkString, checkSequence, parseExpression, parseStringSequence, parseStringOrStringSequence, parseBool, parseInt, parseFloat, parseMaxParallel, parseTimeoutMinutes) and not handleYAMLError panics on any node of any kind, tag, text and library behaviour; a nil result always comes with a diagnostic; the number of diagnostics is bounded by the node's size; the pre-fix parseFloat is refuted (panics exactly when the library accepts the text as NaN) and the fix is proved conservative; Command.Main's exit status is a total function into {0,1,2,3} with 3 iff a lint run ended with a fatal error. Unbounded (all nodes). The model is tied to the code by evaluating it with vm_compute on the nodes the real yaml.v3 parser produced at every scalar position in charge of a value parser and comparing the diagnostics (position, class) with actionlint.Parse; the same for handleYAMLError and for Command.Main. The property itself is searched for a failing input on the implementation: every other node kind / explicit tag x adversarial text / alias / merge key / depth-200 nesting substituted at node positions of all test workflows and of an every-key workflow, action.yml, reusable workflow and actionlint.yaml; all expression strings up to length 3 (quick) / 4 (thorough) over 24 symbols plus random ones; truncations, bit flips, invalid UTF-8, NUL bytes on all four channels; each batch in a child process (crash / hang narrowed down to one input). Source gate: every explicit panic(...), every type assertion without comma-ok and every goroutine start of the package is re-listed from the .go files on every run and proved to be a known one (coq/Wf/PanicSites.v); the cron library's panic on a time zone prefix without fields is modelled (coq/Wf/CronGuard.v: the rule never hands such a spec on) and compared with the library on generated specs.",
  'note': "Partial: the no-panic theorems of the other components (expression lexer/parser C04, semantic checker C06, untrusted-input checker C11, glob C17, needs C18, section parser C13, snippet renderer C16) live with their models; yaml.v3, regexp, text/template, Go stack depth and the unmodelled rules are covered only by the search (not a proof). 'Bounded time' is proved as output-size bounds on structurally recursive functions and measured as wall clock in the harness. Trusted: Coq kernel; hand-written model (correspondence-checked); harness generators, key-path -> value-parser table (checked by K), message -> class table; the hypothesis wf_ynode (node kinds are yaml.v3's five constants) asserted on every tree dumped.",
  'technique': "machine-checked proof in Coq (partiality-explicit result type; library results as universally quantified oracle inputs) + vm_compute correspondence + failing-input search in child processes under recover() and a wall-clock limit",
}

# partial operations inside the modelled functions of parse.go, as the model
# has them; re-extracted from the source on every run (informational: the
# correspondence check is what ties model and code, this names new sites)
MODELLED = {
  'nodeKindName': ['panic'], 'posAt': [], 'isNull': [], 'newString': [],
  'checkNotEmpty': [], 'checkSequence': [], 'checkString': [], 'missingExpression': [],
  'parseExpression': [], 'mayParseExpression': [], 'parseString': [],
  'parseStringSequence': [], 'parseStringOrStringSequence': [], 'parseBool': [],
  'parseInt': ['.Error()'], 'parseFloat': ['.Error()'], 'parseMaxParallel': [], 'parseTimeoutMinutes': [],
  'handleYAMLError': ['index ss[1]', 'assert .(*yaml.TypeError)', '.Error()'],
}

def panic_site_inventory(repo):
    import re
    try:
        src = open(os.path.join(repo, 'parse.go')).read()
    except OSError:
        return {'error': 'parse.go not readable'}
    found, missing_funcs = {}, []
    for fn in MODELLED:
        m = re.search(r'^func (?:\(p \*parser\) )?%s\(.*?^}' % re.escape(fn), src, flags=re.S | re.M)
        if not m:
            missing_funcs.append(fn); continue
        body = re.sub(r'//[^\n]*', '', m.group(0))
        body = body[body.index('{'):]
        sites = []
        sites += ['panic'] * len(re.findall(r'\bpanic\(', body))
        sites += ['.Error()'] * len(re.findall(r'\.Error\(\)', body))
        for a in re.findall(r'\.\((\*?[\w.]+)\)', body):
            sites.append('assert .(%s)' % a)
        for a in re.findall(r'(?<![\w\]\)])(\w+(?:\.\w+)*)\[([^\]\n:]+)\]', body):
            if a[0] in ('make', 'map', 'string', 'byte') or a[1].strip() == '':
                continue
            sites.append('index %s[%s]' % a)
        found[fn] = sites
    diff = {fn: {'source': sorted(found[fn]), 'model': sorted(MODELLED[fn])} for fn in found if sorted(found[fn]) != sorted(MODELLED[fn])}
    return {'functions': len(found), 'sites_in_source': sum(len(v) for v in found.values()),
            'functions_not_found': missing_funcs, 'sites_differing_from_model': diff}

def _k(ctx, tag, imports, typ, fn, path, what, ordered=False, shard=250):
    terms = vf.read_lines(path) if os.path.exists(path) else []
    if not terms:
        return 0, 0
    bad, err = vf.coq_cases(ctx, tag, imports, typ, fn, terms, shard=shard, ordered=ordered)
    if err:
        ctx.broken.append('correspondence cases (%s) did not evaluate: %s' % (what, err[-400:]))
    if bad:
        ctx.broken.append('correspondence C01/%s: %d of %d cases disagree' % (what, len(bad), len(terms)))
        if not getattr(ctx, 'first_disagreement', None):
            src = None
            sp = path.replace('.txt', '_src.txt')
            if os.path.exists(sp):
                sl = vf.read_lines(sp)
                src = sl[bad[0]] if bad[0] < len(sl) else None
            ctx.first_disagreement = {'what': what, 'case_index': bad[0], 'source': src, 'model_term_and_observed': terms[bad[0]][:3000]}
    return len(terms), len(bad)

GENP = os.path.join(vf.COQ, 'Gen', 'GenPanicSites.v')


def regen_panics(ctx):
    """re-list the explicit panics, unchecked type assertions and goroutine starts of the package;
    write Gen only when changed"""
    tmp = os.path.join(ctx.out, 'GenPanicSites.v')
    rc, out = vf.sh([os.path.join(vf.BIN, 'c01'), '-extract-panics', vf.REPO, '-gen', tmp], timeout=120)
    if rc != 0:
        ctx.broken.append('listing the panic sites of the package failed: ' + out[-400:])
        return
    new = open(tmp).read()
    old = open(GENP).read() if os.path.exists(GENP) else None
    if new != old:
        open(GENP, 'w').write(new)
        ctx.notes.append('coq/Gen/GenPanicSites.v regenerated (content changed)')


def run(ctx):
    ok, log = vf.build_harness(ctx, ['c01'])
    if not ok:
        ctx.broken.append('harness does not build against the repository: ' + log[-400:])
        vf.finish(ctx, 'proof', [])
    regen_panics(ctx)
    nthm, ndis, _ = vf.check_props(ctx)
    if 'PanicSites' in (getattr(ctx, 'coq_log', '') or ''):
        known = open(os.path.join(vf.COQ, 'Wf', 'PanicSites.v')).read()
        new = [l.strip().rstrip(';') for l in open(GENP).read().split('\n') if l.strip().startswith('(') and l.strip().rstrip(';')[:-1] not in known]
        ctx.broken.append('coq/Wf/PanicSites.v (panic_sites_known_b): the package has an explicit panic, a type assertion without comma-ok or a goroutine start that is not one of the known ones: ' + ' '.join(new[:5]))
    gate = vf.grep_gate()
    if gate:
        ctx.broken.append('forbidden constructs in coq/: ' + '; '.join(gate[:5]))
    env = vf.goenv(); env['VERIF_REPO'] = vf.REPO
    p = subprocess.run([os.path.join(vf.BIN, 'c01'), '-seed', str(ctx.seed), '-tier', ctx.tier, '-out', ctx.out, '-repo', vf.REPO],
                       env=env, stdout=subprocess.PIPE, stderr=subprocess.STDOUT, text=True, errors='replace', timeout=3000)
    if p.returncode != 0 or not os.path.exists(os.path.join(ctx.out, 'summary.json')):
        ctx.broken.append('harness c01 failed (rc %d): %s' % (p.returncode, p.stdout[-400:]))
        vf.finish(ctx, 'proof', [])
    s = vf.load_json(os.path.join(ctx.out, 'summary.json'))
    imports = ['Wf.Scalars', 'Wf.ScalarExit', 'Wf.ScalarObs']
    n1, b1 = _k(ctx, 'C01s', imports, '(which * snode)', 'run_scalar', os.path.join(ctx.out, 'cases_scalar.txt'),
                'value parser in charge vs actionlint.Parse (diagnostics at the node)')
    n2, b2 = _k(ctx, 'C01y', imports, 'yaml_err', 'run_yaml_err', os.path.join(ctx.out, 'cases_yamlerr.txt'),
                'handleYAMLError vs actionlint.Parse on unparsable YAML', ordered=True)
    n3, b3 = _k(ctx, 'C01e', imports, '(flag_outcome * bool * bool * nat)', 'run_exit', os.path.join(ctx.out, 'cases_exit.txt'),
                'exit status vs Command.Main')
    n4, b4 = _k(ctx, 'C01c', ['Wf.CronGuard'], 'string', 'run_cron', os.path.join(ctx.out, 'cases_cron.txt'),
                'cron specs: the library panics / the rule passes on, reports, panics', ordered=True)
    if n1 == 0:
        ctx.broken.append('correspondence C01: no scalar-position case was produced')
    ctx.coverage.update({
        'obligations': nthm, 'discharged': ndis,
        'evaluations': s['evaluations'], 'distinct_nontrivial': s['distinct_nontrivial'],
        'rule': s['rule'], 'samples': s['samples'], 'distribution': s['distribution'],
        'traces_validated_against_impl': n1 + n2 + n3 + n4, 'disagreements': b1 + b2 + b3 + b4,
        'exhaustive': False, 'search': s.get('extra', {}),
    })
    inv = panic_site_inventory(vf.REPO)
    ctx.coverage['panic_site_inventory'] = inv
    if inv.get('functions_not_found') or inv.get('sites_differing_from_model'):
        ctx.notes.append('informational: the partial operations found in the modelled functions of parse.go differ from the ones the model makes explicit: %s' % json.dumps(inv)[:600])
    ctx.notes.append('partial: yaml.v3 / regexp / template internals, Go stack depth and the components modelled by other properties are covered by the failing-input search only')
    vf.finish(ctx, 'proof', s['oracle_failures'])

def replay(path):
    ctx = vf.Ctx('C01', 'quick', 1)
    ok, log = vf.build_harness(ctx, ['c01'])
    if not ok:
        print(log); return 2
    env = vf.goenv(); env['VERIF_REPO'] = vf.REPO
    return subprocess.call([os.path.join(vf.BIN, 'c01'), '-replay', path, '-repo', vf.REPO], env=env)
