"""C12 — context and special-function availability follows GitHub's table exactly.
Proof: coq/Props/C12.v over the model coq/Wf/Avail*.v.  Ties: T = the table as
WorkflowKeyAvailability returns it and every rule.check*(…, key) call site of
rule_expression.go, regenerated into coq/Gen on every run and compared by
theorems with the committed documentation table and the hand-written site list;
K = EXHAUSTIVE planting of every context / special function at every scalar
position of the every-key workflows, linted through NewLinter+Lint, against the
model evaluated by vm_compute; oracle = the documentation table with the
longest-listed-prefix rule, evaluated in Go independently of availability.go."""
import json, os, re, shutil, subprocess
from lib import vf

MANIFEST = {
  'text': "Coq theorems over a model of the availability part of ExprSemanticsChecker (checkVariable/checkAvailableContext, checkFuncCall/checkSpecialFunctionAvailability, traversal with narrowing) on the shared expression AST and of the routing of workflow keys through rule_expression.go: every variable occurrence at any depth and in any letter case is reported iff it is undefined or its lower-cased name is not in the availability list (same for calls of the five special functions; other functions never); the table WorkflowKeyAvailability returns, regenerated from the code on every run, equals GitHub's documentation table transcribed once into Coq (as finite maps), an unlisted key allows nothing; for every call site of rule_expression.go (extracted with go/ast on every run and proved equal to the hand-written list) the key it passes lists exactly what the longest listed key that is a prefix of the site's canonical path lists. EXHAUSTIVE correspondence: every (position, context) and (position, special function) pair x 3 embeddings (11 in the thorough tier) is planted into an otherwise clean every-key workflow and linted through the exported Linter; the diagnostics (class, column) are compared with the model evaluated by vm_compute and with the verdict demanded by the documentation table. Special functions are also planted with arguments no overload accepts: their availability verdict does not depend on that (repair 35c1157; the oracle sigok of the model is 'always true' for the code as it is, the code before the repair is refuted).",
  'note': "Trusted: Coq kernel; the hand-written model (correspondence-checked on the exhaustive enumeration, not proved equal to the Go code); the canonical path assigned by hand to every call site (Coq) and to every workflow position (Go harness); the go/ast extractor; spec_table.md being a verbatim copy of the documentation table in the repository (testdata/ok.md, 34 rows — the repository's availability.go is generated from exactly these rows). Not modelled: type checking (whether an overload accepts a call is an oracle parameter; calls in the enumeration are well-typed), parse.go (positions that are never routed to the expression checker are C03's subject), non-ASCII letter case.",
  'technique': "machine-checked proof in Coq (structural induction over expression trees; finite-domain vm_compute lemmas over regenerated tables) + exhaustive vm_compute correspondence against the Go implementation",
}

GEN_FILES = ['GenAvailability.v', 'GenRouteSites.v']


def regenerate(ctx):
    """T: dump the tables from the repository's working tree; rewrite coq/Gen only when changed."""
    tmp = os.path.join(ctx.out, 'gen')
    rc, out = vf.sh([os.path.join(vf.BIN, 'c12'), '-gen', tmp, '-repo', vf.REPO], timeout=300)
    if rc != 0:
        ctx.broken.append('translator failed (go/parser over availability.go / rule_expression.go): ' + out[-400:])
        return []
    changed = []
    os.makedirs(os.path.join(vf.COQ, 'Gen'), exist_ok=True)
    for f in GEN_FILES:
        new = open(os.path.join(tmp, f)).read()
        dst = os.path.join(vf.COQ, 'Gen', f)
        old = open(dst).read() if os.path.exists(dst) else None
        if new != old:
            open(dst, 'w').write(new)
            changed.append(f)
    return changed


def failing_theorems(log):
    """names of the lemmas/theorems a failed coqc run stopped at"""
    out = []
    for m in re.finditer(r'File "([^"]+)", line (\d+)', log or ''):
        path, line = m.group(1), int(m.group(2))
        if not os.path.isabs(path):
            path = os.path.join(vf.COQ, path)
        try:
            src = open(path).read().split('\n')[:line]
        except OSError:
            continue
        for l in reversed(src):
            mm = re.match(r'\s*(?:Theorem|Lemma|Corollary|Example|Definition)\s+(\w+)', l)
            if mm:
                out.append('%s (%s)' % (mm.group(1), os.path.relpath(path, vf.COQ)))
                break
    return out


def run(ctx):
    ok, log = vf.build_harness(ctx, ['c12'])
    if not ok:
        ctx.broken.append('harness does not build against the repository: ' + log[-400:])
        vf.finish(ctx, 'proof', [])
    changed = regenerate(ctx)
    if changed:
        ctx.notes.append('regenerated from the repository (content changed): ' + ', '.join(changed))
    # the committed specification is still the transcription of the committed documentation table
    rc, spec = vf.sh([os.path.join(vf.BIN, 'c12'), '-transcribe'], timeout=60)
    if rc != 0 or spec != open(os.path.join(vf.COQ, 'Wf', 'SpecAvailability.v')).read():
        ctx.broken.append('coq/Wf/SpecAvailability.v is not the transcription of harness/cmd/c12/spec_table.md')
    # the repository's copy of the documentation: informational (the ground truth is the committed one)
    try:
        md = open(os.path.join(vf.REPO, 'scripts', 'generate-availability', 'testdata', 'ok.md')).read()
        mine = open(os.path.join(vf.HARNESS, 'cmd', 'c12', 'spec_table.md')).read()
        ctx.notes.append('documentation table in the repository (testdata/ok.md) %s the committed ground truth'
                         % ('contains verbatim' if mine.strip() in md else 'DIFFERS from'))
    except OSError:
        ctx.notes.append('testdata/ok.md not readable')

    # proofs (T is inside: Props/C12.v depends on coq/Gen)
    nthm, ndis, _ = vf.check_props(ctx)
    if getattr(ctx, 'coq_log', None):
        for t in failing_theorems(ctx.coq_log):
            ctx.broken.append('proof obligation no longer checks: ' + t)
    gate = vf.grep_gate()
    if gate:
        ctx.broken.append('forbidden constructs in coq/: ' + '; '.join(gate[:5]))

    # K + oracle: exhaustive in both tiers
    rc, out = vf.sh([os.path.join(vf.BIN, 'c12'), '-out', ctx.out, '-tier', ctx.tier, '-seed', str(ctx.seed)], timeout=3000)
    if rc != 0:
        ctx.broken.append('harness c12 failed: ' + out[-600:])
        vf.finish(ctx, 'proof', [])
    s = vf.load_json(os.path.join(ctx.out, 'summary.json'))
    terms = vf.read_lines(os.path.join(ctx.out, 'cases.txt'))
    srcs = vf.read_lines(os.path.join(ctx.out, 'sources.jsonl'))
    okm, mlog = vf.coq_make(['Base/Corr.vo', 'Wf/Avail.vo'])
    bad, err = [], None
    if not okm:
        ctx.broken.append('the model (Wf/Avail.v) does not compile against the regenerated tables: ' + mlog[-400:])
    else:
        bad, err = vf.coq_cases(ctx, 'C12', ['Wf.Avail'], 'case_input', 'run_case', terms, shard=max(200, (len(terms) + 15) // 16))
        if err:
            ctx.broken.append('correspondence cases did not evaluate: ' + err[-400:])
    if bad:
        ctx.broken.append('correspondence C12 (model check_at/run_case vs Linter.Lint): %d of %d cases disagree' % (len(bad), len(terms)))
        ctx.first_disagreement = {'case_index': bad[0], 'input': json.loads(srcs[bad[0]]), 'model_term': terms[bad[0]][:2000],
                                  'other_disagreeing_inputs': [json.loads(srcs[i]) for i in bad[1:8]]}
    ctx.coverage.update({
        'obligations': nthm, 'discharged': ndis,
        'evaluations': s['evaluations'], 'distinct_nontrivial': s['distinct_nontrivial'],
        'rule': s['rule'], 'samples': s['samples'], 'distribution': s['distribution'],
        'traces_validated_against_impl': len(terms) if okm and not err else 0, 'disagreements': len(bad),
        'exhaustive': True,
        'positions': s['extra'].get('positions'), 'lints': s['extra'].get('lints'),
        'table_rows': s['extra'].get('spec_rows'), 'contexts': s['extra'].get('spec_contexts'),
        'special_functions': s['extra'].get('spec_functions'),
        'baseline_other_diagnostics': s['extra'].get('baseline_other_diagnostics'),
        'diagnostic_classes': {'1': 'context "…" is not allowed here', '2': 'calling function "…" is not allowed here',
                               '3': 'undefined variable "…"', '4': 'undefined function "…"'},
    })
    vf.finish(ctx, 'proof', s['oracle_failures'])


def replay(path):
    ctx = vf.Ctx('C12', 'quick', 1)
    ok, log = vf.build_harness(ctx, ['c12'])
    if not ok:
        print(log)
        return 2
    return subprocess.call([os.path.join(vf.BIN, 'c12'), '-replay', path])
