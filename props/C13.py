"""C13 — unknown, duplicate and missing keys are reported in every section.
Proof: coq/Props/C13.v over the model of parse.go (coq/Wf/YNode.v Mapping.v
Sections.v).  Ties: T — the case labels / unexpectedKey lists / parseMapping
flags of every parser function are re-extracted from parse.go on every run
into coq/Gen/GenParseKeys.v and the section tables of the model are proved
equal to them (parse_keys_match_model); K — the model is evaluated by
vm_compute on the yaml.v3 node trees of corpus, synthetic and mutated
workflows and compared with the diagnostics of actionlint.Parse; the property
itself is evaluated on the implementation by an oracle written from the
property text and a reference grammar (harness/cmd/c13/spec.go)."""
import json, os, re, subprocess, sys
from lib import vf

MANIFEST = {
  'text': "Coq theorems over a literal model of parseMapping and of every section parser of parse.go as an instance of one combinator (parseMapping + key switch + post-loop checks), for all YAML node trees and for any behaviour of the parsers of the values: a key outside a fixed key set is reported at the key at its first occurrence (schedule items: at the item); a repetition (equal after ASCII lower-casing in case-insensitive sections) is reported at the repetition; each mandatory key (on, jobs, runs-on, steps, run/uses, input type, output value, concurrency group, environment name, credentials pair, defaults.run) is reported when absent; inserting a foreign or duplicate key leaves the diagnostics of all other keys unchanged as ordered lists; the section tables equal the documented key sets (Wf/SyntaxSpec.v) and equal the case labels, unexpectedKey lists and allowEmpty/caseSensitive arguments re-extracted from parse.go on every run. The model is tied to the code by evaluating it with vm_compute on the node trees of corpus, synthetic and mutated workflows (foreign key at every index, every key duplicated in three spellings, every mandatory key removed, at every mapping node) and comparing the ordered list of (class, line, column) with actionlint.Parse; the property is also evaluated directly on the implementation.",
  'note': "Trusted: Coq kernel; the hand-written model (correspondence-checked, not proved equal to the Go code); the go/ast extractor; harness mutation engine, message->class table and reference grammar. Not modelled: yaml.v3 (the model starts from its node tree; assumed: mapping nodes have an even number of children), strconv-dependent diagnostics of parseInt/parseFloat, Unicode (non-ASCII) case folding and white space.",
  'technique': "machine-checked proof in Coq (induction over the key/value list of a mapping, generic in the value parsers) + regenerated key tables + vm_compute correspondence against actionlint.Parse",
 }

GEN = os.path.join(vf.COQ, 'Gen', 'GenParseKeys.v')


def regen(ctx):
    """re-extract the key tables from parse.go; write Gen only when changed"""
    tmp = os.path.join(ctx.out, 'GenParseKeys.v')
    rc, out = vf.sh([os.path.join(vf.BIN, 'c13'), '-extract', os.path.join(vf.REPO, 'parse.go'), '-gen', tmp], timeout=120)
    if rc != 0:
        ctx.broken.append('extraction of the key tables from parse.go failed: ' + out[-400:])
        return False
    new = open(tmp).read()
    old = open(GEN).read() if os.path.exists(GEN) else None
    if new != old:
        open(GEN, 'w').write(new)
        ctx.notes.append('coq/Gen/GenParseKeys.v regenerated (content changed)')
    return True


def run(ctx):
    ok, log = vf.build_harness(ctx, ['c13'])
    if not ok:
        ctx.broken.append('harness does not build against the repository: ' + log[-400:])
        vf.finish(ctx, 'proof', [])
    regen(ctx)
    nthm, ndis, _ = vf.check_props(ctx)
    okc, logc = vf.coq_make(['Base/Corr.vo', 'Wf/Sections.vo'])
    if not okc:
        ctx.broken.append('model does not compile: ' + logc[-400:])
    gate = vf.grep_gate()
    if gate:
        ctx.broken.append('forbidden constructs in coq/: ' + '; '.join(gate[:5]))
    n = 450 if not ctx.thorough() else 6000
    rc, out = vf.sh([os.path.join(vf.BIN, 'c13'), '-seed', str(ctx.seed), '-n', str(n), '-tier', ctx.tier,
                     '-repo', vf.REPO, '-out', ctx.out], timeout=3000)
    if rc != 0:
        ctx.broken.append('harness c13 failed: ' + out[-400:])
        vf.finish(ctx, 'proof', [])
    s = vf.load_json(os.path.join(ctx.out, 'summary.json'))
    terms = vf.read_lines(os.path.join(ctx.out, 'cases.txt'))
    terms = [re.sub(r'\\(.)', lambda m: '\n' if m.group(1) == 'n' else m.group(1), t) for t in terms]
    srcs = vf.read_lines(os.path.join(ctx.out, 'sources.jsonl'))
    bad, err = ([], None)
    if okc:
        bad, err = vf.coq_cases(ctx, 'C13', ['Wf.YNode', 'Wf.Mapping', 'Wf.Sections'], 'ynode', 'run_c13', terms,
                                shard=max(20, len(terms) // 32 + 1), ordered=True)
    if err:
        ctx.broken.append('correspondence cases did not evaluate: ' + err[-400:])
    if bad:
        ctx.broken.append('correspondence C13 (model parse_workflow vs actionlint.Parse): %d of %d node trees disagree' % (len(bad), len(terms)))
        ctx.first_disagreement = {'case_index': bad[0], 'input': json.loads(srcs[bad[0]]), 'model_term': terms[bad[0]][:4000]}
    extra = s.get('extra', {})
    if extra.get('unknown_messages'):
        ctx.broken.append('syntax-check messages unknown to the class table: ' + '; '.join(extra['unknown_messages'][:3]))
    if extra.get('panics'):
        ctx.notes.append('actionlint.Parse panicked (reported to C01): ' + '; '.join(extra['panics'][:3]))
    ctx.coverage.update({
        'obligations': nthm, 'discharged': ndis,
        'evaluations': s['evaluations'], 'distinct_nontrivial': s['distinct_nontrivial'],
        'rule': s['rule'], 'samples': s['samples'][:5], 'distribution': s['distribution'],
        'traces_validated_against_impl': len(terms), 'disagreements': len(bad),
        'exhaustive': False,
    })
    vf.finish(ctx, 'proof', s['oracle_failures'])


def replay(path):
    ctx = vf.Ctx('C13', 'quick', 1)
    ok, log = vf.build_harness(ctx, ['c13'])
    if not ok:
        print(log); return 2
    return subprocess.call([os.path.join(vf.BIN, 'c13'), '-replay', path])
