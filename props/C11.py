"""C11 — script-injection detection is complete and precise.
Proof: coq/Props/C11.v over the model coq/Expr/Untrusted.v (UntrustedInputChecker
driven by the traversal of expr_sema.go) against the specification
coq/Expr/UntrustedSpec.v, instantiated with the table regenerated from /repo
(coq/Gen/GenUntrusted.v).  Tie: T (the tree and the function names are dumped
from the Go package on every run) + K (the model evaluated by vm_compute on the
ExprNode trees the real parser produced, compared with the reports of
NewExprSemanticsChecker(true,nil).Check) + a reference evaluator written from
the property text run on the implementation (expression checker and whole
linter)."""
import json, os, shutil, subprocess
from lib import vf

MANIFEST = {
  'text': "Coq theorems over a model of UntrustedInputChecker (expr_insecure.go) driven by the enter/leave sequence of the semantic checker's traversal (expr_sema.go: index before operand, narrowing shortcuts, arguments of undefined functions skipped): for every expression tree and every untrusted-input tree the reports equal those of a compositional specification written from the property text (maximal variable-rooted access chains; name steps in any letter case by dot or ['name']; [expr] = array element; .* = element or member fan-out with the filter-then-index rule; nothing inside contains/startsWith/endsWith; chains inside dynamic indices counted), each report sits at the chain's variable token, recasing never changes the result, checkUntrusted=false never reports, the checker is back in its initial state after Check; the same exactness holds for the generic visitor of expr_ast.go. Unbounded (all trees, all nesting depths). The tree and the function table are regenerated from the Go package on every run; the model is tied to the code by evaluating it with vm_compute on the ExprNode trees of generated expressions (all documented paths x spellings x embeddings, depth-2 embeddings exhaustive in the thorough tier) and comparing with the real checker's reports; the property is also evaluated on the implementation (expression checker and the whole linter on run:/script:/env:/with:/name:/if: positions) by a reference written from the property text.",
  'note': "Trusted: Coq kernel; the hand-written model (correspondence-checked, not proved equal to the Go code); harness generators/dumper/reference; ASCII-only lower-casing. Not modelled: lexer/parser (input is the ExprNode tree; the shape the parser guarantees is the hypothesis parser_normal, asserted on every dumped tree), type checking, the routing in rule_expression.go (exercised through the linter by the oracle). Holds for the code with repo_patches/untrusted applied (three fix: commits); on the unpatched tree the check reports the violations.",
  'technique': "machine-checked proof in Coq (simulation invariant between a stateful bottom-up matcher and a compositional specification, structural induction over expression trees) + regenerated data table + vm_compute correspondence against the Go implementation",
 }

GEN = os.path.join(vf.COQ, 'Gen', 'GenUntrusted.v')


def regen(ctx):
    """dump BuiltinUntrustedInputs / function names from the Go package; rewrite
    coq/Gen/GenUntrusted.v only when the content changed"""
    tmp = os.path.join(ctx.out, 'GenUntrusted.v')
    rc, out = vf.sh([os.path.join(vf.BIN, 'c11'), '-gen', tmp], timeout=300)
    if rc != 0:
        ctx.broken.append('table dump (c11 -gen) failed: ' + out[-300:])
        return False
    new = open(tmp).read()
    old = open(GEN).read() if os.path.exists(GEN) else None
    if new != old:
        os.makedirs(os.path.dirname(GEN), exist_ok=True)
        open(GEN, 'w').write(new)
        ctx.notes.append('coq/Gen/GenUntrusted.v changed on this run (table in /repo differs from the committed copy)')
    return True


def run(ctx):
    ok, log = vf.build_harness(ctx, ['c11'])
    if not ok:
        ctx.broken.append('harness does not build against /repo: ' + log[-400:])
        vf.finish(ctx, 'proof', [])
    if not regen(ctx):
        vf.finish(ctx, 'proof', [])
    nthm, ndis, _ = vf.check_props(ctx)
    gate = vf.grep_gate()
    if gate:
        ctx.broken.append('forbidden constructs in coq/: ' + '; '.join(gate[:5]))
    n = 400 if not ctx.thorough() else 20000
    rc, out = vf.sh([os.path.join(vf.BIN, 'c11'), '-seed', str(ctx.seed), '-n', str(n), '-out', ctx.out, '-tier', ctx.tier, '-repo', vf.REPO], timeout=3000)
    if rc != 0:
        ctx.broken.append('harness c11 failed: ' + out[-400:])
        vf.finish(ctx, 'proof', [])
    s = vf.load_json(os.path.join(ctx.out, 'summary.json'))
    terms = vf.read_lines(os.path.join(ctx.out, 'cases.txt'))
    srcs = vf.read_lines(os.path.join(ctx.out, 'sources.jsonl'))
    ok, log = vf.coq_make(['Expr/UntrustedObs.vo'])
    if not ok:
        ctx.broken.append('coq build of Expr/UntrustedObs.v failed')
        ctx.coq_log = log
    bad, err = vf.coq_cases(ctx, 'C11', ['Expr.Untrusted', 'Expr.UntrustedObs'], 'expr', 'run_c11', terms, shard=600, ordered=True)
    if err:
        ctx.broken.append('correspondence cases did not evaluate: ' + err[-400:])
    tterms = vf.read_lines(os.path.join(ctx.out, 'cases_tree.txt'))
    tsrcs = vf.read_lines(os.path.join(ctx.out, 'sources_tree.jsonl'))
    tbad, terr = vf.coq_cases(ctx, 'C11T', ['Expr.Untrusted', 'Expr.UntrustedObs'], '(list utree * expr)', 'run_c11_tree', tterms, shard=600, ordered=True)
    if terr:
        ctx.broken.append('correspondence cases (custom trees) did not evaluate: ' + terr[-400:])
    if tbad:
        ctx.broken.append('correspondence C11 on generated trees (model vs Check with BuiltinUntrustedInputs swapped): %d of %d cases disagree' % (len(tbad), len(tterms)))
        if not bad:
            ctx.first_disagreement = {'case_index': tbad[0], 'input': json.loads(tsrcs[tbad[0]]), 'model_term': tterms[tbad[0]][:4000]}
    vterms = vf.read_lines(os.path.join(ctx.out, 'cases_visit.txt'))
    vbad, verr = vf.coq_cases(ctx, 'C11V', ['Expr.Untrusted', 'Expr.UntrustedObs'], 'expr', 'run_c11_visit', vterms, shard=600, ordered=True)
    if verr:
        ctx.broken.append('correspondence cases (automaton alone) did not evaluate: ' + verr[-400:])
    if vbad:
        ctx.broken.append('correspondence C11 automaton alone (model on_enter/on_leave vs UntrustedInputChecker callbacks driven by VisitExprNode): %d of %d cases disagree' % (len(vbad), len(vterms)))
        if not bad and not tbad:
            vsrcs = vf.read_lines(os.path.join(ctx.out, 'sources_visit.jsonl'))
            ctx.first_disagreement = {'case_index': vbad[0], 'input': json.loads(vsrcs[vbad[0]]), 'model_term': vterms[vbad[0]][:4000]}
    fails = list(s['oracle_failures'])
    if bad:
        ctx.broken.append('correspondence C11 (model automaton+traversal vs ExprSemanticsChecker.Check): %d of %d cases disagree' % (len(bad), len(terms)))
        src = json.loads(srcs[bad[0]])
        ctx.first_disagreement = {'case_index': bad[0], 'input': src, 'model_term': terms[bad[0]][:4000]}
    ctx.coverage.update({
        'obligations': nthm, 'discharged': ndis,
        'evaluations': s['evaluations'], 'distinct_nontrivial': s['distinct_nontrivial'],
        'rule': s['rule'], 'samples': s['samples'], 'distribution': s['distribution'],
        'traces_validated_against_impl': len(terms) + len(tterms) + len(vterms), 'disagreements': len(bad) + len(tbad) + len(vbad),
        'exhaustive': ctx.thorough(),
        'exhaustive_what': 'thorough: every spelling of every documented path of length <= 5, all one-hole x one-hole embeddings of the representative atoms' if ctx.thorough() else 'quick: seeded sample of the depth-2 embeddings',
        'extra': s.get('extra', {}),
    })
    vf.finish(ctx, 'proof', fails)


def replay(path):
    """implementation vs reference (Go), then the model (repaired and original
    automaton) evaluated inside Coq on the same ExprNode tree"""
    ctx = vf.Ctx('C11', 'quick', 1)
    ok, log = vf.build_harness(ctx, ['c11'])
    if not ok:
        print(log); return 2
    rc, out = vf.sh([os.path.join(vf.BIN, 'c11'), '-replay', path, '-repo', vf.REPO], timeout=300)
    print(out, end='')
    term = [l.split(':', 1)[1].strip() for l in out.split('\n') if l.startswith('model input:')]
    if term:
        ok, log = vf.coq_make(['Expr/UntrustedObs.vo'])
        f = os.path.join(ctx.out, 'replay_model.v')
        open(f, 'w').write('From AL Require Import Base.Corr Expr.Untrusted Expr.UntrustedObs.\n'
                           'From Coq Require Import String List NArith.\nImport ListNotations.\nOpen Scope string_scope.\n'
                           'Definition e : expr := %s.\n'
                           'Definition model_repaired := Eval vm_compute in run_c11 e.\nPrint model_repaired.\n'
                           'Definition model_original := Eval vm_compute in run_c11_old e.\nPrint model_original.\n' % term[0])
        rc2, out2 = vf.sh(['coqc', '-R', vf.COQ, 'AL', f], cwd=ctx.out, timeout=300)
        print('model (tuples [line; col; kind; leaf indices]):')
        print(out2.strip())
    return rc
