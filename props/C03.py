"""C03 — every ${{ }} placeholder in a workflow is checked.
Proof: coq/Props/C03.v over coq/Wf/{WfAst,Routing,RoutingCovers,RoutingProofs,
RoutingTemplate,RoutingTies}.v.  Ties: T — coq/Gen/GenRouteChecks.v (call sites
of rule_expression.go, struct fields of ast.go, ASTs of the every-key workflows
as parsed by the current parse.go) regenerated on every run; K — the ASTs the
real parser produces for the mutated every-key workflows, with the scalars at
which RuleExpression reported a syntax error, against the model's prediction
(vm_compute).  Oracle: the injection test of the property, exhaustive over the
scalar value positions of every clean corpus workflow."""
import os, subprocess, json
from lib import vf

MANIFEST = {
 'text': "Coq theorems: (1) routed_complete — over a record mirror of the whole workflow AST (every *String/[]*String/*Bool/*Int/*Float/RawYAMLValue field) and a function-by-function model of RuleExpression's traversal (VisitWorkflowPre/Post, VisitJobPre/Post, VisitStep and all check* helpers, call site by call site), every scalar the AST holds at a value position is handed to an expression checker or is exempt (event names, permissions values), for all workflows: any number of events, jobs, steps, map entries and matrix values of any nesting depth (structural induction), under the nil-ness invariants of parse.go that the traversal branches on; the pre-fix traversal is refuted by witnesses (include element expression, workflow_call `required`). (2) malformed_placeholder_reported — for ANY lexer/parser whose error positions lie inside its input, the model of checkExprsIn reports a syntax diagnostic on the scalar's line at a column inside the scalar whenever the scan reaches a `${{` whose remainder is not an expression (position arithmetic incl. the quoted-scalar offset and several placeholders). Ties re-checked on every run: the list of all `rule.check*(...)` call sites of rule_expression.go (function, callee, AST field of the argument resolved with go/types, arguments) and the list of all struct fields of ast.go must equal the hand lists of the model; the ASTs of three synthetic every-key workflows as produced by the current parser must populate every value field, satisfy the invariants and exercise every AST-reading call site of the model; the model's prediction (which scalar draws an expression syntax error) is compared by vm_compute with RuleExpression on the ASTs of the mutated every-key workflows. Oracle (the property verbatim, exhaustive over positions): every scalar value position of every clean corpus workflow (testdata/ok, clean testdata/examples, .github/workflows, clean test-project workflows, every-key workflows) x 3 malformed placeholder shapes is linted with Linter.Lint and must draw a diagnostic inside the scalar, an expression syntax error unless exempt.",
 'note': "Trusted: Coq kernel; the hand-written AST mirror and traversal model (tied by T and K, not proved equal to the Go code); the translator (go/parser + go/types with stubbed imports); the harness (yaml.v3 node walk, node-level replacement and re-encoding, message-prefix classes of syntax errors, AST dumper). The expression lexer/parser is abstract in theorem (2) (its locality is a hypothesis; the oracle observes it on the real one). Not modelled: yaml.v3, parse.go itself (its effect enters through the every-key ASTs and the invariants wfb, which the correspondence asserts on every dumped AST), the semantic checks. Null scalars (a key without a value) are not scalar values and are not replaced.",
 'technique': "machine-checked proof in Coq (structural induction over the whole workflow AST; abstract-parser position arithmetic) + regenerated call-site/field tables + vm_compute correspondence on mutated ASTs + exhaustive placeholder-injection oracle",
}

GEN = os.path.join(vf.COQ, 'Gen', 'GenRouteChecks.v')


def _run_harness(ctx):
    ok, log = vf.build_harness(ctx, ['c03'])
    if not ok:
        ctx.broken.append('harness does not build against the tree under check: ' + log[-600:])
        return None
    rc, out = vf.sh([os.path.join(vf.BIN, 'c03'), '-gen', GEN, '-repo', vf.REPO], env=vf.goenv(), timeout=300)
    if rc != 0:
        ctx.broken.append('translator (c03 -gen) failed: ' + out[-600:])
    rc, out = vf.sh([os.path.join(vf.BIN, 'c03'), '-seed', str(ctx.seed), '-tier', ctx.tier, '-repo', vf.REPO, '-out', ctx.out],
                    env=vf.goenv(), timeout=3000)
    if rc != 0:
        ctx.broken.append('harness c03 failed: ' + out[-600:])
        return None
    return vf.load_json(os.path.join(ctx.out, 'summary.json'))


def run(ctx):
    s = _run_harness(ctx)
    nthm, ndis, _ = vf.check_props(ctx)
    gate = vf.grep_gate()
    if gate:
        ctx.broken.append('forbidden constructs in coq/: ' + '; '.join(gate[:5]))
    if s is None:
        vf.finish(ctx, 'proof', [])
    if ndis < nthm or any('coq build' in b or 'does not compile' in b for b in ctx.broken):
        ctx.notes.append('a translator tie or proof no longer compiles: the failing-input search is the exhaustive injection oracle of this run (%d evaluations)' % s['evaluations'])
    terms = vf.read_lines(os.path.join(ctx.out, 'cases.txt'))
    srcs = vf.read_lines(os.path.join(ctx.out, 'sources.jsonl'))
    bad, err = vf.coq_cases(ctx, 'C03', ['Wf.WfAst', 'Wf.Routing'], 'workflow', 'predict', terms, shard=max(4, (len(terms) + 15) // 16))
    if err:
        ctx.broken.append('correspondence cases did not evaluate: ' + err[-600:])
    if bad:
        ctx.broken.append('correspondence C03 (model predict vs RuleExpression on mutated every-key ASTs): %d of %d cases disagree' % (len(bad), len(terms)))
        src = json.loads(srcs[bad[0]])
        ctx.first_disagreement = {'case_index': bad[0], 'file': src['file'], 'path': src['path'], 'shape': src['shape'],
                                  'scalar_at': [src['line'], src['col']], 'diagnostics': src['diagnostics'][:1500],
                                  'workflow': src['workflow'][:6000]}
    ctx.coverage.update({
        'obligations': nthm, 'discharged': ndis,
        'evaluations': s['evaluations'], 'distinct_nontrivial': s['distinct_nontrivial'],
        'rule': s['rule'], 'samples': s['samples'], 'distribution': s['distribution'],
        'traces_validated_against_impl': len(terms), 'disagreements': len(bad),
        'exhaustive': True,
        'positions': s['extra']['positions'], 'distinct_canonical_positions': s['extra']['distinct_canonical_positions'],
        'clean_workflows': s['extra']['clean_workflows'], 'skipped_workflows': s['extra']['skipped_workflows'],
        'shapes': s['extra']['shapes'],
    })
    ctx.notes.append('exhaustive over the scalar value positions of the corpus (not over all workflows): the universal claim is the Coq theorem over the AST model')
    vf.finish(ctx, 'proof', s['oracle_failures'])


def replay(path):
    ctx = vf.Ctx('C03', 'quick', 1)
    ok, log = vf.build_harness(ctx, ['c03'])
    if not ok:
        print(log); return 2
    return subprocess.call([os.path.join(vf.BIN, 'c03'), '-replay', path], env=vf.goenv())
