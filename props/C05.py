"""C05 — references to steps/needs/matrix/inputs/secrets/jobs resolve by scope.
Proof: coq/Props/C05.v over coq/Wf/Scope.v.  Tie: K between the scope model
(evaluated by vm_compute on the shapes dumped from the parsed AST) and the real
linter's verdict for references planted one per line; oracle = the declarative
scope rule of the property on the generator's own description."""
import os, subprocess, json
from lib import vf

MANIFEST = {
 'text': "Coq theorems over the model of the context types RuleExpression builds (steps registered after a step's own fields are checked; needs = direct, existing dependencies except the job itself; matrix = row keys + include keys, loosened by an expression at matrix / include / include-element level; inputs = union of workflow_call and workflow_dispatch; secrets = declared + automatic, or a string map when undeclared; jobs context for workflow_call outputs; for the default of a workflow_call input the loop of VisitWorkflowPre in declaration order, characterised as 'reported iff not declared strictly earlier', never missing an undeclared name, refuted against the property for a declared later / same input - recorded finding - and the repaired loop proved to be the property) composed with the checker's object-dereference rule: a reference is reported undefined iff the name is not in scope there — for every workflow shape, every step index and every name (induction over steps / needs / include lists). Tie: random workflow shapes with one reference per line linted by the real linter; the verdict per reference is compared with the model evaluated by vm_compute on the AST-derived shapes, and with the property's declarative rule computed from the generator's own description.",
 'note': "Trusted: Coq kernel; the hand-written scope model (correspondence-checked); value types are abstracted (only which names exist and strict/loose matter), typed include expressions and outputs of actions / reusable workflows belong to C06 / C14 and are oracle parameters (st_outputs, j_call); property names are lower-cased by the parser (C04/C08).",
 'technique': "machine-checked proof in Coq (scope construction by induction over steps/needs/matrix) + vm_compute correspondence + declarative-scope oracle",
}

def run(ctx):
    ok, log = vf.build_harness(ctx, ['c05'])
    if not ok:
        ctx.broken.append('harness does not build against /repo: ' + log[-400:])
        vf.finish(ctx, 'proof', [])
    nthm, ndis, _ = vf.check_props(ctx)
    gate = vf.grep_gate()
    if gate:
        ctx.broken.append('forbidden constructs in coq/: ' + '; '.join(gate[:5]))
    n = 300 if not ctx.thorough() else 6000
    rc, out = vf.sh([os.path.join(vf.BIN, 'c05'), '-seed', str(ctx.seed), '-n', str(n), '-out', ctx.out], timeout=3000)
    if rc != 0:
        ctx.broken.append('harness c05 failed: ' + out[-400:])
        vf.finish(ctx, 'proof', [])
    s = vf.load_json(os.path.join(ctx.out, 'summary.json'))
    terms = vf.read_lines(os.path.join(ctx.out, 'cases.txt'))
    bad, err = vf.coq_cases(ctx, 'C05', ['Wf.Scope', 'Wf.ScopeObs'], '(wfS * list refS)', 'run_scope', terms, shard=40, ordered=True)
    if err:
        ctx.broken.append('correspondence cases did not evaluate: ' + err[-400:])
    if bad:
        ctx.broken.append('correspondence C05 (scope model vs linter verdicts): %d of %d workflows disagree' % (len(bad), len(terms)))
        ctx.first_disagreement = {'case': terms[bad[0]][:4000]}
    dterms = vf.read_lines(os.path.join(ctx.out, 'cases_defaults.txt'))
    bad2, err2 = vf.coq_cases(ctx, 'C05d', ['Wf.InputDefaults'], '(list (string * list string))', 'run_defaults', dterms, shard=200, ordered=True)
    if err2:
        ctx.broken.append('correspondence cases (input defaults) did not evaluate: ' + err2[-400:])
    if bad2:
        ctx.broken.append('correspondence C05 (model of the declaration-order loop over workflow_call inputs, Wf/InputDefaults.v visit, vs linter verdicts for references in input defaults): %d of %d workflows disagree' % (len(bad2), len(dterms)))
        if not bad:
            ctx.first_disagreement = {'case': dterms[bad2[0]][:4000]}
    terms = terms + dterms
    bad = bad + bad2
    ctx.coverage.update({
        'obligations': nthm, 'discharged': ndis,
        'evaluations': s['evaluations'], 'distinct_nontrivial': s['distinct_nontrivial'],
        'rule': s['rule'], 'samples': s['samples'], 'distribution': s['distribution'],
        'traces_validated_against_impl': len(terms), 'disagreements': len(bad), 'exhaustive': False,
    })
    vf.finish(ctx, 'proof', s['oracle_failures'])

def replay(path):
    ctx = vf.Ctx('C05', 'quick', 1)
    ok, log = vf.build_harness(ctx, ['c05'])
    if not ok:
        print(log); return 2
    return subprocess.call([os.path.join(vf.BIN, 'c05'), '-replay', path])
