"""C04 — the expression parser accepts exactly the documented grammar.
Proof: coq/Props/C04.v over the models coq/Expr/{Token,Lexer,Parser,ParseSrc}.v and
the declarative grammar coq/Expr/Grammar.v.  Tie: correspondence (K) between the
model (extracted to OCaml for volume, vm_compute for a seeded subset) and
actionlint.LexExpression / ExprParser.Parse on exhaustive and random inputs;
property oracle: an independent reference tokenizer + recogniser written from
the grammar text, run on the implementation side."""
import json, os, shutil, subprocess, sys
from lib import vf

MANIFEST = {
  'text': "Coq theorems. Parser: the model of ExprParser.Parse accepts a token list iff the documented stratified grammar (or > and > comparison > ! > postfix > primary, an inductive derivation relation written from the grammar text) derives it, the tree is the unique one the derivation denotes, trees built without grouping tokens are stratified by precedence, a rejected list yields exactly one diagnostic located at one of its tokens or at the end marker, the fuel always suffices. Lexer: the model of ExprLexer is sound and complete for a declarative token specification (identifiers with - and _, strings with '' as only escape, JSON-form numbers + 0x hex as implemented, operators, whitespace, }} terminator), every token's offset is the byte index of its first character, whitespace between tokens only changes positions. Source level: text is accepted iff it tokenises into a sentence, otherwise exactly one diagnostic whose offset lies within the text; no fuel exhaustion, no panic; the parser with one token of look-ahead pulling from the lexer on demand (the code's structure, lexer error wins) is proved equal to the list-based model. Unbounded (all token lists / all strings). The models are tied to the code by running LexExpression and ExprParser.Parse on every string up to length 4/5 over a 28-symbol lexical alphabet, every sequence of up to 4/5 canonical lexemes, every ASCII character in 20 lexical contexts, random sentences with random whitespace and their mutants, and comparing token kinds+positions, verdict, diagnostic class+position and the whole tree with the extracted model (943 240 / 23.7 M inputs) and with vm_compute on a seeded subset. The property itself is evaluated on the implementation by a reference tokenizer+recogniser written from the grammar text (verdict and tree), by a position check of every diagnostic, and for a subset through Linter.Lint (exactly one expression diagnostic at the offending character inside the placeholder).",
  'note': "Trusted: Coq kernel; hand-written models (correspondence-checked, not proved equal to the Go code); harness generators, observable rendering, reference recogniser; OCaml extraction + driver glue (cross-checked against vm_compute on the seeded subset). strconv.ParseFloat is an oracle input, strconv.ParseInt(_,0,32) is modelled on lexer-valid literals. Inputs are valid UTF-8 without NUL/BOM (text/scanner's own error callbacks are outside the model). Known findings: number literals with leading zeros in exponent / hex digits and literals outside int32 / float64 are rejected although the documented number forms admit them.",
  'technique': "machine-checked proof in Coq (mutual induction over fuel and over derivations) + extracted-model / vm_compute correspondence against the Go implementation + reference-recogniser oracle",
 }

def build_model(ctx):
    """extract the model to OCaml and build the evaluator; returns path or None"""
    d = os.path.join(ctx.out, 'ml')
    os.makedirs(d, exist_ok=True)
    ok, log = vf.coq_make(['Expr/ParseSrc.vo'])
    if not ok:
        ctx.broken.append('coq build of Expr/ParseSrc.v failed')
        ctx.coq_log = log
        return None
    shutil.copyfile(os.path.join(vf.COQ, 'Extract', 'ExprSyntaxExtract.v'), os.path.join(d, 'ExprSyntaxExtract.v'))
    rc, out = vf.sh(['coqc', '-R', vf.COQ, 'AL', 'ExprSyntaxExtract.v'], cwd=d, timeout=600)
    if rc != 0:
        ctx.broken.append('extraction failed: ' + out[-300:])
        return None
    shutil.copyfile(os.path.join(vf.ROOT, 'ocaml', 'c04', 'driver.ml'), os.path.join(d, 'driver.ml'))
    rc, out = vf.sh(['ocamlfind', 'ocamlopt', '-O3', '-unboxed-types', '-w', '-a', '-o', 'c04_model', 'c04_model.mli', 'c04_model.ml', 'driver.ml'], cwd=d, timeout=600)
    if rc != 0:
        rc, out = vf.sh(['ocamlfind', 'ocamlopt', '-w', '-a', '-o', 'c04_model', 'c04_model.mli', 'c04_model.ml', 'driver.ml'], cwd=d, timeout=600)
    if rc != 0:
        ctx.broken.append('ocaml build of the extracted model failed: ' + out[-300:])
        return None
    return os.path.join(d, 'c04_model')

def run(ctx):
    ok, log = vf.build_harness(ctx, ['c04'])
    if not ok:
        ctx.broken.append('harness does not build against /repo: ' + log[-400:])
        vf.finish(ctx, 'proof', [])
    nthm, ndis, _ = vf.check_props(ctx)
    gate = vf.grep_gate()
    if gate:
        ctx.broken.append('forbidden constructs in coq/: ' + '; '.join(gate[:5]))
    model = build_model(ctx)
    n = 20000 if not ctx.thorough() else 300000
    cmd = [os.path.join(vf.BIN, 'c04'), '-seed', str(ctx.seed), '-n', str(n), '-out', ctx.out, '-tier', ctx.tier]
    if model:
        cmd += ['-model', model]
    rc, out = vf.sh(cmd, timeout=3000)
    if rc != 0:
        ctx.broken.append('harness c04 failed: ' + out[-400:])
        vf.finish(ctx, 'proof', [])
    s = vf.load_json(os.path.join(ctx.out, 'summary.json'))
    x = s.get('extra', {})
    terms = vf.read_lines(os.path.join(ctx.out, 'cases.txt'))
    srcs = vf.read_lines(os.path.join(ctx.out, 'sources.jsonl'))
    bad, err = vf.coq_cases(ctx, 'C04', ['Expr.ParseSrc'], '((string * list string))', 'run_c04', terms, shard=40, ordered=True)
    if err:
        ctx.broken.append('correspondence cases did not evaluate: ' + err[-400:])
    if bad:
        ctx.broken.append('correspondence C04 (model run_c04 under vm_compute vs LexExpression/ExprParser.Parse): %d of %d cases disagree' % (len(bad), len(terms)))
        ctx.first_disagreement = {'case_index': bad[0], 'input': json.loads(srcs[bad[0]]), 'model_term': terms[bad[0]][:4000]}
    if model:
        if x.get('model_error'):
            ctx.broken.append('extracted model evaluator: ' + x['model_error'][:300])
        if x.get('model_evaluated', 0) + x.get('model_skipped', 0) != s['evaluations']:
            ctx.broken.append('extracted model evaluated %s of %s inputs' % (x.get('model_evaluated'), s['evaluations']))
        if x.get('model_mismatches_total'):
            ctx.broken.append('correspondence C04 (extracted model vs LexExpression/ExprParser.Parse): %d of %d inputs disagree' % (x['model_mismatches_total'], s['evaluations']))
            if not getattr(ctx, 'first_disagreement', None):
                ctx.first_disagreement = x['model_mismatches'][0]
    ctx.coverage.update({
        'obligations': nthm, 'discharged': ndis,
        'evaluations': s['evaluations'], 'distinct_nontrivial': s['distinct_nontrivial'],
        'rule': s['rule'], 'samples': s['samples'], 'distribution': s['distribution'],
        'traces_validated_against_impl': x.get('model_evaluated', 0), 'validated_in_coq_vm_compute': len(terms),
        'disagreements': len(bad) + (x.get('model_mismatches_total') or 0),
        'oracle_failures_by_class': x.get('oracle_failures_by_class'),
        'exhaustive': True,
    })
    vf.finish(ctx, 'proof', s['oracle_failures'])

def replay(path):
    ctx = vf.Ctx('C04', 'quick', 1)
    ok, log = vf.build_harness(ctx, ['c04'])
    if not ok:
        print(log); return 2
    return subprocess.call([os.path.join(vf.BIN, 'c04'), '-replay', path])
