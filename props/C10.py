"""C10 — multi-file runs: per-file results are isolated and race-free.
Proof: coq/Props/C10.v over coq/Multi/*.v.  Tie: K on project attribution
histories (Projects.At vs the model); oracles on the implementation: nearest
root, alone-vs-together per-file diagnostics, table fingerprints; the harness
binary is built with the Go race detector."""
import os, subprocess, json
from lib import vf

MANIFEST = {
 'text': "Coq theorems: (1) a file is attributed to the nearest enclosing repository root for every history of earlier look-ups, over paths as component lists (prefix-sharing siblings and nested repositories covered; the pre-fix string-prefix cache is refuted by witnesses); (2) for EVERY interleaving of the atomic cache operations of all files of a run (FindMetadata / WriteWorkflowCallEvent on the shared per-project caches), each file's result equals its result when linted alone, provided the callees are well-formed (loads succeed, AST-derived interface = file-derived interface) — by a consistency invariant over schedules; without that proviso the once-per-run error is refuted to be order independent (recorded finding); (2b) at the granularity the code really has - a lookup is two critical sections, probe and (after the file was read) commit - for every schedule of any number of files each callee is answered `not cached` (= its own defects are reported) never twice, and exactly once when all files that use it are finished; the values delivered are the file's under every schedule; the protocol before the repair cf88990 is refuted (two reports); (3) the operations through which rule code touches shared tables leave them unchanged and perform no write (pre-fix sortedQuotes / checkMatrixExpression refuted); (4) a trace without unguarded writes has no data race; (5) every package-level variable of the source (re-listed on every run) is a known read-only table / pattern / colour object / build string and no statement of the package writes one (assignment, ++, sort / delete / clear / copy on it). Tie: attribution histories on real directory trees evaluated by Projects.At and by the model (vm_compute); alone-vs-together linting of generated repositories in random subsets/orders/GOMAXPROCS; runs whose files share defective callees under the free scheduler and under the all-probes-first schedule forced through the verif hook VerifCacheHook, the number of reports per callee compared with the model (run_once, vm_compute); deep fingerprints of the exported tables; Go race detector. Partial: the Go memory model and goroutine scheduling are sampled, not proved; the cache protocol is proved at the granularity of mutex-protected critical sections (probe / commit).",
 'note': "Trusted: Coq kernel; hand-written models of project.go, the cache protocol and the table-touching operations (correspondence-checked for attribution, oracle-checked for isolation/tables); the file system enters as an oracle (which directories are roots, what a callee file parses to). The harness needs cgo (gcc) for -race; if the race build is unavailable the check still runs without the detector and says so in the evidence.",
 'technique': "machine-checked proof in Coq (invariant over all schedules of cache operations; nearest-root attribution over component paths) + vm_compute correspondence + alone-vs-together oracle under the Go race detector",
}

GEN = os.path.join(vf.COQ, 'Gen', 'GenGlobals.v')


def regen(ctx, bindir):
    """re-list the package-level variables of the package and the statements that write one;
    write Gen only when changed"""
    tmp = os.path.join(ctx.out, 'GenGlobals.v')
    rc, out = vf.sh([os.path.join(bindir, 'c10'), '-extract-globals', vf.REPO, '-gen', tmp], timeout=120)
    if rc != 0:
        ctx.broken.append('listing the package-level variables failed: ' + out[-400:])
        return
    new = open(tmp).read()
    old = open(GEN).read() if os.path.exists(GEN) else None
    if new != old:
        open(GEN, 'w').write(new)
        ctx.notes.append('coq/Gen/GenGlobals.v regenerated (content changed)')


def run(ctx):
    ok, log = vf.build_harness(ctx, ['c10'], race=True)
    bindir = vf.BIN + '-race'
    race = True
    if not ok:
        ok2, log2 = vf.build_harness(ctx, ['c10'])
        if not ok2:
            ctx.broken.append('harness does not build against /repo: ' + log2[-400:])
            vf.finish(ctx, 'proof', [])
        bindir, race = vf.BIN, False
        ctx.notes.append('race detector unavailable: ' + log[-200:])
    regen(ctx, bindir)
    nthm, ndis, _ = vf.check_props(ctx)
    if 'Globals' in (getattr(ctx, 'coq_log', '') or ''):
        g = open(GEN).read()
        ctx.broken.append('coq/Multi/Globals.v: the package has a package-level variable that is not one of the known ones, or a statement that writes one; writes now: '
                          + ' '.join(l.strip() for l in g.split('package_var_writes')[-1].split('\n') if l.strip().startswith('(')))
    gate = vf.grep_gate()
    if gate:
        ctx.broken.append('forbidden constructs in coq/: ' + '; '.join(gate[:5]))
    nattr, nrepo, maxf, nonce = (300, 6, 4, 60) if not ctx.thorough() else (3000, 60, 6, 1500)
    env = vf.goenv(); env['GORACE'] = 'halt_on_error=0 exitcode=66'
    p = subprocess.run([os.path.join(bindir, 'c10'), '-seed', str(ctx.seed), '-nattr', str(nattr), '-nrepo', str(nrepo),
                        '-maxfiles', str(maxf), '-nonce', str(nonce), '-out', ctx.out], env=env, stdout=subprocess.PIPE, stderr=subprocess.PIPE, text=True, errors='replace', timeout=3000)
    fails = []
    if 'DATA RACE' in p.stderr:
        i = p.stderr.index('DATA RACE')
        fails.append({'what': 'the Go race detector reports a data race in a multi-file run', 'key': 'race:' + ' '.join(p.stderr[i:i + 400].split()[:40]), 'report': p.stderr[i - 20:i + 3000]})
    elif 'concurrent map' in p.stderr:
        fails.append({'what': 'Go runtime fatal error in a multi-file run', 'key': 'fatal:concurrent-map', 'report': p.stderr[-3000:]})
    elif p.returncode != 0:
        cur = os.path.join(ctx.out, 'current.json')
        if os.path.exists(cur) and ('panic:' in p.stderr or 'fatal error:' in p.stderr):
            # a goroutine of the run died: the run that was in progress is the failing input
            i = max(p.stderr.find('panic:'), p.stderr.find('fatal error:'))
            first = ' '.join(p.stderr[i:i + 300].split()[:25])
            fails.append({'what': 'a multi-file run crashes the process (Go runtime panic in a worker goroutine): ' + first,
                          'key': 'crash:' + first[:120], 'input': json.load(open(cur)), 'report': p.stderr[i:i + 3000]})
            vf.finish(ctx, 'proof', fails)
        ctx.broken.append('harness c10 failed (rc %d): %s' % (p.returncode, (p.stderr or p.stdout)[-400:]))
        vf.finish(ctx, 'proof', fails)
    s = vf.load_json(os.path.join(ctx.out, 'summary.json'))
    terms = vf.read_lines(os.path.join(ctx.out, 'cases_attr.txt'))
    bad, err = vf.coq_cases(ctx, 'C10a', ['Multi.Project', 'Multi.ProjectObs'], '(list path * list path)', 'run_attr', terms, shard=100, ordered=True)
    if err:
        ctx.broken.append('correspondence cases did not evaluate: ' + err[-400:])
    if bad:
        ctx.broken.append('correspondence C10/attribution (Projects.At vs model at_): %d of %d histories disagree' % (len(bad), len(terms)))
        ctx.first_disagreement = {'case': terms[bad[0]][:3000]}
    once = vf.read_lines(os.path.join(ctx.out, 'cases_once.txt'))
    bad2, err2 = vf.coq_cases(ctx, 'C10o', ['Multi.CacheSplit', 'Multi.CacheSplitObs'], '(list (list string) * list string)', 'run_once', once, shard=100, ordered=True)
    if err2:
        ctx.broken.append('correspondence cases (once per run) did not evaluate: ' + err2[-400:])
    if bad2:
        ctx.broken.append('correspondence C10/once-per-run (number of reports of a callee\'s own defect in a run vs the model of the two-section lookup, run_once): %d of %d runs disagree' % (len(bad2), len(once)))
        if not bad:
            ctx.first_disagreement = {'case': once[bad2[0]][:3000]}
    terms = terms + once
    bad = bad + bad2
    ctx.coverage.update({
        'obligations': nthm, 'discharged': ndis,
        'evaluations': s['evaluations'], 'distinct_nontrivial': s['distinct_nontrivial'],
        'rule': s['rule'], 'samples': s['samples'], 'distribution': s['distribution'],
        'traces_validated_against_impl': len(terms), 'disagreements': len(bad),
        'race_detector': race, 'exhaustive': False,
    })
    ctx.notes.append('partial: Go memory model / scheduler sampled by the race detector and repetition, not proved')
    vf.finish(ctx, 'proof', fails + s['oracle_failures'])

def replay(path):
    print(open(path).read()[:4000])
    print('REPLAY: generated repositories are rebuilt from the seed; run `VERIF_SEED=<seed> ./check C10 quick`')
    return 1
