"""C17 — filter patterns are validated exactly by the documented glob syntax.
Proof: coq/Props/C17.v over the model coq/Glob/Glob.v (scanner-level model of
glob.go) and the spec coq/Glob/GlobSpec.v.  Tie: the extracted model (OCaml)
is compared with ValidateRefGlob/ValidatePathGlob on every string of the
exhaustive enumeration and on random strings; a seeded subset is evaluated by
vm_compute inside Coq.  Oracle: a reference validator written from the
documentation + the metamorphic facts of the property."""
import hashlib, json, os, shutil, subprocess
from lib import vf

MANIFEST = {
  'text': "Coq theorems over a literal model of glob.go (text/scanner with one character of look-ahead, validateNext, the [...] loop, ValidateRefGlob/ValidatePathGlob) and an inductive definition of the documented filter-pattern syntax: the validator reports nothing iff the pattern is valid (both modes, all strings not starting with U+FEFF), every pattern accepted as a ref filter is accepted as a path filter, every reported column lies inside the pattern at the character the message names (column 0 only for the empty pattern, after a line break, or a leading space), the fuel supplied (length+1) always suffices (termination), and the rule_glob column arithmetic lands on that character. Unbounded (all strings over all code points, including NUL and invalid UTF-8 bytes). Tie: exhaustive comparison of the extracted model with the real validators on all strings up to length 5 (quick) / 6 (thorough) over a 21-character alphabet, up to length 3 / 4 over a 27-character alphabet (NUL, BOM, invalid byte, 4-byte character), random strings to length 40, and a seeded subset evaluated by vm_compute.",
  'note': "Trusted: Coq kernel; the hand-written model (correspondence-checked, not proved equal to the Go code); the reading of text/scanner's Pos/Next/Peek that the scanner part of the model encodes; extraction (ExtrOcamlBasic) and the OCaml driver for the bulk of K (the vm_compute subset does not depend on it); harness message->class table and the reference validator. Known findings: leading U+FEFF is skipped by text/scanner; scan errors (NUL, invalid UTF-8) carry the column before the character. The model is of the tree with repo_patches/glob/01..04 applied.",
  'technique': "machine-checked proof in Coq (induction over the scanner's run against an inductive grammar) + exhaustive extracted-model correspondence + vm_compute subset",
 }

OCAML = os.path.join(vf.ROOT, 'ocaml', 'c17')


def build_model(ctx):
    """Extract the model to OCaml in the build directory and compile the
    driver.  Returns the path of the evaluator or None."""
    ok, log = vf.coq_make(['Extract/GlobExtract.vo'])
    if not ok:
        ctx.broken.append('coq build of Extract/GlobExtract.v failed')
        ctx.coq_log = log
        return None
    d = os.path.join(ctx.out, 'extract')
    os.makedirs(d, exist_ok=True)
    open(os.path.join(d, 'X.v'), 'w').write(
        'From AL Require Import Extract.GlobExtract.\nExtraction "globmodel.ml" glob_obs.\n')
    rc, out = vf.sh(['coqc', '-R', vf.COQ, 'AL', 'X.v'], cwd=d, timeout=300)
    if rc != 0:
        ctx.broken.append('extraction of the C17 model failed: ' + out[-300:])
        return None
    shutil.copyfile(os.path.join(OCAML, 'driver.ml'), os.path.join(d, 'driver.ml'))
    exe = os.path.join(vf.BIN, 'c17model')
    rc, out = vf.sh(['ocamlfind', 'ocamlopt', '-w', '-a', 'globmodel.mli', 'globmodel.ml', 'driver.ml', '-o', exe], cwd=d, timeout=300)
    if rc != 0:
        ctx.broken.append('OCaml build of the extracted C17 model failed: ' + out[-300:])
        return None
    return exe


def run(ctx):
    ok, log = vf.build_harness(ctx, ['c17'])
    if not ok:
        ctx.broken.append('harness does not build against /repo: ' + log[-400:])
        vf.finish(ctx, 'proof', [])
    nthm, ndis, _ = vf.check_props(ctx)
    gate = vf.grep_gate()
    if gate:
        ctx.broken.append('forbidden constructs in coq/: ' + '; '.join(gate[:5]))
    exe = build_model(ctx)
    if ctx.thorough():
        args = ['-len', '6', '-extlen', '4', '-n', '3000000', '-coq', '4000', '-lint', '3000']
    else:
        args = ['-len', '5', '-extlen', '3', '-n', '200000', '-coq', '300', '-lint', '300']
    cmd = [os.path.join(vf.BIN, 'c17'), '-seed', str(ctx.seed), '-out', ctx.out, '-workers', '8'] + args
    if exe:
        cmd += ['-model', exe]
    rc, out = vf.sh(cmd, timeout=3000)
    if rc != 0:
        # the harness validates with 8 goroutines at once (as LintFiles validates the filters of several
        # files at once).  If it dies there but runs through with ONE worker, the validators are not
        # safe for concurrent use: that is the failing situation
        one = [os.path.join(vf.BIN, 'c17'), '-seed', str(ctx.seed), '-out', ctx.out, '-workers', '1',
               '-len', '3', '-extlen', '2', '-n', '20000', '-coq', '10', '-lint', '10']
        rc1, out1 = vf.sh(one + (['-model', exe] if exe else []), timeout=1200)
        if rc1 == 0 and ('fatal error' in out or 'panic' in out or 'SIGSEGV' in out):
            i = max(out.find('fatal error'), out.find('panic:'), 0)
            vf.finish(ctx, 'proof', [{'what': 'validating patterns in 8 goroutines at once crashes the process (a run with one goroutine over the same kind of patterns does not): the validators share state, '
                                              'so the filters of several files cannot be validated concurrently. First lines of the crash: ' + ' '.join(out[i:i + 400].split()[:40]),
                                      'key': 'concurrent-validation:crash', 'pattern': 'any two patterns validated at the same time', 'report': out[i:i + 3000]}])
        ctx.broken.append('harness c17 failed: ' + out[-400:])
        vf.finish(ctx, 'proof', [])
    s = vf.load_json(os.path.join(ctx.out, 'summary.json'))
    x = s['extra']
    # K, bulk: extracted model against the implementation
    if not x.get('model_evaluated'):
        ctx.broken.append('correspondence C17: the extracted model could not be evaluated')
    if x['disagreement_count']:
        d0 = x['disagreements'][0]
        ctx.broken.append('correspondence C17 (model validate vs Validate%sGlob): %d disagreements, first on %s' % (
            'Ref' if d0['mode'] == 'ref' else 'Path', x['disagreement_count'], d0['pattern']))
        ctx.first_disagreement = d0
    # K, in Coq: seeded subset by vm_compute
    terms = vf.read_lines(os.path.join(ctx.out, 'cases.txt'))
    srcs = vf.read_lines(os.path.join(ctx.out, 'sources.jsonl'))
    bad, err = vf.coq_cases(ctx, 'C17', ['Glob.Glob', 'Glob.GlobObs'], '(bool * list N)', 'run_glob', terms, shard=150, ordered=True)
    if err:
        ctx.broken.append('correspondence cases did not evaluate: ' + err[-400:])
    if bad:
        ctx.broken.append('correspondence C17 (vm_compute subset): %d of %d cases disagree' % (len(bad), len(terms)))
        if not getattr(ctx, 'first_disagreement', None):
            ctx.first_disagreement = dict(json.loads(srcs[bad[0]]), model_term=terms[bad[0]][:2000])
    cterms = vf.read_lines(os.path.join(ctx.out, 'colcases.txt'))
    cbad, cerr = vf.coq_cases(ctx, 'C17col', ['Glob.Glob', 'Glob.GlobObs'], '(N * bool * N)', 'run_gcol', cterms, shard=1000, ordered=True)
    if cerr:
        ctx.broken.append('column cases did not evaluate: ' + cerr[-400:])
    if cbad:
        ctx.broken.append('correspondence C17 (glob_error_col vs rule_glob positions): %d of %d cases disagree, first %s' % (len(cbad), len(cterms), cterms[cbad[0]]))
    ctx.coverage.update({
        'obligations': nthm, 'discharged': ndis,
        'evaluations': s['evaluations'], 'distinct_nontrivial': s['distinct_nontrivial'],
        'rule': s['rule'], 'samples': s['samples'], 'distribution': s['distribution'],
        'traces_validated_against_impl': s['evaluations'] if x.get('model_evaluated') else 0,
        'vm_compute_cases': len(terms) + len(cterms),
        'disagreements': x['disagreement_count'] + len(bad) + len(cbad),
        'exhaustive': True, 'exhaustive_base': x['exhaustive_base'], 'exhaustive_ext': x['exhaustive_ext'],
        'oracle_failure_counts': x['oracle_failure_counts'], 'class_table': x['class_table'],
    })
    vf.finish(ctx, 'proof', s['oracle_failures'])


def replay(path):
    ctx = vf.Ctx('C17', 'quick', 1)
    ok, log = vf.build_harness(ctx, ['c17'])
    if not ok:
        print(log); return 2
    try:
        key = json.load(open(path)).get('key', '')
    except Exception:
        key = ''
    if key.startswith('concurrent-validation'):
        # the failing situation is the interleaving: run the 8-goroutine sweep again
        rc, out = vf.sh([os.path.join(vf.BIN, 'c17'), '-seed', '1', '-out', ctx.out, '-workers', '8', '-len', '4', '-extlen', '2', '-n', '20000', '-coq', '10', '-lint', '10'], timeout=1200)
        if rc != 0:
            print(out[-1500:]); print('REPLAY: property violated: validating patterns in 8 goroutines at once crashes the process'); return 1
        s = vf.load_json(os.path.join(ctx.out, 'summary.json'))
        if s['extra'].get('oracle_failure_counts', {}).get('concurrent-validation') or s['extra'].get('oracle_failure_counts', {}).get('panic'):
            print('REPLAY: property violated: verdicts differ between concurrent and single validation'); return 1
        print('REPLAY: property holds (8 goroutines, 20000 random patterns and the enumeration to length 4)'); return 0
    cmd = [os.path.join(vf.BIN, 'c17'), '-replay', path]
    exe = build_model(ctx)
    if exe:
        cmd += ['-model', exe]
    return subprocess.call(cmd)
