"""C09 — jobs, steps and expressions are checked independently (no state leaks).
Proof: coq/Props/C09.v over coq/Wf/{RulesState,StateProofs,StateExpr}.v.
Tie: K1 = state traces of the real rules (probe pass appended to the real
visitor) against the transition-system model; K2 = sequences of expressions
checked by the real ExprSemanticsChecker on one shared matrix type against
check_new.  Oracle on the implementation: composed = union of separate, for
jobs / needs-groups / steps in subsets and orders, and per expression."""
import os, json
from lib import vf

MANIFEST = {
 'text': "Coq theorems over transition-system models of the seven stateful rule visitors (RuleExpression, RuleShellName, RuleShellcheck, RulePyflakes, RuleID, RuleRunnerLabel, RuleJobNeeds; checking functions abstract, state fields and their reads/writes/resets literal): after every job block the per-job fields are back at their initial values from any start state; for every visiting history the per-event diagnostics of a job equal those it gets as the first job after VisitWorkflowPre and depend on the other jobs only through the declarations of the jobs it needs, hence any permutation of the jobs and adding/removing a job nobody needs leave every other job's diagnostics unchanged; a step's diagnostics do not depend on earlier steps without id and RuleExpression keeps of an id-carrying step only the id and its action's outputs type; a model of the type environment threaded through the expression checker (aliasing of the shared matrix type explicit) shows that the current checker returns the environment unchanged and every expression of a sequence gets the verdict it gets alone, while the checker before the fix (checkArrayDeref wrote Deref into the shared array type) is refuted by the witness matrix.x.*.y / matrix.x.y. Tie: state dumps of the real rules after every visitor callback (probe pass inside the real Visitor) against the model, expression sequences on a shared matrix type against the model, both by vm_compute. Oracle on actionlint.Linter: pools of generated jobs, needs-groups and steps linted alone and in all ordered pairs and sampled triples (quadruples in the thorough tier); per part the multiset of (relative line, column, kind, message) must be equal. Source gate: the fields of every Rule* struct are re-listed from the .go files on every run and each is proved to be construction data, the diagnostics, a lock or one of the 17 components of the transition system (coq/Wf/RuleFields.v).",
 'note': "Trusted: Coq kernel; the hand-written models (correspondence-checked, not proved equal to the Go code); harness generators, the state dump hook (verif build tag), the message normalisation (cited positions made relative; at step level the echoed steps object is elided because the ids of earlier steps legitimately appear in it). The cyclic-dependency diagnostic is per needs graph (exactly one, only if all references resolve: property C18) and is compared at workflow level. Not modelled: the stateless checking functions (abstract), function calls / comparison / logical operators inside the expression-environment model, local actions and local reusable workflows (file system).",
 'technique': "machine-checked proof in Coq (invariants over visitor event sequences, product of certified rules; purity of the threaded expression checker by induction) + vm_compute correspondence on state traces and expression sequences + composition oracle on the real linter",
}

GEN = os.path.join(vf.COQ, 'Gen', 'GenRuleFields.v')


def regen(ctx):
    """re-list the fields of the Rule* types of the package; write Gen only when changed"""
    tmp = os.path.join(ctx.out, 'GenRuleFields.v')
    rc, out = vf.sh([os.path.join(vf.BIN, 'c09'), '-extract-fields', vf.REPO, '-gen', tmp], timeout=120)
    if rc != 0:
        ctx.broken.append('listing the fields of the rule types failed: ' + out[-400:])
        return
    new = open(tmp).read()
    old = open(GEN).read() if os.path.exists(GEN) else None
    if new != old:
        open(GEN, 'w').write(new)
        ctx.notes.append('coq/Gen/GenRuleFields.v regenerated (content changed)')


def run(ctx):
    ok, log = vf.build_harness(ctx, ['c09'])
    if not ok:
        ctx.broken.append('harness does not build against the repository (is the verif hook verif_export_state.go applied?): ' + log[-600:])
        vf.finish(ctx, 'proof', [])
    regen(ctx)
    nthm, ndis, _ = vf.check_props(ctx)
    if 'RuleFields' in (getattr(ctx, 'coq_log', '') or ''):
        import re as _re
        allowed = set(_re.findall(r'\("(\w+)", "([^"]+)", \w+\)', open(os.path.join(vf.COQ, 'Wf', 'RuleFields.v')).read()))
        now = _re.findall(r'\("(\w+)", "([^"]+)", "[^"]*"\)', open(GEN).read())
        ctx.broken.append('coq/Wf/RuleFields.v (rule_fields_known_b): a rule type has a field that is not one of the known ones (new state a rule could carry from one job into the next): '
                          + '; '.join('.'.join(x) for x in now if x not in allowed))
    gate = vf.grep_gate()
    if gate:
        ctx.broken.append('forbidden constructs in coq/: ' + '; '.join(gate[:5]))
    nexpr, nstate = (300, 120) if not ctx.thorough() else (4000, 1500)
    rc, out = vf.sh([os.path.join(vf.BIN, 'c09'), '-seed', str(ctx.seed), '-tier', ctx.tier, '-nexpr', str(nexpr),
                     '-nstate', str(nstate), '-out', ctx.out], timeout=3000)
    if rc != 0:
        ctx.broken.append('harness c09 failed: ' + out[-600:])
        vf.finish(ctx, 'proof', [])
    s = vf.load_json(os.path.join(ctx.out, 'summary.json'))
    fails = list(s['oracle_failures'])
    # K2: expression sequences
    eterms = vf.read_lines(os.path.join(ctx.out, 'cases_expr.txt'))
    bad, err = vf.coq_cases(ctx, 'C09e', ['Wf.StateExpr', 'Wf.StateObs'], '(tenv * list sexpr)', 'run_expr', eterms, shard=25, ordered=True)
    if err:
        ctx.broken.append('correspondence cases (expressions) did not evaluate: ' + err[-400:])
    if bad:
        ctx.broken.append('correspondence C09/K2 (ExprSemanticsChecker on a shared matrix type vs check_new): %d of %d sequences disagree' % (len(bad), len(eterms)))
        ctx.first_disagreement = {'case': eterms[bad[0]][:3000]}
    # K1: state traces
    sterms = vf.read_lines(os.path.join(ctx.out, 'cases_state.txt')) if os.path.exists(os.path.join(ctx.out, 'cases_state.txt')) else []
    bad1 = []
    if sterms:
        bad1, err1 = vf.coq_cases(ctx, 'C09s', ['Wf.RulesState', 'Wf.StateTrace'], 'kwf', 'run_trace', sterms, shard=max(1, (len(sterms) + 15) // 16), ordered=True)
        if err1:
            ctx.broken.append('correspondence cases (state traces) did not evaluate: ' + err1[-400:])
        if bad1:
            raw = vf.read_lines(os.path.join(ctx.out, 'state_raw.txt'))
            ctx.broken.append('correspondence C09/K1 (rule state after every visitor callback vs the transition-system model): %d of %d traces disagree' % (len(bad1), len(sterms)))
            if not getattr(ctx, 'first_disagreement', None):
                ctx.first_disagreement = {'case': sterms[bad1[0]][:3000], 'implementation_state_dump': raw[bad1[0]][:6000] if bad1[0] < len(raw) else None}
    ctx.coverage.update({
        'obligations': nthm, 'discharged': ndis,
        'evaluations': s['evaluations'], 'distinct_nontrivial': s['distinct_nontrivial'],
        'rule': s['rule'], 'samples': s['samples'][:6], 'distribution': s['distribution'],
        'traces_validated_against_impl': len(eterms) + len(sterms), 'disagreements': len(bad) + len(bad1),
        'exhaustive': False,
    })
    ctx.notes.append('partial: the stateless checking functions are abstract in the model; rules without mutable fields (matrix, credentials, events, action, env-var, glob, permissions, workflow-call, deprecated-commands, if-cond) are covered by the composition oracle only')
    vf.finish(ctx, 'proof', fails)

def replay(path):
    import subprocess
    ctx = vf.Ctx('C09', 'quick', 1)
    ok, log = vf.build_harness(ctx, ['c09'])
    if not ok:
        print(log); return 2
    return subprocess.call([os.path.join(vf.BIN, 'c09'), '-replay', path])
