"""C02 — output is a deterministic function of the inputs.
Proof: coq/Props/C02.v over coq/Out/{StableSort,Determinism}.v.  Tie: K on the
order of same-position diagnostics at the modelled map-iteration sites; the
property oracle is byte-identity of R repetitions under varying GOMAXPROCS."""
import os, subprocess, json
from lib import vf

MANIFEST = {
 'text': "Coq theorems: the final sort.Stable by position is a function of the per-position sub-sequences only (uniqueness of stable sorting), hence erases every reordering caused by map iteration unless two diagnostics share a position; a site that ranges over a map with pairwise different positions is deterministic after the sort; a site that visits sorted keys is deterministic even at one shared position (every `for ... range <map>` loop of the source is re-listed with go/types on every run and is one of 70 loops classified by hand (keys sorted first / order-independent computation / one report per entry at its own positions / element type of a merged object); the places of the source that read the clock, the environment, the process, the machine or a random source are re-listed from the .go files on every run and each is a known one (elapsed-time log, default working directory, pool size); instances: format() placeholders, missing required inputs of actions and reusable workflows, visiting jobs / needs roots / registered runner labels in source order — the code after six fix: commits), while the unsorted same-position shape is refuted by a witness; LintFiles assembles per-file results by slot, independent of goroutine completion order. All for every map iteration order (Permutation) and every completion order. Tie: the model predicts the order of same-position diagnostics for generated cases at the modelled sites (vm_compute vs the implementation). Partial: rules/sites not modelled and real goroutine scheduling are covered by the repetition oracle only (every corpus file, project and generated site workflow linted R times on fresh Linters under GOMAXPROCS 1/2/4/16, results byte-compared). A run in which several files end in a fatal error returns the error of the first failing file in argument order whatever the order in which the goroutines finish (coq/Out/FatalOrder.v: slots written in any permutation are the per-file results; the errgroup-first-error behaviour before the repair ec824d0 is refuted), tied by runs with several unreadable files. The comparison of the final sort itself (ByErrorPosition.Less) is tied to pos_leb by sorting generated lists whose lines and columns lie around powers of two (cases_sort).",
 'note': "Trusted: Coq kernel; Go's sort.Stable is a stable sort (then it computes ssort by ssort_unique); models of the emission sites are hand-written and correspondence-checked on generated cases; Go's map iteration is modelled as an arbitrary permutation. Not proved: determinism of unmodelled rules (repetition sampling only), Go scheduler behaviour.",
 'technique': "machine-checked proof in Coq (uniqueness of stable sorting, permutation invariance of map-iteration sites) + vm_compute correspondence + repetition oracle",
}

GEN = os.path.join(vf.COQ, 'Gen', 'GenAmbient.v')


def regen(ctx):
    """re-list the ambient reads (clock, environment, process, machine, random source) of the
    package from its .go files; write Gen only when changed"""
    tmp = os.path.join(ctx.out, 'GenAmbient.v')
    rc, out = vf.sh([os.path.join(vf.BIN, 'c02'), '-extract-ambient', vf.REPO, '-gen', tmp], timeout=120)
    if rc != 0:
        ctx.broken.append('listing the ambient reads of the package failed: ' + out[-400:])
        return
    new = open(tmp).read()
    old = open(GEN).read() if os.path.exists(GEN) else None
    if new != old:
        open(GEN, 'w').write(new)
        ctx.notes.append('coq/Gen/GenAmbient.v regenerated (content changed)')


GENR = os.path.join(vf.COQ, 'Gen', 'GenMapRange.v')


def regen_ranges(ctx):
    """re-list the range-over-map loops of the package (go/types); write Gen only when changed"""
    tmp = os.path.join(ctx.out, 'GenMapRange.v')
    rc, out = vf.sh([os.path.join(vf.BIN, 'c02'), '-extract-mapranges', vf.REPO, '-gen', tmp], timeout=120)
    if rc != 0:
        ctx.broken.append('listing the range-over-map loops of the package failed: ' + out[-400:])
        return
    new = open(tmp).read()
    old = open(GENR).read() if os.path.exists(GENR) else None
    if new != old:
        open(GENR, 'w').write(new)
        ctx.notes.append('coq/Gen/GenMapRange.v regenerated (content changed)')


def run(ctx):
    ok, log = vf.build_harness(ctx, ['c02'])
    if not ok:
        ctx.broken.append('harness does not build against /repo: ' + log[-400:])
        vf.finish(ctx, 'proof', [])
    regen(ctx)
    regen_ranges(ctx)
    nthm, ndis, _ = vf.check_props(ctx)
    if 'MapRange' in (getattr(ctx, 'coq_log', '') or ''):
        import re as _re
        pat = r'\("([^"]+)", "([^"]+)", "((?:[^"]|"")*)", (\d+)%N, "([0-9a-f-]+)"'
        allowed = set(_re.findall(pat, open(os.path.join(vf.COQ, 'Out', 'MapRange.v')).read()))
        loops = set(x[:4] for x in allowed)
        now = _re.findall(pat, open(GENR).read())
        new = [' '.join(x[:4]) + (' (body changed)' if x[:4] in loops else ' (new loop)') for x in now if x not in allowed]
        ctx.broken.append('coq/Out/MapRange.v (map_range_sites_known_b): the package ranges over a map in a loop that is not one of the loops that were read and classified, or whose body was edited since (the visiting order of a Go map changes from run to run): ' + '; '.join(new[:6]))
    ambient_broken = 'Ambient' in (getattr(ctx, 'coq_log', '') or '')
    if ambient_broken:
        okg, logg = vf.coq_make(['Gen/GenAmbient.vo'])
        ctx.broken.append('coq/Out/Ambient.v (ambient_sites_known_b): the package reads the clock / environment / process / machine / a random source at a place that is not one of the known ones; sites now: '
                          + ' '.join(l.strip() for l in open(GEN).read().split('\n') if l.strip().startswith('(')))
    gate = vf.grep_gate()
    if gate:
        ctx.broken.append('forbidden constructs in coq/: ' + '; '.join(gate[:5]))
    reps, nsite = (24, 60) if not ctx.thorough() else (200, 400)
    rc, out = vf.sh([os.path.join(vf.BIN, 'c02'), '-seed', str(ctx.seed), '-reps', str(reps), '-nsite', str(nsite),
                     '-out', ctx.out, '-repo', vf.REPO] + (['-ambient-broken'] if ambient_broken else []), timeout=3000)
    if rc != 0:
        ctx.broken.append('harness c02 failed: ' + out[-400:])
        vf.finish(ctx, 'proof', [])
    s = vf.load_json(os.path.join(ctx.out, 'summary.json'))
    imports = ['Out.Determinism', 'Out.DeterminismObs']
    t1 = vf.read_lines(os.path.join(ctx.out, 'cases_format.txt'))
    t2 = vf.read_lines(os.path.join(ctx.out, 'cases_required.txt'))
    bad1, err1 = vf.coq_cases(ctx, 'C02f', imports, '(N * list (N * unit))', 'run_format', t1, shard=200, ordered=True)
    bad2, err2 = vf.coq_cases(ctx, 'C02r', imports, '(list string * list (string * bool))', 'run_required', t2, shard=200, ordered=True)
    for err in (err1, err2):
        if err:
            ctx.broken.append('correspondence cases did not evaluate: ' + err[-400:])
    if bad1:
        ctx.broken.append('correspondence C02/format (order of placeholder diagnostics): %d of %d cases disagree' % (len(bad1), len(t1)))
        ctx.first_disagreement = {'site': 'format', 'case': t1[bad1[0]]}
    if bad2:
        ctx.broken.append('correspondence C02/required (order of missing-input diagnostics): %d of %d cases disagree' % (len(bad2), len(t2)))
        ctx.first_disagreement = {'site': 'required', 'case': t2[bad2[0]]}
    t3 = vf.read_lines(os.path.join(ctx.out, 'cases_fatal.txt'))
    bad3, err3 = vf.coq_cases(ctx, 'C02x', ['Out.FatalOrder'], '(list (option N))', 'run_fatal', t3, shard=200, ordered=True)
    if err3:
        ctx.broken.append('correspondence cases (fatal error of several failing files) did not evaluate: ' + err3[-400:])
    if bad3:
        ctx.broken.append('correspondence C02/fatal (which file the fatal error of a run names vs Out/FatalOrder.v: the first failing file in argument order): %d of %d runs disagree' % (len(bad3), len(t3)))
        ctx.first_disagreement = {'site': 'fatal', 'case': t3[bad3[0]]}
    t4 = vf.read_lines(os.path.join(ctx.out, 'cases_sort.txt'))
    bad4, err4 = vf.coq_cases(ctx, 'C02s', imports, '(list (N * N * N))', 'run_sort', t4, shard=200, ordered=True)
    if err4:
        ctx.broken.append('correspondence cases (final sort) did not evaluate: ' + err4[-400:])
    if bad4:
        ctx.broken.append('correspondence C02/sort (sort.Stable(ByErrorPosition) on a list of diagnostics of one file vs the stable sort by (line, column) of Out/StableSort.v, on which C02_final_sort_unique rests: with another comparison two diagnostics at different positions can compare as equal and keep the order of the map iteration that emitted them): %d of %d lists disagree' % (len(bad4), len(t4)))
        ctx.first_disagreement = {'site': 'sort', 'case': t4[bad4[0]]}
    t1 = t1 + t3 + t4
    bad1 = bad1 + bad4
    bad1 = bad1 + bad3
    ctx.coverage.update({
        'obligations': nthm, 'discharged': ndis,
        'evaluations': s['evaluations'], 'distinct_nontrivial': s['distinct_nontrivial'],
        'rule': s['rule'], 'samples': s['samples'], 'distribution': s['distribution'],
        'repetitions_per_input': reps, 'lint_runs': s['evaluations'] * reps,
        'traces_validated_against_impl': len(t1) + len(t2), 'disagreements': len(bad1) + len(bad2),
        'exhaustive': False,
    })
    ctx.notes.append('partial: unmodelled rules and goroutine scheduling are covered by repetition only')
    vf.finish(ctx, 'proof', s['oracle_failures'])

def replay(path):
    ctx = vf.Ctx('C02', 'quick', 1)
    ok, log = vf.build_harness(ctx, ['c02'])
    if not ok:
        print(log); return 2
    return subprocess.call([os.path.join(vf.BIN, 'c02'), '-replay', path])
