"""C15 — ignore patterns are an exact filter; results do not depend on the cwd.
Proof: coq/Props/C15.v over the model coq/Out/{Paths,Filter}.v.  Tie:
correspondence (K) between the model evaluated by vm_compute and the stdout /
exit status of the exported actionlint.Command.Main run on a scratch repository
under generated cwd x spelling x -ignore x `paths` combinations; the property
itself (unfiltered list minus matched, same order; a paths entry applies iff
its glob matches the root-relative path; exit status) is evaluated on the
implementation by the harness."""
import glob, json, os, shutil, subprocess
from lib import vf

MANIFEST = {
  'text': "Coq theorems over the model of Linter.filterErrors, IgnorePatterns.Match, Config.PathConfigs, the sort that follows them in Linter.check, the filepath.Rel/Abs/Join/Clean arithmetic that produces the string handed to PathConfigs, and Command.Main's exit status (coq/Out/Filter.v, coq/Out/Paths.v): the filter returns exactly `filter (not ignored)` of its input (sub-list, order kept, exactly the unmatched ones) for every behaviour of the regexp and glob libraries; 'ignored' is 'some -ignore pattern matches, or some pattern of a paths entry whose glob matches the handed-over path matches'; the result does not depend on the order of flags or of the Config.Paths map; filtering commutes with the stable position sort; for every working directory and every spelling of the argument (relative, ./, absolute, with . and .. and // segments) the string matched against the globs is the path relative to the repository root; exit status 2/3/1/0 characterised. Unbounded (all lists, all paths). The model is tied to the code by running actionlint.Command.Main on a scratch repository for generated (cwd, spelling, files, -ignore, paths config) combinations and comparing stdout and exit status with the model evaluated by vm_compute (regexp and doublestar answers passed as Go-evaluated tables); the property text is evaluated on the same runs by an independent reference.",
  'note': "Trusted: Coq kernel; the hand-written model (correspondence-checked, not proved equal to the Go code); the harness (generators, stdout parser, reference oracle). Library code is not modelled: regexp, doublestar, yaml decoding of the config file, flag parsing (the harness knows by construction which invocations are invalid flags / fatal errors), os.Getwd, symbolic links, Windows path syntax. Interpretation: 'invalid flags' = what flag.Parse rejects; an invalid -ignore regular expression or -format template is a fatal error (3), as documented in docs/usage.md. The path theorem is about the repaired code (repo_patches/out/01-fix-paths-config-root-relative.patch); on the pinned tree the path was relative to the cwd (C15_path_applicability_old_refuted).",
  'technique': "machine-checked proof in Coq (induction over diagnostic lists and path component lists) + vm_compute correspondence against actionlint.Command.Main + property oracle on the implementation",
 }


def _cleanup_scratch():
    pass  # the harness removes its own /var/tmp/out-c15-<pid> directory


def run(ctx):
    ok, log = vf.build_harness(ctx, ['c15'])
    if not ok:
        ctx.broken.append('harness does not build against /repo: ' + log[-400:])
        vf.finish(ctx, 'proof', [])
    nthm, ndis, _ = vf.check_props(ctx)
    okm, logm = vf.coq_make(['Out/C15Obs.vo', 'Base/Corr.vo'])
    if not okm:
        ctx.broken.append('coq build of Out/C15Obs.v failed: ' + logm[-400:])
    gate = vf.grep_gate()
    if gate:
        ctx.broken.append('forbidden constructs in coq/: ' + '; '.join(gate[:5]))
    n = 600 if not ctx.thorough() else 8000
    rc, out = vf.sh([os.path.join(vf.BIN, 'c15'), '-seed', str(ctx.seed), '-n', str(n), '-out', ctx.out], timeout=3000)
    _cleanup_scratch()
    if rc != 0:
        ctx.broken.append('harness c15 failed: ' + out[-400:])
        vf.finish(ctx, 'proof', [])
    s = vf.load_json(os.path.join(ctx.out, 'summary.json'))
    terms = vf.read_lines(os.path.join(ctx.out, 'cases.txt'))
    specs = vf.read_lines(os.path.join(ctx.out, 'specs.jsonl'))
    bad, err = vf.coq_cases(ctx, 'C15', ['Out.Paths', 'Out.Filter', 'Out.C15Obs'], 'c15_in', 'run_c15', terms,
                            shard=max(20, (len(terms) + 15) // 16), ordered=True)
    if err:
        ctx.broken.append('correspondence cases did not evaluate: ' + err[-400:])
    if bad:
        ctx.broken.append('correspondence C15 (model run_c15 vs Command.Main stdout/exit status): %d of %d cases disagree' % (len(bad), len(terms)))
        ctx.first_disagreement = {'case_index': bad[0], 'input': json.loads(specs[bad[0]]), 'model_term': terms[bad[0]][:4000]}
    # several repositories in one run (nested stream): model run_c15n
    nterms = vf.read_lines(os.path.join(ctx.out, 'cases_nested.txt'))
    nspecs = vf.read_lines(os.path.join(ctx.out, 'specs_nested.jsonl'))
    nbad, nerr = vf.coq_cases(ctx, 'C15N', ['Out.Paths', 'Out.Filter', 'Out.C15Obs'], 'c15n_in', 'run_c15n', nterms,
                              shard=max(20, (len(nterms) + 15) // 16), ordered=True)
    if nerr:
        ctx.broken.append('correspondence cases (nested repositories) did not evaluate: ' + nerr[-400:])
    if nbad:
        ctx.broken.append('correspondence C15 (model run_c15n vs Command.Main on nested repositories): %d of %d cases disagree' % (len(nbad), len(nterms)))
        if not getattr(ctx, 'first_disagreement', None):
            ctx.first_disagreement = {'case_index': nbad[0], 'input': json.loads(nspecs[nbad[0]]), 'model_term': nterms[nbad[0]][:4000]}
    terms = terms + nterms
    bad = bad + nbad
    ctx.coverage.update({
        'obligations': nthm, 'discharged': ndis,
        'evaluations': s['evaluations'], 'distinct_nontrivial': s['distinct_nontrivial'],
        'rule': s['rule'], 'samples': s['samples'], 'distribution': s['distribution'],
        'traces_validated_against_impl': len(terms), 'disagreements': len(bad),
        'exhaustive': False, 'extra': s.get('extra', {}),
    })
    vf.finish(ctx, 'proof', s['oracle_failures'])


def replay(path):
    ctx = vf.Ctx('C15', 'quick', 1)
    ok, log = vf.build_harness(ctx, ['c15'])
    if not ok:
        print(log)
        return 2
    rc = subprocess.call([os.path.join(vf.BIN, 'c15'), '-replay', path])
    _cleanup_scratch()
    return rc
