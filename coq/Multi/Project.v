(* Multi/Project.v — project.go: which repository a file belongs to.
   Paths are absolute, as lists of components (root directory = []).  The
   file system enters only through [fs], the list of directories that are
   repository roots (contain .git and .github/workflows): an oracle input. *)
From AL Require Import Base.Str.

Definition path := list string.

Fixpoint path_eqb (a b : path) : bool :=
  match a, b with
  | [], [] => true
  | x :: a', y :: b' => String.eqb x y && path_eqb a' b'
  | _, _ => false
  end.

Lemma path_eqb_eq a b : path_eqb a b = true <-> a = b.
Proof.
  revert b; induction a as [|x a IH]; intros [|y b]; cbn; try (split; [discriminate|congruence]).
  - split; reflexivity.
  - rewrite andb_true_iff, String.eqb_eq, IH. split; [intros [-> ->]; reflexivity|intros H; inversion H; auto].
Qed.

Fixpoint is_prefix (a b : path) : bool :=
  match a, b with
  | [], _ => true
  | x :: a', y :: b' => String.eqb x y && is_prefix a' b'
  | _ :: _, [] => false
  end.

Lemma is_prefix_spec a b : is_prefix a b = true <-> exists c, b = a ++ c.
Proof.
  revert b; induction a as [|x a IH]; intros b; cbn.
  - split; [intros _; now exists b|reflexivity].
  - destruct b as [|y b].
    + split; [discriminate|intros [c H]; discriminate].
    + rewrite andb_true_iff, String.eqb_eq, IH. split.
      * intros [-> [c ->]]. now exists c.
      * intros [c H]. inversion H; subst. split; [reflexivity|now exists c].
Qed.

Definition is_root (fs : list path) (d : path) : bool := existsb (path_eqb d) fs.

(* findProjectRoot: test the directory, then its parent, ... up to "/".
   [rd] is the directory with its components reversed. *)
Fixpoint find_root_rev (fs : list path) (rd : list string) : option path :=
  if is_root fs (rev rd) then Some (rev rd)
  else match rd with
       | [] => None
       | _ :: rd' => find_root_rev fs rd'
       end.

Definition find_root (fs : list path) (p : path) : option path := find_root_rev fs (rev p).

(* Projects.At after the fix: nearest root first, the cache only shares the
   Project value (identified here with its root). *)
Definition at_ (fs : list path) (known : list path) (p : path) : option path * list path :=
  match find_root fs p with
  | None => (None, known)
  | Some r => if existsb (path_eqb r) known then (Some r, known) else (Some r, known ++ [r])
  end.

Definition known_after (fs : list path) (history : list path) : list path :=
  fold_left (fun known p => snd (at_ fs known p)) history [].

(* r is the nearest enclosing repository root of p *)
Definition nearest_root (fs : list path) (p r : path) : Prop :=
  is_root fs r = true /\ is_prefix r p = true /\
  forall r', is_root fs r' = true -> is_prefix r' p = true -> length r' <= length r.

Lemma rev_prefix_of_suffix (rd : list string) x : is_prefix (rev rd) (rev (x :: rd)) = true.
Proof. apply is_prefix_spec. exists [x]. reflexivity. Qed.

Lemma is_prefix_trans a b c : is_prefix a b = true -> is_prefix b c = true -> is_prefix a c = true.
Proof.
  rewrite !is_prefix_spec. intros [x ->] [y ->]. exists (x ++ y). now rewrite app_assoc.
Qed.

Lemma is_prefix_refl a : is_prefix a a = true.
Proof. apply is_prefix_spec. exists []. now rewrite app_nil_r. Qed.

(* a prefix of rev (x :: rd) is the whole of it or a prefix of rev rd *)
Lemma prefix_of_snoc (r : path) (rd : list string) x :
  is_prefix r (rev (x :: rd)) = true -> r = rev (x :: rd) \/ is_prefix r (rev rd) = true.
Proof.
  cbn [rev]. rewrite !is_prefix_spec. intros [c H].
  destruct (rev c) as [|z rc] eqn:E.
  - left. assert (c = []) by (rewrite <- (rev_involutive c), E; reflexivity). subst. now rewrite app_nil_r in H.
  - right. assert (c = rev rc ++ [z]) as -> by (rewrite <- (rev_involutive c), E; reflexivity).
    rewrite app_assoc in H. apply app_inj_tail in H. destruct H as [H _]. now exists (rev rc).
Qed.

Lemma find_root_rev_spec fs rd r :
  find_root_rev fs rd = Some r -> nearest_root fs (rev rd) r.
Proof.
  induction rd as [|x rd IH]; cbn [find_root_rev].
  - destruct (is_root fs (rev [])) eqn:E; [|discriminate]. intros H; inversion H; subst.
    split; [exact E|]. split; [reflexivity|].
    intros r' _ P. cbn in P. destruct r'; [cbn; lia|discriminate].
  - destruct (is_root fs (rev (x :: rd))) eqn:E.
    + intros H; inversion H; subst. split; [exact E|]. split; [apply is_prefix_refl|].
      intros r' _ P. apply is_prefix_spec in P. destruct P as [c Ec]. cbn [rev] in Ec. rewrite Ec, app_length. lia.
    + intros H. destruct (IH H) as [R [P M]]. split; [exact R|]. split.
      * eapply is_prefix_trans; [exact P|apply rev_prefix_of_suffix].
      * intros r' R' P'. destruct (prefix_of_snoc r' rd x P') as [->|P'']; [congruence|].
        now apply M.
Qed.

Lemma find_root_rev_none fs rd :
  find_root_rev fs rd = None -> forall r, is_root fs r = true -> is_prefix r (rev rd) = false.
Proof.
  induction rd as [|x rd IH]; cbn [find_root_rev].
  - destruct (is_root fs (rev [])) eqn:E; [discriminate|]. intros _ r R.
    destruct r; [cbn in E; congruence|reflexivity].
  - destruct (is_root fs (rev (x :: rd))) eqn:E; [discriminate|]. intros H r R.
    destruct (is_prefix r (rev (x :: rd))) eqn:P; [|reflexivity].
    destruct (prefix_of_snoc r rd x P) as [->|P']; [congruence|].
    rewrite (IH H r R) in P'. discriminate.
Qed.

(* C10: a file is always attributed to the repository that actually
   contains it — the nearest enclosing root — whatever was looked up before *)
Theorem project_attribution fs history p :
  match fst (at_ fs (known_after fs history) p) with
  | Some r => nearest_root fs p r
  | None => forall r, is_root fs r = true -> is_prefix r p = false
  end.
Proof.
  unfold at_. destruct (find_root fs p) as [r|] eqn:E.
  - assert (nearest_root fs p r) as H.
    { unfold find_root in E. apply find_root_rev_spec in E. now rewrite rev_involutive in E. }
    destruct (existsb (path_eqb r) (known_after fs history)); exact H.
  - cbn. unfold find_root in E. intros r R.
    pose proof (find_root_rev_none fs (rev p) E r R) as H. now rewrite rev_involutive in H.
Qed.

(* the answer does not depend on the look-up history at all *)
Theorem project_attribution_history_indep fs h1 h2 p :
  fst (at_ fs (known_after fs h1) p) = fst (at_ fs (known_after fs h2) p).
Proof.
  unfold at_. destruct (find_root fs p) as [r|]; [|reflexivity].
  destruct (existsb _ (known_after fs h1)), (existsb _ (known_after fs h2)); reflexivity.
Qed.

(* nearest roots are unique *)
Lemma nearest_root_unique fs p r1 r2 : nearest_root fs p r1 -> nearest_root fs p r2 -> r1 = r2.
Proof.
  intros [R1 [P1 M1]] [R2 [P2 M2]].
  pose proof (M1 r2 R2 P2). pose proof (M2 r1 R1 P1).
  apply is_prefix_spec in P1. apply is_prefix_spec in P2.
  destruct P1 as [c1 E1], P2 as [c2 E2].
  assert (length r1 = length r2) as L by lia.
  rewrite E1 in E2. clear - E2 L.
  revert r2 L E2; induction r1 as [|x r1 IH]; intros [|y r2] L E; cbn in *; try lia; [reflexivity|].
  inversion E; subst. f_equal. apply IH; [lia|assumption].
Qed.

(* --- the code before the fix: first cached project whose root string is a
   prefix of the path string ----------------------------------------------- *)
Fixpoint join (p : path) : string :=
  match p with [] => "" | x :: p' => ("/" ++ x ++ join p')%string end.

Definition at_old (fs : list path) (known : list path) (p : path) : option path * list path :=
  match find (fun r => String.prefix (join r) (join p)) known with
  | Some r => (Some r, known)
  | None => match find_root fs p with
            | None => (None, known)
            | Some r => (Some r, known ++ [r])
            end
  end.

(* siblings whose names share a prefix *)
Lemma at_old_sibling_refuted :
  exists fs known p r, fst (at_old fs known p) = Some r /\ ~ nearest_root fs p r.
Proof.
  exists [["x"; "repo"]; ["x"; "repo2"]], [["x"; "repo"]], ["x"; "repo2"; ".github"; "workflows"; "a.yaml"], ["x"; "repo"].
  split; [vm_compute; reflexivity|]. intros [_ [P _]]. vm_compute in P. discriminate.
Qed.

(* a repository nested in another one, the outer one looked up first *)
Lemma at_old_nested_refuted :
  exists fs known p r, fst (at_old fs known p) = Some r /\ ~ nearest_root fs p r.
Proof.
  exists [["x"; "outer"]; ["x"; "outer"; "vendor"; "inner"]], [["x"; "outer"]],
         ["x"; "outer"; "vendor"; "inner"; ".github"; "workflows"; "a.yaml"], ["x"; "outer"].
  split; [vm_compute; reflexivity|]. intros [_ [_ M]].
  specialize (M ["x"; "outer"; "vendor"; "inner"] eq_refl eq_refl). cbn in M. lia.
Qed.

Example attribution_nonvacuous :
  nearest_root [["x"; "outer"]; ["x"; "outer"; "vendor"; "inner"]]
               ["x"; "outer"; "vendor"; "inner"; ".github"; "workflows"; "a.yaml"]
               ["x"; "outer"; "vendor"; "inner"].
Proof.
  pose proof (project_attribution [["x"; "outer"]; ["x"; "outer"; "vendor"; "inner"]]
                [["x"; "outer"; "a.yaml"]]
                ["x"; "outer"; "vendor"; "inner"; ".github"; "workflows"; "a.yaml"]) as H.
  vm_compute in H. exact H.
Qed.
