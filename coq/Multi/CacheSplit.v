(* Multi/CacheSplit.v — FindMetadata as the code performs it: TWO critical
   sections with the file system read between them.

     probe   (readCache, under RLock)   hit  -> the remembered value, cached
                                        miss -> go and read the file
     commit  (writeCache, under Lock)   remember what was read

   Multi/Cache.v treats a lookup as one atomic operation; that is faithful for
   the VALUE a caller receives (Theorem [split_values] below shows it), but it
   hides the question "who is told `not cached`".  The caller that is told `not
   cached` is the one that reports the callee's own defects (checkLocalAction
   validates action.yml when !cached; a read or parse error of a reusable
   workflow is returned to the caller that was not served from the cache), so
   "reported once per run" is the statement that for every key exactly one
   lookup of the whole run is answered `not cached`.

   [step false] is the code before cf88990: commit stores unconditionally and
   answers `not cached`.  [step true] is the code from cf88990 on: commit keeps
   what another goroutine stored in the meantime and answers `cached` then. *)
From Coq Require Import List String Bool Arith Lia.
From AL Require Import Base.AList.
Import ListNotations.
Open Scope string_scope.

Section Split.
Context {V : Type}.
Variable load : string -> V.           (* what reading + parsing the file yields *)

Definition cache := list (string * V).

Record thread := mkT {
  todo : list string;                  (* lookups this file check will still make *)
  inflight : option string;            (* missed in the probe, file being read *)
  results : list (string * V * bool)   (* answers so far: key, value, cached *)
}.

Definition step (fixed : bool) (t : thread) (c : cache) : thread * cache :=
  match inflight t with
  | Some k =>
      match lookup k c with
      | Some v =>
          if fixed then (mkT (todo t) None (results t ++ [(k, v, true)]), c)
          else (mkT (todo t) None (results t ++ [(k, load k, false)]), upsert k (load k) c)
      | None => (mkT (todo t) None (results t ++ [(k, load k, false)]), upsert k (load k) c)
      end
  | None =>
      match todo t with
      | [] => (t, c)
      | k :: rest =>
          match lookup k c with
          | Some v => (mkT rest None (results t ++ [(k, v, true)]), c)
          | None => (mkT rest (Some k) (results t), c)
          end
      end
  end.

Fixpoint step_nth (fixed : bool) (i : nat) (ts : list thread) (c : cache) : list thread * cache :=
  match ts, i with
  | [], _ => ([], c)
  | t :: ts', O => let (t', c') := step fixed t c in (t' :: ts', c')
  | t :: ts', S i' => let (ts'', c') := step_nth fixed i' ts' c in (t :: ts'', c')
  end.

Fixpoint exec (fixed : bool) (sched : list nat) (ts : list thread) (c : cache) : list thread * cache :=
  match sched with
  | [] => (ts, c)
  | i :: sched' => let (ts', c') := step_nth fixed i ts c in exec fixed sched' ts' c'
  end.

(* how often key k was answered `not cached` *)
Definition is_first (k : string) (e : string * V * bool) : bool :=
  let '(k', _, cached) := e in String.eqb k k' && negb cached.
Definition firsts1 (k : string) (r : list (string * V * bool)) : nat := length (filter (is_first k) r).
Definition firsts (k : string) (ts : list thread) : nat :=
  list_sum (map (fun t => firsts1 k (results t)) ts).

Definition mem (k : string) (c : cache) : nat :=
  match lookup k c with Some _ => 1 | None => 0 end.

Definition start (keys : list string) : thread := mkT keys None [].
Definition finished (t : thread) : Prop := todo t = [] /\ inflight t = None.

Lemma firsts1_app k r e : firsts1 k (r ++ [e]) = firsts1 k r + (if is_first k e then 1 else 0).
Proof.
  unfold firsts1. rewrite filter_app, app_length. cbn. destruct (is_first k e); reflexivity.
Qed.

Lemma mem_upsert k k' v c : mem k' (upsert k v c) = if String.eqb k' k then 1 else mem k' c.
Proof.
  unfold mem. destruct (String.eqb k' k) eqn:E.
  - apply String.eqb_eq in E. subst. now rewrite lookup_upsert_same.
  - apply String.eqb_neq in E. rewrite lookup_upsert_other; [reflexivity|congruence].
Qed.

(* one step of the repaired code: the number of `not cached` answers for k
   grows exactly when k enters the cache *)
Lemma step_firsts k t c :
  firsts1 k (results (fst (step true t c))) + mem k c
  = firsts1 k (results t) + mem k (snd (step true t c)).
Proof.
  unfold step. destruct (inflight t) as [k0|].
  - destruct (lookup k0 c) as [v|] eqn:L; cbn [fst snd results].
    + rewrite firsts1_app. cbn. rewrite andb_false_r. lia.
    + rewrite firsts1_app, mem_upsert. cbn. rewrite andb_true_r.
      destruct (String.eqb k k0) eqn:E; [|lia].
      apply String.eqb_eq in E. subst. unfold mem. rewrite L. lia.
  - destruct (todo t) as [|k0 rest]; [reflexivity|].
    destruct (lookup k0 c) as [v|]; cbn [fst snd results]; [|reflexivity].
    rewrite firsts1_app. cbn. rewrite andb_false_r. lia.
Qed.

Lemma firsts_cons k t ts : firsts k (t :: ts) = firsts1 k (results t) + firsts k ts.
Proof. reflexivity. Qed.

Lemma step_nth_firsts k i : forall ts c,
  firsts k (fst (step_nth true i ts c)) + mem k c = firsts k ts + mem k (snd (step_nth true i ts c)).
Proof.
  induction i as [|i IH]; intros [|t ts] c; cbn [step_nth]; try reflexivity.
  - pose proof (step_firsts k t c) as H. destruct (step true t c) as [t' c']. cbn [fst snd] in *.
    rewrite !firsts_cons. lia.
  - pose proof (IH ts c) as H. destruct (step_nth true i ts c) as [ts' c']. cbn [fst snd] in *.
    rewrite !firsts_cons. lia.
Qed.

Lemma exec_firsts k sched : forall ts c,
  firsts k (fst (exec true sched ts c)) + mem k c = firsts k ts + mem k (snd (exec true sched ts c)).
Proof.
  induction sched as [|i sched IH]; intros ts c; cbn [exec]; [reflexivity|].
  pose proof (step_nth_firsts k i ts c) as H. destruct (step_nth true i ts c) as [ts1 c1]. cbn [fst snd] in H.
  pose proof (IH ts1 c1). lia.
Qed.

Lemma firsts_start k keyss : firsts k (map start keyss) = 0.
Proof. induction keyss as [|ks keyss IH]; cbn [map]; [reflexivity|]. rewrite firsts_cons. exact IH. Qed.

Lemma mem_le1 k c : mem k c <= 1.
Proof. unfold mem. destruct (lookup k c); lia. Qed.

(* ONCE PER RUN, safety half: under every schedule of any number of file
   checks, at every moment, each callee was answered `not cached` exactly as
   often as it is in the cache: never twice. *)
Theorem split_first_once keyss sched k :
  let (ts, c) := exec true sched (map start keyss) [] in
  firsts k ts = mem k c /\ firsts k ts <= 1.
Proof.
  pose proof (exec_firsts k sched (map start keyss) []) as H.
  destruct (exec true sched (map start keyss) []) as [ts c]. cbn [fst snd] in H.
  rewrite firsts_start in H. change (mem k []) with 0 in H.
  split; [lia|]. pose proof (mem_le1 k c). lia.
Qed.

(* --- liveness half: once every file check is finished, every callee that
   any of them looked up has been answered `not cached` exactly once -------- *)
Definition seen (k : string) (t : thread) : Prop :=
  In k (todo t) \/ inflight t = Some k \/ In k (map (fun e => fst (fst e)) (results t)).

(* keys answered or in flight with a stored entry are in the cache *)
Definition answered_in (t : thread) (c : cache) : Prop :=
  forall k, In k (map (fun e => fst (fst e)) (results t)) -> mem k c = 1.

Lemma mem_mono fixed t c k : mem k c = 1 -> mem k (snd (step fixed t c)) = 1.
Proof.
  intros M. unfold step. destruct (inflight t) as [k0|].
  - destruct (lookup k0 c), fixed; cbn [snd]; try exact M;
      rewrite mem_upsert; destruct (String.eqb k k0); auto.
  - destruct (todo t) as [|k0 rest]; [exact M|]. destruct (lookup k0 c); exact M.
Qed.

Lemma step_answered fixed t c : answered_in t c -> answered_in (fst (step fixed t c)) (snd (step fixed t c)).
Proof.
  intros A k. unfold step. destruct (inflight t) as [k0|].
  - destruct (lookup k0 c) as [v|] eqn:L.
    + destruct fixed; cbn [fst snd results]; rewrite map_app, in_app_iff; cbn.
      * intros [H|[<-|[]]]; [now apply A|]. unfold mem. now rewrite L.
      * rewrite mem_upsert. intros [H|[<-|[]]]; [|now rewrite String.eqb_refl].
        destruct (String.eqb k k0); [reflexivity|now apply A].
    + cbn [fst snd results]. rewrite map_app, in_app_iff, mem_upsert. cbn.
      intros [H|[<-|[]]]; [|now rewrite String.eqb_refl].
      destruct (String.eqb k k0); [reflexivity|now apply A].
  - destruct (todo t) as [|k0 rest]; [apply A|].
    destruct (lookup k0 c) as [v|] eqn:L; cbn [fst snd results]; [|apply A].
    rewrite map_app, in_app_iff. cbn. intros [H|[<-|[]]]; [now apply A|]. unfold mem. now rewrite L.
Qed.

Ltac crush_or :=
  repeat match goal with
  | H : _ \/ _ |- _ => destruct H as [H|H]
  | H : False |- _ => destruct H
  | H : Some _ = Some _ |- _ => inversion H; subst; clear H
  | H : None = Some _ |- _ => discriminate H
  | H : In _ (_ :: _) |- _ => destruct H as [H|H]
  end; subst; cbn [In]; auto 8.

Lemma step_seen fixed t c k : seen k t <-> seen k (fst (step fixed t c)).
Proof.
  unfold seen, step. destruct (inflight t) as [k0|] eqn:I.
  - assert (forall v b, (In k (todo t) \/ Some k0 = Some k \/ In k (map (fun e => fst (fst e)) (results t)))
              <-> (In k (todo t) \/ None = Some k \/ In k (map (fun e => fst (fst e)) (results t ++ [(k0, v, b)])))) as E.
    { intros v b. rewrite map_app, in_app_iff. cbn [map In fst]. split; intros H; crush_or. }
    destruct (lookup k0 c), fixed; cbn [fst todo inflight results]; apply E.
  - destruct (todo t) as [|k1 rest] eqn:T; cbn [fst]; [rewrite I, T; reflexivity|].
    destruct (lookup k1 c) as [v|]; cbn [fst todo inflight results].
    + rewrite map_app, in_app_iff. cbn [map In fst]. split; intros H; crush_or.
    + split; intros H; crush_or.
Qed.

Definition all_answered (ts : list thread) (c : cache) : Prop := Forall (fun t => answered_in t c) ts.

Lemma answered_mono fixed t t0 c : answered_in t0 c -> answered_in t0 (snd (step fixed t c)).
Proof. intros A k H. apply mem_mono. now apply A. Qed.

Lemma step_nth_answered fixed i : forall ts c, all_answered ts c ->
  all_answered (fst (step_nth fixed i ts c)) (snd (step_nth fixed i ts c)).
Proof.
  induction i as [|i IH]; intros [|t ts] c A; cbn; try exact A.
  - inversion A as [|? ? At Ats]; subst.
    pose proof (step_answered fixed t c At) as H1.
    assert (Forall (fun t0 => answered_in t0 (snd (step fixed t c))) ts) as H2.
    { eapply Forall_impl; [|exact Ats]. intros t0 H. now apply answered_mono. }
    destruct (step fixed t c) as [t' c']. cbn in *. constructor; assumption.
  - inversion A as [|? ? At Ats]; subst.
    pose proof (IH ts c Ats) as H.
    assert (forall k, mem k c = 1 -> mem k (snd (step_nth fixed i ts c)) = 1) as Mono.
    { clear. revert ts c. induction i as [|i IH]; intros [|t ts] c k M; cbn; try exact M.
      - pose proof (mem_mono fixed t c k M). destruct (step fixed t c); exact H.
      - pose proof (IH ts c k M). destruct (step_nth fixed i ts c); exact H. }
    destruct (step_nth fixed i ts c) as [ts' c']. cbn in *. constructor; [|exact H].
    intros k Hk. apply Mono. now apply At.
Qed.

Lemma step_nth_seen fixed k i : forall ts c,
  Exists (seen k) ts <-> Exists (seen k) (fst (step_nth fixed i ts c)).
Proof.
  induction i as [|i IH]; intros [|t ts] c; cbn; try reflexivity.
  - pose proof (step_seen fixed t c k) as H. destruct (step fixed t c) as [t' c']. cbn in *.
    rewrite !Exists_cons. now rewrite H.
  - pose proof (IH ts c) as H. destruct (step_nth fixed i ts c) as [ts' c']. cbn in *.
    rewrite !Exists_cons. now rewrite H.
Qed.

Lemma exec_answered fixed sched : forall ts c, all_answered ts c ->
  all_answered (fst (exec fixed sched ts c)) (snd (exec fixed sched ts c)).
Proof.
  induction sched as [|i sched IH]; intros ts c A; cbn; [exact A|].
  pose proof (step_nth_answered fixed i ts c A) as H.
  destruct (step_nth fixed i ts c) as [ts1 c1]. cbn in H. now apply IH.
Qed.

Lemma exec_seen fixed k sched : forall ts c,
  Exists (seen k) ts <-> Exists (seen k) (fst (exec fixed sched ts c)).
Proof.
  induction sched as [|i sched IH]; intros ts c; cbn; [reflexivity|].
  pose proof (step_nth_seen fixed k i ts c) as H.
  destruct (step_nth fixed i ts c) as [ts1 c1]. cbn in H. rewrite H. apply IH.
Qed.

(* ONCE PER RUN, complete: when all file checks of the run are finished, a
   callee was answered `not cached` exactly once if some file looked it up and
   never otherwise - whatever the schedule, the number of files and the order
   of the lookups. *)
Theorem split_reported_exactly_once keyss sched k :
  let (ts, c) := exec true sched (map start keyss) [] in
  Forall finished ts ->
  firsts k ts = if existsb (fun ks => existsb (String.eqb k) ks) keyss then 1 else 0.
Proof.
  pose proof (split_first_once keyss sched k) as Once.
  pose proof (exec_answered true sched (map start keyss) []) as Ans.
  pose proof (exec_seen true k sched (map start keyss) []) as Seen.
  destruct (exec true sched (map start keyss) []) as [ts c]. cbn [fst snd] in *.
  destruct Once as [Once _]. intros Fin.
  assert (all_answered (map start keyss) []) as A0.
  { apply Forall_forall. intros t Ht. apply in_map_iff in Ht. destruct Ht as [ks [<- _]].
    intros k0 []. }
  specialize (Ans A0).
  destruct (existsb (fun ks => existsb (String.eqb k) ks) keyss) eqn:E.
  - apply existsb_exists in E. destruct E as [ks [Hks E]].
    apply existsb_exists in E. destruct E as [k' [Hk' E]]. apply String.eqb_eq in E. subst k'.
    assert (Exists (seen k) (map start keyss)) as S0.
    { apply Exists_exists. exists (start ks). split; [now apply in_map|]. left. exact Hk'. }
    apply Seen in S0. apply Exists_exists in S0. destruct S0 as [t [Ht St]].
    pose proof (proj1 (Forall_forall _ _) Fin t Ht) as [F1 F2].
    pose proof (proj1 (Forall_forall _ _) Ans t Ht) as At.
    destruct St as [St|[St|St]]; [rewrite F1 in St; destruct St|congruence|].
    rewrite Once. now apply At.
  - rewrite Once. unfold mem. destruct (lookup k c) as [v|] eqn:L; [|reflexivity]. exfalso.
    (* an entry of the cache was stored by a commit of a key some thread had seen *)
    assert (firsts k ts = 1) as F by (rewrite Once; unfold mem; now rewrite L).
    assert (Exists (seen k) ts) as Sx.
    { clear - F. unfold firsts in F. induction ts as [|t ts IH]; cbn in F; [discriminate|].
      destruct (firsts1 k (results t)) eqn:F1.
      - right. apply IH. exact F.
      - left. right. right. unfold firsts1 in F1.
        destruct (filter (is_first k) (results t)) as [|e r] eqn:Fl; [discriminate|].
        assert (In e (filter (is_first k) (results t))) as He by (rewrite Fl; now left).
        apply filter_In in He. destruct He as [He1 He2].
        destruct e as [[k' v'] b]. cbn in He2. apply andb_prop in He2. destruct He2 as [He2 _].
        apply String.eqb_eq in He2. subst k'. apply in_map_iff. exists (k, v', b). auto. }
    apply Seen in Sx. apply Exists_exists in Sx. destruct Sx as [t [Ht St]].
    apply in_map_iff in Ht. destruct Ht as [ks [<- Hks]].
    destruct St as [St|[St|St]]; [|discriminate|destruct St].
    cbn in St. assert (existsb (fun ks => existsb (String.eqb k) ks) keyss = true) as Ex.
    { apply existsb_exists. exists ks. split; [exact Hks|]. apply existsb_exists. exists k.
      split; [exact St|apply String.eqb_refl]. }
    congruence.
Qed.

(* --- the values: every answer is what the file says, in both versions ----- *)
Definition consistent (c : cache) : Prop := forall k v, lookup k c = Some v -> v = load k.
Definition answers_ok (t : thread) : Prop := forall k v b, In (k, v, b) (results t) -> v = load k.

Lemma upsert_consistent k c : consistent c -> consistent (upsert k (load k) c).
Proof.
  intros C k' v. destruct (String.eqb k k') eqn:E.
  - apply String.eqb_eq in E. subst. rewrite lookup_upsert_same. congruence.
  - apply String.eqb_neq in E. rewrite lookup_upsert_other by exact E. apply C.
Qed.

Lemma step_values fixed t c : consistent c -> answers_ok t ->
  consistent (snd (step fixed t c)) /\ answers_ok (fst (step fixed t c)).
Proof.
  intros C A. unfold step.
  assert (forall k v b, v = load k -> answers_ok (mkT (todo t) None (results t ++ [(k, v, b)]))) as App.
  { intros k v b E k' v' b' H. cbn in H. apply in_app_iff in H. destruct H as [H|[H|[]]].
    - eapply A; eauto. - inversion H; subst. reflexivity. }
  destruct (inflight t) as [k0|].
  - destruct (lookup k0 c) as [v|] eqn:L.
    + destruct fixed; cbn [fst snd].
      * split; [exact C|]. apply App. now apply C.
      * split; [now apply upsert_consistent|]. now apply App.
    + cbn [fst snd]. split; [now apply upsert_consistent|]. now apply App.
  - destruct (todo t) as [|k0 rest]; [split; assumption|].
    destruct (lookup k0 c) as [v|] eqn:L; cbn [fst snd]; (split; [exact C|]).
    + intros k' v' b' H. cbn in H. apply in_app_iff in H. destruct H as [H|[H|[]]].
      * eapply A; eauto. * inversion H; subst. now apply C.
    + exact A.
Qed.

Lemma step_nth_values fixed i : forall ts c, consistent c -> Forall answers_ok ts ->
  consistent (snd (step_nth fixed i ts c)) /\ Forall answers_ok (fst (step_nth fixed i ts c)).
Proof.
  induction i as [|i IH]; intros [|t ts] c C A; cbn; try (split; assumption).
  - inversion A as [|? ? At Ats]; subst. pose proof (step_values fixed t c C At) as H.
    destruct (step fixed t c) as [t' c']. cbn in *. destruct H. split; [assumption|now constructor].
  - inversion A as [|? ? At Ats]; subst. pose proof (IH ts c C Ats) as H.
    destruct (step_nth fixed i ts c) as [ts' c']. cbn in *. destruct H. split; [assumption|now constructor].
Qed.

(* the value a lookup delivers never depends on the schedule (so the atomic
   lookup of Multi/Cache.v is a faithful abstraction for per-file results) *)
Theorem split_values fixed sched : forall ts c, consistent c -> Forall answers_ok ts ->
  consistent (snd (exec fixed sched ts c)) /\ Forall answers_ok (fst (exec fixed sched ts c)).
Proof.
  induction sched as [|i sched IH]; intros ts c C A; cbn; [split; assumption|].
  pose proof (step_nth_values fixed i ts c C A) as H.
  destruct (step_nth fixed i ts c) as [ts1 c1]. cbn in H. destruct H. now apply IH.
Qed.

End Split.

(* the code before cf88990: two files that use the same callee, both probes
   before either commit - both are told `not cached`, both report *)
Lemma split_old_refuted :
  exists (keyss : list (list string)) sched k,
    firsts k (fst (exec (fun _ => tt) false sched (map start keyss) [])) = 2.
Proof.
  exists [["./.github/actions/setup"]; ["./.github/actions/setup"]], [0; 1; 0; 1], "./.github/actions/setup".
  vm_compute. reflexivity.
Qed.

(* the same schedule on the repaired code *)
Example split_new_same_schedule :
  firsts "./.github/actions/setup"
    (fst (exec (fun _ => tt) true [0; 1; 0; 1]
            (map start [["./.github/actions/setup"]; ["./.github/actions/setup"]]) [])) = 1.
Proof. vm_compute. reflexivity. Qed.

(* executable form for the correspondence check: number of `not cached`
   answers per key after a complete round-robin run of n files *)
Definition run_firsts (fixed : bool) (keyss : list (list string)) (sched : list nat) (k : string) : nat :=
  firsts k (fst (exec (fun _ => tt) fixed sched (map start keyss) [])).
