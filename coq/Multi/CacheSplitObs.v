(* Multi/CacheSplitObs.v — observable of the split cache protocol for the
   correspondence check: for the files of one run (each the list of callees it
   looks up, in order) and a list of callees, how often each callee was answered
   `not cached` (= its own defects are reported) once the run is complete.  The
   schedule is round robin - all probes of a round before its commits, which is
   the schedule the harness forces with the verif hook; by
   [split_reported_exactly_once] every other complete schedule gives the same. *)
From Coq Require Import List String NArith.
From AL Require Import Base.Corr Multi.CacheSplit.
Import ListNotations.

Definition round_robin (n rounds : nat) : list nat := List.concat (repeat (seq 0 n) rounds).

Definition run_once_v (fixed : bool) (c : list (list string) * list string) : list tuple :=
  let (keyss, ks) := c in
  let sched := round_robin (List.length keyss) (2 * list_max (map (@List.length string) keyss) + 1) in
  map (fun k => [N.of_nat (run_firsts fixed keyss sched k)]) ks.

Definition run_once := run_once_v true.

(* the protocol before cf88990 on the same schedule: every file that uses the
   callee reports it *)
Example run_once_old_two_files :
  run_once_v false ([["a"%string]; ["a"%string]], ["a"%string]) = [[2%N]].
Proof. vm_compute. reflexivity. Qed.
Example run_once_new_two_files :
  run_once ([["a"%string]; ["a"%string]; ["b"%string; "a"%string]], ["a"%string; "b"%string; "c"%string]) = [[1%N]; [1%N]; [0%N]].
Proof. vm_compute. reflexivity. Qed.
