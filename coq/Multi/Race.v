(* Multi/Race.v — a minimal event model of concurrent linting: threads emit
   read/write events on named shared locations in some interleaving.  Two
   events race when they come from different threads, touch the same location,
   at least one writes, and they are not both protected by the same lock. *)
From Coq Require Import List String Bool Arith Lia.
Import ListNotations.

Record event := { ev_thread : nat; ev_loc : string; ev_write : bool; ev_lock : option string }.

Definition conflicting (a b : event) : Prop :=
  ev_thread a <> ev_thread b /\ ev_loc a = ev_loc b /\ (ev_write a = true \/ ev_write b = true) /\
  ~ (exists l, ev_lock a = Some l /\ ev_lock b = Some l).

Definition has_race (tr : list event) : Prop :=
  exists a b, In a tr /\ In b tr /\ conflicting a b.

(* a trace in which every write happens under the lock that guards its
   location, and every access to a location that is ever written is under
   that lock too, has no race *)
Definition disciplined (guard : string -> option string) (tr : list event) : Prop :=
  forall e, In e tr ->
    match guard (ev_loc e) with
    | Some l => ev_lock e = Some l          (* guarded location: always under its lock *)
    | None => ev_write e = false            (* unguarded location: read-only *)
    end.

Theorem race_free_if_disciplined guard tr : disciplined guard tr -> ~ has_race tr.
Proof.
  intros D [a [b [Ia [Ib [Nt [El [W NL]]]]]]].
  pose proof (D a Ia) as Da. pose proof (D b Ib) as Db. rewrite El in Da.
  destruct (guard (ev_loc b)) as [l|].
  - apply NL. exists l. auto.
  - destruct W; congruence.
Qed.

(* special case used for the built-in tables: nobody writes them *)
Corollary race_free_if_readonly tr : (forall e, In e tr -> ev_write e = false) -> ~ has_race tr.
Proof.
  intros H. apply (race_free_if_disciplined (fun _ => None)). intros e I. now apply H.
Qed.

Example race_exists_without_discipline :
  has_race [ {| ev_thread := 1; ev_loc := "BuiltinGlobalVariableTypes.github.Props"; ev_write := true; ev_lock := None |};
             {| ev_thread := 2; ev_loc := "BuiltinGlobalVariableTypes.github.Props"; ev_write := false; ev_lock := None |} ].
Proof.
  eexists; eexists. split; [left; reflexivity|]. split; [right; left; reflexivity|].
  split; [cbn; lia|]. split; [reflexivity|]. split; [left; reflexivity|].
  intros [l [H _]]. discriminate H.
Qed.
