(* Multi/Tables.v — the built-in tables and the shared configuration are
   never modified by linting.  The operations through which rule code touches
   a shared table are modelled as returning the table as the caller sees it
   afterwards (in-place mutation is visible in the model), together with the
   list of writes performed on shared memory (for race freedom). *)
From AL Require Import Base.AList Base.StrOrder Out.StableSort.

Definition sort_strings (ss : list string) : list string := ssort (fun s => s) String.leb ss.

(* rendering of quotes(): irrelevant here, kept abstract as a parameter *)
Section Tables.
Variable render : list string -> string.

(* quotes.go sortedQuotes before the fix: sort.Strings(ss) on the argument *)
Definition sorted_quotes_old (ss : list string) : string * list string :=
  (render (sort_strings ss), sort_strings ss).

(* after the fix: a copy is sorted *)
Definition sorted_quotes (ss : list string) : string * list string :=
  (render (sort_strings ss), ss).

Theorem sorted_quotes_pure ss : snd (sorted_quotes ss) = ss.
Proof. reflexivity. Qed.

Theorem sorted_quotes_same_text ss : fst (sorted_quotes ss) = fst (sorted_quotes_old ss).
Proof. reflexivity. Qed.

(* shared state: named string tables (AllWebhookTypes[hook], Config.ConfigVariables, ...)
   and named object types (BuiltinGlobalVariableTypes[ctx]: property names) *)
Record shared := { tables : list (string * list string); types : list (string * list string) }.

Inductive op :=
| OpRead (t : string)                 (* any read-only use *)
| OpSortedQuotes (t : string)         (* an error message lists the table's values *)
| OpMatrixExpr (ty : string).         (* `matrix: ${{ <ctx> }}` handled by checkMatrixExpression *)

Definition remove_keys (ks : list string) (props : list string) : list string :=
  filter (fun p => negb (existsb (String.eqb p) ks)) props.

(* one operation: new shared state and the shared locations it wrote *)
Definition step (s : shared) (o : op) : shared * list string :=
  match o with
  | OpRead _ => (s, [])
  | OpSortedQuotes t =>
      match lookup t (tables s) with
      | Some ss => ({| tables := upsert t (snd (sorted_quotes ss)) (tables s); types := types s |}, [])
      | None => (s, [])
      end
  | OpMatrixExpr ty => (s, [])       (* works on a copy of the props *)
  end.

Definition step_old (s : shared) (o : op) : shared * list string :=
  match o with
  | OpRead _ => (s, [])
  | OpSortedQuotes t =>
      match lookup t (tables s) with
      | Some ss => ({| tables := upsert t (snd (sorted_quotes_old ss)) (tables s); types := types s |}, [t])
      | None => (s, [])
      end
  | OpMatrixExpr ty =>
      match lookup ty (types s) with
      | Some props => ({| tables := tables s; types := upsert ty (remove_keys ["include"; "exclude"] props) (types s) |}, [ty])
      | None => (s, [])
      end
  end.

Definition run_ops (stp : shared -> op -> shared * list string) (s : shared) (ops : list op) : shared * list string :=
  fold_left (fun acc o => let (s', w) := stp (fst acc) o in (s', snd acc ++ w)) ops (s, []).

Lemma upsert_same_value {V} k (v : V) m : lookup k m = Some v -> upsert k v m = m.
Proof.
  induction m as [|[k' v'] m IH]; cbn; [discriminate|].
  destruct (String.eqb k k') eqn:E.
  - apply String.eqb_eq in E. subst. intros H; inversion H; reflexivity.
  - intros H. now rewrite IH.
Qed.

Lemma step_pure s o : step s o = (s, []).
Proof.
  destruct o as [t|t|ty]; cbn; try reflexivity.
  destruct (lookup t (tables s)) as [ss|] eqn:L; [|reflexivity].
  cbn. rewrite (upsert_same_value _ _ _ L). now destruct s.
Qed.

(* C10: whatever a run does with the shared tables, they are unchanged
   afterwards and no write to them was performed *)
Theorem tables_unchanged s ops : run_ops step s ops = (s, []).
Proof.
  unfold run_ops. induction ops as [|o ops IH] using rev_ind; [reflexivity|].
  rewrite fold_left_app. cbn. rewrite IH. cbn. now rewrite step_pure.
Qed.

End Tables.

(* before the fixes both kinds of operation modified shared state *)
Lemma tables_unchanged_old_refuted_sort :
  exists s ops, fst (run_ops (step_old (fun _ => "")) s ops) <> s.
Proof.
  exists {| tables := [("pull_request", ["opened"; "closed"])]; types := [] |}, [OpSortedQuotes "pull_request"].
  vm_compute. intros H. discriminate H.
Qed.

Lemma tables_unchanged_old_refuted_matrix :
  exists s ops, snd (run_ops (step_old (fun _ => "")) s ops) <> [].
Proof.
  exists {| tables := []; types := [("github", ["sha"; "ref"])] |}, [OpMatrixExpr "github"].
  vm_compute. intros H. discriminate H.
Qed.
