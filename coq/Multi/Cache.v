(* Multi/Cache.v — the per-project metadata caches (LocalActionsCache,
   LocalReusableWorkflowCache) shared by the goroutines of a multi-file run.
   [load] is what parsing the callee's file yields: a function of the file
   system only (oracle).  A file check is a program that interleaves pure
   computation with cache operations; operations are atomic (mutex).
   Theorem: under every interleaving of the programs of all files, each file's
   result equals the result of running it alone on an empty cache, provided
   the callees are well-formed (every load succeeds, and the interface a
   workflow of the run writes from its own AST agrees with [load]). *)
From AL Require Import Base.AList.

Section Cache.
Context {M R : Type}.
Variable load : string -> option M.

Definition cache := list (string * option M).

(* FindMetadata: hit -> cached value; miss -> load, remember, return.
   The boolean says "this call reports the load error" (first miss of a
   broken callee): errors are reported once per run. *)
Definition find_meta (c : cache) (k : string) : (option M * bool) * cache :=
  match lookup k c with
  | Some v => ((v, false), c)
  | None => let v := load k in ((v, match v with None => true | Some _ => false end), upsert k v c)
  end.

(* WriteWorkflowCallEvent: a workflow of the run stores the interface derived
   from its own AST unless some entry exists already *)
Definition write_meta (c : cache) (k : string) (m : M) : cache :=
  match lookup k c with
  | Some _ => c
  | None => upsert k (Some m) c
  end.

(* a file check as a resumption *)
Inductive prog : Type :=
| Ret (r : R)
| Find (k : string) (cont : option M * bool -> prog)
| Write (k : string) (m : M) (cont : prog).

Fixpoint run (p : prog) (c : cache) : R * cache :=
  match p with
  | Ret r => (r, c)
  | Find k cont => let '(v, c') := find_meta c k in run (cont v) c'
  | Write k m cont => run cont (write_meta c k m)
  end.

Definition consistent (c : cache) : Prop := forall k v, lookup k c = Some v -> v = load k.

(* well-formed callees: every file that is looked up parses; every interface
   written from an AST is the one the file would give *)
Fixpoint wf_prog (p : prog) : Prop :=
  match p with
  | Ret _ => True
  | Find k cont => load k <> None /\ forall v, wf_prog (cont v)
  | Write k m cont => load k = Some m /\ wf_prog cont
  end.

Lemma find_meta_consistent c k : consistent c -> consistent (snd (find_meta c k)).
Proof.
  unfold find_meta. intros C. destruct (lookup k c) eqn:L; cbn; [exact C|].
  intros k' v. destruct (String.eqb k k') eqn:E.
  - apply String.eqb_eq in E. subst. rewrite lookup_upsert_same. congruence.
  - apply String.eqb_neq in E. rewrite lookup_upsert_other by exact E. apply C.
Qed.

Lemma find_meta_value c k : consistent c -> load k <> None -> fst (find_meta c k) = (load k, false).
Proof.
  unfold find_meta. intros C N. destruct (lookup k c) as [v|] eqn:L; cbn.
  - now rewrite (C _ _ L).
  - destruct (load k); [reflexivity|contradiction].
Qed.

Lemma write_meta_consistent c k m : consistent c -> load k = Some m -> consistent (write_meta c k m).
Proof.
  unfold write_meta. intros C W. destruct (lookup k c) eqn:L; [exact C|].
  intros k' v. destruct (String.eqb k k') eqn:E.
  - apply String.eqb_eq in E. subst. rewrite lookup_upsert_same. congruence.
  - apply String.eqb_neq in E. rewrite lookup_upsert_other by exact E. apply C.
Qed.

Lemma run_find k cont c :
  run (Find k cont) c = run (cont (fst (find_meta c k))) (snd (find_meta c k)).
Proof. cbn. destruct (find_meta c k) as [v c']. reflexivity. Qed.

Lemma consistent_nil : consistent [].
Proof. intros ? ? H; discriminate H. Qed.

(* the result of a program does not depend on the (consistent) cache it starts from *)
Theorem run_cache_indep p : wf_prog p -> forall c, consistent c ->
  fst (run p c) = fst (run p []) /\ consistent (snd (run p c)).
Proof.
  induction p as [r|k cont IH|k m cont IH]; intros W c C.
  - split; [reflexivity|exact C].
  - destruct W as [N W]. rewrite !run_find.
    rewrite (find_meta_value c k C N), (find_meta_value [] k consistent_nil N).
    destruct (IH (load k, false) (W _) _ (find_meta_consistent c k C)) as [E1 E2].
    destruct (IH (load k, false) (W _) _ (find_meta_consistent [] k consistent_nil)) as [E3 _].
    split; [congruence|exact E2].
  - destruct W as [Wm W]. cbn [run].
    destruct (IH W _ (write_meta_consistent c k m C Wm)) as [E1 E2].
    destruct (IH W _ (write_meta_consistent [] k m consistent_nil Wm)) as [E3 _].
    split; [congruence|exact E2].
Qed.

(* --- interleavings ------------------------------------------------------ *)
(* A pool of running programs; a schedule picks which one performs its next
   cache operation.  Finished programs stay in the pool as [Ret]. *)
Definition step_prog (p : prog) (c : cache) : prog * cache :=
  match p with
  | Ret r => (Ret r, c)
  | Find k cont => let '(v, c') := find_meta c k in (cont v, c')
  | Write k m cont => (cont, write_meta c k m)
  end.

Fixpoint step_nth (i : nat) (ps : list prog) (c : cache) : list prog * cache :=
  match ps, i with
  | [], _ => ([], c)
  | p :: ps', O => let (p', c') := step_prog p c in (p' :: ps', c')
  | p :: ps', S i' => let (ps'', c') := step_nth i' ps' c in (p :: ps'', c')
  end.

Fixpoint exec (sched : list nat) (ps : list prog) (c : cache) : list prog * cache :=
  match sched with
  | [] => (ps, c)
  | i :: sched' => let (ps', c') := step_nth i ps c in exec sched' ps' c'
  end.

(* what a program will return when run to completion from a consistent cache *)
Definition outcome (p : prog) : R := fst (run p []).

Lemma step_prog_preserves p c : wf_prog p -> consistent c ->
  wf_prog (fst (step_prog p c)) /\ consistent (snd (step_prog p c)) /\
  outcome (fst (step_prog p c)) = outcome p.
Proof.
  intros W C. destruct p as [r|k cont|k m cont].
  - cbn. repeat split; auto.
  - destruct W as [N W].
    assert (step_prog (Find k cont) c = (cont (fst (find_meta c k)), snd (find_meta c k))) as ->.
    { cbn. destruct (find_meta c k); reflexivity. }
    cbn [fst snd]. rewrite (find_meta_value c k C N).
    split; [apply W|]. split; [apply find_meta_consistent; exact C|].
    unfold outcome. rewrite run_find, (find_meta_value [] k consistent_nil N).
    symmetry. apply (run_cache_indep _ (W _) _ (find_meta_consistent [] k consistent_nil)).
  - destruct W as [Wm W]. cbn [step_prog fst snd].
    split; [exact W|]. split; [now apply write_meta_consistent|].
    unfold outcome. cbn [run].
    symmetry. apply (run_cache_indep _ W _ (write_meta_consistent [] k m consistent_nil Wm)).
Qed.

Lemma step_nth_preserves i : forall ps c, Forall wf_prog ps -> consistent c ->
  let (ps', c') := step_nth i ps c in
  Forall wf_prog ps' /\ consistent c' /\ map outcome ps' = map outcome ps.
Proof.
  induction i as [|i IH]; intros [|p ps] c W C; cbn; try (repeat split; auto; fail).
  - inversion W as [|? ? Wp Wps]; subst.
    pose proof (step_prog_preserves p c Wp C) as H. destruct (step_prog p c) as [p' c'].
    cbn [fst snd] in H. destruct H as [H1 [H2 H3]]. repeat split; auto. cbn. now rewrite H3.
  - inversion W as [|? ? Wp Wps]; subst.
    pose proof (IH ps c Wps C) as H. destruct (step_nth i ps c) as [ps' c'].
    destruct H as [H1 [H2 H3]]. repeat split; auto. cbn. now rewrite H3.
Qed.

(* C10: under EVERY schedule of the cache operations of all files, every
   file's eventual result is the one it gets when linted alone *)
Theorem per_file_isolated sched : forall ps c, Forall wf_prog ps -> consistent c ->
  let (ps', c') := exec sched ps c in
  Forall wf_prog ps' /\ consistent c' /\ map outcome ps' = map outcome ps.
Proof.
  induction sched as [|i sched IH]; intros ps c W C; cbn.
  - repeat split; auto.
  - pose proof (step_nth_preserves i ps c W C) as H. destruct (step_nth i ps c) as [ps1 c1].
    destruct H as [H1 [H2 H3]].
    pose proof (IH ps1 c1 H1 H2) as H. destruct (exec sched ps1 c1) as [ps2 c2].
    destruct H as [H4 [H5 H6]]. repeat split; auto. congruence.
Qed.

(* a finished program has delivered its outcome *)
Lemma outcome_ret r : outcome (Ret r) = r.
Proof. reflexivity. Qed.

End Cache.

(* without well-formedness the "report the error once" flag makes the result
   depend on who asked first: the recorded finding (once-per-run attribution) *)
Lemma once_per_run_refuted :
  exists (load : string -> option unit) (p : @prog unit bool) c,
    consistent load c /\ fst (run load p c) <> fst (run load p []).
Proof.
  exists (fun _ => None), (Find "./.github/workflows/broken.yaml" (fun v => Ret (snd v))),
         [("./.github/workflows/broken.yaml", None)].
  split.
  - intros k v H. cbn in H. destruct (String.eqb k _); [now inversion H|discriminate].
  - vm_compute. discriminate.
Qed.
