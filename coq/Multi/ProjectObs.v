(* Multi/ProjectObs.v — observable of the attribution model: for a history of
   look-ups through one Projects value, the index (1-based, 0 = none) of the
   repository root each file is attributed to. *)
From AL Require Import Base.Str Base.Corr Multi.Project.

Fixpoint index_of (r : path) (fs : list path) (i : N) : N :=
  match fs with
  | [] => 0%N
  | x :: fs' => if path_eqb r x then i else index_of r fs' (i + 1)%N
  end.

Fixpoint run_history (fs : list path) (known : list path) (hist : list path) : list tuple :=
  match hist with
  | [] => []
  | p :: hist' =>
      let (res, known') := at_ fs known p in
      [match res with Some r => index_of r fs 1%N | None => 0%N end] :: run_history fs known' hist'
  end.

Definition run_attr (c : list path * list path) : list tuple :=
  let (fs, hist) := c in run_history fs [] hist.
