(* Multi/Globals.v — the state every file, rule and goroutine of a run shares without a lock is
   the package-level variables.  They are listed from the source on every run
   (Gen/GenGlobals.v, harness/cmd/c10/globals.go) together with every statement that writes one
   of them (assignment, ++/--, sort.* / delete / clear / copy on it).  Here: each variable is a
   known one and there is no such statement.

     Table      a built-in table (map / slice literal): read by the rules, never written; the
                exported ones are fingerprinted before and after the runs of ./check C10
                (harness/cmd/c10 tables()), Multi/Tables.v models the reads
     Pattern    a compiled regular expression (regexp.Regexp is safe for concurrent use)
     Colour     a fatih/color object used by the snippet renderer only
     BuildInfo  version strings set at link time, read by -version

   A write through an alias (a value taken out of a table and then modified) is not visible to
   this list: that is what the fingerprints and the race detector of the check are for. *)
From AL Require Import Base.Str Gen.GenGlobals.

Inductive var_class := Table | Pattern | Colour | BuildInfo.

Definition allowed : list (string * string * var_class) := [
  ("all_webhooks.go", "AllWebhookTypes", Table);
  ("availability.go", "SpecialFunctionNames", Table);
  ("availability.go", "allWorkflowKeys", Table);
  ("command.go", "installedFrom", BuildInfo);
  ("command.go", "version", BuildInfo);
  ("error.go", "bold", Colour);
  ("error.go", "gray", Colour);
  ("error.go", "green", Colour);
  ("error.go", "yellow", Colour);
  ("expr_insecure.go", "BuiltinUntrustedInputs", Table);
  ("expr_sema.go", "BuiltinFuncSignatures", Table);
  ("expr_sema.go", "BuiltinGlobalVariableTypes", Table);
  ("popular_actions.go", "OutdatedPopularActionSpecs", Table);
  ("popular_actions.go", "PopularActions", Table);
  ("rule_action.go", "BrandingColors", Table);
  ("rule_action.go", "BrandingIcons", Table);
  ("rule_deprecated_commands.go", "deprecatedCommandsPattern", Pattern);
  ("rule_id.go", "jobIDPattern", Pattern);
  ("rule_permissions.go", "allPermissionScopes", Table);
  ("rule_runner_label.go", "allGitHubHostedRunnerLabels", Table);
  ("rule_runner_label.go", "defaultRunnerOSCompats", Table);
  ("rule_runner_label.go", "selfHostedRunnerPresetOSLabels", Table);
  ("rule_runner_label.go", "selfHostedRunnerPresetOtherLabels", Table)
].

Definition var_eqb (a : string * string * string) (b : string * string * var_class) : bool :=
  let '(f, n, _) := a in let '(f', n', _) := b in String.eqb f f' && String.eqb n n'.

Definition known (v : string * string * string) : bool := existsb (var_eqb v) allowed.

Lemma package_vars_known_b : forallb known package_vars = true.
Proof. vm_compute. reflexivity. Qed.

Theorem package_vars_known v : In v package_vars ->
  exists c, In (fst (fst v), snd (fst v), c) allowed.
Proof.
  intros H. pose proof package_vars_known_b as A. rewrite forallb_forall in A.
  specialize (A v H). unfold known in A. rewrite existsb_exists in A.
  destruct A as [[[f' n'] c] [Hin He]]. destruct v as [[f n] sh]. cbn in He.
  rewrite Bool.andb_true_iff, !String.eqb_eq in He. destruct He as [-> ->]. now exists c.
Qed.

(* no statement of the package writes a package-level variable *)
Theorem no_package_var_write : package_var_writes = [].
Proof. reflexivity. Qed.

Example package_vars_nonempty : existsb (fun v => String.eqb (snd (fst v)) "PopularActions") package_vars = true.
Proof. vm_compute. reflexivity. Qed.
