(* Proc/ExecOutcome.v — pure classification functions of the tool integration:
   cmdExecution.run (process.go), the callback of runShellcheck
   (rule_shellcheck.go) and the callback of runPyflakes with parseNextError
   (rule_pyflakes.go).  What the operating system and encoding/json do is an
   input of the model ([os_result], [sc_json]), never an axiom. *)
From AL Require Import Base.Str Proc.Sanitize Proc.ShellSel.
From Coq Require Import ZArith.

(* ---- cmdExecution.run ---------------------------------------------------- *)

(* what the OS reports for one run *)
Inductive os_result :=
| OSPipeErr                           (* cmd.StdinPipe failed *)
| OSWriteErr                          (* writing the script to the pipe failed *)
| OSStartErr                          (* Output/CombinedOutput returned an error that is no *exec.ExitError:
                                         the program could not be started, I/O error *)
| OSExit (code : Z) (out : string).   (* the process ran; code = ExitError.ExitCode() (0: err == nil,
                                         -1: killed by a signal); out = the bytes Output/CombinedOutput returned *)

Inductive exec_res :=
| XOut (out : string)                 (* (stdout, nil) *)
| XTerminated                         (* "... was terminated. stderr: ..." *)
| XEmpty                              (* "... exited with status N but stdout was empty ..." *)
| XOther.                             (* any other error, returned as is *)

Definition str_empty (s : string) : bool := match s with EmptyString => true | _ => false end.

Definition exec_outcome (r : os_result) : exec_res :=
  match r with
  | OSPipeErr | OSWriteErr | OSStartErr => XOther
  | OSExit code out =>
      if (code =? 0)%Z then XOut out
      else if (code <? 0)%Z then XTerminated
      else if str_empty out then XEmpty
      else XOut out
  end.

Definition is_xerr (x : exec_res) : bool := match x with XOut _ => false | _ => true end.

(* start failure, pipe error, signal, non-zero status with empty output => error;
   otherwise the output is handed on unchanged *)
Theorem exec_outcome_spec r :
  (is_xerr (exec_outcome r) = true <->
     r = OSPipeErr \/ r = OSWriteErr \/ r = OSStartErr \/
     (exists code out, r = OSExit code out /\ ((code < 0)%Z \/ ((code > 0)%Z /\ out = "")))) /\
  (forall o, exec_outcome r = XOut o -> exists code, r = OSExit code o /\ (code >= 0)%Z).
Proof.
  split.
  - split.
    + destruct r as [| | |code out]; cbn; auto.
      destruct (code =? 0)%Z eqn:E0; [discriminate|].
      destruct (code <? 0)%Z eqn:E1.
      * intros _. right. right. right. exists code, out. split; [reflexivity|]. left. now apply Z.ltb_lt.
      * destruct out; cbn; [|discriminate]. intros _. right. right. right.
        exists code, "". split; [reflexivity|]. right. split; [|reflexivity].
        apply Z.eqb_neq in E0. apply Z.ltb_ge in E1. lia.
    + intros [->|[->|[->|(code & out & -> & H)]]]; try reflexivity. cbn.
      destruct H as [H|[H ->]].
      * replace (code =? 0)%Z with false by (symmetry; apply Z.eqb_neq; lia).
        replace (code <? 0)%Z with true by (symmetry; apply Z.ltb_lt; lia). reflexivity.
      * replace (code =? 0)%Z with false by (symmetry; apply Z.eqb_neq; lia).
        replace (code <? 0)%Z with false by (symmetry; apply Z.ltb_ge; lia). reflexivity.
  - intros o H. destruct r as [| | |code out]; try discriminate H. cbn in H.
    destruct (code =? 0)%Z eqn:E0.
    + inversion H. subst. exists code. split; [reflexivity|]. apply Z.eqb_eq in E0. lia.
    + destruct (code <? 0)%Z eqn:E1; [discriminate H|].
      destruct (str_empty out); [discriminate H|]. inversion H. subst.
      exists code. split; [reflexivity|]. apply Z.ltb_ge in E1. lia.
Qed.

(* ---- diagnostics --------------------------------------------------------- *)

(* a diagnostic of one of the two rules, projected: position of the run: key
   and the payload that distinguishes issues *)
Record diag := { d_file : nat; d_pos : pos; d_rule : rule; d_body : list N }.

Fixpoint bytes (s : string) : list N :=
  match s with
  | EmptyString => []
  | String c r => N_of_ascii c :: bytes r
  end.

(* ---- shellcheck callback -------------------------------------------------- *)

Record issue := { is_code : N; is_line : N; is_col : N; is_level : string; is_msg : string }.

(* result of json.Unmarshal(stdout, &[]shellcheckError) *)
Inductive sc_json := JBad | JList (l : list issue).

(* strings.TrimSuffix(msg, ".") *)
Fixpoint trim_dot (s : string) : string :=
  match s with
  | EmptyString => EmptyString
  | String c EmptyString => if Ascii.eqb c "." then EmptyString else s
  | String c r => String c (trim_dot r)
  end.

(* "SC%d:%s:%d:%d: %s" with line-1 (lines are >= 1 in the model: see docs) *)
Definition sc_diag (f : nat) (p : pos) (i : issue) : diag :=
  {| d_file := f; d_pos := p; d_rule := SC;
     d_body := is_code i :: N.pred (is_line i) :: is_col i :: bytes (is_level i) ++ 0%N :: bytes (trim_dot (is_msg i)) |}.

Inductive cb_res := CErr | CDiags (l : list diag).

Definition sc_callback (f : nat) (p : pos) (x : exec_res) (js : sc_json) : cb_res :=
  match x with
  | XOut _ =>
      match js with
      | JBad => CErr
      | JList l => CDiags (map (sc_diag f p) l)
      end
  | _ => CErr
  end.

(* non-JSON or failed run => error; each JSON issue => exactly one diagnostic
   at the run: position, in order *)
Theorem shellcheck_parse_spec f p x js :
  (sc_callback f p x js = CErr <-> is_xerr x = true \/ js = JBad) /\
  (forall l, is_xerr x = false -> js = JList l ->
     exists ds, sc_callback f p x js = CDiags ds /\ length ds = length l /\
       forall k i, nth_error l k = Some i ->
         exists d, nth_error ds k = Some d /\ d_pos d = p /\ d_file d = f /\ d_rule d = SC /\ d = sc_diag f p i).
Proof.
  split.
  - destruct x; cbn; try (split; [auto|reflexivity]).
    destruct js; split; try reflexivity; auto; try discriminate.
    intros [H|H]; discriminate H.
  - intros l Hx ->. destruct x; try discriminate Hx. cbn.
    exists (map (sc_diag f p) l). split; [reflexivity|]. split; [apply map_length|].
    intros k i Hk. exists (sc_diag f p i). rewrite nth_error_map, Hk. repeat split.
Qed.

(* ---- pyflakes callback ----------------------------------------------------- *)

Fixpoint drop (n : nat) (s : string) : string :=
  match n, s with
  | 0, _ => s
  | S n', String _ r => drop n' r
  | S _, EmptyString => EmptyString
  end.

Fixpoint take (n : nat) (s : string) : string :=
  match n, s with
  | 0, _ => EmptyString
  | S n', String c r => String c (take n' r)
  | S _, EmptyString => EmptyString
  end.

(* bytes.Index *)
Fixpoint find (p s : string) : option nat :=
  if pfx p s then Some 0
  else match s with
       | EmptyString => None
       | String _ r => match find p r with Some i => Some (S i) | None => None end
       end.

Definition cr : ascii := "013"%char.

(* strip one trailing \r *)
Fixpoint strip_cr (s : string) : string :=
  match s with
  | EmptyString => EmptyString
  | String c EmptyString => if Ascii.eqb c cr then EmptyString else s
  | String c r => String c (strip_cr r)
  end.

Definition stdin_tag : string := "<stdin>:".

(* the loop `for len(stdout) > 0 { stdout, err = parseNextError(stdout) }`:
   Some msgs = no error (messages of the diagnostics in order), None = error *)
Fixpoint py_parse (fuel : nat) (b : string) (acc : list string) : option (list string) :=
  match fuel with
  | 0 => Some (rev acc)
  | S fuel' =>
      if str_empty b then Some (rev acc)
      else match find stdin_tag b with
           | None => Some (rev acc)
           | Some i =>
               let b1 := drop (i + 8) b in
               match find newline b1 with
               | None => None
               | Some k => py_parse fuel' (drop (k + 1) b1) (strip_cr (take k b1) :: acc)
               end
           end
  end.

Definition py_messages (out : string) : option (list string) := py_parse (S (String.length out)) out [].

(* oneLine (error.go) on bytes: LF, CR (CR LF as one), NEL (C2 85), LS (E2 80 A8) and PS
   (E2 80 A9) become a space.  From a2acba6 on the text of a tool goes through it before it
   is put into a message. *)
Fixpoint one_line_s (s : string) : string :=
  match s with
  | EmptyString => EmptyString
  | String c r =>
      if Ascii.eqb c cr then
        match r with
        | String d r' => if Ascii.eqb d "010"%char then String " "%char (one_line_s r') else String " "%char (one_line_s r)
        | EmptyString => String " "%char EmptyString
        end
      else if Ascii.eqb c "010"%char then String " "%char (one_line_s r)
      else if Ascii.eqb c "194"%char then
        match r with
        | String d r' => if Ascii.eqb d "133"%char then String " "%char (one_line_s r') else String c (one_line_s r)
        | EmptyString => String c EmptyString
        end
      else if Ascii.eqb c "226"%char then
        match r with
        | String d (String e r'') =>
            if Ascii.eqb d "128"%char && (Ascii.eqb e "168"%char || Ascii.eqb e "169"%char)
            then String " "%char (one_line_s r'') else String c (one_line_s r)
        | _ => String c (one_line_s r)
        end
      else String c (one_line_s r)
  end.

Example one_line_s_ex :
  one_line_s (" b" ++ String cr EmptyString)%string = " b "%string /\
  one_line_s ("a" ++ String cr (String "010"%char "b") ++ String "226"%char (String "128"%char (String "168"%char "c")))%string = "a b c"%string.
Proof. split; vm_compute; reflexivity. Qed.

Definition py_diag (f : nat) (p : pos) (m : string) : diag :=
  {| d_file := f; d_pos := p; d_rule := PY; d_body := bytes (one_line_s m) |}.

Definition py_callback (f : nat) (p : pos) (x : exec_res) : cb_res :=
  match x with
  | XOut out =>
      match py_messages out with
      | None => CErr
      | Some ms => CDiags (map (py_diag f p) ms)
      end
  | _ => CErr
  end.

Definition callback (f : nat) (i : inv) (r : os_result) (js : sc_json) : cb_res :=
  match i_rule i with
  | SC => sc_callback f (i_pos i) (exec_outcome r) js
  | PY => py_callback f (i_pos i) (exec_outcome r)
  end.

Definition cb_diags (c : cb_res) : list diag := match c with CDiags l => l | CErr => [] end.
Definition is_cerr (c : cb_res) : bool := match c with CErr => true | CDiags _ => false end.

(* every diagnostic of a callback sits at the run: position of its step *)
Lemma callback_pos f i r js d : In d (cb_diags (callback f i r js)) -> d_pos d = i_pos i /\ d_file d = f /\ d_rule d = i_rule i.
Proof.
  unfold callback. destruct (i_rule i).
  - unfold sc_callback. destruct (exec_outcome r); try contradiction.
    destruct js; [contradiction|]. cbn. intro H. apply in_map_iff in H. destruct H as [x [<- _]]. auto.
  - unfold py_callback. destruct (exec_outcome r); try contradiction.
    destruct (py_messages out); [|contradiction]. cbn. intro H. apply in_map_iff in H. destruct H as [x [<- _]]. auto.
Qed.

(* the failure patterns named by the property are errors for both tools *)
Theorem failure_patterns_fatal f i js :
  (forall r, r = OSStartErr \/ r = OSPipeErr \/ r = OSWriteErr -> callback f i r js = CErr) /\
  (forall code out, (code < 0)%Z -> callback f i (OSExit code out) js = CErr) /\
  (forall code, (code > 0)%Z -> callback f i (OSExit code "") js = CErr) /\
  (forall code out, i_rule i = SC -> callback f i (OSExit code out) JBad = CErr).
Proof.
  unfold callback. repeat split.
  - intros r [-> | [-> | ->]]; destruct (i_rule i); reflexivity.
  - intros code out H. cbn.
    replace (code =? 0)%Z with false by (symmetry; apply Z.eqb_neq; lia).
    replace (code <? 0)%Z with true by (symmetry; apply Z.ltb_lt; lia).
    destruct (i_rule i); reflexivity.
  - intros code H. cbn.
    replace (code =? 0)%Z with false by (symmetry; apply Z.eqb_neq; lia).
    replace (code <? 0)%Z with false by (symmetry; apply Z.ltb_ge; lia).
    destruct (i_rule i); reflexivity.
  - intros code out ->. cbn. destruct (code =? 0)%Z; [reflexivity|].
    destruct (code <? 0)%Z; [reflexivity|]. destruct (str_empty out); reflexivity.
Qed.

(* ---- pyflakes output made of well-formed lines ----------------------------- *)

Definition no_nl (m : string) : Prop := find newline m = None.

Definition py_line (m : string) : string := (stdin_tag ++ m ++ newline)%string.

Lemma pfx_app p s : pfx p (p ++ s) = true.
Proof. induction p as [|a p IH]; [reflexivity|]. cbn. now rewrite Ascii.eqb_refl, IH. Qed.

Lemma find_app_hd p s : find p (p ++ s) = Some 0.
Proof. destruct (p ++ s)%string eqn:E; cbn; rewrite <- E, pfx_app; reflexivity. Qed.

Lemma drop_app p s : drop (String.length p) (p ++ s) = s.
Proof. induction p as [|a p IH]; [reflexivity|]. exact IH. Qed.

Lemma take_app p s : take (String.length p) (p ++ s) = p.
Proof. induction p as [|a p IH]; [reflexivity|]. cbn. now rewrite IH. Qed.

Lemma find_nl_app m s : no_nl m -> find newline (m ++ newline ++ s) = Some (String.length m).
Proof.
  unfold no_nl. induction m as [|a m IH]; intro H.
  - reflexivity.
  - cbn [append]. cbn [find] in H |- *.
    change (pfx newline (String a m)) with (andb (Ascii.eqb nl a) true) in H.
    change (pfx newline (String a (m ++ newline ++ s))) with (andb (Ascii.eqb nl a) true).
    destruct (andb (Ascii.eqb nl a) true); [discriminate H|].
    destruct (find newline m) eqn:F; [discriminate H|].
    rewrite (IH eq_refl). reflexivity.
Qed.

Lemma app_assoc_s (a b c : string) : ((a ++ b) ++ c = a ++ (b ++ c))%string.
Proof. induction a as [|x a IH]; [reflexivity|]. cbn. now rewrite IH. Qed.

Lemma len_app (a b : string) : String.length (a ++ b) = String.length a + String.length b.
Proof. induction a as [|x a IH]; [reflexivity|]. cbn. now rewrite IH. Qed.

Fixpoint concat_s (l : list string) : string :=
  match l with [] => EmptyString | x :: r => (x ++ concat_s r)%string end.

Lemma py_parse_lines ms : Forall no_nl ms -> forall fuel acc tail,
  String.length (concat_s (map py_line ms)) < fuel ->
  py_parse fuel (concat_s (map py_line ms) ++ tail) acc =
  py_parse (fuel - length ms) tail (rev (map strip_cr ms) ++ acc).
Proof.
  induction 1 as [|m ms Hm _ IH]; intros fuel acc tail Hf.
  - cbn. now rewrite Nat.sub_0_r.
  - destruct fuel as [|fuel]; [lia|].
    cbn [map concat_s].
    change (py_line m) with (stdin_tag ++ m ++ newline)%string. rewrite !app_assoc_s.
    cbn [py_parse].
    change (str_empty (stdin_tag ++ _)) with false. cbn iota.
    rewrite find_app_hd. cbn [Nat.add].
    change 8 with (String.length stdin_tag). rewrite drop_app.
    rewrite (find_nl_app m _ Hm).
    rewrite Nat.add_1_r.
    change (drop (S (String.length m)) (m ++ newline ++ ?x)) with (drop (S (String.length m)) (m ++ newline ++ x)).
    assert (D : forall x, drop (S (String.length m)) (m ++ newline ++ x) = x).
    { intro x. clear. induction m as [|a m IH]; [reflexivity|exact IH]. }
    rewrite D, take_app.
    rewrite IH.
    + cbn [length Nat.sub map rev]. now rewrite <- app_assoc.
    + cbn [map concat_s] in Hf. unfold py_line at 1 in Hf. rewrite !len_app in Hf. cbn in Hf. lia.
Qed.

(* each "<stdin>:" line => one diagnostic, in order; an unterminated last
   message => error *)
Theorem pyflakes_parse_spec ms :
  Forall no_nl ms ->
  py_messages (concat_s (map py_line ms)) = Some (map strip_cr ms) /\
  (forall m, no_nl m -> py_messages (concat_s (map py_line ms) ++ stdin_tag ++ m) = None).
Proof.
  intro H. split.
  - unfold py_messages.
    replace (concat_s (map py_line ms)) with (concat_s (map py_line ms) ++ "")%string at 2
      by (generalize (concat_s (map py_line ms)); intro s; induction s as [|a s IH]; [reflexivity|cbn; now rewrite IH]).
    rewrite py_parse_lines by (auto; lia).
    rewrite app_nil_r.
    assert (L : length ms <= String.length (concat_s (map py_line ms))).
    { clear. induction ms as [|m ms IH]; [cbn; lia|]. cbn [map concat_s length]. unfold py_line at 1.
      rewrite !len_app. cbn. lia. }
    destruct (S (String.length (concat_s (map py_line ms))) - length ms) eqn:E; [lia|].
    cbn. now rewrite rev_involutive.
  - intros m Hm. unfold py_messages.
    rewrite py_parse_lines by (auto; rewrite len_app; lia).
    assert (L : length ms <= String.length (concat_s (map py_line ms))).
    { clear. induction ms as [|x ms IH]; [cbn; lia|]. cbn [map concat_s length]. unfold py_line at 1.
      rewrite !len_app. cbn. lia. }
    rewrite len_app.
    destruct (S (String.length (concat_s (map py_line ms)) + String.length (stdin_tag ++ m)) - length ms) eqn:E; [lia|].
    cbn [py_parse]. change (str_empty (stdin_tag ++ m)) with false. cbn iota.
    rewrite find_app_hd. cbn [Nat.add]. change 8 with (String.length stdin_tag). rewrite drop_app.
    unfold no_nl in Hm. now rewrite Hm.
Qed.

Example py_messages_ex :
  py_messages ("<stdin>:1:1: 'os' imported but unused" ++ newline ++ "  junk" ++ newline ++ "<stdin>:2:7: x" ++ String cr newline)
  = Some ["1:1: 'os' imported but unused"; "2:7: x"].
Proof. vm_compute. reflexivity. Qed.
