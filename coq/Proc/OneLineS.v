(* Proc/OneLineS.v — the byte-level [one_line_s] (the text of an external tool before it is put
   into a message) leaves neither LF nor CR in the text, and no text without line breaks and
   without the lead bytes of NEL / LS / PS is changed. *)
From Coq Require Import String Ascii List Bool Arith Lia.
From AL Require Import Proc.ExecOutcome.
Import ListNotations.

Fixpoint no_lfcr (s : string) : bool :=
  match s with
  | EmptyString => true
  | String c r => negb (Ascii.eqb c "010"%char) && negb (Ascii.eqb c cr) && no_lfcr r
  end.

Lemma one_line_s_len_ind (P : string -> Prop) :
  (forall s, (forall t, String.length t < String.length s -> P t) -> P s) -> forall s, P s.
Proof.
  intros H s. remember (String.length s) as n eqn:E. revert s E.
  induction n as [n IH] using lt_wf_ind. intros s ->. apply H. intros t Ht. eapply IH; eauto.
Qed.

Theorem one_line_s_no_lfcr : forall s, no_lfcr (one_line_s s) = true.
Proof.
  apply one_line_s_len_ind. intros s IH.
  destruct s as [|c r]; [reflexivity|]. cbn [one_line_s].
  assert (Hr : no_lfcr (one_line_s r) = true) by (apply IH; cbn; lia).
  destruct (Ascii.eqb c cr) eqn:Ecr.
  - destruct r as [|d r']; [reflexivity|].
    destruct (Ascii.eqb d "010"%char); cbn [no_lfcr]; [|exact Hr].
    apply IH. cbn. lia.
  - destruct (Ascii.eqb c "010"%char) eqn:Elf; [exact Hr|].
    assert (Hc : forall t, no_lfcr t = true -> no_lfcr (String c t) = true).
    { intros t Ht. cbn [no_lfcr]. now rewrite Elf, Ecr, Ht. }
    destruct (Ascii.eqb c "194"%char).
    + destruct r as [|d r']; [now apply Hc|].
      destruct (Ascii.eqb d "133"%char); [|now apply Hc].
      cbn [no_lfcr]. apply IH. cbn. lia.
    + destruct (Ascii.eqb c "226"%char); [|now apply Hc].
      destruct r as [|d [|e r'']]; try now apply Hc.
      destruct (Ascii.eqb d "128"%char && (Ascii.eqb e "168"%char || Ascii.eqb e "169"%char)); [|now apply Hc].
      cbn [no_lfcr]. apply IH. cbn. lia.
Qed.
