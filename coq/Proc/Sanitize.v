(* Proc/Sanitize.v — model of sanitizeExpressionsInScript (rule_shellcheck.go):

     for { s := Index(src, "${{"); if s == -1 {append rest; return}
           e := Index(src[s:], "}}"); if e == -1 {append rest; return}
           e += s + 2; write src[:s]; write '_' * (e-s); src = src[e:] }

   The Go loop works with indices; the model is the equivalent one-pass
   scanner with three modes (outside a placeholder, inside, on the second
   brace of the closing "}}").  Outside, a "${{" opens a placeholder only if a
   "}}" follows somewhere ([close_in]); once no "}}" follows, no later "${{"
   can open one either, so scanning on is the same as appending the rest.
   The equivalence with the Go loop is what the correspondence check tests
   (exhaustively for short strings over the alphabet $ { } a \n). *)
From AL Require Import Base.Str.

Definition us : ascii := "_"%char.
Definition nl : ascii := "010"%char.

(* strings.HasPrefix with a boolean byte comparison *)
Fixpoint pfx (p s : string) : bool :=
  match p with
  | EmptyString => true
  | String a p' =>
      match s with
      | EmptyString => false
      | String b s' => andb (Ascii.eqb a b) (pfx p' s')
      end
  end.

(* "}}" occurs somewhere in s *)
Fixpoint close_in (s : string) : bool :=
  match s with
  | EmptyString => false
  | String c r =>
      match r with
      | String d _ => if andb (Ascii.eqb c "}") (Ascii.eqb d "}") then true else close_in r
      | EmptyString => false
      end
  end.

Inductive smode := SOut | SIn | SClose.

Fixpoint san (m : smode) (s : string) : string :=
  match s with
  | EmptyString => EmptyString
  | String c r =>
      match m with
      | SClose => String us (san SOut r)
      | SIn => if pfx "}}" s then String us (san SClose r) else String us (san SIn r)
      | SOut => if andb (pfx "${{" s) (close_in r) then String us (san SIn r)
                else String c (san SOut r)
      end
  end.

Definition sanitize (s : string) : string := san SOut s.

(* ---- length ------------------------------------------------------------ *)

Lemma san_len m s : String.length (san m s) = String.length s.
Proof.
  revert m; induction s as [|c r IH]; intro m; [reflexivity|].
  destruct m; cbn [san].
  - destruct (andb _ _); cbn [String.length]; now rewrite IH.
  - destruct (pfx "}}" (String c r)); cbn [String.length]; now rewrite IH.
  - cbn [String.length]; now rewrite IH.
Qed.

Theorem sanitize_len s : String.length (sanitize s) = String.length s.
Proof. apply san_len. Qed.

(* ---- pointwise: every byte is kept or becomes '_' ----------------------- *)

Lemma san_get m s i :
  String.get i (san m s) = String.get i s \/ String.get i (san m s) = Some us.
Proof.
  revert m i; induction s as [|c r IH]; intros m i; [left; reflexivity|].
  destruct m; cbn [san].
  - destruct (andb _ _); destruct i as [|i]; cbn [String.get]; auto.
  - destruct (pfx "}}" (String c r)); destruct i as [|i]; cbn [String.get]; auto.
  - destruct i as [|i]; cbn [String.get]; auto.
Qed.

(* offsets stay valid: a byte of the sanitized script is the byte of the
   original at the same offset unless it is a placeholder underscore *)
Theorem sanitize_outside_id s i :
  String.get i (sanitize s) = String.get i s \/ String.get i (sanitize s) = Some us.
Proof. apply san_get. Qed.

(* line structure: no line break is added or moved; a line break of the
   original disappears only if it was inside a placeholder (became '_') *)
Theorem sanitize_lines s i :
  (String.get i (sanitize s) = Some nl -> String.get i s = Some nl) /\
  (String.get i s = Some nl ->
   String.get i (sanitize s) = Some nl \/ String.get i (sanitize s) = Some us).
Proof.
  destruct (sanitize_outside_id s i) as [H|H]; split; intro E.
  - now rewrite <- H.
  - left. now rewrite H.
  - rewrite H in E. discriminate E.
  - now right.
Qed.

(* if no line break was replaced, the line breaks are exactly the same *)
Corollary sanitize_lines_exact s :
  (forall i, String.get i s = Some nl -> String.get i (sanitize s) <> Some us) ->
  forall i, String.get i (sanitize s) = Some nl <-> String.get i s = Some nl.
Proof.
  intros H i. destruct (sanitize_lines s i) as [A B]. split; [exact A|].
  intro E. destruct (B E) as [C|C]; [exact C|]. exfalso. exact (H i E C).
Qed.

(* ---- no placeholder remains --------------------------------------------- *)

(* occurrence of a pattern at offset i *)
Fixpoint at_off (p : string) (i : nat) (s : string) : bool :=
  match i, s with
  | 0, _ => pfx p s
  | S i', String _ r => at_off p i' r
  | S _, EmptyString => false
  end.

(* a placeholder = "${{" at some offset i and "}}" at a later offset *)
Definition has_placeholder (s : string) : Prop :=
  exists i j, i < j /\ at_off "${{" i s = true /\ at_off "}}" j s = true.

Lemma prefix2 s : pfx "}}" s = true <-> exists r, s = String "}" (String "}" r).
Proof.
  split.
  - destruct s as [|c [|d r]]; cbn [pfx].
    + discriminate.
    + rewrite andb_false_r. discriminate.
    + rewrite andb_true_r. intro H. apply andb_prop in H. destruct H as [Ec Ed].
      apply Ascii.eqb_eq in Ec, Ed. subst. now exists r.
  - intros [r ->]. reflexivity.
Qed.

Lemma close_in_at s : close_in s = true <-> exists j, at_off "}}" j s = true.
Proof.
  induction s as [|c r IH].
  - split; [discriminate|]. intros [[|j] H]; discriminate H.
  - cbn [close_in]. destruct r as [|d r'].
    + split; [discriminate|]. intros [[|[|j]] H].
      * cbn [at_off] in H. apply prefix2 in H. destruct H as [x H]. discriminate H.
      * discriminate H.
      * discriminate H.
    + destruct (andb (Ascii.eqb c "}") (Ascii.eqb d "}")) eqn:E.
      * split; [intros _|reflexivity]. exists 0. cbn [at_off].
        apply andb_prop in E. destruct E as [E1 E2].
        apply Ascii.eqb_eq in E1, E2. subst. apply prefix2. now exists r'.
      * rewrite IH. split.
        -- intros [j H]. exists (S j). exact H.
        -- intros [[|j] H].
           ++ exfalso. cbn [at_off] in H. apply prefix2 in H. destruct H as [x H].
              inversion H. subst. cbn in E. discriminate E.
           ++ exists j. exact H.
Qed.

(* the sanitized text contains a "}}" only where the original has one *)
Lemma san_close m s j : at_off "}}" j (san m s) = true -> at_off "}}" j s = true.
Proof.
  intro H.
  assert (G : forall k, String.get k (san m s) = String.get k s \/ String.get k (san m s) = Some us)
    by (intro k; apply san_get).
  assert (L : String.length (san m s) = String.length s) by apply san_len.
  revert H G L. generalize (san m s) as t. clear m.
  revert s. induction j as [|j IH]; intros s t H G L.
  - cbn [at_off] in H |- *. apply prefix2 in H. destruct H as [t' ->].
    destruct s as [|c [|d s']]; cbn in L; try discriminate L.
    pose proof (G 0) as G0. pose proof (G 1) as G1. cbn in G0, G1.
    destruct G0 as [G0|G0]; [|discriminate G0].
    destruct G1 as [G1|G1]; [|discriminate G1].
    inversion G0. inversion G1. subst. apply prefix2. now exists s'.
  - destruct t as [|a t']; [discriminate H|].
    destruct s as [|c s']; [discriminate L|].
    cbn [at_off] in H |- *. apply (IH s' t' H).
    + intro k. exact (G (S k)).
    + cbn in L. lia.
Qed.

Lemma prefix3 s : pfx "${{" s = true <-> exists r, s = String "$" (String "{" (String "{" r)).
Proof.
  split.
  - destruct s as [|c [|d [|e r]]]; cbn [pfx]; rewrite ?andb_false_r; try discriminate.
    rewrite andb_true_r. intro H.
    apply andb_prop in H. destruct H as [Ec H]. apply andb_prop in H. destruct H as [Ed Ee].
    apply Ascii.eqb_eq in Ec, Ed, Ee. subst. now exists r.
  - intros [r ->]. reflexivity.
Qed.

(* a "${{" in the output has no "}}" after it *)
Lemma san_no_ph m s i : at_off "${{" i (san m s) = true ->
  forall j, i < j -> at_off "}}" j (san m s) = false.
Proof.
  revert m s. induction i as [|i IH]; intros m s H j Hj.
  - destruct s as [|c r]; [destruct m; discriminate H|].
    destruct j as [|j]; [lia|].
    cbn [at_off] in H. apply prefix3 in H. destruct H as [t Ht].
    destruct m; cbn [san] in Ht |- *.
    + destruct (andb (pfx "${{" (String c r)) (close_in r)) eqn:E.
      * inversion Ht.
      * destruct (at_off "}}" (S j) (String c (san SOut r))) eqn:F; [|reflexivity].
        exfalso. cbn [at_off] in F. apply san_close in F.
        assert (C : close_in r = true) by (apply close_in_at; now exists j).
        rewrite C, andb_true_r in E.
        (* the three kept bytes of the output are the bytes of the input *)
        inversion Ht as [[Hc Ht']]. subst c. clear Ht.
        destruct r as [|d r1]; [discriminate Ht'|].
        cbn [san] in Ht'.
        destruct (andb (pfx "${{" (String d r1)) (close_in r1)); [inversion Ht'|].
        inversion Ht' as [[Hd Ht'']]. subst d. clear Ht'.
        destruct r1 as [|e r2]; [discriminate Ht''|].
        cbn [san] in Ht''.
        destruct (andb (pfx "${{" (String e r2)) (close_in r2)); [inversion Ht''|].
        inversion Ht'' as [[He Ht3]]. subst e.
        cbn in E. discriminate E.
    + destruct (pfx "}}" (String c r)); inversion Ht.
    + inversion Ht.
  - destruct s as [|c r]; [destruct m; discriminate H|].
    destruct j as [|j]; [lia|].
    destruct m; cbn [san] in H |- *.
    + destruct (andb _ _); cbn [at_off] in H |- *; apply (IH _ _ H); lia.
    + destruct (pfx "}}" (String c r)); cbn [at_off] in H |- *; apply (IH _ _ H); lia.
    + cbn [at_off] in H |- *. apply (IH _ _ H); lia.
Qed.

Theorem sanitize_no_placeholder s : ~ has_placeholder (sanitize s).
Proof.
  intros (i & j & Hij & Hi & Hj).
  unfold sanitize in *. rewrite (san_no_ph SOut s i Hi j Hij) in Hj. discriminate Hj.
Qed.

(* the hypotheses are satisfiable by non-trivial values *)
Example sanitize_ex1 :
  sanitize "echo ${{ matrix.os }} && ${{ unclosed" = "echo ________________ && ${{ unclosed".
Proof. vm_compute. reflexivity. Qed.
Example sanitize_ex2 : has_placeholder "echo ${{ a }}".
Proof. exists 5, 11. split; [lia|]. split; reflexivity. Qed.
