(* Proc/SyncSites.v — the synchronisation operations of the package, in source order, are exactly
   the ones the models were written from: the semaphore / WaitGroup / errgroup protocol of
   concurrentProcess and LintFiles (Proc/ProcModel.v), the read / write locks around the two
   shared caches (Multi/Cache.v: every cache operation is atomic), the mutexes that serialise
   the parsing of tool output and the rule registry.  The list is taken from the source on every
   run (Gen/GenSyncSites.v, harness/cmd/c20/syncsites.go).  Moving, removing or adding an
   Acquire / Release / Add / Done / Wait / Go / Lock / Unlock changes the list and breaks
   [sync_sites_as_modelled]; independently of the exact list, [sync_sites_balanced] checks that
   in every function each acquisition has its release. *)
From AL Require Import Base.Str Gen.GenSyncSites.

Definition expected : list (string * string * string) := [
  ("action_metadata.go", "LocalActionsCache.readCache", "c.mu.RLock");
  ("action_metadata.go", "LocalActionsCache.readCache", "c.mu.RUnlock");
  ("action_metadata.go", "LocalActionsCache.writeCache", "c.mu.Lock");
  ("action_metadata.go", "LocalActionsCache.writeCache", "defer c.mu.Unlock");
  ("error.go", "ErrorFormatter.RegisterRule", "f.rulesMu.Lock");
  ("error.go", "ErrorFormatter.RegisterRule", "defer f.rulesMu.Unlock");
  ("linter.go", "Linter.LintFiles", "eg.Go");
  ("linter.go", "Linter.LintFiles", "sema.Acquire");
  ("linter.go", "Linter.LintFiles", "sema.Release");
  ("linter.go", "Linter.LintFiles", "eg.Wait");
  ("process.go", "concurrentProcess.run", "proc.wg.Add");
  ("process.go", "concurrentProcess.run", "eg.Go");
  ("process.go", "concurrentProcess.run", "defer proc.wg.Done");
  ("process.go", "concurrentProcess.run", "proc.sema.Acquire");
  ("process.go", "concurrentProcess.run", "proc.sema.Release");
  ("process.go", "concurrentProcess.wait", "proc.wg.Wait");
  ("process.go", "externalCommand.wait", "cmd.eg.Wait");
  ("reusable_workflow.go", "LocalReusableWorkflowCache.readCache", "c.mu.RLock");
  ("reusable_workflow.go", "LocalReusableWorkflowCache.readCache", "c.mu.RUnlock");
  ("reusable_workflow.go", "LocalReusableWorkflowCache.writeCache", "c.mu.Lock");
  ("reusable_workflow.go", "LocalReusableWorkflowCache.writeCache", "defer c.mu.Unlock");
  ("reusable_workflow.go", "LocalReusableWorkflowCache.WriteWorkflowCallEvent", "c.mu.RLock");
  ("reusable_workflow.go", "LocalReusableWorkflowCache.WriteWorkflowCallEvent", "c.mu.RUnlock");
  ("reusable_workflow.go", "LocalReusableWorkflowCache.WriteWorkflowCallEvent", "c.mu.Lock");
  ("reusable_workflow.go", "LocalReusableWorkflowCache.WriteWorkflowCallEvent", "c.mu.Unlock");
  ("rule_pyflakes.go", "RulePyflakes.parseNextError", "rule.mu.Lock");
  ("rule_pyflakes.go", "RulePyflakes.parseNextError", "rule.mu.Unlock");
  ("rule_shellcheck.go", "RuleShellcheck.runShellcheck", "rule.mu.Lock");
  ("rule_shellcheck.go", "RuleShellcheck.runShellcheck", "defer rule.mu.Unlock")
].

Theorem sync_sites_as_modelled : sync_sites = expected.
Proof. vm_compute. reflexivity. Qed.

(* ---- balance: per function, as many releases as acquisitions ---- *)
Fixpoint ends_with (suffix s : string) : bool :=
  if String.eqb suffix s then true
  else match s with EmptyString => false | String _ r => ends_with suffix r end.

Definition count_op (suffix : string) (f g : string) (l : list (string * string * string)) : nat :=
  length (filter (fun x => let '(f', g', op) := x in String.eqb f f' && String.eqb g g' && ends_with suffix op) l).

Definition balanced_in (l : list (string * string * string)) (x : string * string * string) : bool :=
  let '(f, g, _) := x in
  Nat.eqb (count_op ".Lock" f g l) (count_op ".Unlock" f g l) &&
  Nat.eqb (count_op ".RLock" f g l) (count_op ".RUnlock" f g l) &&
  Nat.eqb (count_op ".Acquire" f g l) (count_op ".Release" f g l) &&
  Nat.eqb (count_op ".Add" f g l) (count_op ".Done" f g l).

Definition balanced (l : list (string * string * string)) : bool := forallb (balanced_in l) l.

Theorem sync_sites_balanced : balanced sync_sites = true.
Proof. vm_compute. reflexivity. Qed.

(* the protocol of one tool invocation, as the transition system has it: Add before the
   goroutine starts; inside it Done is deferred first, then Acquire, (run), Release *)
Example process_run_protocol :
  map snd (filter (fun x => String.eqb (snd (fst x)) "concurrentProcess.run") sync_sites) =
  ["proc.wg.Add"; "eg.Go"; "defer proc.wg.Done"; "proc.sema.Acquire"; "proc.sema.Release"].
Proof. vm_compute. reflexivity. Qed.

(* an unbalanced list is rejected: the checker is not vacuous *)
Example balanced_rejects :
  balanced [("p.go", "f", "m.Lock"); ("p.go", "f", "s.Acquire"); ("p.go", "f", "s.Release")] = false.
Proof. vm_compute. reflexivity. Qed.
