(* Proc/ProcModel.v — the bookkeeping protocol of process.go / linter.go as a
   labelled transition system.

   Threads: the main thread (LintFiles / LintFile / Lint), one thread per file
   (Linter.check: the visitor calls proc.run for every applicable run: step,
   then VisitWorkflowPost of shellcheck and of pyflakes wait for the rule's
   errgroup), one goroutine per tool invocation (concurrentProcess.run).

   State: free semaphore slots, WaitGroup counter, per-invocation phase,
   per-file program counter with the errgroups of its two rule instances
   (pending count, error flag), the diagnostics appended by callbacks, the
   main program counter.  Events: the schedule points exposed by the hooks
   (verifPoint in process.go) plus the return of Lint*.  The behaviour of the
   tool in an invocation (any [os_result], any JSON verdict) and its latency
   (any position of the exit event) are part of the event alphabet.

   [woe] ("wait on error") distinguishes the repaired LintFiles (proc.wait()
   is reached on the fatal-error path too) from the original one. *)
From AL Require Import Base.Str Proc.Sanitize Proc.ShellSel Proc.ExecOutcome.
From Coq Require Import ZArith.

Inductive phase := PSpawned | PAcquired | PExited | PReleased | PCalled | PDone.

Record task := {
  t_file : nat;
  t_inv : inv;
  t_phase : phase;
  t_cb : cb_res }.      (* what the callback returns; fixed when the process exits *)

Inductive fpc :=
| FVisit                (* the visitor is walking jobs and steps *)
| FWait (r : rule)      (* VisitWorkflowPost of rule r: inside cmd.wait() *)
| FPost                 (* shellcheck's wait returned nil; pyflakes' not yet called *)
| FDone (err : bool).   (* Linter.check returned (err = fatal error) *)

Record egst := { eg_pending : nat; eg_err : bool }.

Record fstate := {
  f_pc : fpc;
  f_todo : list inv;    (* invocations the visitor has still to request *)
  f_sc : egst;
  f_py : egst }.

Inductive mpc :=
| MRun                  (* file threads are running / being waited for *)
| MWait                 (* inside proc.wait() *)
| MAfter                (* proc.wait() returned *)
| MReturned (fatal : bool).

Record state := {
  s_free : nat;
  s_wg : nat;
  s_tasks : list task;
  s_files : list fstate;
  s_diags : list diag;
  s_main : mpc }.

Inductive event :=
| ESpawn (f : nat) (i : inv)                       (* proc.run: wg.Add(1); eg.Go *)
| EAcquire (t : nat)                               (* sema.Acquire returned *)
| EExit (t : nat) (r : os_result) (js : sc_json)   (* exec.run returned; sema.Release follows *)
| ERelease (t : nat)                               (* sema.Release returned *)
| ECallback (t : nat)                              (* callback returned *)
| EDone (t : nat)                                  (* wg.Done, errgroup done *)
| EEgEnter (f : nat) (r : rule)                    (* cmd.wait() called *)
| EEgReturn (f : nat) (r : rule) (err : bool)      (* cmd.wait() returned *)
| EPwEnter                                         (* proc.wait() called *)
| EPwReturn                                        (* proc.wait() returned *)
| EReturn (fatal : bool).                          (* Lint* returned *)

(* ---- helpers -------------------------------------------------------------- *)

Fixpoint upd {A} (l : list A) (i : nat) (y : A) : list A :=
  match l, i with
  | [], _ => []
  | _ :: r, 0 => y :: r
  | x :: r, S i' => x :: upd r i' y
  end.

Definition pos_eqb (a b : pos) : bool := andb (N.eqb (fst a) (fst b)) (N.eqb (snd a) (snd b)).

Definition inv_eqb (a b : inv) : bool :=
  andb (andb (rule_eqb (i_rule a) (i_rule b)) (pos_eqb (i_pos a) (i_pos b)))
       (andb (String.eqb (i_sh a) (i_sh b)) (String.eqb (i_stdin a) (i_stdin b))).

(* remove the first invocation equal to i *)
Fixpoint remove_inv (i : inv) (l : list inv) : option (list inv) :=
  match l with
  | [] => None
  | x :: r => if inv_eqb i x then Some r
              else match remove_inv i r with Some r' => Some (x :: r') | None => None end
  end.

Definition eg_of (fs : fstate) (r : rule) : egst := match r with SC => f_sc fs | PY => f_py fs end.

Definition set_eg (fs : fstate) (r : rule) (g : egst) : fstate :=
  match r with
  | SC => {| f_pc := f_pc fs; f_todo := f_todo fs; f_sc := g; f_py := f_py fs |}
  | PY => {| f_pc := f_pc fs; f_todo := f_todo fs; f_sc := f_sc fs; f_py := g |}
  end.

Definition set_pc (fs : fstate) (pc : fpc) : fstate :=
  {| f_pc := pc; f_todo := f_todo fs; f_sc := f_sc fs; f_py := f_py fs |}.

Definition set_phase (x : task) (p : phase) : task :=
  {| t_file := t_file x; t_inv := t_inv x; t_phase := p; t_cb := t_cb x |}.

Definition phase_eqb (a b : phase) : bool :=
  match a, b with
  | PSpawned, PSpawned | PAcquired, PAcquired | PExited, PExited
  | PReleased, PReleased | PCalled, PCalled | PDone, PDone => true
  | _, _ => false
  end.

Definition is_done_pc (fs : fstate) : bool := match f_pc fs with FDone _ => true | _ => false end.
Definition is_err_pc (fs : fstate) : bool := match f_pc fs with FDone true => true | _ => false end.

Definition all_files_done (st : state) : bool := forallb is_done_pc (s_files st).
Definition any_file_err (st : state) : bool := existsb is_err_pc (s_files st).

Definition with_task (st : state) (t : nat) (y : task) : state :=
  {| s_free := s_free st; s_wg := s_wg st; s_tasks := upd (s_tasks st) t y;
     s_files := s_files st; s_diags := s_diags st; s_main := s_main st |}.

Definition with_file (st : state) (f : nat) (fs : fstate) : state :=
  {| s_free := s_free st; s_wg := s_wg st; s_tasks := s_tasks st;
     s_files := upd (s_files st) f fs; s_diags := s_diags st; s_main := s_main st |}.

Definition with_main (st : state) (m : mpc) : state :=
  {| s_free := s_free st; s_wg := s_wg st; s_tasks := s_tasks st;
     s_files := s_files st; s_diags := s_diags st; s_main := m |}.

(* ---- the transition function ---------------------------------------------- *)

Definition step (woe : bool) (st : state) (e : event) : option state :=
  match e with
  | ESpawn f i =>
      match nth_error (s_files st) f with
      | Some fs =>
          match f_pc fs, remove_inv i (f_todo fs) with
          | FVisit, Some todo' =>
              let g := eg_of fs (i_rule i) in
              let fs1 := set_eg {| f_pc := FVisit; f_todo := todo'; f_sc := f_sc fs; f_py := f_py fs |}
                                (i_rule i) {| eg_pending := S (eg_pending g); eg_err := eg_err g |} in
              Some {| s_free := s_free st; s_wg := S (s_wg st);
                      s_tasks := s_tasks st ++ [ {| t_file := f; t_inv := i; t_phase := PSpawned; t_cb := CErr |} ];
                      s_files := upd (s_files st) f fs1; s_diags := s_diags st; s_main := s_main st |}
          | _, _ => None
          end
      | None => None
      end
  | EAcquire t =>
      match nth_error (s_tasks st) t, s_free st with
      | Some x, S n =>
          if phase_eqb (t_phase x) PSpawned
          then Some {| s_free := n; s_wg := s_wg st; s_tasks := upd (s_tasks st) t (set_phase x PAcquired);
                       s_files := s_files st; s_diags := s_diags st; s_main := s_main st |}
          else None
      | _, _ => None
      end
  | EExit t r js =>
      match nth_error (s_tasks st) t with
      | Some x =>
          if phase_eqb (t_phase x) PAcquired
          then Some {| s_free := S (s_free st); s_wg := s_wg st;
                       s_tasks := upd (s_tasks st) t
                         {| t_file := t_file x; t_inv := t_inv x; t_phase := PExited;
                            t_cb := callback (t_file x) (t_inv x) r js |};
                       s_files := s_files st; s_diags := s_diags st; s_main := s_main st |}
          else None
      | None => None
      end
  | ERelease t =>
      match nth_error (s_tasks st) t with
      | Some x => if phase_eqb (t_phase x) PExited then Some (with_task st t (set_phase x PReleased)) else None
      | None => None
      end
  | ECallback t =>
      match nth_error (s_tasks st) t with
      | Some x =>
          if phase_eqb (t_phase x) PReleased then
            match nth_error (s_files st) (t_file x) with
            | Some fs =>
                let r := i_rule (t_inv x) in
                let g := eg_of fs r in
                let fs1 := set_eg fs r {| eg_pending := eg_pending g; eg_err := orb (eg_err g) (is_cerr (t_cb x)) |} in
                Some {| s_free := s_free st; s_wg := s_wg st;
                        s_tasks := upd (s_tasks st) t (set_phase x PCalled);
                        s_files := upd (s_files st) (t_file x) fs1;
                        s_diags := s_diags st ++ cb_diags (t_cb x); s_main := s_main st |}
            | None => None
            end
          else None
      | None => None
      end
  | EDone t =>
      match nth_error (s_tasks st) t with
      | Some x =>
          if phase_eqb (t_phase x) PCalled then
            match nth_error (s_files st) (t_file x) with
            | Some fs =>
                let r := i_rule (t_inv x) in
                let g := eg_of fs r in
                let fs1 := set_eg fs r {| eg_pending := pred (eg_pending g); eg_err := eg_err g |} in
                Some {| s_free := s_free st; s_wg := pred (s_wg st);
                        s_tasks := upd (s_tasks st) t (set_phase x PDone);
                        s_files := upd (s_files st) (t_file x) fs1;
                        s_diags := s_diags st; s_main := s_main st |}
            | None => None
            end
          else None
      | None => None
      end
  | EEgEnter f r =>
      match nth_error (s_files st) f with
      | Some fs =>
          match r, f_pc fs, f_todo fs with
          | SC, FVisit, [] => Some (with_file st f (set_pc fs (FWait SC)))
          | PY, FPost, _ => Some (with_file st f (set_pc fs (FWait PY)))
          | _, _, _ => None
          end
      | None => None
      end
  | EEgReturn f r err =>
      match nth_error (s_files st) f with
      | Some fs =>
          match f_pc fs with
          | FWait r' =>
              if andb (rule_eqb r r')
                      (andb (Nat.eqb (eg_pending (eg_of fs r)) 0) (Bool.eqb err (eg_err (eg_of fs r))))
              then Some (with_file st f (set_pc fs
                      (if err then FDone true else match r with SC => FPost | PY => FDone false end)))
              else None
          | _ => None
          end
      | None => None
      end
  | EPwEnter =>
      match s_main st with
      | MRun => if andb (all_files_done st) (orb woe (negb (any_file_err st)))
                then Some (with_main st MWait) else None
      | _ => None
      end
  | EPwReturn =>
      match s_main st with
      | MWait => if Nat.eqb (s_wg st) 0 then Some (with_main st MAfter) else None
      | _ => None
      end
  | EReturn fatal =>
      match s_main st with
      | MAfter => if Bool.eqb fatal (any_file_err st) then Some (with_main st (MReturned fatal)) else None
      | MRun => if andb (negb woe) (andb fatal (andb (all_files_done st) (any_file_err st)))
                then Some (with_main st (MReturned true)) else None
      | _ => None
      end
  end.

Definition eg0 := {| eg_pending := 0; eg_err := false |}.

Definition init (cap : nat) (wfs : list mwf) : state :=
  {| s_free := cap; s_wg := 0; s_tasks := [];
     s_files := map (fun w => {| f_pc := FVisit; f_todo := invocations w; f_sc := eg0; f_py := eg0 |}) wfs;
     s_diags := []; s_main := MRun |}.

Fixpoint exec_from (woe : bool) (st : state) (tr : list event) : option state :=
  match tr with
  | [] => Some st
  | e :: tr' => match step woe st e with Some st' => exec_from woe st' tr' | None => None end
  end.

(* the repaired code: proc.wait() on every path *)
Definition exec (cap : nat) (wfs : list mwf) (tr : list event) : option state :=
  exec_from true (init cap wfs) tr.
(* LintFiles as found: `if err := eg.Wait(); err != nil { return nil, err }` before proc.wait() *)
Definition exec_old (cap : nat) (wfs : list mwf) (tr : list event) : option state :=
  exec_from false (init cap wfs) tr.

Definition valid (cap : nat) (wfs : list mwf) (tr : list event) : Prop := exec cap wfs tr <> None.

(* number of tool processes that may be running: invocations holding a slot *)
Definition holding (x : task) : bool := phase_eqb (t_phase x) PAcquired.
Definition running (st : state) : nat := length (filter holding (s_tasks st)).

(* what Lint* hands back *)
Definition returned_diags (st : state) : list diag :=
  match s_main st with MReturned false => s_diags st | _ => [] end.
