(* Proc/ShellSel.v — which run: scripts go to which tool.
   Model of RuleShellcheck / RulePyflakes as visitors (rule_shellcheck.go,
   rule_pyflakes.go): the fields workflowShell / jobShell / runnerShell and
   workflowShellIsPython / jobShellIsPython are set in VisitWorkflowPre /
   VisitJobPre, read in VisitStep and reset in VisitJobPost /
   VisitWorkflowPost.  The input is the projection of the workflow AST that
   these visitors read. *)
From AL Require Import Base.Str Proc.Sanitize.

Definition pos := (N * N)%type.

Record mstep := {
  ms_run : option (string * pos);      (* ExecRun with Run != nil: Run.Value, RunPos *)
  ms_shell : option string }.          (* ExecRun.Shell *)

Record mjob := {
  mj_defrun : option (option string);  (* Defaults != nil && Defaults.Run != nil: its Shell *)
  mj_labels : list string;             (* RunsOn.Labels (empty when RunsOn == nil) *)
  mj_steps : list mstep }.

Record mwf := {
  mw_defrun : option (option string);
  mw_jobs : list mjob }.               (* in the order Visitor.Visit happens to iterate the map *)

Inductive rule := SC | PY.
Definition rule_eqb (a b : rule) : bool :=
  match a, b with SC, SC | PY, PY => true | _, _ => false end.

(* one tool invocation requested by a rule *)
Record inv := {
  i_rule : rule;
  i_pos : pos;          (* position the diagnostics will carry: RunPos *)
  i_sh : string;        (* value of --shell for shellcheck, "" for pyflakes *)
  i_stdin : string }.

Definition shell_of (d : option (option string)) : option string :=
  match d with Some (Some s) => Some s | _ => None end.

(* ---- shellcheck --------------------------------------------------------- *)

Record sc_state := { scs_wf : string; scs_job : string; scs_runner : string }.
Definition sc_init := {| scs_wf := ""; scs_job := ""; scs_runner := "" |}.

Definition is_windows_label (l : string) : bool :=
  let l := lower l in orb (String.eqb l "windows") (pfx "windows-" l).

Definition sc_wf_pre (w : mwf) (st : sc_state) : sc_state :=
  match shell_of (mw_defrun w) with
  | Some s => {| scs_wf := s; scs_job := scs_job st; scs_runner := scs_runner st |}
  | None => st
  end.

Definition sc_wf_post (st : sc_state) : sc_state :=
  {| scs_wf := ""; scs_job := scs_job st; scs_runner := scs_runner st |}.

Definition sc_job_pre (j : mjob) (st : sc_state) : sc_state :=
  let js := match shell_of (mj_defrun j) with Some s => s | None => scs_job st end in
  let rs := if existsb is_windows_label (mj_labels j) then "pwsh" else scs_runner st in
  {| scs_wf := scs_wf st; scs_job := js; scs_runner := rs |}.

Definition sc_job_post (st : sc_state) : sc_state :=
  {| scs_wf := scs_wf st; scs_job := ""; scs_runner := "" |}.

Definition nonempty (s : string) : bool := negb (String.eqb s "").

(* getShellName *)
Definition get_shell_name (st : sc_state) (step_shell : option string) : string :=
  match step_shell with
  | Some s => s
  | None =>
      if nonempty (scs_job st) then scs_job st
      else if nonempty (scs_wf st) then scs_wf st
      else if nonempty (scs_runner st) then scs_runner st
      else "bash"
  end.

(* the shell handed to shellcheck, if the script is checked at all *)
Definition sc_sh (shell : string) : option string :=
  if orb (String.eqb shell "bash") (String.eqb shell "sh") then Some shell
  else if pfx "bash " shell then Some "bash"
  else if pfx "sh " shell then Some "sh"
  else None.

Definition newline : string := String nl EmptyString.

Definition sc_script (sh src : string) : string :=
  ((if String.eqb sh "bash" then "set -eo pipefail" else "set -e") ++ newline
     ++ sanitize src ++ newline)%string.

Definition sc_step (st : sc_state) (s : mstep) : list inv :=
  match ms_run s with
  | None => []
  | Some (src, p) =>
      match sc_sh (get_shell_name st (ms_shell s)) with
      | Some sh => [ {| i_rule := SC; i_pos := p; i_sh := sh; i_stdin := sc_script sh src |} ]
      | None => []
      end
  end.

Definition sc_job_v (st : sc_state) (j : mjob) : list inv * sc_state :=
  let st1 := sc_job_pre j st in
  (flat_map (sc_step st1) (mj_steps j), sc_job_post st1).

Fixpoint sc_jobs (st : sc_state) (js : list mjob) : list inv * sc_state :=
  match js with
  | [] => ([], st)
  | j :: js' =>
      let '(a, st1) := sc_job_v st j in
      let '(b, st2) := sc_jobs st1 js' in
      (a ++ b, st2)
  end.

Definition sc_visit (st : sc_state) (w : mwf) : list inv * sc_state :=
  let '(a, st1) := sc_jobs (sc_wf_pre w st) (mw_jobs w) in (a, sc_wf_post st1).

(* ---- pyflakes ----------------------------------------------------------- *)

Inductive pykind := KUnspec | KPython | KNotPython.

Definition py_kind (shell : option string) : pykind :=
  match shell with
  | None => KUnspec
  | Some s => if orb (String.eqb s "python") (pfx "python " s) then KPython else KNotPython
  end.

Record py_state := { pys_wf : pykind; pys_job : pykind }.
Definition py_init := {| pys_wf := KUnspec; pys_job := KUnspec |}.

Definition kind_python (k : pykind) : bool := match k with KPython => true | _ => false end.
Definition kind_spec (k : pykind) : bool := match k with KUnspec => false | _ => true end.

Definition py_wf_pre (w : mwf) (st : py_state) : py_state :=
  match mw_defrun w with
  | Some sh => {| pys_wf := py_kind sh; pys_job := pys_job st |}
  | None => st
  end.
Definition py_wf_post (st : py_state) : py_state := {| pys_wf := KUnspec; pys_job := pys_job st |}.
Definition py_job_pre (j : mjob) (st : py_state) : py_state :=
  match mj_defrun j with
  | Some sh => {| pys_wf := pys_wf st; pys_job := py_kind sh |}
  | None => st
  end.
Definition py_job_post (st : py_state) : py_state := {| pys_wf := pys_wf st; pys_job := KUnspec |}.

(* isPythonShell *)
Definition is_python_shell (st : py_state) (step_shell : option string) : bool :=
  if kind_spec (py_kind step_shell) then kind_python (py_kind step_shell)
  else if kind_spec (pys_job st) then kind_python (pys_job st)
  else kind_python (pys_wf st).

Definition py_step (st : py_state) (s : mstep) : list inv :=
  match ms_run s with
  | None => []
  | Some (src, p) =>
      if is_python_shell st (ms_shell s)
      then [ {| i_rule := PY; i_pos := p; i_sh := ""; i_stdin := sanitize src |} ]
      else []
  end.

Definition py_job_v (st : py_state) (j : mjob) : list inv * py_state :=
  let st1 := py_job_pre j st in
  (flat_map (py_step st1) (mj_steps j), py_job_post st1).

Fixpoint py_jobs (st : py_state) (js : list mjob) : list inv * py_state :=
  match js with
  | [] => ([], st)
  | j :: js' =>
      let '(a, st1) := py_job_v st j in
      let '(b, st2) := py_jobs st1 js' in
      (a ++ b, st2)
  end.

Definition py_visit (st : py_state) (w : mwf) : list inv * py_state :=
  let '(a, st1) := py_jobs (py_wf_pre w st) (mw_jobs w) in (a, py_wf_post st1).

(* all invocations requested while visiting one workflow with fresh rules *)
Definition invocations (w : mwf) : list inv :=
  fst (sc_visit sc_init w) ++ fst (py_visit py_init w).

(* ======================= specification ================================== *)

(* effective shell: step > job default > workflow default > runner default *)
Definition effective_shell (step job wf : option string) (windows : bool) : string :=
  match step with
  | Some s => s
  | None =>
      match job with
      | Some s => s
      | None =>
          match wf with
          | Some s => s
          | None => if windows then "pwsh" else "bash"
          end
      end
  end.

(* a default given as the empty string counts as not given (jobShell != "") *)
Definition ne (o : option string) : option string :=
  match o with Some s => if nonempty s then Some s else None | None => None end.

Definition job_windows (j : mjob) : bool := existsb is_windows_label (mj_labels j).

Definition step_shell_spec (w : mwf) (j : mjob) (s : mstep) : string :=
  effective_shell (ms_shell s) (ne (shell_of (mj_defrun j))) (ne (shell_of (mw_defrun w))) (job_windows j).

(* the specification of one run step: at most one invocation per tool, the
   shellcheck one iff the effective shell is bash/sh (possibly with options),
   the pyflakes one iff the first specified of step/job/workflow is python *)
Definition sc_step_spec (w : mwf) (j : mjob) (s : mstep) : list inv :=
  match ms_run s with
  | None => []
  | Some (src, p) =>
      match sc_sh (step_shell_spec w j s) with
      | Some sh => [ {| i_rule := SC; i_pos := p; i_sh := sh; i_stdin := sc_script sh src |} ]
      | None => []
      end
  end.

Definition first_spec (step job wf : option string) : option string :=
  match step with Some s => Some s | None => match job with Some s => Some s | None => wf end end.

Definition py_step_spec (w : mwf) (j : mjob) (s : mstep) : list inv :=
  match ms_run s with
  | None => []
  | Some (src, p) =>
      if kind_python (py_kind (first_spec (ms_shell s) (shell_of (mj_defrun j)) (shell_of (mw_defrun w))))
      then [ {| i_rule := PY; i_pos := p; i_sh := ""; i_stdin := sanitize src |} ]
      else []
  end.

Definition invocations_spec (w : mwf) : list inv :=
  flat_map (fun j => flat_map (sc_step_spec w j) (mj_steps j)) (mw_jobs w) ++
  flat_map (fun j => flat_map (py_step_spec w j) (mj_steps j)) (mw_jobs w).

(* ---- proofs -------------------------------------------------------------- *)

Lemma nonempty_ne s : nonempty s = false -> s = "".
Proof. unfold nonempty. destruct (String.eqb s "") eqn:E; [|discriminate]. now apply String.eqb_eq in E. Qed.

(* state reached inside a job of workflow w (after both Pre callbacks) *)
Definition sc_in_job (w : mwf) (j : mjob) : sc_state :=
  sc_job_pre j {| scs_wf := match shell_of (mw_defrun w) with Some s => s | None => "" end;
                  scs_job := ""; scs_runner := "" |}.

Lemma get_shell_name_spec w j s :
  get_shell_name (sc_in_job w j) (ms_shell s) = step_shell_spec w j s.
Proof.
  unfold get_shell_name, step_shell_spec, effective_shell, sc_in_job, sc_job_pre, job_windows, ne.
  cbn [scs_wf scs_job scs_runner].
  destruct (ms_shell s) as [x|]; [reflexivity|].
  destruct (shell_of (mj_defrun j)) as [a|].
  - destruct (nonempty a) eqn:Ea; [reflexivity|].
    destruct (shell_of (mw_defrun w)) as [b|].
    + destruct (nonempty b) eqn:Eb; [reflexivity|].
      destruct (existsb is_windows_label (mj_labels j)); reflexivity.
    + cbn. destruct (existsb is_windows_label (mj_labels j)); reflexivity.
  - cbn [nonempty String.eqb negb].
    destruct (shell_of (mw_defrun w)) as [b|].
    + destruct (nonempty b) eqn:Eb; [reflexivity|].
      destruct (existsb is_windows_label (mj_labels j)); reflexivity.
    + cbn. destruct (existsb is_windows_label (mj_labels j)); reflexivity.
Qed.

Lemma sc_jobs_spec w wfs js :
  wfs = match shell_of (mw_defrun w) with Some s => s | None => "" end ->
  sc_jobs {| scs_wf := wfs; scs_job := ""; scs_runner := "" |} js =
  (flat_map (fun j => flat_map (sc_step_spec w j) (mj_steps j)) js,
   {| scs_wf := wfs; scs_job := ""; scs_runner := "" |}).
Proof.
  intros ->. induction js as [|j js IH]; [reflexivity|].
  cbn [sc_jobs flat_map]. unfold sc_job_v at 1.
  replace (sc_job_post _) with
    {| scs_wf := match shell_of (mw_defrun w) with Some s => s | None => "" end; scs_job := ""; scs_runner := "" |}
    by reflexivity.
  rewrite IH. f_equal. f_equal.
  apply flat_map_ext. intro s.
  unfold sc_step, sc_step_spec.
  destruct (ms_run s) as [[src p]|]; [|reflexivity].
  change (sc_job_pre j _) with (sc_in_job w j).
  now rewrite get_shell_name_spec.
Qed.

Lemma sc_visit_spec w :
  fst (sc_visit sc_init w) = flat_map (fun j => flat_map (sc_step_spec w j) (mj_steps j)) (mw_jobs w).
Proof.
  unfold sc_visit.
  assert (E : sc_wf_pre w sc_init =
    {| scs_wf := match shell_of (mw_defrun w) with Some s => s | None => "" end; scs_job := ""; scs_runner := "" |}).
  { unfold sc_wf_pre, sc_init. destruct (shell_of (mw_defrun w)); reflexivity. }
  rewrite E, (sc_jobs_spec w _ (mw_jobs w) eq_refl). reflexivity.
Qed.

Lemma is_python_spec w j s :
  is_python_shell (py_job_pre j {| pys_wf := py_kind (shell_of (mw_defrun w)); pys_job := KUnspec |}) (ms_shell s)
  = kind_python (py_kind (first_spec (ms_shell s) (shell_of (mj_defrun j)) (shell_of (mw_defrun w)))).
Proof.
  unfold is_python_shell, first_spec, py_job_pre.
  destruct (ms_shell s) as [x|].
  - cbn [py_kind]. destruct (orb _ _); reflexivity.
  - cbn [py_kind kind_spec].
    destruct (mj_defrun j) as [[a|]|]; cbn [shell_of pys_job pys_wf py_kind kind_spec].
    + destruct (orb (String.eqb a "python") (pfx "python " a)); reflexivity.
    + reflexivity.
    + reflexivity.
Qed.

Lemma py_jobs_spec w k js :
  k = py_kind (shell_of (mw_defrun w)) ->
  py_jobs {| pys_wf := k; pys_job := KUnspec |} js =
  (flat_map (fun j => flat_map (py_step_spec w j) (mj_steps j)) js, {| pys_wf := k; pys_job := KUnspec |}).
Proof.
  intros ->. induction js as [|j js IH]; [reflexivity|].
  cbn [py_jobs flat_map]. unfold py_job_v at 1.
  replace (py_job_post _) with {| pys_wf := py_kind (shell_of (mw_defrun w)); pys_job := KUnspec |}
    by (unfold py_job_post, py_job_pre; destruct (mj_defrun j); reflexivity).
  rewrite IH. f_equal. f_equal.
  apply flat_map_ext. intro s.
  unfold py_step, py_step_spec.
  destruct (ms_run s) as [[src p]|]; [|reflexivity].
  now rewrite is_python_spec.
Qed.

Lemma py_visit_spec w :
  fst (py_visit py_init w) = flat_map (fun j => flat_map (py_step_spec w j) (mj_steps j)) (mw_jobs w).
Proof.
  unfold py_visit.
  assert (E : py_wf_pre w py_init = {| pys_wf := py_kind (shell_of (mw_defrun w)); pys_job := KUnspec |}).
  { unfold py_wf_pre, py_init. destruct (mw_defrun w) as [[a|]|]; reflexivity. }
  rewrite E, (py_jobs_spec w _ (mw_jobs w) eq_refl). reflexivity.
Qed.

(* the visitors request exactly the invocations of the specification: one per
   run step and applicable tool, none for any other step; no shell setting
   leaks from one job into the next *)
Theorem invocations_exact w : invocations w = invocations_spec w.
Proof. unfold invocations, invocations_spec. now rewrite sc_visit_spec, py_visit_spec. Qed.

(* at most one invocation per step and tool *)
Lemma sc_step_spec_le1 w j s : length (sc_step_spec w j s) <= 1.
Proof. unfold sc_step_spec. destruct (ms_run s) as [[? ?]|]; [destruct (sc_sh _)|]; cbn; lia. Qed.
Lemma py_step_spec_le1 w j s : length (py_step_spec w j s) <= 1.
Proof. unfold py_step_spec. destruct (ms_run s) as [[? ?]|]; [destruct (kind_python _)|]; cbn; lia. Qed.

(* which effective shells reach shellcheck, and with which --shell value *)
Lemma pfx_bash_sh shell : pfx "bash " shell = true -> pfx "sh " shell = false.
Proof.
  destruct shell as [|c r]; [discriminate|]. cbn [pfx].
  destruct (Ascii.eqb "b" c) eqn:E; [|discriminate].
  apply Ascii.eqb_eq in E. subst c. reflexivity.
Qed.

Theorem sc_sh_spec shell sh :
  sc_sh shell = Some sh <->
  (sh = "bash" /\ (shell = "bash" \/ pfx "bash " shell = true)) \/
  (sh = "sh" /\ (shell = "sh" \/ pfx "sh " shell = true)).
Proof.
  unfold sc_sh.
  destruct (String.eqb shell "bash") eqn:E1.
  { apply String.eqb_eq in E1. subst shell. cbn. split.
    - intro H. inversion H. left. auto.
    - intros [[-> _]|[-> [H|H]]]; [reflexivity|discriminate H|discriminate H]. }
  destruct (String.eqb shell "sh") eqn:E2.
  { apply String.eqb_eq in E2. subst shell. cbn. split.
    - intro H. inversion H. right. auto.
    - intros [[-> [H|H]]|[-> _]]; [discriminate H|discriminate H|reflexivity]. }
  cbn [orb].
  assert (N1 : shell <> "bash") by (intro; subst; discriminate E1).
  assert (N2 : shell <> "sh") by (intro; subst; discriminate E2).
  destruct (pfx "bash " shell) eqn:P1.
  { rewrite (pfx_bash_sh _ P1). split.
    - intro H. inversion H. left. auto.
    - intros [[-> _]|[-> [H|H]]]; [reflexivity|contradiction|discriminate H]. }
  destruct (pfx "sh " shell) eqn:P2.
  { split.
    - intro H. inversion H. right. auto.
    - intros [[-> [H|H]]|[-> _]]; [contradiction|discriminate H|reflexivity]. }
  split; [discriminate|].
  intros [[_ [H|H]]|[_ [H|H]]]; try contradiction; discriminate H.
Qed.

(* satisfiable, non-trivial *)
Example invocations_ex :
  let w := {| mw_defrun := Some (Some "python");
              mw_jobs := [ {| mj_defrun := None; mj_labels := ["windows-latest"];
                              mj_steps := [ {| ms_run := Some ("echo ${{ a }}", (3%N, 5%N)); ms_shell := Some "bash -e {0}" |};
                                            {| ms_run := Some ("print(1)", (5%N, 5%N)); ms_shell := None |} ] |};
                           {| mj_defrun := Some (Some "sh"); mj_labels := ["ubuntu-latest"];
                              mj_steps := [ {| ms_run := Some ("ls", (9%N, 5%N)); ms_shell := None |} ] |} ] |} in
  map (fun i => (i_rule i, i_pos i, i_sh i)) (invocations w)
  = [ (SC, (3%N, 5%N), "bash"); (SC, (9%N, 5%N), "sh"); (PY, (5%N, 5%N), "") ].
Proof. vm_compute. reflexivity. Qed.
