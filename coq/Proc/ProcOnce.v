(* Proc/ProcOnce.v — exactly-once at the level of traces: on return the
   invocations spawned for a file are, as a multiset, exactly the invocations
   the visitors request for that file's workflow ([invocations w], which
   ShellSel.invocations_exact equates with the per-step specification). *)
From AL Require Import Base.Str Proc.Sanitize Proc.ShellSel Proc.ExecOutcome Proc.ProcModel Proc.ProcProofs.
From Coq Require Import ZArith Permutation.

Definition of_file (f : nat) (x : task) : bool := Nat.eqb (t_file x) f.
Definition spawned_for (f : nat) (st : state) : list inv := map t_inv (filter (of_file f) (s_tasks st)).

Record InvT (wfs : list mwf) (st : state) : Prop := {
  inv_len : length (s_files st) = length wfs;
  inv_todo : forall f fs w, nth_error (s_files st) f = Some fs -> nth_error wfs f = Some w ->
      Permutation (spawned_for f st ++ f_todo fs) (invocations w);
  inv_visit : forall f fs, nth_error (s_files st) f = Some fs -> f_pc fs <> FVisit -> f_todo fs = [] }.

Lemma pos_eqb_eq a b : pos_eqb a b = true -> a = b.
Proof.
  destruct a as [a1 a2], b as [b1 b2]. unfold pos_eqb. cbn. intro H.
  apply andb_prop in H. destruct H as [H1 H2]. apply N.eqb_eq in H1, H2. now subst.
Qed.

Lemma inv_eqb_eq a b : inv_eqb a b = true -> a = b.
Proof.
  destruct a as [r1 p1 h1 s1], b as [r2 p2 h2 s2]. unfold inv_eqb. cbn. intro H.
  apply andb_prop in H. destruct H as [H1 H2].
  apply andb_prop in H1. destruct H1 as [Hr Hp]. apply andb_prop in H2. destruct H2 as [Hh Hs].
  apply rule_eqb_eq in Hr. apply pos_eqb_eq in Hp. apply String.eqb_eq in Hh, Hs. now subst.
Qed.

Lemma remove_inv_perm i l l' : remove_inv i l = Some l' -> Permutation l (i :: l').
Proof.
  revert l'; induction l as [|x l IH]; intros l' H; [discriminate H|]. cbn in H.
  destruct (inv_eqb i x) eqn:E.
  - apply inv_eqb_eq in E. subst x. injection H as <-. reflexivity.
  - destruct (remove_inv i l) as [r|]; [|discriminate H]. injection H as <-.
    etransitivity; [apply perm_skip; apply IH; reflexivity|]. apply perm_swap.
Qed.

Lemma map_filter_upd {A B} (g : A -> B) (P : A -> bool) l i x y :
  nth_error l i = Some x -> P y = P x -> g y = g x ->
  map g (filter P (upd l i y)) = map g (filter P l).
Proof.
  revert i; induction l as [|a l IH]; intros [|i] H E1 E2; try discriminate H; cbn in *.
  - inversion H; subst. rewrite E1. destruct (P x); cbn; now rewrite ?E2.
  - destruct (P a); cbn [map]; now rewrite (IH i H E1 E2).
Qed.

(* a task update that keeps file and invocation, with the file record of the
   task's file replaced by one with the same todo list and program counter *)
Lemma stepT_task wfs st t x y free' wg' files' diags' :
  InvT wfs st -> nth_error (s_tasks st) t = Some x -> t_file y = t_file x -> t_inv y = t_inv x ->
  length files' = length (s_files st) ->
  (forall f fs', nth_error files' f = Some fs' ->
     exists fs, nth_error (s_files st) f = Some fs /\ f_todo fs' = f_todo fs /\ f_pc fs' = f_pc fs) ->
  InvT wfs {| s_free := free'; s_wg := wg'; s_tasks := upd (s_tasks st) t y; s_files := files';
              s_diags := diags'; s_main := s_main st |}.
Proof.
  intros [Hl Ht Hv] Hx Ef Ei Hlen Hfiles. constructor; cbn [s_files s_tasks].
  - congruence.
  - intros f fs' w Hn Hw. destruct (Hfiles _ _ Hn) as (fs & Hn0 & E1 & _).
    unfold spawned_for. cbn [s_tasks].
    rewrite (map_filter_upd t_inv (of_file f) _ _ x y Hx); [|unfold of_file; now rewrite Ef|exact Ei].
    rewrite E1. exact (Ht _ _ _ Hn0 Hw).
  - intros f fs' Hn Hpc. destruct (Hfiles _ _ Hn) as (fs & Hn0 & E1 & E2).
    rewrite E1. apply (Hv _ _ Hn0). now rewrite <- E2.
Qed.

Lemma files_same st : forall f fs', nth_error (s_files st) f = Some fs' ->
  exists fs, nth_error (s_files st) f = Some fs /\ f_todo fs' = f_todo fs /\ f_pc fs' = f_pc fs.
Proof. intros f fs' H. exists fs'. auto. Qed.

Lemma files_upd_eg st f0 fs0 r g : nth_error (s_files st) f0 = Some fs0 ->
  forall f fs', nth_error (upd (s_files st) f0 (set_eg fs0 r g)) f = Some fs' ->
  exists fs, nth_error (s_files st) f = Some fs /\ f_todo fs' = f_todo fs /\ f_pc fs' = f_pc fs.
Proof.
  intros H0 f fs' Hn. apply nth_upd_cases in Hn. destruct Hn as [(<- & -> & _)|(N & Hn)].
  - exists fs0. destruct r; auto.
  - exists fs'. auto.
Qed.

(* a file update that keeps the tasks *)
Lemma stepT_file wfs st f0 fs0 pc' :
  InvT wfs st -> nth_error (s_files st) f0 = Some fs0 -> f_todo fs0 = [] ->
  InvT wfs (with_file st f0 (set_pc fs0 pc')).
Proof.
  intros [Hl Ht Hv] H0 E0. constructor; unfold with_file; cbn [s_files s_tasks].
  - now rewrite length_upd.
  - intros f fs' w Hn Hw. apply nth_upd_cases in Hn. destruct Hn as [(<- & -> & _)|(N & Hn)].
    + cbn [set_pc f_todo]. exact (Ht _ _ _ H0 Hw).
    + exact (Ht _ _ _ Hn Hw).
  - intros f fs' Hn Hpc. apply nth_upd_cases in Hn. destruct Hn as [(<- & -> & _)|(N & Hn)].
    + exact E0.
    + exact (Hv _ _ Hn Hpc).
Qed.

Lemma stepT woe wfs st e st' : InvT wfs st -> step woe st e = Some st' -> InvT wfs st'.
Proof.
  intros I H. destruct e; cbn [step] in H.
  - (* spawn *)
    destruct (nth_error (s_files st) f) as [fs|] eqn:Hf; [|discriminate H].
    destruct (f_pc fs) eqn:Hpc; try discriminate H.
    destruct (remove_inv i (f_todo fs)) as [todo'|] eqn:Hr; [|discriminate H].
    injection H as <-. destruct I as [Hl Ht Hv]. constructor; cbn [s_files s_tasks].
    + now rewrite length_upd.
    + intros f' fs' w Hn Hw. unfold spawned_for. cbn [s_tasks].
      rewrite filter_app, map_app.
      set (nt := {| t_file := f; t_inv := i; t_phase := PSpawned; t_cb := CErr |}).
      assert (F : filter (of_file f') [nt] = if Nat.eqb f f' then [nt] else []) by reflexivity.
      rewrite F.
      apply nth_upd_cases in Hn. destruct Hn as [(<- & -> & _)|(N & Hn)].
      * rewrite Nat.eqb_refl. cbn [map t_inv].
        replace (f_todo (set_eg _ (i_rule i) _)) with todo' by (destruct (i_rule i); reflexivity).
        rewrite <- app_assoc. cbn [app].
        etransitivity; [|exact (Ht _ _ _ Hf Hw)].
        apply Permutation_app_head. symmetry. now apply remove_inv_perm.
      * replace (Nat.eqb f f') with false by (symmetry; apply Nat.eqb_neq; exact N).
        cbn [map]. rewrite app_nil_r. exact (Ht _ _ _ Hn Hw).
    + intros f' fs' Hn Hpc'. apply nth_upd_cases in Hn. destruct Hn as [(<- & -> & _)|(N & Hn)].
      * exfalso. apply Hpc'. destruct (i_rule i); reflexivity.
      * exact (Hv _ _ Hn Hpc').
  - destruct (nth_error (s_tasks st) t) as [x|] eqn:Hx; [|discriminate H].
    destruct (s_free st) as [|n]; [discriminate H|].
    destruct (phase_eqb (t_phase x) PSpawned); [|discriminate H].
    injection H as <-. apply (stepT_task wfs st t x); auto using files_same.
  - destruct (nth_error (s_tasks st) t) as [x|] eqn:Hx; [|discriminate H].
    destruct (phase_eqb (t_phase x) PAcquired); [|discriminate H].
    injection H as <-. apply (stepT_task wfs st t x); auto using files_same.
  - destruct (nth_error (s_tasks st) t) as [x|] eqn:Hx; [|discriminate H].
    destruct (phase_eqb (t_phase x) PExited); [|discriminate H].
    injection H as <-. unfold with_task. apply (stepT_task wfs st t x); auto using files_same.
  - destruct (nth_error (s_tasks st) t) as [x|] eqn:Hx; [|discriminate H].
    destruct (phase_eqb (t_phase x) PReleased); [|discriminate H].
    destruct (nth_error (s_files st) (t_file x)) as [fs|] eqn:Hf; [|discriminate H].
    injection H as <-. apply (stepT_task wfs st t x); auto.
    + apply length_upd.
    + apply files_upd_eg; exact Hf.
  - destruct (nth_error (s_tasks st) t) as [x|] eqn:Hx; [|discriminate H].
    destruct (phase_eqb (t_phase x) PCalled); [|discriminate H].
    destruct (nth_error (s_files st) (t_file x)) as [fs|] eqn:Hf; [|discriminate H].
    injection H as <-. apply (stepT_task wfs st t x); auto.
    + apply length_upd.
    + apply files_upd_eg; exact Hf.
  - destruct (nth_error (s_files st) f) as [fs|] eqn:Hf; [|discriminate H].
    destruct r, (f_pc fs) eqn:Hpc; try discriminate H.
    + destruct (f_todo fs) eqn:Et; [|discriminate H]. injection H as <-. now apply stepT_file.
    + injection H as <-. apply stepT_file; auto. destruct I as [_ _ Hv]. apply (Hv _ _ Hf). congruence.
  - destruct (nth_error (s_files st) f) as [fs|] eqn:Hf; [|discriminate H].
    destruct (f_pc fs) eqn:Hpc; try discriminate H.
    destruct (andb _ _); [|discriminate H]. injection H as <-. apply stepT_file; auto.
    destruct I as [_ _ Hv]. apply (Hv _ _ Hf). congruence.
  - destruct (s_main st); try discriminate H.
    destruct (andb _ _); [|discriminate H]. injection H as <-. destruct I. constructor; assumption.
  - destruct (s_main st); try discriminate H.
    destruct (Nat.eqb _ _); [|discriminate H]. injection H as <-. destruct I. constructor; assumption.
  - destruct (s_main st); try discriminate H.
    + destruct (andb _ _); [|discriminate H]. injection H as <-. destruct I. constructor; assumption.
    + destruct (Bool.eqb _ _); [|discriminate H]. injection H as <-. destruct I. constructor; assumption.
Qed.

Lemma initT cap wfs : InvT wfs (init cap wfs).
Proof.
  constructor; unfold init; cbn [s_files s_tasks].
  - apply map_length.
  - intros f fs w Hn Hw. rewrite nth_error_map, Hw in Hn. injection Hn as <-. reflexivity.
  - intros f fs Hn Hpc. rewrite nth_error_map in Hn. destruct (nth_error wfs f); [|discriminate Hn].
    injection Hn as <-. contradiction.
Qed.

Lemma execT woe wfs tr : forall st st', InvT wfs st -> exec_from woe st tr = Some st' -> InvT wfs st'.
Proof.
  induction tr as [|e tr IH]; intros st st' I H; cbn in H.
  - inversion H; subst; exact I.
  - destruct (step woe st e) as [st1|] eqn:E; [|discriminate H].
    exact (IH _ _ (stepT _ _ _ _ _ I E) H).
Qed.

(* on return, for every file: the invocations that were spawned are exactly
   (as a multiset) those of the file's run steps with an applicable shell *)
Theorem exactly_once_on_return cap wfs tr st fatal :
  exec cap wfs tr = Some st -> s_main st = MReturned fatal ->
  forall f w, nth_error wfs f = Some w -> Permutation (spawned_for f st) (invocations_spec w).
Proof.
  intros H Em f w Hw.
  destruct (execT true wfs tr _ _ (initT cap wfs) H) as [Hl Ht Hv].
  destruct (execB tr _ _ (initB cap wfs) H) as [_ _ _ Hm].
  unfold main_ok in Hm. rewrite Em in Hm. destruct Hm as [D _].
  assert (L : f < length (s_files st)) by (rewrite Hl; apply nth_error_Some; congruence).
  apply nth_error_Some in L. destruct (nth_error (s_files st) f) as [fs|] eqn:Hf; [|contradiction].
  destruct (all_done_nth _ _ _ D Hf) as [e Epc].
  pose proof (Ht _ _ _ Hf Hw) as P. rewrite (Hv _ _ Hf) in P by congruence.
  rewrite app_nil_r in P. rewrite <- invocations_exact. exact P.
Qed.
