(* Proc/ProcProofs.v — invariants of the transition system of ProcModel.v,
   proved by induction over event traces (every interleaving, every tool
   behaviour, any number of files and invocations). *)
From AL Require Import Base.Str Proc.Sanitize Proc.ShellSel Proc.ExecOutcome Proc.ProcModel.
From Coq Require Import ZArith Permutation.

(* ---- lists ------------------------------------------------------------------ *)

Definition b2n (b : bool) : nat := if b then 1 else 0.
Definition cnt {A} (P : A -> bool) (l : list A) : nat := length (filter P l).

Lemma nth_error_upd_same {A} (l : list A) i x y :
  nth_error l i = Some x -> nth_error (upd l i y) i = Some y.
Proof.
  revert i; induction l as [|a l IH]; intros [|i] H; try discriminate H; cbn in *; auto.
Qed.

Lemma nth_error_upd_other {A} (l : list A) i j y :
  i <> j -> nth_error (upd l i y) j = nth_error l j.
Proof.
  revert i j; induction l as [|a l IH]; intros [|i] [|j] H; cbn; auto; try lia.
Qed.

Lemma length_upd {A} (l : list A) i y : length (upd l i y) = length l.
Proof. revert i; induction l as [|a l IH]; intros [|i]; cbn; auto. Qed.

Lemma cnt_upd {A} (P : A -> bool) (l : list A) i x y :
  nth_error l i = Some x -> cnt P (upd l i y) + b2n (P x) = cnt P l + b2n (P y).
Proof.
  unfold cnt. revert i; induction l as [|a l IH]; intros [|i] H; try discriminate H; cbn in *.
  - inversion H; subst. destruct (P x), (P y); cbn; lia.
  - specialize (IH i H). destruct (P a); cbn; lia.
Qed.

Lemma cnt_upd' {A} (P : A -> bool) (l : list A) i x y bx by_ :
  nth_error l i = Some x -> P x = bx -> P y = by_ -> cnt P (upd l i y) + b2n bx = cnt P l + b2n by_.
Proof. intros H <- <-. now apply cnt_upd. Qed.

Lemma cnt_app1 {A} (P : A -> bool) l x : cnt P (l ++ [x]) = cnt P l + b2n (P x).
Proof. unfold cnt. rewrite filter_app, app_length. cbn. destruct (P x); reflexivity. Qed.

Lemma cnt_pos {A} (P : A -> bool) l i x : nth_error l i = Some x -> P x = true -> 1 <= cnt P l.
Proof.
  unfold cnt. revert i; induction l as [|a l IH]; intros [|i] H Hp; try discriminate H; cbn in *.
  - inversion H; subst. rewrite Hp. cbn. lia.
  - specialize (IH i H Hp). destruct (P a); cbn; lia.
Qed.

Lemma cnt_zero_all {A} (P : A -> bool) l : cnt P l = 0 -> forall x, In x l -> P x = false.
Proof.
  unfold cnt. induction l as [|a l IH]; intros H x Hx; [contradiction|].
  cbn in H. destruct (P a) eqn:E; [discriminate H|].
  destruct Hx as [<-|Hx]; auto.
Qed.

Lemma cnt_pos_ex {A} (P : A -> bool) l : 1 <= cnt P l -> exists x, In x l /\ P x = true.
Proof.
  unfold cnt. induction l as [|a l IH]; cbn; [lia|].
  destruct (P a) eqn:E; intro H.
  - exists a. auto.
  - destruct (IH H) as [x [Hx Px]]. exists x. auto.
Qed.

Lemma forallb_upd {A} (P : A -> bool) l i x y :
  nth_error l i = Some x -> P y = P x -> forallb P (upd l i y) = forallb P l.
Proof.
  revert i; induction l as [|a l IH]; intros [|i] H E; try discriminate H; cbn in *.
  - inversion H; subst. now rewrite E.
  - now rewrite (IH i H E).
Qed.

Lemma existsb_upd {A} (P : A -> bool) l i x y :
  nth_error l i = Some x -> P y = P x -> existsb P (upd l i y) = existsb P l.
Proof.
  revert i; induction l as [|a l IH]; intros [|i] H E; try discriminate H; cbn in *.
  - inversion H; subst. now rewrite E.
  - now rewrite (IH i H E).
Qed.

Lemma forallb_nth {A} (P : A -> bool) l i x : forallb P l = true -> nth_error l i = Some x -> P x = true.
Proof.
  intros H Hn. rewrite forallb_forall in H. apply H. eapply nth_error_In; eauto.
Qed.

Lemma flat_map_upd_perm {A B} (g : A -> list B) l i x y :
  nth_error l i = Some x -> Permutation (flat_map g (upd l i y) ++ g x) (flat_map g l ++ g y).
Proof.
  revert i; induction l as [|a l IH]; intros [|i] H; try discriminate H; cbn in *.
  - inversion H; subst.
    rewrite <- app_assoc.
    etransitivity; [apply Permutation_app_head; apply Permutation_app_comm|].
    apply Permutation_app_comm.
  - rewrite <- !app_assoc. apply Permutation_app_head. apply IH. exact H.
Qed.

(* ---- phases ------------------------------------------------------------------ *)

Lemma phase_eqb_eq a b : phase_eqb a b = true -> a = b.
Proof. destruct a, b; cbn; congruence. Qed.

Definition live (x : task) : bool := negb (phase_eqb (t_phase x) PDone).
Definition called (x : task) : bool :=
  match t_phase x with PCalled | PDone => true | _ => false end.
Definition in_eg (f : nat) (r : rule) (x : task) : bool :=
  andb (Nat.eqb (t_file x) f) (rule_eqb (i_rule (t_inv x)) r).
Definition live_in f r x : bool := andb (in_eg f r x) (live x).
Definition failed_in f r x : bool := andb (in_eg f r x) (andb (called x) (is_cerr (t_cb x))).

Lemma rule_eqb_eq a b : rule_eqb a b = true <-> a = b.
Proof. destruct a, b; cbn; split; congruence. Qed.
Lemma rule_eqb_refl a : rule_eqb a a = true.
Proof. destruct a; reflexivity. Qed.

(* ============================ part A: counters ============================== *)

Record InvA (cap : nat) (st : state) : Prop := {
  inv_sem : s_free st + cnt holding (s_tasks st) = cap;
  inv_wg : s_wg st = cnt live (s_tasks st) }.

Ltac phase_of H := apply phase_eqb_eq in H.

Lemma holding_ph x p : t_phase x = p -> holding x = phase_eqb p PAcquired.
Proof. intros <-. reflexivity. Qed.
Lemma live_ph x p : t_phase x = p -> live x = negb (phase_eqb p PDone).
Proof. intros <-. reflexivity. Qed.

(* effect of moving task t from phase p (x) to the task y on both counters *)
Lemma countersA tasks t x y p q :
  nth_error tasks t = Some x -> t_phase x = p -> t_phase y = q ->
  cnt holding (upd tasks t y) + b2n (phase_eqb p PAcquired) = cnt holding tasks + b2n (phase_eqb q PAcquired) /\
  cnt live (upd tasks t y) + b2n (negb (phase_eqb p PDone)) = cnt live tasks + b2n (negb (phase_eqb q PDone)).
Proof.
  intros Hx Hp Hq. split.
  - apply (cnt_upd' holding _ _ x); [exact Hx|now apply holding_ph|now apply holding_ph].
  - apply (cnt_upd' live _ _ x); [exact Hx|now apply live_ph|now apply live_ph].
Qed.

Lemma stepA woe cap st e st' : InvA cap st -> step woe st e = Some st' -> InvA cap st'.
Proof.
  intros [Hs Hw] H. destruct e; cbn [step] in H.
  - (* spawn *)
    destruct (nth_error (s_files st) f) as [fs|]; [|discriminate H].
    destruct (f_pc fs); try discriminate H.
    destruct (remove_inv i (f_todo fs)); [|discriminate H].
    injection H as <-. constructor; cbn [s_free s_wg s_tasks]; rewrite cnt_app1.
    + replace (b2n (holding _)) with 0 by reflexivity. lia.
    + replace (b2n (live _)) with 1 by reflexivity. lia.
  - (* acquire *)
    destruct (nth_error (s_tasks st) t) as [x|] eqn:Hx; [|discriminate H].
    destruct (s_free st) as [|n] eqn:Hf; [discriminate H|].
    destruct (phase_eqb (t_phase x) PSpawned) eqn:Hp; [|discriminate H]. phase_of Hp.
    injection H as <-.
    destruct (countersA _ _ _ (set_phase x PAcquired) _ PAcquired Hx Hp eq_refl) as [C1 C2].
    cbn [phase_eqb negb b2n] in C1, C2.
    constructor; cbn [s_free s_wg s_tasks]; lia.
  - (* exit *)
    destruct (nth_error (s_tasks st) t) as [x|] eqn:Hx; [|discriminate H].
    destruct (phase_eqb (t_phase x) PAcquired) eqn:Hp; [|discriminate H]. phase_of Hp.
    injection H as <-.
    match goal with |- InvA _ {| s_free := _; s_wg := _; s_tasks := upd _ _ ?y; s_files := _; s_diags := _; s_main := _ |} =>
      destruct (countersA _ _ _ y _ PExited Hx Hp eq_refl) as [C1 C2] end.
    cbn [phase_eqb negb b2n] in C1, C2.
    constructor; cbn [s_free s_wg s_tasks]; lia.
  - (* release *)
    destruct (nth_error (s_tasks st) t) as [x|] eqn:Hx; [|discriminate H].
    destruct (phase_eqb (t_phase x) PExited) eqn:Hp; [|discriminate H]. phase_of Hp.
    injection H as <-.
    destruct (countersA _ _ _ (set_phase x PReleased) _ PReleased Hx Hp eq_refl) as [C1 C2].
    cbn [phase_eqb negb b2n] in C1, C2.
    constructor; cbn [with_task s_free s_wg s_tasks]; lia.
  - (* callback *)
    destruct (nth_error (s_tasks st) t) as [x|] eqn:Hx; [|discriminate H].
    destruct (phase_eqb (t_phase x) PReleased) eqn:Hp; [|discriminate H]. phase_of Hp.
    destruct (nth_error (s_files st) (t_file x)); [|discriminate H].
    injection H as <-.
    destruct (countersA _ _ _ (set_phase x PCalled) _ PCalled Hx Hp eq_refl) as [C1 C2].
    cbn [phase_eqb negb b2n] in C1, C2.
    constructor; cbn [s_free s_wg s_tasks]; lia.
  - (* done *)
    destruct (nth_error (s_tasks st) t) as [x|] eqn:Hx; [|discriminate H].
    destruct (phase_eqb (t_phase x) PCalled) eqn:Hp; [|discriminate H]. phase_of Hp.
    destruct (nth_error (s_files st) (t_file x)); [|discriminate H].
    injection H as <-.
    destruct (countersA _ _ _ (set_phase x PDone) _ PDone Hx Hp eq_refl) as [C1 C2].
    cbn [phase_eqb negb b2n] in C1, C2.
    constructor; cbn [s_free s_wg s_tasks]; lia.
  - (* eg enter *)
    destruct (nth_error (s_files st) f) as [fs|]; [|discriminate H].
    destruct r, (f_pc fs); try discriminate H.
    + destruct (f_todo fs); [|discriminate H]. injection H as <-. constructor; [exact Hs|exact Hw].
    + injection H as <-. constructor; [exact Hs|exact Hw].
  - (* eg return *)
    destruct (nth_error (s_files st) f) as [fs|]; [|discriminate H].
    destruct (f_pc fs); try discriminate H.
    destruct (andb _ _); [|discriminate H]. injection H as <-. constructor; [exact Hs|exact Hw].
  - destruct (s_main st); try discriminate H.
    destruct (andb _ _); [|discriminate H]. injection H as <-. constructor; [exact Hs|exact Hw].
  - destruct (s_main st); try discriminate H.
    destruct (Nat.eqb _ _); [|discriminate H]. injection H as <-. constructor; [exact Hs|exact Hw].
  - destruct (s_main st); try discriminate H.
    + destruct (andb _ _); [|discriminate H]. injection H as <-. constructor; [exact Hs|exact Hw].
    + destruct (Bool.eqb _ _); [|discriminate H]. injection H as <-. constructor; [exact Hs|exact Hw].
Qed.

Lemma initA cap wfs : InvA cap (init cap wfs).
Proof. constructor; cbn; lia. Qed.

Lemma execA woe cap tr : forall st st', InvA cap st -> exec_from woe st tr = Some st' -> InvA cap st'.
Proof.
  induction tr as [|e tr IH]; intros st st' I H; cbn in H.
  - inversion H; subst; exact I.
  - destruct (step woe st e) as [st1|] eqn:E; [|discriminate H].
    exact (IH _ _ (stepA _ _ _ _ _ I E) H).
Qed.

(* in every reachable state, under every interleaving, at most [cap]
   invocations hold a semaphore slot (the tool process of an invocation runs
   only while it holds one) — for the repaired and for the original code *)
Theorem running_bounded cap wfs tr st : exec cap wfs tr = Some st -> running st <= cap.
Proof.
  intro H. destruct (execA true cap tr _ _ (initA cap wfs) H) as [Hs _].
  unfold running. fold (cnt holding (s_tasks st)). lia.
Qed.

Theorem running_bounded_old cap wfs tr st : exec_old cap wfs tr = Some st -> running st <= cap.
Proof.
  intro H. destruct (execA false cap tr _ _ (initA cap wfs) H) as [Hs _].
  unfold running. fold (cnt holding (s_tasks st)). lia.
Qed.

(* ============================ part B: errgroups, program counters ============ *)

Lemma cnt_upd_same {A} (P : A -> bool) (l : list A) i x y :
  nth_error l i = Some x -> P y = P x -> cnt P (upd l i y) = cnt P l.
Proof. intros H E. pose proof (cnt_upd P l i x y H) as C. rewrite E in C. lia. Qed.

Lemma nth_upd_cases {A} (l : list A) i j y z :
  nth_error (upd l i y) j = Some z ->
  (i = j /\ z = y /\ exists x, nth_error l i = Some x) \/ (i <> j /\ nth_error l j = Some z).
Proof.
  intro H. destruct (Nat.eq_dec i j) as [->|N].
  - left. destruct (nth_error l j) as [x|] eqn:E.
    + rewrite (nth_error_upd_same _ _ _ y E) in H. inversion H. eauto.
    + exfalso. apply nth_error_None in E.
      assert (L : nth_error (upd l j y) j = None) by (apply nth_error_None; rewrite length_upd; exact E).
      rewrite L in H. discriminate H.
  - right. rewrite nth_error_upd_other in H by exact N. auto.
Qed.

Definition pc_ok (fs : fstate) : Prop :=
  match f_pc fs with
  | FVisit | FWait SC => True
  | FPost | FWait PY => eg_pending (f_sc fs) = 0 /\ eg_err (f_sc fs) = false
  | FDone false => eg_pending (f_sc fs) = 0 /\ eg_err (f_sc fs) = false /\
                   eg_pending (f_py fs) = 0 /\ eg_err (f_py fs) = false
  | FDone true => eg_err (f_sc fs) = true \/ eg_err (f_py fs) = true
  end.

Definition main_ok (st : state) : Prop :=
  match s_main st with
  | MRun => True
  | MWait => all_files_done st = true
  | MAfter => all_files_done st = true /\ s_wg st = 0
  | MReturned fatal => all_files_done st = true /\ s_wg st = 0 /\ fatal = any_file_err st
  end.

Definition eg_ok (st : state) : Prop :=
  forall f fs r, nth_error (s_files st) f = Some fs ->
    eg_pending (eg_of fs r) = cnt (live_in f r) (s_tasks st) /\
    eg_err (eg_of fs r) = (0 <? cnt (failed_in f r) (s_tasks st)).

Record InvB (st : state) : Prop := {
  inv_eg : eg_ok st;
  inv_tfile : forall t x, nth_error (s_tasks st) t = Some x -> t_file x < length (s_files st);
  inv_pc : forall f fs, nth_error (s_files st) f = Some fs -> pc_ok fs;
  inv_main : main_ok st }.

Lemma eg_of_set_same fs r g : eg_of (set_eg fs r g) r = g.
Proof. destruct r; reflexivity. Qed.
Lemma eg_of_set_other fs r r' g : r <> r' -> eg_of (set_eg fs r g) r' = eg_of fs r'.
Proof. destruct r, r'; intro N; try reflexivity; contradiction. Qed.
Lemma f_pc_set_eg fs r g : f_pc (set_eg fs r g) = f_pc fs.
Proof. destruct r; reflexivity. Qed.

(* a task whose phase moves between phases that are neither "called" nor "done"
   changes no errgroup count *)
Lemma eg_counts_same tasks t x y :
  nth_error tasks t = Some x -> t_file y = t_file x -> t_inv y = t_inv x ->
  live y = live x -> andb (called y) (is_cerr (t_cb y)) = andb (called x) (is_cerr (t_cb x)) ->
  forall f r, cnt (live_in f r) (upd tasks t y) = cnt (live_in f r) tasks /\
              cnt (failed_in f r) (upd tasks t y) = cnt (failed_in f r) tasks.
Proof.
  intros Hx Ef Ei El Ec f r. split; apply (cnt_upd_same _ _ _ x); auto.
  - unfold live_in, in_eg. now rewrite Ef, Ei, El.
  - unfold failed_in, in_eg. now rewrite Ef, Ei, Ec.
Qed.

Lemma all_done_nth st f fs :
  all_files_done st = true -> nth_error (s_files st) f = Some fs -> exists e, f_pc fs = FDone e.
Proof.
  intros H Hn. pose proof (forallb_nth _ _ _ _ H Hn) as D. unfold is_done_pc in D.
  destruct (f_pc fs); try discriminate D. eauto.
Qed.

Lemma main_not_run_done st : main_ok st -> s_main st <> MRun -> all_files_done st = true.
Proof. unfold main_ok. destruct (s_main st); intros H N; tauto. Qed.

(* file updates that keep the program counter keep the main-thread facts *)
Lemma main_ok_files st files' wg' :
  main_ok st -> (wg' = s_wg st \/ wg' = pred (s_wg st)) ->
  forallb is_done_pc files' = forallb is_done_pc (s_files st) ->
  existsb is_err_pc files' = existsb is_err_pc (s_files st) ->
  forall tasks' free' diags',
  main_ok {| s_free := free'; s_wg := wg'; s_tasks := tasks'; s_files := files'; s_diags := diags'; s_main := s_main st |}.
Proof.
  unfold main_ok, all_files_done, any_file_err. intros H Hw E1 E2 tasks' free' diags'. cbn.
  destruct (s_main st); auto; rewrite E1, ?E2.
  - exact H.
  - destruct H as [H1 H2]. split; [exact H1|]. destruct Hw as [->| ->]; lia.
  - destruct H as [H1 [H2 H3]]. repeat split; auto. destruct Hw as [->| ->]; lia.
Qed.

Lemma pc_same_done fs fs' : f_pc fs' = f_pc fs -> is_done_pc fs' = is_done_pc fs /\ is_err_pc fs' = is_err_pc fs.
Proof. unfold is_done_pc, is_err_pc. intros ->. auto. Qed.

(* a live task of errgroup (f, r) keeps its pending count positive *)
Lemma live_pending st t x fs :
  eg_ok st -> nth_error (s_tasks st) t = Some x -> live x = true ->
  nth_error (s_files st) (t_file x) = Some fs -> 1 <= eg_pending (eg_of fs (i_rule (t_inv x))).
Proof.
  intros He Hx Hl Hf. destruct (He _ _ (i_rule (t_inv x)) Hf) as [-> _].
  apply (cnt_pos _ _ t x Hx). unfold live_in, in_eg. now rewrite Nat.eqb_refl, rule_eqb_refl, Hl.
Qed.

Lemma stepB st e st' : InvB st -> step true st e = Some st' -> InvB st'.
Proof.
  intros [He Ht Hp Hm] H. destruct e; cbn [step] in H.
  - (* spawn *)
    destruct (nth_error (s_files st) f) as [fs|] eqn:Hf; [|discriminate H].
    destruct (f_pc fs) eqn:Hpc; try discriminate H.
    destruct (remove_inv i (f_todo fs)) as [todo'|]; [|discriminate H].
    injection H as <-. constructor; unfold eg_ok; cbn [with_file with_task with_main s_tasks s_files s_main s_wg].
    + intros f' fs' r Hn. rewrite !cnt_app1.
      set (nt := {| t_file := f; t_inv := i; t_phase := PSpawned; t_cb := CErr |}).
      assert (F1 : failed_in f' r nt = false) by (unfold failed_in, called, nt; cbn; now rewrite andb_false_r).
      assert (L1 : live_in f' r nt = andb (Nat.eqb f f') (rule_eqb (i_rule i) r))
        by (unfold live_in, in_eg, live, nt; cbn; now rewrite andb_true_r).
      rewrite F1, L1. cbn [b2n]. rewrite Nat.add_0_r.
      apply nth_upd_cases in Hn. destruct Hn as [(<- & -> & _)|(N & Hn)].
      * destruct (He _ _ r Hf) as [E1 E2]. rewrite Nat.eqb_refl. cbn [andb].
        destruct (rule_eqb (i_rule i) r) eqn:Er.
        -- apply rule_eqb_eq in Er. subst r. rewrite eg_of_set_same. cbn [eg_pending eg_err b2n].
           replace (eg_of {| f_pc := FVisit; f_todo := todo'; f_sc := f_sc fs; f_py := f_py fs |} (i_rule i))
             with (eg_of fs (i_rule i)) by (destruct (i_rule i); reflexivity).
           rewrite E1, E2. split; [lia|reflexivity].
        -- assert (N : i_rule i <> r) by (intro; subst; rewrite rule_eqb_refl in Er; discriminate Er).
           rewrite eg_of_set_other by exact N.
           replace (eg_of {| f_pc := FVisit; f_todo := todo'; f_sc := f_sc fs; f_py := f_py fs |} r) with (eg_of fs r)
             by (destruct r; reflexivity).
           cbn [b2n]. rewrite E1, E2. split; [lia|reflexivity].
      * destruct (He _ _ r Hn) as [E1 E2].
        replace (Nat.eqb f f') with false by (symmetry; apply Nat.eqb_neq; exact N). cbn [andb b2n].
        rewrite E1, E2. split; [lia|reflexivity].
    + intros t x Hn. rewrite length_upd.
      destruct (Nat.lt_ge_cases t (length (s_tasks st))) as [L|L].
      * rewrite nth_error_app1 in Hn by exact L. eauto.
      * rewrite nth_error_app2 in Hn by exact L.
        destruct (t - length (s_tasks st)) as [|k]; cbn in Hn.
        -- inversion Hn. cbn. apply nth_error_Some. rewrite Hf. discriminate.
        -- destruct k; discriminate Hn.
    + intros f' fs' Hn. apply nth_upd_cases in Hn. destruct Hn as [(<- & -> & _)|(N & Hn)]; [|eauto].
      unfold pc_ok. rewrite f_pc_set_eg. exact I.
    + (* main: a file is still visiting, so the main thread is running *)
      unfold main_ok in *. cbn [s_main s_wg all_files_done any_file_err s_files].
      destruct (s_main st) eqn:Em; auto; exfalso;
        assert (D : all_files_done st = true) by tauto;
        destruct (all_done_nth _ _ _ D Hf) as [e E]; rewrite E in Hpc; discriminate Hpc.
  - (* acquire *)
    destruct (nth_error (s_tasks st) t) as [x|] eqn:Hx; [|discriminate H].
    destruct (s_free st) as [|n]; [discriminate H|].
    destruct (phase_eqb (t_phase x) PSpawned) eqn:Hph; [|discriminate H]. phase_of Hph.
    injection H as <-.
    assert (C := eg_counts_same _ _ _ (set_phase x PAcquired) Hx eq_refl eq_refl
                   ltac:(unfold live; cbn; now rewrite Hph) ltac:(unfold called; cbn; now rewrite Hph)).
    constructor; unfold eg_ok; cbn [with_file with_task with_main s_tasks s_files s_main s_wg].
    + intros f fs r Hn. destruct (C f r) as [-> ->]. exact (He _ _ r Hn).
    + intros t' x' Hn. apply nth_upd_cases in Hn. destruct Hn as [(_ & -> & _)|(_ & Hn)]; [cbn|]; eauto.
    + exact Hp.
    + exact (main_ok_files st _ _ Hm (or_introl eq_refl) eq_refl eq_refl _ _ _).
  - (* exit *)
    destruct (nth_error (s_tasks st) t) as [x|] eqn:Hx; [|discriminate H].
    destruct (phase_eqb (t_phase x) PAcquired) eqn:Hph; [|discriminate H]. phase_of Hph.
    injection H as <-.
    match goal with |- InvB {| s_free := _; s_wg := _; s_tasks := upd _ _ ?y; s_files := _; s_diags := _; s_main := _ |} =>
      assert (C := eg_counts_same _ _ _ y Hx eq_refl eq_refl
                   ltac:(unfold live; cbn; now rewrite Hph) ltac:(unfold called; cbn; now rewrite Hph)) end.
    constructor; unfold eg_ok; cbn [with_file with_task with_main s_tasks s_files s_main s_wg].
    + intros f fs r' Hn. destruct (C f r') as [-> ->]. exact (He _ _ r' Hn).
    + intros t' x' Hn. apply nth_upd_cases in Hn. destruct Hn as [(_ & -> & _)|(_ & Hn)]; [cbn|]; eauto.
    + exact Hp.
    + exact (main_ok_files st _ _ Hm (or_introl eq_refl) eq_refl eq_refl _ _ _).
  - (* release *)
    destruct (nth_error (s_tasks st) t) as [x|] eqn:Hx; [|discriminate H].
    destruct (phase_eqb (t_phase x) PExited) eqn:Hph; [|discriminate H]. phase_of Hph.
    injection H as <-.
    assert (C := eg_counts_same _ _ _ (set_phase x PReleased) Hx eq_refl eq_refl
                   ltac:(unfold live; cbn; now rewrite Hph) ltac:(unfold called; cbn; now rewrite Hph)).
    constructor; unfold eg_ok; cbn [with_file with_task with_main s_tasks s_files s_main s_wg].
    + intros f fs r Hn. destruct (C f r) as [-> ->]. exact (He _ _ r Hn).
    + intros t' x' Hn. apply nth_upd_cases in Hn. destruct Hn as [(_ & -> & _)|(_ & Hn)]; [cbn|]; eauto.
    + exact Hp.
    + exact (main_ok_files st _ _ Hm (or_introl eq_refl) eq_refl eq_refl _ _ _).
  - (* callback *)
    destruct (nth_error (s_tasks st) t) as [x|] eqn:Hx; [|discriminate H].
    destruct (phase_eqb (t_phase x) PReleased) eqn:Hph; [|discriminate H]. phase_of Hph.
    destruct (nth_error (s_files st) (t_file x)) as [fs|] eqn:Hf; [|discriminate H].
    injection H as <-.
    assert (Lx : live x = true) by (unfold live; now rewrite Hph).
    pose proof (live_pending st t x fs He Hx Lx Hf) as Pend.
    set (r0 := i_rule (t_inv x)) in *.
    constructor; unfold eg_ok; cbn [with_file with_task with_main s_tasks s_files s_main s_wg].
    + intros f fs' r Hn.
      assert (CL : cnt (live_in f r) (upd (s_tasks st) t (set_phase x PCalled)) = cnt (live_in f r) (s_tasks st)).
      { apply (cnt_upd_same _ _ _ x _ Hx). unfold live_in, live. cbn. now rewrite Hph. }
      assert (CF : cnt (failed_in f r) (upd (s_tasks st) t (set_phase x PCalled)) =
                   cnt (failed_in f r) (s_tasks st) + b2n (andb (in_eg f r x) (is_cerr (t_cb x)))).
      { assert (Fx : failed_in f r x = false) by (unfold failed_in, called; rewrite Hph; now rewrite andb_false_r).
        assert (Fy : failed_in f r (set_phase x PCalled) = andb (in_eg f r x) (is_cerr (t_cb x))) by reflexivity.
        pose proof (cnt_upd' (failed_in f r) _ _ _ (set_phase x PCalled) _ _ Hx Fx Fy) as C. cbn [b2n] in C. lia. }
      rewrite CL, CF.
      apply nth_upd_cases in Hn. destruct Hn as [(<- & -> & _)|(N & Hn)].
      * destruct (He _ _ r Hf) as [E1 E2].
        destruct (rule_eqb r0 r) eqn:Er.
        -- apply rule_eqb_eq in Er. subst r. rewrite eg_of_set_same. cbn [eg_pending eg_err].
           unfold in_eg. fold r0. rewrite Nat.eqb_refl, rule_eqb_refl. cbn [andb].
           rewrite E1, E2. split; [reflexivity|].
           destruct (is_cerr (t_cb x)); cbn [b2n].
           ++ rewrite orb_true_r. symmetry. apply Nat.ltb_lt. lia.
           ++ rewrite orb_false_r, Nat.add_0_r. reflexivity.
        -- assert (N : r0 <> r) by (intro; subst r; rewrite rule_eqb_refl in Er; discriminate Er).
           rewrite eg_of_set_other by exact N.
           unfold in_eg. fold r0. rewrite Er, andb_false_r. cbn [andb b2n]. rewrite Nat.add_0_r. exact (conj E1 E2).
      * destruct (He _ _ r Hn) as [E1 E2]. unfold in_eg.
        replace (Nat.eqb (t_file x) f) with false by (symmetry; apply Nat.eqb_neq; exact N).
        cbn [andb b2n]. rewrite Nat.add_0_r. exact (conj E1 E2).
    + intros t' x' Hn. rewrite length_upd. apply nth_upd_cases in Hn. destruct Hn as [(_ & -> & _)|(_ & Hn)]; [cbn|]; eauto.
    + intros f fs' Hn. apply nth_upd_cases in Hn. destruct Hn as [(<- & -> & _)|(N & Hn)]; [|eauto].
      pose proof (Hp _ _ Hf) as P. unfold pc_ok in *. rewrite f_pc_set_eg.
      destruct (f_pc fs) as [|[|]| |[|]]; auto.
      * (* FWait PY *) destruct r0 eqn:Er0; cbn [set_eg f_sc eg_of] in *; [lia|exact P].
      * (* FPost *) destruct r0 eqn:Er0; cbn [set_eg f_sc eg_of] in *; [lia|exact P].
      * (* FDone true *) destruct r0; cbn [set_eg f_sc f_py eg_err eg_of] in *; destruct P as [P|P]; rewrite ?P; cbn; auto.
      * (* FDone false *) destruct r0 eqn:Er0; cbn [set_eg f_sc f_py eg_of] in *; lia.
    + refine (main_ok_files st _ _ Hm (or_introl eq_refl) _ _ _ _ _).
      * apply (forallb_upd _ _ _ fs _ Hf). apply pc_same_done. apply f_pc_set_eg.
      * apply (existsb_upd _ _ _ fs _ Hf). apply pc_same_done. apply f_pc_set_eg.
  - (* done *)
    destruct (nth_error (s_tasks st) t) as [x|] eqn:Hx; [|discriminate H].
    destruct (phase_eqb (t_phase x) PCalled) eqn:Hph; [|discriminate H]. phase_of Hph.
    destruct (nth_error (s_files st) (t_file x)) as [fs|] eqn:Hf; [|discriminate H].
    injection H as <-.
    assert (Lx : live x = true) by (unfold live; now rewrite Hph).
    pose proof (live_pending st t x fs He Hx Lx Hf) as Pend.
    set (r0 := i_rule (t_inv x)) in *.
    constructor; unfold eg_ok; cbn [with_file with_task with_main s_tasks s_files s_main s_wg].
    + intros f fs' r Hn.
      assert (CF : cnt (failed_in f r) (upd (s_tasks st) t (set_phase x PDone)) = cnt (failed_in f r) (s_tasks st)).
      { apply (cnt_upd_same _ _ _ x _ Hx). unfold failed_in, called. cbn. now rewrite Hph. }
      assert (CL : cnt (live_in f r) (upd (s_tasks st) t (set_phase x PDone)) + b2n (in_eg f r x) =
                   cnt (live_in f r) (s_tasks st)).
      { assert (Lx' : live_in f r x = in_eg f r x) by (unfold live_in; rewrite Lx; apply andb_true_r).
        assert (Ly : live_in f r (set_phase x PDone) = false) by (unfold live_in, live; cbn; apply andb_false_r).
        pose proof (cnt_upd' (live_in f r) _ _ _ (set_phase x PDone) _ _ Hx Lx' Ly) as C. cbn [b2n] in C. lia. }
      rewrite CF.
      apply nth_upd_cases in Hn. destruct Hn as [(<- & -> & _)|(N & Hn)].
      * destruct (He _ _ r Hf) as [E1 E2].
        destruct (rule_eqb r0 r) eqn:Er.
        -- apply rule_eqb_eq in Er. subst r. rewrite eg_of_set_same. cbn [eg_pending eg_err].
           unfold in_eg in CL. fold r0 in CL. rewrite Nat.eqb_refl, rule_eqb_refl in CL. cbn [andb b2n] in CL.
           split; [lia|exact E2].
        -- assert (N : r0 <> r) by (intro; subst r; rewrite rule_eqb_refl in Er; discriminate Er).
           rewrite eg_of_set_other by exact N.
           unfold in_eg in CL. fold r0 in CL. rewrite Er, andb_false_r in CL. cbn [b2n] in CL.
           split; [lia|exact E2].
      * destruct (He _ _ r Hn) as [E1 E2]. unfold in_eg in CL.
        replace (Nat.eqb (t_file x) f) with false in CL by (symmetry; apply Nat.eqb_neq; exact N).
        cbn [andb b2n] in CL. split; [lia|exact E2].
    + intros t' x' Hn. rewrite length_upd. apply nth_upd_cases in Hn. destruct Hn as [(_ & -> & _)|(_ & Hn)]; [cbn|]; eauto.
    + intros f fs' Hn. apply nth_upd_cases in Hn. destruct Hn as [(<- & -> & _)|(N & Hn)]; [|eauto].
      pose proof (Hp _ _ Hf) as P. unfold pc_ok in *. rewrite f_pc_set_eg.
      destruct (f_pc fs) as [|[|]| |[|]]; auto.
      * destruct r0 eqn:Er0; cbn [set_eg f_sc eg_of] in *; [lia|exact P].
      * destruct r0 eqn:Er0; cbn [set_eg f_sc eg_of] in *; [lia|exact P].
      * destruct r0; cbn [set_eg f_sc f_py eg_err eg_of] in *; exact P.
      * destruct r0 eqn:Er0; cbn [set_eg f_sc f_py eg_of] in *; lia.
    + refine (main_ok_files st _ _ Hm (or_intror eq_refl) _ _ _ _ _).
      * apply (forallb_upd _ _ _ fs _ Hf). apply pc_same_done. apply f_pc_set_eg.
      * apply (existsb_upd _ _ _ fs _ Hf). apply pc_same_done. apply f_pc_set_eg.
  - (* eg enter *)
    destruct (nth_error (s_files st) f) as [fs|] eqn:Hf; [|discriminate H].
    assert (NotDone : (forall e, f_pc fs <> FDone e) ->
              main_ok st -> s_main st = MRun).
    { intros ND M. destruct (s_main st) eqn:Em; auto; exfalso;
        (assert (D : all_files_done st = true) by (unfold main_ok in M; rewrite Em in M; tauto));
        destruct (all_done_nth _ _ _ D Hf) as [e E]; exact (ND e E). }
    assert (G : forall pc' : fpc, (forall e, f_pc fs <> FDone e) ->
              (match pc' with FWait SC => True | FWait PY => pc_ok fs /\ (f_pc fs = FPost) | _ => False end) ->
              InvB (with_file st f (set_pc fs pc'))).
    { intros pc' ND Hpc'. pose proof (NotDone ND Hm) as Em.
      constructor; unfold eg_ok; cbn [with_file with_task with_main s_tasks s_files s_main s_wg].
      - intros f' fs' r' Hn. apply nth_upd_cases in Hn. destruct Hn as [(<- & -> & _)|(N & Hn)]; [|eauto].
        replace (eg_of (set_pc fs pc') r') with (eg_of fs r') by (destruct r'; reflexivity). eauto.
      - intros t x Hn. rewrite length_upd. eauto.
      - intros f' fs' Hn. apply nth_upd_cases in Hn. destruct Hn as [(<- & -> & _)|(N & Hn)]; [|eauto].
        unfold pc_ok. cbn [set_pc f_pc f_sc f_py].
        destruct pc' as [|[|]| |]; try contradiction; auto.
        destruct Hpc' as [P E]. unfold pc_ok in P. rewrite E in P. exact P.
      - unfold main_ok, with_file. cbn [s_main]. rewrite Em. exact I. }
    destruct r, (f_pc fs) eqn:Hpc; try discriminate H.
    + destruct (f_todo fs); [|discriminate H]. injection H as <-. apply G; [intros e; discriminate|exact I].
    + injection H as <-. apply G; [intros e; discriminate|]. split; [|reflexivity].
      pose proof (Hp _ _ Hf) as P. exact P.
  - (* eg return *)
    destruct (nth_error (s_files st) f) as [fs|] eqn:Hf; [|discriminate H].
    destruct (f_pc fs) as [|r'| |] eqn:Hpc; try discriminate H.
    destruct (rule_eqb r r') eqn:Er; [|discriminate H]. apply rule_eqb_eq in Er. subst r'.
    destruct (Nat.eqb (eg_pending (eg_of fs r)) 0) eqn:E0; [|discriminate H]. apply Nat.eqb_eq in E0.
    destruct (Bool.eqb err (eg_err (eg_of fs r))) eqn:E1; [|discriminate H]. apply Bool.eqb_prop in E1.
    cbn [andb] in H. injection H as <-.
    assert (Em : s_main st = MRun).
    { destruct (s_main st) eqn:Em; auto; exfalso;
        (assert (D : all_files_done st = true) by (unfold main_ok in Hm; rewrite Em in Hm; tauto));
        destruct (all_done_nth _ _ _ D Hf) as [e E]; rewrite E in Hpc; discriminate Hpc. }
    pose proof (Hp _ _ Hf) as P. unfold pc_ok in P. rewrite Hpc in P.
    constructor; unfold eg_ok; cbn [with_file with_task with_main s_tasks s_files s_main s_wg].
    + intros f' fs' r' Hn. apply nth_upd_cases in Hn. destruct Hn as [(<- & -> & _)|(N & Hn)]; [|eauto].
      match goal with |- context [eg_of (set_pc fs ?pc) r'] =>
        replace (eg_of (set_pc fs pc) r') with (eg_of fs r') by (destruct r'; reflexivity) end. eauto.
    + intros t x Hn. rewrite length_upd. eauto.
    + intros f' fs' Hn. apply nth_upd_cases in Hn. destruct Hn as [(<- & -> & _)|(N & Hn)]; [|eauto].
      unfold pc_ok. cbn [set_pc f_pc f_sc f_py].
      destruct err.
      * destruct r; cbn [eg_of] in E1; auto.
      * destruct r; cbn [eg_of] in E0, E1.
        -- auto.
        -- destruct P as [P1 P2]. auto.
    + unfold main_ok, with_file. cbn [s_main]. rewrite Em. exact I.
  - (* proc.wait enter *)
    destruct (s_main st) eqn:Em; try discriminate H.
    destruct (all_files_done st) eqn:D; [|discriminate H]. cbn [andb orb] in H. injection H as <-.
    constructor; unfold eg_ok; cbn [with_file with_task with_main s_tasks s_files s_main s_wg]; auto.
  - (* proc.wait return *)
    destruct (s_main st) eqn:Em; try discriminate H.
    destruct (Nat.eqb (s_wg st) 0) eqn:E0; [|discriminate H]. apply Nat.eqb_eq in E0. injection H as <-.
    unfold main_ok in Hm. rewrite Em in Hm.
    constructor; unfold eg_ok; cbn [with_file with_task with_main s_tasks s_files s_main s_wg]; auto.
    unfold main_ok, all_files_done. cbn. auto.
  - (* return *)
    destruct (s_main st) eqn:Em; try discriminate H.
    destruct (Bool.eqb fatal (any_file_err st)) eqn:E1; [|discriminate H]. apply Bool.eqb_prop in E1.
    injection H as <-. unfold main_ok in Hm. rewrite Em in Hm. destruct Hm as [M1 M2].
    constructor; unfold eg_ok; cbn [with_file with_task with_main s_tasks s_files s_main s_wg]; auto.
    unfold main_ok, all_files_done, any_file_err. cbn. auto.
Qed.

Lemma initB cap wfs : InvB (init cap wfs).
Proof.
  constructor; unfold eg_ok, main_ok, init; cbn [s_tasks s_files s_main s_wg].
  - intros f fs r Hn. rewrite nth_error_map in Hn.
    destruct (nth_error wfs f); [|discriminate Hn]. inversion Hn. destruct r; cbn; auto.
  - intros t x Hn. destruct t; discriminate Hn.
  - intros f fs Hn. rewrite nth_error_map in Hn.
    destruct (nth_error wfs f); [|discriminate Hn]. inversion Hn. exact I.
  - exact I.
Qed.

Lemma execB tr : forall st st', InvB st -> exec_from true st tr = Some st' -> InvB st'.
Proof.
  induction tr as [|e tr IH]; intros st st' I H; cbn in H.
  - inversion H; subst; exact I.
  - destruct (step true st e) as [st1|] eqn:E; [|discriminate H].
    exact (IH _ _ (stepB _ _ _ I E) H).
Qed.

(* ============================ part C: diagnostics ============================ *)

Definition task_diags (x : task) : list diag := if called x then cb_diags (t_cb x) else [].

Record InvC (st : state) : Prop := {
  inv_diags : Permutation (s_diags st) (flat_map task_diags (s_tasks st));
  inv_cbpos : forall t x, nth_error (s_tasks st) t = Some x -> forall d, In d (cb_diags (t_cb x)) ->
      d_pos d = i_pos (t_inv x) /\ d_file d = t_file x /\ d_rule d = i_rule (t_inv x) }.

Lemma flat_map_upd_same {A B} (g : A -> list B) l i x y :
  nth_error l i = Some x -> g y = g x -> flat_map g (upd l i y) = flat_map g l.
Proof.
  revert i; induction l as [|a l IH]; intros [|i] H E; try discriminate H; cbn in *.
  - inversion H; subst. now rewrite E.
  - now rewrite (IH i H E).
Qed.

(* a phase change that keeps the callback result and the "called" status *)
Lemma stepC_phase st t x p free' wg' files' :
  InvC st -> nth_error (s_tasks st) t = Some x -> called (set_phase x p) = called x ->
  InvC {| s_free := free'; s_wg := wg'; s_tasks := upd (s_tasks st) t (set_phase x p);
          s_files := files'; s_diags := s_diags st; s_main := s_main st |}.
Proof.
  intros [Hd Hc] Hx E. constructor; cbn [s_diags s_tasks].
  - rewrite (flat_map_upd_same task_diags _ _ x); auto. unfold task_diags. now rewrite E.
  - intros t' x' Hn. apply nth_upd_cases in Hn. destruct Hn as [(_ & -> & _)|(_ & Hn)]; [cbn|]; eauto.
Qed.

Lemma stepC woe st e st' : InvC st -> step woe st e = Some st' -> InvC st'.
Proof.
  intros I H. destruct e; cbn [step] in H.
  - destruct (nth_error (s_files st) f) as [fs|]; [|discriminate H].
    destruct (f_pc fs); try discriminate H.
    destruct (remove_inv i (f_todo fs)); [|discriminate H].
    injection H as <-. destruct I as [Hd Hc]. constructor; cbn [s_diags s_tasks].
    + rewrite flat_map_app. cbn. now rewrite !app_nil_r.
    + intros t x Hn.
      destruct (Nat.lt_ge_cases t (length (s_tasks st))) as [L|L].
      * rewrite nth_error_app1 in Hn by exact L. eauto.
      * rewrite nth_error_app2 in Hn by exact L.
        destruct (t - length (s_tasks st)) as [|k]; cbn in Hn.
        -- inversion Hn. cbn. contradiction.
        -- destruct k; discriminate Hn.
  - destruct (nth_error (s_tasks st) t) as [x|] eqn:Hx; [|discriminate H].
    destruct (s_free st) as [|n]; [discriminate H|].
    destruct (phase_eqb (t_phase x) PSpawned) eqn:Hph; [|discriminate H]. phase_of Hph.
    injection H as <-. apply stepC_phase; auto. unfold called. cbn. now rewrite Hph.
  - destruct (nth_error (s_tasks st) t) as [x|] eqn:Hx; [|discriminate H].
    destruct (phase_eqb (t_phase x) PAcquired) eqn:Hph; [|discriminate H]. phase_of Hph.
    injection H as <-. destruct I as [Hd Hc]. constructor; cbn [s_diags s_tasks].
    + rewrite (flat_map_upd_same task_diags _ _ x); auto. unfold task_diags, called. cbn. now rewrite Hph.
    + intros t' x' Hn. apply nth_upd_cases in Hn. destruct Hn as [(_ & -> & _)|(_ & Hn)]; [|eauto].
      cbn [t_cb t_inv t_file]. intros d Hd'. now apply callback_pos in Hd'.
  - destruct (nth_error (s_tasks st) t) as [x|] eqn:Hx; [|discriminate H].
    destruct (phase_eqb (t_phase x) PExited) eqn:Hph; [|discriminate H]. phase_of Hph.
    injection H as <-. apply stepC_phase; auto. unfold called. cbn. now rewrite Hph.
  - destruct (nth_error (s_tasks st) t) as [x|] eqn:Hx; [|discriminate H].
    destruct (phase_eqb (t_phase x) PReleased) eqn:Hph; [|discriminate H]. phase_of Hph.
    destruct (nth_error (s_files st) (t_file x)); [|discriminate H].
    injection H as <-. destruct I as [Hd Hc]. constructor; cbn [s_diags s_tasks].
    + pose proof (flat_map_upd_perm task_diags _ _ _ (set_phase x PCalled) Hx) as P.
      assert (E1 : task_diags x = []) by (unfold task_diags, called; now rewrite Hph).
      assert (E2 : task_diags (set_phase x PCalled) = cb_diags (t_cb x)) by reflexivity.
      rewrite E1, E2, app_nil_r in P.
      etransitivity; [apply Permutation_app_tail; exact Hd|]. symmetry. exact P.
    + intros t' x' Hn. apply nth_upd_cases in Hn. destruct Hn as [(_ & -> & _)|(_ & Hn)]; [cbn|]; eauto.
  - destruct (nth_error (s_tasks st) t) as [x|] eqn:Hx; [|discriminate H].
    destruct (phase_eqb (t_phase x) PCalled) eqn:Hph; [|discriminate H]. phase_of Hph.
    destruct (nth_error (s_files st) (t_file x)); [|discriminate H].
    injection H as <-. apply stepC_phase; auto. unfold called. cbn. now rewrite Hph.
  - destruct (nth_error (s_files st) f) as [fs|]; [|discriminate H].
    destruct r, (f_pc fs); try discriminate H.
    + destruct (f_todo fs); [|discriminate H]. injection H as <-. destruct I. constructor; assumption.
    + injection H as <-. destruct I. constructor; assumption.
  - destruct (nth_error (s_files st) f) as [fs|]; [|discriminate H].
    destruct (f_pc fs); try discriminate H.
    destruct (andb _ _); [|discriminate H]. injection H as <-. destruct I. constructor; assumption.
  - destruct (s_main st); try discriminate H.
    destruct (andb _ _); [|discriminate H]. injection H as <-. destruct I. constructor; assumption.
  - destruct (s_main st); try discriminate H.
    destruct (Nat.eqb _ _); [|discriminate H]. injection H as <-. destruct I. constructor; assumption.
  - destruct (s_main st); try discriminate H.
    + destruct (andb _ _); [|discriminate H]. injection H as <-. destruct I. constructor; assumption.
    + destruct (Bool.eqb _ _); [|discriminate H]. injection H as <-. destruct I. constructor; assumption.
Qed.

Lemma initC cap wfs : InvC (init cap wfs).
Proof. constructor; cbn; [constructor|]. intros t x Hn. destruct t; discriminate Hn. Qed.

Lemma execC woe tr : forall st st', InvC st -> exec_from woe st tr = Some st' -> InvC st'.
Proof.
  induction tr as [|e tr IH]; intros st st' I H; cbn in H.
  - inversion H; subst; exact I.
  - destruct (step woe st e) as [st1|] eqn:E; [|discriminate H].
    exact (IH _ _ (stepC _ _ _ _ I E) H).
Qed.

(* ============================ the theorems ==================================== *)

Lemma live_false_done x : live x = false -> t_phase x = PDone.
Proof. unfold live. destruct (t_phase x); cbn; congruence. Qed.

(* when Lint* has returned, every invocation that was ever started is done *)
Theorem all_collected cap wfs tr st fatal :
  exec cap wfs tr = Some st -> s_main st = MReturned fatal ->
  forall x, In x (s_tasks st) -> t_phase x = PDone.
Proof.
  intros H Em x Hx.
  destruct (execA true cap tr _ _ (initA cap wfs) H) as [_ Hw].
  destruct (execB tr _ _ (initB cap wfs) H) as [_ _ _ Hm].
  unfold main_ok in Hm. rewrite Em in Hm. destruct Hm as [_ [W _]].
  rewrite W in Hw. symmetry in Hw.
  apply live_false_done. exact (cnt_zero_all live _ Hw x Hx).
Qed.

(* ... and the same holds from the moment proc.wait() has returned *)
Theorem all_collected_after_wait cap wfs tr st :
  exec cap wfs tr = Some st -> s_main st = MAfter ->
  forall x, In x (s_tasks st) -> t_phase x = PDone.
Proof.
  intros H Em x Hx.
  destruct (execA true cap tr _ _ (initA cap wfs) H) as [_ Hw].
  destruct (execB tr _ _ (initB cap wfs) H) as [_ _ _ Hm].
  unfold main_ok in Hm. rewrite Em in Hm. destruct Hm as [_ W].
  rewrite W in Hw. symmetry in Hw.
  apply live_false_done. exact (cnt_zero_all live _ Hw x Hx).
Qed.

Lemma exec_from_app woe tr1 : forall tr2 st st',
  exec_from woe st (tr1 ++ tr2) = Some st' ->
  exists st1, exec_from woe st tr1 = Some st1 /\ exec_from woe st1 tr2 = Some st'.
Proof.
  induction tr1 as [|e tr1 IH]; intros tr2 st st' H; cbn in *.
  - eauto.
  - destruct (step woe st e); [|discriminate H]. eauto.
Qed.

Lemma no_spawn_after st f i : InvB st -> s_main st <> MRun -> step true st (ESpawn f i) = None.
Proof.
  intros [_ _ _ Hm] N. cbn [step].
  destruct (nth_error (s_files st) f) as [fs|] eqn:Hf; [|reflexivity].
  assert (D : all_files_done st = true) by (unfold main_ok in Hm; destruct (s_main st); tauto).
  destruct (all_done_nth _ _ _ D Hf) as [e E]. rewrite E. reflexivity.
Qed.

Lemma main_leaves_run st e st' : step true st e = Some st' -> s_main st <> MRun -> s_main st' <> MRun.
Proof.
  intros H N. destruct e; cbn [step] in H;
    repeat match type of H with
           | match ?c with _ => _ end = Some _ => destruct c eqn:?; try discriminate H
           | (if ?c then _ else _) = Some _ => destruct c eqn:?; try discriminate H
           end;
    try (injection H as <-; cbn; try assumption; try congruence; discriminate).
Qed.

(* "proc.wait() must be called after eg.Wait()": no wg.Add can follow the
   start of wg.Wait in any execution *)
Theorem wg_add_before_wait cap wfs pre post st :
  exec cap wfs (pre ++ EPwEnter :: post) = Some st -> forall f i, ~ In (ESpawn f i) post.
Proof.
  unfold exec. intro H. apply exec_from_app in H. destruct H as [st1 [H1 H2]].
  pose proof (execB _ _ _ (initB cap wfs) H1) as I1.
  cbn [exec_from] in H2. destruct (step true st1 EPwEnter) as [st2|] eqn:E; [|discriminate H2].
  pose proof (stepB _ _ _ I1 E) as I2.
  assert (N2 : s_main st2 <> MRun).
  { cbn [step] in E. destruct (s_main st1); try discriminate E.
    destruct (andb _ _); [|discriminate E]. injection E as <-. cbn. discriminate. }
  clear H1 E I1. revert st2 I2 N2 H2. induction post as [|e post IH]; intros st2 I2 N2 H2 f i Hin; [contradiction|].
  cbn [exec_from] in H2. destruct (step true st2 e) as [st3|] eqn:E; [|discriminate H2].
  destruct Hin as [->|Hin].
  - rewrite (no_spawn_after _ _ _ I2 N2) in E. discriminate E.
  - exact (IH st3 (stepB _ _ _ I2 E) (main_leaves_run _ _ _ E N2) H2 f i Hin).
Qed.

(* on return: the diagnostics are exactly the issues of the invocations (each
   once, in some order), each at the run: position of its step, and a fatal
   error is returned iff some invocation failed *)
Theorem no_lost_output cap wfs tr st fatal :
  exec cap wfs tr = Some st -> s_main st = MReturned fatal ->
  (fatal = true <-> exists x, In x (s_tasks st) /\ t_cb x = CErr) /\
  (fatal = false -> Permutation (returned_diags st) (flat_map (fun x => cb_diags (t_cb x)) (s_tasks st))) /\
  (forall x d, In x (s_tasks st) -> In d (cb_diags (t_cb x)) ->
     d_pos d = i_pos (t_inv x) /\ d_file d = t_file x /\ d_rule d = i_rule (t_inv x)).
Proof.
  intros H Em.
  pose proof (all_collected _ _ _ _ _ H Em) as AC.
  destruct (execB tr _ _ (initB cap wfs) H) as [He Ht Hp Hm].
  destruct (execC true tr _ _ (initC cap wfs) H) as [Hd Hc].
  unfold main_ok in Hm. rewrite Em in Hm. destruct Hm as [D [_ F]].
  assert (Called : forall x, In x (s_tasks st) -> called x = true).
  { intros x Hx. unfold called. now rewrite (AC x Hx). }
  repeat split.
  - (* fatal -> a failing invocation *)
    intro Ft. rewrite Ft in F. symmetry in F. unfold any_file_err in F.
    apply existsb_exists in F. destruct F as [fs [Hin Herr]].
    apply In_nth_error in Hin. destruct Hin as [f Hf].
    pose proof (Hp _ _ Hf) as P. unfold pc_ok in P. unfold is_err_pc in Herr.
    destruct (f_pc fs) as [| | |[|]]; try discriminate Herr.
    assert (G : exists r, eg_err (eg_of fs r) = true) by (destruct P as [P|P]; [exists SC|exists PY]; exact P).
    destruct G as [r G]. destruct (He _ _ r Hf) as [_ E]. rewrite E in G. apply Nat.ltb_lt in G.
    apply cnt_pos_ex in G. destruct G as [x [Hx Fx]]. exists x. split; [exact Hx|].
    unfold failed_in in Fx. apply andb_prop in Fx. destruct Fx as [_ Fx]. apply andb_prop in Fx.
    destruct Fx as [_ Fx]. destruct (t_cb x); [reflexivity|discriminate Fx].
  - (* a failing invocation -> fatal *)
    intros [x [Hx Ex]]. destruct (In_nth_error _ _ Hx) as [t Hn].
    pose proof (Ht _ _ Hn) as L. apply nth_error_Some in L.
    destruct (nth_error (s_files st) (t_file x)) as [fs|] eqn:Hf; [|contradiction].
    destruct (He _ _ (i_rule (t_inv x)) Hf) as [_ E].
    assert (G : 1 <= cnt (failed_in (t_file x) (i_rule (t_inv x))) (s_tasks st)).
    { apply (cnt_pos _ _ t x Hn). unfold failed_in, in_eg.
      now rewrite Nat.eqb_refl, rule_eqb_refl, (Called x Hx), Ex. }
    assert (G' : eg_err (eg_of fs (i_rule (t_inv x))) = true) by (rewrite E; apply Nat.ltb_lt; lia).
    destruct (all_done_nth _ _ _ D Hf) as [e Epc].
    pose proof (Hp _ _ Hf) as P. unfold pc_ok in P. rewrite Epc in P.
    rewrite F. unfold any_file_err. apply existsb_exists. exists fs. split; [eapply nth_error_In; eauto|].
    unfold is_err_pc. rewrite Epc. destruct e; [reflexivity|].
    exfalso. destruct P as (_ & P1 & _ & P2). destruct (i_rule (t_inv x)); cbn [eg_of] in G'; congruence.
  - (* the diagnostics *)
    intros ->. unfold returned_diags. rewrite Em.
    etransitivity; [exact Hd|].
    assert (E : forall l, (forall x, In x l -> called x = true) ->
                flat_map task_diags l = flat_map (fun x => cb_diags (t_cb x)) l).
    { induction l as [|a l IH]; intro C; [reflexivity|]. cbn. unfold task_diags at 1.
      rewrite (C a (or_introl eq_refl)). f_equal. apply IH. intros y Hy. apply C. now right. }
    rewrite (E _ Called). reflexivity.
  - destruct (In_nth_error _ _ H0) as [t Hn]. exact (proj1 (Hc _ _ Hn _ H1)).
  - destruct (In_nth_error _ _ H0) as [t Hn]. exact (proj1 (proj2 (Hc _ _ Hn _ H1))).
  - destruct (In_nth_error _ _ H0) as [t Hn]. exact (proj2 (proj2 (Hc _ _ Hn _ H1))).
Qed.
