(* Proc/ProcProofs.v — invariants of the transition system of ProcModel.v,
   proved by induction over event traces (every interleaving, every tool
   behaviour, any number of files and invocations). *)
From AL Require Import Base.Str Proc.Sanitize Proc.ShellSel Proc.ExecOutcome Proc.ProcModel.
From Coq Require Import ZArith Permutation.

(* ---- lists ------------------------------------------------------------------ *)

Definition b2n (b : bool) : nat := if b then 1 else 0.
Definition cnt {A} (P : A -> bool) (l : list A) : nat := length (filter P l).

Lemma nth_error_upd_same {A} (l : list A) i x y :
  nth_error l i = Some x -> nth_error (upd l i y) i = Some y.
Proof.
  revert i; induction l as [|a l IH]; intros [|i] H; try discriminate H; cbn in *; auto.
Qed.

Lemma nth_error_upd_other {A} (l : list A) i j y :
  i <> j -> nth_error (upd l i y) j = nth_error l j.
Proof.
  revert i j; induction l as [|a l IH]; intros [|i] [|j] H; cbn; auto; try lia.
Qed.

Lemma length_upd {A} (l : list A) i y : length (upd l i y) = length l.
Proof. revert i; induction l as [|a l IH]; intros [|i]; cbn; auto. Qed.

Lemma cnt_upd {A} (P : A -> bool) (l : list A) i x y :
  nth_error l i = Some x -> cnt P (upd l i y) + b2n (P x) = cnt P l + b2n (P y).
Proof.
  unfold cnt. revert i; induction l as [|a l IH]; intros [|i] H; try discriminate H; cbn in *.
  - inversion H; subst. destruct (P x), (P y); cbn; lia.
  - specialize (IH i H). destruct (P a); cbn; lia.
Qed.

Lemma cnt_upd' {A} (P : A -> bool) (l : list A) i x y bx by_ :
  nth_error l i = Some x -> P x = bx -> P y = by_ -> cnt P (upd l i y) + b2n bx = cnt P l + b2n by_.
Proof. intros H <- <-. now apply cnt_upd. Qed.

Lemma cnt_app1 {A} (P : A -> bool) l x : cnt P (l ++ [x]) = cnt P l + b2n (P x).
Proof. unfold cnt. rewrite filter_app, app_length. cbn. destruct (P x); reflexivity. Qed.

Lemma cnt_pos {A} (P : A -> bool) l i x : nth_error l i = Some x -> P x = true -> 1 <= cnt P l.
Proof.
  unfold cnt. revert i; induction l as [|a l IH]; intros [|i] H Hp; try discriminate H; cbn in *.
  - inversion H; subst. rewrite Hp. cbn. lia.
  - specialize (IH i H Hp). destruct (P a); cbn; lia.
Qed.

Lemma cnt_zero_all {A} (P : A -> bool) l : cnt P l = 0 -> forall x, In x l -> P x = false.
Proof.
  unfold cnt. induction l as [|a l IH]; intros H x Hx; [contradiction|].
  cbn in H. destruct (P a) eqn:E; [discriminate H|].
  destruct Hx as [<-|Hx]; auto.
Qed.

Lemma cnt_pos_ex {A} (P : A -> bool) l : 1 <= cnt P l -> exists x, In x l /\ P x = true.
Proof.
  unfold cnt. induction l as [|a l IH]; cbn; [lia|].
  destruct (P a) eqn:E; intro H.
  - exists a. auto.
  - destruct (IH H) as [x [Hx Px]]. exists x. auto.
Qed.

Lemma forallb_upd {A} (P : A -> bool) l i x y :
  nth_error l i = Some x -> P y = P x -> forallb P (upd l i y) = forallb P l.
Proof.
  revert i; induction l as [|a l IH]; intros [|i] H E; try discriminate H; cbn in *.
  - inversion H; subst. now rewrite E.
  - now rewrite (IH i H E).
Qed.

Lemma existsb_upd {A} (P : A -> bool) l i x y :
  nth_error l i = Some x -> P y = P x -> existsb P (upd l i y) = existsb P l.
Proof.
  revert i; induction l as [|a l IH]; intros [|i] H E; try discriminate H; cbn in *.
  - inversion H; subst. now rewrite E.
  - now rewrite (IH i H E).
Qed.

Lemma forallb_nth {A} (P : A -> bool) l i x : forallb P l = true -> nth_error l i = Some x -> P x = true.
Proof.
  intros H Hn. rewrite forallb_forall in H. apply H. eapply nth_error_In; eauto.
Qed.

Lemma flat_map_upd_perm {A B} (g : A -> list B) l i x y :
  nth_error l i = Some x -> Permutation (flat_map g (upd l i y) ++ g x) (flat_map g l ++ g y).
Proof.
  revert i; induction l as [|a l IH]; intros [|i] H; try discriminate H; cbn in *.
  - inversion H; subst.
    rewrite <- app_assoc.
    etransitivity; [apply Permutation_app_head; apply Permutation_app_comm|].
    apply Permutation_app_comm.
  - rewrite <- !app_assoc. apply Permutation_app_head. apply IH. exact H.
Qed.

(* ---- phases ------------------------------------------------------------------ *)

Lemma phase_eqb_eq a b : phase_eqb a b = true -> a = b.
Proof. destruct a, b; cbn; congruence. Qed.

Definition live (x : task) : bool := negb (phase_eqb (t_phase x) PDone).
Definition called (x : task) : bool :=
  match t_phase x with PCalled | PDone => true | _ => false end.
Definition in_eg (f : nat) (r : rule) (x : task) : bool :=
  andb (Nat.eqb (t_file x) f) (rule_eqb (i_rule (t_inv x)) r).
Definition live_in f r x : bool := andb (in_eg f r x) (live x).
Definition failed_in f r x : bool := andb (in_eg f r x) (andb (called x) (is_cerr (t_cb x))).

Lemma rule_eqb_eq a b : rule_eqb a b = true <-> a = b.
Proof. destruct a, b; cbn; split; congruence. Qed.
Lemma rule_eqb_refl a : rule_eqb a a = true.
Proof. destruct a; reflexivity. Qed.

(* ============================ part A: counters ============================== *)

Record InvA (cap : nat) (st : state) : Prop := {
  inv_sem : s_free st + cnt holding (s_tasks st) = cap;
  inv_wg : s_wg st = cnt live (s_tasks st) }.

Ltac phase_of H := apply phase_eqb_eq in H.

Lemma holding_ph x p : t_phase x = p -> holding x = phase_eqb p PAcquired.
Proof. intros <-. reflexivity. Qed.
Lemma live_ph x p : t_phase x = p -> live x = negb (phase_eqb p PDone).
Proof. intros <-. reflexivity. Qed.

(* effect of moving task t from phase p (x) to the task y on both counters *)
Lemma countersA tasks t x y p q :
  nth_error tasks t = Some x -> t_phase x = p -> t_phase y = q ->
  cnt holding (upd tasks t y) + b2n (phase_eqb p PAcquired) = cnt holding tasks + b2n (phase_eqb q PAcquired) /\
  cnt live (upd tasks t y) + b2n (negb (phase_eqb p PDone)) = cnt live tasks + b2n (negb (phase_eqb q PDone)).
Proof.
  intros Hx Hp Hq. split.
  - apply (cnt_upd' holding _ _ x); [exact Hx|now apply holding_ph|now apply holding_ph].
  - apply (cnt_upd' live _ _ x); [exact Hx|now apply live_ph|now apply live_ph].
Qed.

Lemma stepA woe cap st e st' : InvA cap st -> step woe st e = Some st' -> InvA cap st'.
Proof.
  intros [Hs Hw] H. destruct e; cbn [step] in H.
  - (* spawn *)
    destruct (nth_error (s_files st) f) as [fs|]; [|discriminate H].
    destruct (f_pc fs); try discriminate H.
    destruct (remove_inv i (f_todo fs)); [|discriminate H].
    injection H as <-. constructor; cbn [s_free s_wg s_tasks]; rewrite cnt_app1.
    + replace (b2n (holding _)) with 0 by reflexivity. lia.
    + replace (b2n (live _)) with 1 by reflexivity. lia.
  - (* acquire *)
    destruct (nth_error (s_tasks st) t) as [x|] eqn:Hx; [|discriminate H].
    destruct (s_free st) as [|n] eqn:Hf; [discriminate H|].
    destruct (phase_eqb (t_phase x) PSpawned) eqn:Hp; [|discriminate H]. phase_of Hp.
    injection H as <-.
    destruct (countersA _ _ _ (set_phase x PAcquired) _ PAcquired Hx Hp eq_refl) as [C1 C2].
    cbn [phase_eqb negb b2n] in C1, C2.
    constructor; cbn [s_free s_wg s_tasks]; lia.
  - (* exit *)
    destruct (nth_error (s_tasks st) t) as [x|] eqn:Hx; [|discriminate H].
    destruct (phase_eqb (t_phase x) PAcquired) eqn:Hp; [|discriminate H]. phase_of Hp.
    injection H as <-.
    match goal with |- InvA _ {| s_free := _; s_wg := _; s_tasks := upd _ _ ?y; s_files := _; s_diags := _; s_main := _ |} =>
      destruct (countersA _ _ _ y _ PExited Hx Hp eq_refl) as [C1 C2] end.
    cbn [phase_eqb negb b2n] in C1, C2.
    constructor; cbn [s_free s_wg s_tasks]; lia.
  - (* release *)
    destruct (nth_error (s_tasks st) t) as [x|] eqn:Hx; [|discriminate H].
    destruct (phase_eqb (t_phase x) PExited) eqn:Hp; [|discriminate H]. phase_of Hp.
    injection H as <-.
    destruct (countersA _ _ _ (set_phase x PReleased) _ PReleased Hx Hp eq_refl) as [C1 C2].
    cbn [phase_eqb negb b2n] in C1, C2.
    constructor; cbn [with_task s_free s_wg s_tasks]; lia.
  - (* callback *)
    destruct (nth_error (s_tasks st) t) as [x|] eqn:Hx; [|discriminate H].
    destruct (phase_eqb (t_phase x) PReleased) eqn:Hp; [|discriminate H]. phase_of Hp.
    destruct (nth_error (s_files st) (t_file x)); [|discriminate H].
    injection H as <-.
    destruct (countersA _ _ _ (set_phase x PCalled) _ PCalled Hx Hp eq_refl) as [C1 C2].
    cbn [phase_eqb negb b2n] in C1, C2.
    constructor; cbn [s_free s_wg s_tasks]; lia.
  - (* done *)
    destruct (nth_error (s_tasks st) t) as [x|] eqn:Hx; [|discriminate H].
    destruct (phase_eqb (t_phase x) PCalled) eqn:Hp; [|discriminate H]. phase_of Hp.
    destruct (nth_error (s_files st) (t_file x)); [|discriminate H].
    injection H as <-.
    destruct (countersA _ _ _ (set_phase x PDone) _ PDone Hx Hp eq_refl) as [C1 C2].
    cbn [phase_eqb negb b2n] in C1, C2.
    constructor; cbn [s_free s_wg s_tasks]; lia.
  - (* eg enter *)
    destruct (nth_error (s_files st) f) as [fs|]; [|discriminate H].
    destruct r, (f_pc fs); try discriminate H.
    + destruct (f_todo fs); [|discriminate H]. injection H as <-. constructor; [exact Hs|exact Hw].
    + injection H as <-. constructor; [exact Hs|exact Hw].
  - (* eg return *)
    destruct (nth_error (s_files st) f) as [fs|]; [|discriminate H].
    destruct (f_pc fs); try discriminate H.
    destruct (andb _ _); [|discriminate H]. injection H as <-. constructor; [exact Hs|exact Hw].
  - destruct (s_main st); try discriminate H.
    destruct (andb _ _); [|discriminate H]. injection H as <-. constructor; [exact Hs|exact Hw].
  - destruct (s_main st); try discriminate H.
    destruct (Nat.eqb _ _); [|discriminate H]. injection H as <-. constructor; [exact Hs|exact Hw].
  - destruct (s_main st); try discriminate H.
    + destruct (andb _ _); [|discriminate H]. injection H as <-. constructor; [exact Hs|exact Hw].
    + destruct (Bool.eqb _ _); [|discriminate H]. injection H as <-. constructor; [exact Hs|exact Hw].
Qed.

Lemma initA cap wfs : InvA cap (init cap wfs).
Proof. constructor; cbn; lia. Qed.

Lemma execA woe cap tr : forall st st', InvA cap st -> exec_from woe st tr = Some st' -> InvA cap st'.
Proof.
  induction tr as [|e tr IH]; intros st st' I H; cbn in H.
  - inversion H; subst; exact I.
  - destruct (step woe st e) as [st1|] eqn:E; [|discriminate H].
    exact (IH _ _ (stepA _ _ _ _ _ I E) H).
Qed.

(* in every reachable state, under every interleaving, at most [cap]
   invocations hold a semaphore slot (the tool process of an invocation runs
   only while it holds one) — for the repaired and for the original code *)
Theorem running_bounded cap wfs tr st : exec cap wfs tr = Some st -> running st <= cap.
Proof.
  intro H. destruct (execA true cap tr _ _ (initA cap wfs) H) as [Hs _].
  unfold running. fold (cnt holding (s_tasks st)). lia.
Qed.

Theorem running_bounded_old cap wfs tr st : exec_old cap wfs tr = Some st -> running st <= cap.
Proof.
  intro H. destruct (execA false cap tr _ _ (initA cap wfs) H) as [Hs _].
  unfold running. fold (cnt holding (s_tasks st)). lia.
Qed.
