(* Proc/ProcObs.v — the functions the correspondence check evaluates with
   vm_compute: [run_full] replays an observed event trace on the transition
   system and prints what the final state predicts; [run_pure] evaluates the
   pure functions.  Nothing here is used by the theorems. *)
From AL Require Import Base.Str Base.Corr Proc.Sanitize Proc.ShellSel Proc.ExecOutcome Proc.ProcModel.
From Coq Require Export ZArith.

(* bytes outside printable ASCII are written (ch n) in case files *)
Definition ch (n : nat) : string := String (ascii_of_nat n) EmptyString.

Record run_input := { ri_cap : nat; ri_wfs : list mwf; ri_trace : list event }.

Definition rule_n (r : rule) : N := match r with SC => 0%N | PY => 1%N end.
Definition b2n (b : bool) : N := if b then 1%N else 0%N.

Definition diag_tuple (d : diag) : tuple :=
  2%N :: N.of_nat (d_file d) :: fst (d_pos d) :: snd (d_pos d) :: rule_n (d_rule d) :: d_body d.

Fixpoint task_tuples (k : nat) (ts : list task) : list tuple :=
  match ts with
  | [] => []
  | x :: r => [3%N; N.of_nat k; b2n (is_cerr (t_cb x))] :: task_tuples (S k) r
  end.

Definition xclass (x : exec_res) : N :=
  match x with XOut _ => 0%N | XTerminated => 1%N | XEmpty => 2%N | XOther => 3%N end.

Fixpoint exit_tuples (tr : list event) : list tuple :=
  match tr with
  | [] => []
  | EExit t r _ :: tr' => [5%N; N.of_nat t; xclass (exec_outcome r)] :: exit_tuples tr'
  | _ :: tr' => exit_tuples tr'
  end.

Definition main_n (m : mpc) : N :=
  match m with MReturned false => 1%N | MReturned true => 2%N | _ => 0%N end.

(* all invocations collected? *)
Definition all_done (st : state) : bool :=
  forallb (fun x => phase_eqb (t_phase x) PDone) (s_tasks st).

Definition run_full (ri : run_input) : list tuple :=
  match exec (ri_cap ri) (ri_wfs ri) (ri_trace ri) with
  | None => [[0%N; 0%N]]
  | Some st =>
      [0%N; 1%N] :: [1%N; main_n (s_main st); b2n (all_done st)]
      :: map diag_tuple (returned_diags st) ++ task_tuples 0 (s_tasks st) ++ exit_tuples (ri_trace ri)
  end.

(* index of the first event that is not enabled (for replay messages) *)
Fixpoint first_bad (st : state) (k : nat) (tr : list event) : option nat :=
  match tr with
  | [] => None
  | e :: tr' => match step true st e with Some st' => first_bad st' (S k) tr' | None => Some k end
  end.
Definition run_first_bad (ri : run_input) : list tuple :=
  match first_bad (init (ri_cap ri) (ri_wfs ri)) 0 (ri_trace ri) with
  | None => []
  | Some k => [[N.of_nat k]]
  end.

Inductive pure_case :=
| PCSan (s : string)
| PCExec (r : os_result)
| PCPy (out : string)
| PCShellSC (step : option string) (job wf runner : string)
| PCShellPY (step job wf : option string).

Definition run_pure (c : pure_case) : list tuple :=
  match c with
  | PCSan s => [bytes (sanitize s)]
  | PCExec r =>
      match exec_outcome r with
      | XOut o => [[0%N]; bytes o]
      | x => [[xclass x]]
      end
  | PCPy out =>
      match py_messages out with
      | None => [[1%N]]
      | Some ms => [0%N] :: map (fun m => bytes (one_line_s m)) ms
      end
  | PCShellSC step job wf runner =>
      [bytes (get_shell_name {| scs_wf := wf; scs_job := job; scs_runner := runner |} step)]
  | PCShellPY step job wf =>
      [[b2n (is_python_shell {| pys_wf := py_kind wf; pys_job := py_kind job |} step)]]
  end.
