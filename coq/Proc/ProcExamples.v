(* Proc/ProcExamples.v — concrete traces: the hypotheses of the theorems are
   satisfiable by non-trivial executions, and the original LintFiles (no
   proc.wait() on the fatal-error path) violates all_collected. *)
From AL Require Import Base.Str Proc.Sanitize Proc.ShellSel Proc.ExecOutcome Proc.ProcModel Proc.ProcProofs.
From Coq Require Import ZArith.

(* file 0: a bash step and a python step; file 1: no run step *)
Definition ex_w0 : mwf :=
  {| mw_defrun := None;
     mw_jobs := [ {| mj_defrun := None; mj_labels := ["ubuntu-latest"];
                     mj_steps := [ {| ms_run := Some ("echo ${{ github.sha }}", (5%N, 9%N)); ms_shell := None |};
                                   {| ms_run := Some ("print(1)", (7%N, 9%N)); ms_shell := Some "python" |} ] |} ] |}.
Definition ex_w1 : mwf := {| mw_defrun := None; mw_jobs := [ {| mj_defrun := None; mj_labels := []; mj_steps := [] |} ] |}.

Definition ex_sc : inv := {| i_rule := SC; i_pos := (5%N, 9%N); i_sh := "bash";
                             i_stdin := sc_script "bash" "echo ${{ github.sha }}" |}.
Definition ex_py : inv := {| i_rule := PY; i_pos := (7%N, 9%N); i_sh := ""; i_stdin := "print(1)" |}.

Definition ex_file1 : list event :=
  [EEgEnter 1 SC; EEgReturn 1 SC false; EEgEnter 1 PY; EEgReturn 1 PY false].

(* shellcheck exits with status 1 and no output while pyflakes has not even
   started; shellcheck's VisitWorkflowPost returns the error, Visit stops,
   LintFiles as found returns without proc.wait() *)
Definition ex_old_trace : list event :=
  [ESpawn 0 ex_sc; ESpawn 0 ex_py] ++ ex_file1 ++
  [EAcquire 0; EExit 0 (OSExit 1%Z "") JBad; ERelease 0; ECallback 0; EDone 0;
   EEgEnter 0 SC; EEgReturn 0 SC true; EReturn true].

Theorem all_collected_old_refuted :
  exists cap wfs tr st x,
    exec_old cap wfs tr = Some st /\ s_main st = MReturned true /\
    In x (s_tasks st) /\ t_phase x <> PDone.
Proof.
  exists 2, [ex_w0; ex_w1], ex_old_trace.
  destruct (exec_old 2 [ex_w0; ex_w1] ex_old_trace) as [st|] eqn:E; [|vm_compute in E; discriminate E].
  exists st. vm_compute in E. injection E as <-.
  eexists. split; [reflexivity|]. split; [reflexivity|]. split; [right; left; reflexivity|]. discriminate.
Qed.

(* the same prefix is not a path of the repaired code: the return must be
   preceded by proc.wait(), which returns only when pyflakes is done *)
Example repaired_rejects_early_return : exec 2 [ex_w0; ex_w1] ex_old_trace = None.
Proof. vm_compute. reflexivity. Qed.

Definition ex_fatal_trace : list event :=
  [ESpawn 0 ex_sc; ESpawn 0 ex_py] ++ ex_file1 ++
  [EAcquire 0; EAcquire 1; EExit 0 (OSExit 1%Z "") JBad; ERelease 0; ECallback 0; EDone 0;
   EEgEnter 0 SC; EEgReturn 0 SC true; EPwEnter;
   EExit 1 (OSExit 0%Z "") JBad; ERelease 1; ECallback 1; EDone 1; EPwReturn; EReturn true].

Example fatal_run_valid :
  match exec 2 [ex_w0; ex_w1] ex_fatal_trace with
  | Some st => s_main st = MReturned true /\ returned_diags st = [] /\ running st = 0
  | None => False
  end.
Proof. vm_compute. repeat split. Qed.

Definition ex_issue := {| is_code := 2086%N; is_line := 2%N; is_col := 6%N; is_level := "info"; is_msg := "Double quote." |}.

Definition ex_ok_trace : list event :=
  [ESpawn 0 ex_sc; EAcquire 0; ESpawn 0 ex_py; EAcquire 1] ++ ex_file1 ++
  [EEgEnter 0 SC;
   EExit 1 (OSExit 1%Z ("<stdin>:1:1: undefined name 'x'" ++ newline)) JBad;
   EExit 0 (OSExit 1%Z "[...]") (JList [ex_issue]);
   ERelease 1; ERelease 0; ECallback 1; ECallback 0; EDone 0; EEgReturn 0 SC false; EEgEnter 0 PY;
   EDone 1; EEgReturn 0 PY false; EPwEnter; EPwReturn; EReturn false].

Example ok_run_valid :
  match exec 2 [ex_w0; ex_w1] ex_ok_trace with
  | Some st => s_main st = MReturned false /\ length (returned_diags st) = 2 /\
               map d_pos (returned_diags st) = [(7%N, 9%N); (5%N, 9%N)]
  | None => False
  end.
Proof. vm_compute. repeat split. Qed.

(* the semaphore really blocks: a third acquire with two slots is no step *)
Example third_acquire_blocked :
  exec 1 [ex_w0; ex_w1] [ESpawn 0 ex_sc; ESpawn 0 ex_py; EAcquire 0; EAcquire 1] = None.
Proof. vm_compute. reflexivity. Qed.
