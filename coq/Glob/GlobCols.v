(* Glob/GlobCols.v — every diagnostic of the model of glob.go is well placed:
   the column lies inside the pattern, a character named by the message is the
   one at that column, column 0 occurs only as a fall-back.  Invariant: the
   scanner state is a split of the pattern (consumed prefix, then rest), and each
   report is issued right after the character it names was consumed. *)
From Coq Require Import List NArith Bool Arith Lia.
From AL Require Import Glob.Glob Glob.GlobSpec Glob.GlobFuel Glob.GlobProofs.
Import ListNotations.

(* ---------- columns ---------- *)
Definition runes (pat : list N) : list N := map rune_of pat.

(* a report is well placed: inside the pattern; when the message names a
   character, that character is at the column; column 0 only as a fall-back *)
Definition diag_ok (pat : list N) (d : diag) : Prop :=
  (d_col d <= length pat)%nat /\
  (forall c, d_named d = NameChar c -> (1 <= d_col d)%nat ->
     nth_error (runes pat) (d_col d - 1) = Some c) /\
  (d_col d = 0%nat ->
     d_cls d = EmptyPat \/ d_cls d = PathLead \/ d_cls d = ScanErr \/ In 10%N (runes pat)).

Definition wf (pat : list N) (s : scanner) : Prop :=
  exists pre, pat = pre ++ sc_rest s /\ sc_pos s = length pre /\
              (sc_nl s = true -> In 10%N (runes pre)).

(* x is the rune consumed last *)
Definition lastr (pat : list N) (s : scanner) (x : N) : Prop :=
  exists pre y, pat = pre ++ y :: sc_rest s /\ rune_of y = x /\ sc_pos s = S (length pre) /\
                (sc_nl s = true -> In 10%N (runes (pre ++ [y]))).

Definition lastc (pat : list N) (s : scanner) (c : option N) : Prop :=
  match c with Some x => lastr pat s x | None => wf pat s /\ (1 <= sc_pos s)%nat end.

Lemma lastr_wf pat s x : lastr pat s x -> wf pat s /\ (1 <= sc_pos s)%nat.
Proof.
  intros (pre & y & E & _ & P & L). split; [|lia]. exists (pre ++ [y]). rewrite <- app_assoc. cbn.
  split; [exact E|]. split; [rewrite app_length; cbn; lia|exact L].
Qed.

Lemma lastc_wf pat s c : lastc pat s c -> wf pat s /\ (1 <= sc_pos s)%nat.
Proof. destruct c; cbn; [apply lastr_wf|tauto]. Qed.

Lemma runes_app a b : runes (a ++ b) = runes a ++ runes b.
Proof. apply map_app. Qed.

Lemma named_ok pat s x k : lastr pat s x -> diag_ok pat (mkDiag k (errcol s) (NameChar x)).
Proof.
  intros (pre & y & E & R & P & L). unfold diag_ok, errcol. cbn [d_col d_named d_cls].
  assert (LEN : (S (length pre) <= length pat)%nat) by (rewrite E, app_length; cbn; lia).
  destruct (sc_nl s) eqn:NL.
  - split; [lia|]. split; [intros; lia|]. intros _. right. right. right.
    rewrite E. change (y :: sc_rest s) with ([y] ++ sc_rest s). rewrite app_assoc, runes_app.
    apply in_or_app. left. auto.
  - split; [lia|]. split; [|intros; lia]. intros c Hc _. injection Hc as <-. rewrite P. cbn.
    rewrite Nat.sub_0_r. rewrite E, runes_app. rewrite nth_error_app2 by (unfold runes; rewrite map_length; lia).
    unfold runes at 2. rewrite map_length, Nat.sub_diag. cbn. now rewrite R.
Qed.

Lemma unnamed_ok pat s k nm : wf pat s -> (forall c, nm <> NameChar c) ->
  ((1 <= sc_pos s)%nat \/ k = ScanErr \/ k = EmptyPat) ->
  diag_ok pat (mkDiag k (errcol s) nm).
Proof.
  intros (pre & E & P & L) Hn Hp. unfold diag_ok, errcol. cbn [d_col d_named d_cls].
  assert (LEN : (length pre <= length pat)%nat) by (rewrite E, app_length; lia).
  destruct (sc_nl s) eqn:NL.
  - split; [lia|]. split; [intros; lia|]. intros _. right. right. right.
    rewrite E, runes_app. apply in_or_app. left. auto.
  - split; [lia|]. split; [intros c Hc; exfalso; eapply Hn; eauto|].
    intros Z. destruct Hp as [Hp | [ Hp | Hp ] ]; [lia | rewrite Hp; tauto | rewrite Hp; tauto].
Qed.

Lemma unexpected_ok pat s c k : lastc pat s c -> diag_ok pat (unexpected s c k).
Proof.
  unfold unexpected. destruct c as [x|]; cbn [rune_name lastc].
  - apply named_ok.
  - intros [W P]. apply unnamed_ok; auto. discriminate.
Qed.

Lemma invalid_ok pat s x k : lastr pat s x -> diag_ok pat (invalid_ref_char s (Some x) k).
Proof. apply named_ok. Qed.

Lemma read_errs_ok pat s : wf pat s -> Forall (diag_ok pat) (read_errs s).
Proof.
  intros W. unfold read_errs. destruct (sc_rest s); [constructor|]. destruct (scan_bad _); constructor; [|constructor].
  apply unnamed_ok; auto. discriminate.
Qed.

Lemma next_ok pat s c s' e : wf pat s -> next s = (c, s', e) ->
  Forall (diag_ok pat) e /\ wf pat s' /\ (sc_pos s <= sc_pos s')%nat /\
  match c with Some x => lastr pat s' x | None => s' = s end.
Proof.
  intros (pre & E & P & L) H. unfold next in H. destruct (sc_rest s) as [|y r] eqn:R.
  - injection H as Hc Hs He. subst c s' e. split; [constructor|]. split; [exists pre; rewrite R; auto|]. split; auto.
  - injection H as Hc Hs He. subst c s' e.
    assert (LR : lastr pat {| sc_pos := S (sc_pos s); sc_nl := sc_nl s || (rune_of y =? 10)%N; sc_rest := r |} (rune_of y)).
    { exists pre, y. cbn. split; [exact E|]. split; [reflexivity|]. split; [lia|].
      intros B. rewrite runes_app. apply in_or_app. apply orb_true_iff in B. destruct B as [B|B]; [left; auto|].
      right. apply N.eqb_eq in B. cbn. auto. }
    destruct (lastr_wf _ _ _ LR) as [W _]. split; [apply read_errs_ok; exact W|]. split; [exact W|]. split; [cbn; lia|exact LR].
Qed.

Lemma peek_next s k c s' e : peek_is s k = true -> next s = (c, s', e) -> c = Some k.
Proof.
  unfold peek_is, peek, next. destruct (sc_rest s) as [|y r]; [discriminate|].
  intros P H. inversion H; subst. apply N.eqb_eq in P. now rewrite P.
Qed.

Lemma rune_is_some c k : rune_is c k = true -> c = Some k.
Proof. destruct c as [x|]; cbn; [|discriminate]. intros H. apply N.eqb_eq in H. now subst. Qed.

Lemma check_char_ok pat isRef s c : lastc pat s c -> Forall (diag_ok pat) (check_char_in_match isRef s c).
Proof.
  intros L. unfold check_char_in_match. destruct (rune_is c 13 || rune_is c 10).
  - constructor; [|constructor]. now apply unexpected_ok.
  - destruct c as [x|]; [|constructor]. destruct (is_ref_forbidden x && isRef); constructor; [|constructor].
    now apply invalid_ok.
Qed.

Ltac fa := repeat match goal with |- Forall _ (_ ++ _) => apply Forall_app; split end; try assumption;
  try match goal with |- Forall _ [_] => constructor; [|constructor] | |- Forall _ [] => constructor end.

Lemma pre_errs_ok pat e r :
  Forall (diag_ok pat) e ->
  forall (P : scanner -> option N -> Prop),
  match r with
  | Some (SetDone c _ s errs) => P s c /\ Forall (diag_ok pat) errs
  | Some (SetEOF _ errs) => Forall (diag_ok pat) errs
  | None => True end ->
  match pre_errs e r with
  | Some (SetDone c _ s errs) => P s c /\ Forall (diag_ok pat) errs
  | Some (SetEOF _ errs) => Forall (diag_ok pat) errs
  | None => True end.
Proof.
  intros He P. destruct r as [[c n s errs|s errs]|]; cbn; auto.
  - intros [H1 H2]. split; [exact H1|]. apply Forall_app. auto.
  - intros H. apply Forall_app. auto.
Qed.

Definition set_res_ok (pat : list N) (r : option set_res) : Prop :=
  match r with
  | Some (SetDone c _ s errs) => (exists x, c = Some x /\ lastr pat s x) /\ Forall (diag_ok pat) errs
  | Some (SetEOF _ errs) => Forall (diag_ok pat) errs
  | None => True end.

Lemma set_loop_ok pat isRef : forall fuel s n, wf pat s -> (1 <= sc_pos s)%nat ->
  set_res_ok pat (set_loop fuel isRef s n).
Proof.
  induction fuel as [|fuel IH]; intros s n W P; [exact I|].
  cbn [set_loop].
  destruct (next s) as [[c s1] e1] eqn:N1.
  destruct (next_ok pat s c s1 e1 W N1) as (F1 & W1 & P1 & L1).
  destruct (rune_is c 93) eqn:R.
  { apply rune_is_some in R. subst c. cbn. split; eauto. }
  destruct c as [x|].
  2:{ subst s1. cbn. fa. apply unexpected_ok. cbn. auto. }
  assert (C1 : Forall (diag_ok pat) (check_char_in_match isRef s1 (Some x))) by (apply check_char_ok; exact L1).
  destruct (negb (peek_is s1 45)).
  { apply (pre_errs_ok pat _ _) with (P := fun s c => exists x, c = Some x /\ lastr pat s x); [fa|apply IH; auto; lia]. }
  destruct (next s1) as [[c2 s2] e3] eqn:N2.
  destruct (next_ok pat s1 c2 s2 e3 W1 N2) as (F2 & W2 & P2 & L2).
  destruct (peek_is s2 93) eqn:PK.
  { destruct (next s2) as [[c3 s3] e4] eqn:N3.
    destruct (next_ok pat s2 c3 s3 e4 W2 N3) as (F3 & W3 & P3 & L3).
    pose proof (peek_next _ _ _ _ _ PK N3). subst c3. cbn. split; [eauto|]. fa. apply unexpected_ok. exact L3. }
  destruct (at_eof s2).
  { apply (pre_errs_ok pat _ _) with (P := fun s c => exists x, c = Some x /\ lastr pat s x); [fa|apply IH; auto; lia]. }
  destruct (next s2) as [[c3 s3] e4] eqn:N3.
  destruct (next_ok pat s2 c3 s3 e4 W2 N3) as (F3 & W3 & P3 & L3).
  assert (L3' : lastc pat s3 c3).
  { destruct c3; cbn; auto. subst s3. split; auto. lia. }
  apply (pre_errs_ok pat _ _) with (P := fun s c => exists x, c = Some x /\ lastr pat s x); [|apply IH; auto; lia].
  fa. - now apply check_char_ok. - destruct (rune_ltb c3 (Some x)); constructor; [|constructor]. now apply unexpected_ok.
Qed.

Definition vn_ok (pat : list N) (r : option vn_res) : Prop :=
  match r with
  | Some (VnRes cont _ s errs) =>
      Forall (diag_ok pat) errs /\ (cont = true -> wf pat s /\ (1 <= sc_pos s)%nat)
  | None => True
  end.

Lemma finish_ok pat isRef c p s errs :
  lastc pat s c -> Forall (diag_ok pat) errs -> vn_ok pat (Some (finish isRef c p s errs)).
Proof.
  intros L F. destruct (lastc_wf _ _ _ L) as [W P]. unfold finish.
  destruct (at_eof s); cbn; (split; [|auto]); auto.
  apply Forall_app. split; [exact F|].
  destruct (isRef && (rune_is c 47 || rune_is c 46)) eqn:B; [|constructor].
  apply andb_true_iff in B. destruct B as [_ B]. apply orb_true_iff in B.
  destruct B as [B|B]; apply rune_is_some in B; subst c; (constructor; [|constructor]); now apply invalid_ok.
Qed.

Lemma next_lastc pat s c s' e : wf pat s -> (1 <= sc_pos s)%nat -> next s = (c, s', e) ->
  Forall (diag_ok pat) e /\ lastc pat s' c /\ wf pat s' /\ (1 <= sc_pos s')%nat.
Proof.
  intros W P N. destruct (next_ok pat s c s' e W N) as (F & W' & P' & L).
  split; [exact F|]. split; [|split; [exact W'|lia]].
  destruct c; cbn; auto. subst s'. auto.
Qed.

Lemma validate_next_ok pat fuel isRef prec s : wf pat s ->
  vn_ok pat (validate_next fuel isRef prec s).
Proof.
  intros W. unfold validate_next.
  destruct (next s) as [[c s1] e1] eqn:N1.
  destruct (next_ok pat s c s1 e1 W N1) as (F1 & W1 & P1 & L1).
  destruct c as [x|].
  2:{ (* EOF *) subst s1. cbn [rune_is].
      assert (E : sc_rest s = []).
      { unfold next in N1. destruct (sc_rest s); [reflexivity|discriminate]. }
      unfold finish, at_eof. rewrite E. cbn. rewrite andb_false_r. split; [|discriminate].
      apply Forall_app. split; [exact F1|constructor]. }
  destruct (lastr_wf _ _ _ L1) as [_ Q1].
  assert (LC1 : lastc pat s1 (Some x)) by exact L1.
  destruct (rune_is (Some x) 92) eqn:R92.
  { apply rune_is_some in R92. injection R92 as ->.
    destruct (peek_is s1 91 || peek_is s1 63 || peek_is s1 42) eqn:PA.
    { destruct (next s1) as [[c2 s2] e2] eqn:N2.
      destruct (next_lastc pat s1 c2 s2 e2 W1 Q1 N2) as (F2 & L2 & W2 & Q2).
      apply finish_ok; [exact L2|]. fa. destruct isRef; [|constructor].
      assert (exists k, c2 = Some k) as [k ->].
      { rewrite !orb_true_iff in PA. destruct PA as [[PA|PA]|PA]; eapply peek_next in PA; eauto. }
      constructor; [|constructor]. now apply invalid_ok. }
    destruct (peek_is s1 43 || peek_is s1 92 || peek_is s1 33).
    { destruct (next s1) as [[c2 s2] e2] eqn:N2.
      destruct (next_lastc pat s1 c2 s2 e2 W1 Q1 N2) as (F2 & L2 & W2 & Q2).
      apply finish_ok; [exact L2|]. fa. }
    destruct isRef.
    { destruct (next s1) as [[c2 s2] e2] eqn:N2.
      destruct (next_lastc pat s1 c2 s2 e2 W1 Q1 N2) as (F2 & L2 & W2 & Q2).
      apply finish_ok; [exact L2|]. fa. now apply invalid_ok. }
    apply finish_ok; assumption. }
  destruct (rune_is (Some x) 63) eqn:R63.
  { apply rune_is_some in R63. injection R63 as ->. apply finish_ok; [exact LC1|]. fa.
    destruct prec; constructor; [|constructor]. now apply unexpected_ok. }
  destruct (rune_is (Some x) 43) eqn:R43.
  { apply rune_is_some in R43. injection R43 as ->. apply finish_ok; [exact LC1|]. fa.
    destruct prec; constructor; [|constructor]. now apply unexpected_ok. }
  destruct (rune_is (Some x) 42).
  { apply finish_ok; assumption. }
  destruct (rune_is (Some x) 91).
  { destruct (peek_is s1 93) eqn:PK.
    { destruct (next s1) as [[c2 s2] e2] eqn:N2.
      destruct (next_lastc pat s1 c2 s2 e2 W1 Q1 N2) as (F2 & L2 & W2 & Q2).
      pose proof (peek_next _ _ _ _ _ PK N2). subst c2.
      apply finish_ok; [exact L2|]. fa. now apply unexpected_ok. }
    pose proof (set_loop_ok pat isRef fuel s1 0%nat W1 Q1) as SL.
    destruct (set_loop fuel isRef s1 0) as [[c' chars s2 errs|s2 errs]|]; [| |exact I].
    - destruct SL as [(k & -> & Lk) Fe]. apply finish_ok; [exact Lk|]. fa.
      destruct (Nat.eqb chars 1); constructor; [|constructor]. now apply unexpected_ok.
    - cbn. cbn in SL. split; [|discriminate]. fa. }
  destruct (rune_is (Some x) 13).
  { destruct (peek_is s1 10).
    - destruct (next s1) as [[c2 s2] e2] eqn:N2.
      destruct (next_lastc pat s1 c2 s2 e2 W1 Q1 N2) as (F2 & L2 & W2 & Q2).
      apply finish_ok; [exact L2|]. fa. now apply unexpected_ok.
    - apply finish_ok; [exact LC1|]. fa. now apply unexpected_ok. }
  destruct (rune_is (Some x) 10) eqn:R10.
  { apply rune_is_some in R10. injection R10 as ->. apply finish_ok; [exact LC1|]. fa. now apply unexpected_ok. }
  destruct (is_ref_forbidden x).
  { apply finish_ok; [exact LC1|]. fa. destruct isRef; constructor; [|constructor]. now apply invalid_ok. }
  apply finish_ok; assumption.
Qed.

Lemma vloop_ok pat isRef : forall fuel prec s, wf pat s ->
  match vloop fuel isRef prec s with Some ds => Forall (diag_ok pat) ds | None => True end.
Proof.
  induction fuel as [|f IH]; intros prec s W; [exact I|].
  cbn [vloop]. pose proof (validate_next_ok pat (S f) isRef prec s W) as V.
  destruct (validate_next (S f) isRef prec s) as [[cont p' s' errs]|]; [|exact I].
  destruct V as [F C]. destruct cont; [|exact F].
  destruct (C eq_refl) as [W' _]. specialize (IH p' s' W').
  destruct (vloop f isRef p' s'); [|exact I]. apply Forall_app. auto.
Qed.

Lemma wf_init pat : wf pat (mkSc 0 false pat).
Proof. exists []. cbn. split; [reflexivity|]. split; [reflexivity|discriminate]. Qed.

Lemma validate_ok isRef pat :
  match validate isRef pat with Some ds => Forall (diag_ok pat) ds | None => True end.
Proof.
  unfold validate. destruct pat as [|x0 r0]; [cbn; constructor; [|constructor]|].
  { unfold diag_ok. cbn. split; [lia|]. split; [intros; discriminate|tauto]. }
  rewrite validate_fuel_core. set (pat := x0 :: r0). unfold init_scan.
  pose proof (wf_init pat) as W0. set (s0 := mkSc 0 false pat) in *.
  assert (INIT : exists s e, (if peek_is s0 bom then let '(_, s1, e) := next s0 in (s1, read_errs s0 ++ e) else (s0, read_errs s0)) = (s, e)
            /\ wf pat s /\ Forall (diag_ok pat) e).
  { destruct (peek_is s0 bom).
    - destruct (next s0) as [[c s1] e] eqn:N. destruct (next_ok pat s0 c s1 e W0 N) as (F & W1 & _ & _).
      do 2 eexists. split; [reflexivity|]. split; [exact W1|]. apply Forall_app. split; [now apply read_errs_ok|exact F].
    - do 2 eexists. split; [reflexivity|]. split; [exact W0|now apply read_errs_ok]. }
  destruct INIT as (s & e & -> & W & F).
  assert (AB : forall s1 p errs, wf pat s1 -> Forall (diag_ok pat) errs ->
     match after_bang isRef (fuel_of pat) s1 p errs with Some ds => Forall (diag_ok pat) ds | None => True end).
  { intros s1 p errs W1 F1. unfold after_bang. destruct (isRef && peek_is s1 47) eqn:B.
    - apply andb_true_iff in B. destruct B as [_ B].
      destruct (next s1) as [[c s2] e2] eqn:N. destruct (next_ok pat s1 c s2 e2 W1 N) as (F2 & W2 & _ & L2).
      pose proof (peek_next _ _ _ _ _ B N). subst c.
      pose proof (vloop_ok pat isRef (fuel_of pat) true s2 W2) as V. destruct (vloop _ _ _ s2); [|exact I].
      fa. now apply invalid_ok.
    - pose proof (vloop_ok pat isRef (fuel_of pat) p s1 W1) as V. destruct (vloop _ _ _ s1); [|exact I]. fa. }
  unfold core. destruct (peek_is s 33) eqn:PB; [|apply AB; auto].
  destruct (next s) as [[c s1] e1] eqn:N. destruct (next_ok pat s c s1 e1 W N) as (F1 & W1 & _ & L1).
  pose proof (peek_next _ _ _ _ _ PB N). subst c.
  destruct (at_eof s1).
  - fa. now apply unexpected_ok.
  - apply AB; auto. fa.
Qed.

(* glob_cols: every reported column lies inside the pattern; a named character
   is the one at that column; column 0 only for the fall-backs *)
Lemma glob_cols isRef pat ds d :
  validate_mode isRef pat = Some ds -> In d ds -> diag_ok pat d.
Proof.
  intros H Hin. destruct isRef; cbn [validate_mode] in H.
  - unfold validate_ref in H. pose proof (validate_ok true pat) as V. rewrite H in V.
    rewrite Forall_forall in V. auto.
  - unfold validate_path in H. destruct (hd_is pat 32).
    { injection H as <-. destruct Hin as [<-|[]]. unfold diag_ok. cbn. split; [lia|]. split; [intros; discriminate|tauto]. }
    destruct (last_is pat 32) eqn:L.
    { injection H as <-. destruct Hin as [<-|[]]. unfold diag_ok. cbn. split; [lia|]. split; [intros; discriminate|].
      intros Z. apply last_is_iff in L. destruct L as [L _]. destruct pat; [congruence|discriminate]. }
    pose proof (validate_ok false pat) as V. rewrite H in V. rewrite Forall_forall in V. auto.
Qed.

(* the trailing-space report of a path filter points at that space (fix 03) *)
Lemma path_trail_col pat : hd_is pat 32 = false -> last_is pat 32 = true ->
  validate_path pat = Some [mkDiag PathTrail (length pat) NoName] /\
  nth_error pat (length pat - 1) = Some 32%N.
Proof.
  intros Hh Hl. unfold validate_path. rewrite Hh, Hl. split; [reflexivity|].
  apply last_is_iff in Hl. destruct Hl as [Hne Hl].
  rewrite <- Hl. clear Hh Hl. induction pat as [|x pat IH]; [congruence|].
  destruct pat as [|y pat']; [reflexivity|].
  replace (length (x :: y :: pat') - 1)%nat with (S (length (y :: pat') - 1)) by (cbn; lia).
  cbn [nth_error]. rewrite IH by discriminate. reflexivity.
Qed.

(* known finding C17-scanerr-column: a scan error is reported one column
   before the offending character, column 0 when it is the first *)
Lemma scanerr_col_refuted :
  exists pat ds d, validate_ref pat = Some ds /\ In d ds /\ d_cls d = ScanErr /\
    d_col d = 1%nat /\ nth_error pat 0 = Some 97%N /\ nth_error pat 1 = Some 0%N.
Proof.
  exists [97; 0]%N. eexists. eexists. split; [vm_compute; reflexivity|].
  split; [left; reflexivity|]. cbn. auto.
Qed.
