(* Glob/GlobOld.v — the validator as it was BEFORE the four repairs of
   repo_patches/glob (generated from Glob.v by undoing them; kept only to
   document the defects, cf. Appendix A #18/#18a):
     01  \[ \? \* in a ref filter: the message named Peek(), the character after
         the escaped one (U+FFFD at the end), not the escaped character;
     02  the loop over the content of [...] checked neither line breaks nor, for
         refs, the characters invalid in ref names;
     03  the column of "path value must not end with spaces" was len(pat) in bytes;
     04  a leading / of a ref name was not reported after the negation mark !.
   Each lemma below is a concrete witness evaluated by vm_compute; the same
   inputs reproduce on the unpatched /repo (docs/C17.md). *)
From Coq Require Import List NArith Bool Arith Lia.
From AL Require Import Glob.Glob Glob.GlobSpec Glob.GlobFuel Glob.GlobProofs Glob.GlobCols.
Import ListNotations.
Local Open Scope N_scope.

Module Old.
(* before fix 02: the loop did not look at the characters *)
Definition check_char_in_match (isRef : bool) (s : scanner) (c : rune) : list diag := [].

(* --- the Loop: of validateNext (content of [...]) --- *)
Inductive set_res :=
| SetDone (c : rune) (chars : nat) (s : scanner) (errs : list diag)  (* break Loop *)
| SetEOF (s : scanner) (errs : list diag).                           (* return false *)

Definition pre_errs (e : list diag) (r : option set_res) : option set_res :=
  match r with
  | None => None
  | Some (SetDone c n s errs) => Some (SetDone c n s (e ++ errs))
  | Some (SetEOF s errs) => Some (SetEOF s (e ++ errs))
  end.

Fixpoint set_loop (fuel : nat) (isRef : bool) (s : scanner) (chars : nat) : option set_res :=
  match fuel with
  | O => None
  | S fuel =>
    let '(c, s1, e1) := next s in                       (* c = v.scan.Next() *)
    if rune_is c 93 then Some (SetDone c chars s1 e1)   (* case ']': break Loop *)
    else match c with
    | None =>                                           (* case scanner.EOF *)
        Some (SetEOF s1 (e1 ++ [unexpected s1 c MissingClose]))
    | Some _ =>
        let e2 := check_char_in_match isRef s1 c in
        if negb (peek_is s1 45) then                    (* single character *)
          pre_errs (e1 ++ e2) (set_loop fuel isRef s1 (S chars))
        else
          let '(_, s2, e3) := next s1 in                (* eat - *)
          if peek_is s2 93 then
            let '(c', s3, e4) := next s2 in             (* eat ] *)
            Some (SetDone c' (chars + 2) s3
                    (e1 ++ e2 ++ e3 ++ e4 ++ [unexpected s3 c' RangeNoEnd]))
          else if at_eof s2 then                        (* case scanner.EOF: do nothing *)
            pre_errs (e1 ++ e2 ++ e3) (set_loop fuel isRef s2 (chars + 2))
          else
            let '(c', s3, e4) := next s2 in             (* eat end of range *)
            let e5 := check_char_in_match isRef s3 c' in
            let e6 := if rune_ltb c' c then [unexpected s3 c' RangeOrder] else [] in
            pre_errs (e1 ++ e2 ++ e3 ++ e4 ++ e5 ++ e6) (set_loop fuel isRef s3 (chars + 2))
    end
  end.

(* --- validateNext --- *)
Inductive vn_res := VnRes (cont : bool) (prec : bool) (s : scanner) (errs : list diag).

(* the tail of validateNext: v.prec = prec; EOF test with the ref-only check
   of the last character *)
Definition finish (isRef : bool) (c : rune) (prec' : bool) (s : scanner) (errs : list diag) : vn_res :=
  if at_eof s then
    VnRes false prec' s
      (errs ++ if isRef && (rune_is c 47 || rune_is c 46) then [invalid_ref_char s c RefTrail] else [])
  else VnRes true prec' s errs.

Definition validate_next (fuel : nat) (isRef prec : bool) (s : scanner) : option vn_res :=
  let '(c, s1, e1) := next s in
  if rune_is c 92 then                                            (* case '\\' *)
    if peek_is s1 91 || peek_is s1 63 || peek_is s1 42 then       (* case '[', '?', '*' *)
      let '(c', s2, e2) := next s1 in
      Some (finish isRef c' true s2
              (e1 ++ e2 ++ if isRef then [invalid_ref_char s2 (peek s2) RefChar] else []))
    else if peek_is s1 43 || peek_is s1 92 || peek_is s1 33 then  (* case '+', '\\', '!' *)
      let '(c', s2, e2) := next s1 in
      Some (finish isRef c' true s2 (e1 ++ e2))
    else if isRef then
      let d := invalid_ref_char s1 (Some 92) RefEscape in
      let '(c', s2, e2) := next s1 in
      Some (finish isRef c' true s2 (e1 ++ [d] ++ e2))
    else Some (finish isRef c true s1 e1)
  else if rune_is c 63 then                                       (* case '?' *)
    Some (finish isRef c false s1 (e1 ++ if prec then [] else [unexpected s1 (Some 63) PrecQ]))
  else if rune_is c 43 then                                       (* case '+' *)
    Some (finish isRef c false s1 (e1 ++ if prec then [] else [unexpected s1 (Some 43) PrecPlus]))
  else if rune_is c 42 then                                       (* case '*' *)
    Some (finish isRef c false s1 e1)
  else if rune_is c 91 then                                       (* case '[' *)
    if peek_is s1 93 then
      let '(c', s2, e2) := next s1 in                             (* eat ] *)
      Some (finish isRef c' true s2 (e1 ++ e2 ++ [unexpected s2 (Some 93) EmptySet]))
    else
      match set_loop fuel isRef s1 0 with
      | None => None
      | Some (SetEOF s2 errs) => Some (VnRes false prec s2 (e1 ++ errs))
      | Some (SetDone c' chars s2 errs) =>
          Some (finish isRef c' true s2
                  (e1 ++ errs ++ if Nat.eqb chars 1 then [unexpected s2 c' SingleSet] else []))
      end
  else if rune_is c 13 then                                       (* case '\r' *)
    if peek_is s1 10 then
      let '(c', s2, e2) := next s1 in
      Some (finish isRef c' true s2 (e1 ++ e2 ++ [unexpected s2 c' Newline]))
    else Some (finish isRef c true s1 (e1 ++ [unexpected s1 c Newline]))
  else if rune_is c 10 then                                       (* case '\n' *)
    Some (finish isRef c true s1 (e1 ++ [unexpected s1 (Some 10) Newline]))
  else match c with
  | Some x =>
      if is_ref_forbidden x then                                  (* case ' ', '\t', '~', '^', ':' *)
        Some (finish isRef c true s1 (e1 ++ if isRef then [invalid_ref_char s1 c RefChar] else []))
      else Some (finish isRef c true s1 e1)                       (* default *)
  | None => Some (finish isRef c true s1 e1)                      (* default (c = EOF) *)
  end.

(* for v.validateNext() {} *)
Fixpoint vloop (fuel : nat) (isRef prec : bool) (s : scanner) : option (list diag) :=
  match fuel with
  | O => None
  | S f =>
    match validate_next (S f) isRef prec s with
    | None => None
    | Some (VnRes true prec' s' errs) =>
        match vloop f isRef prec' s' with
        | None => None
        | Some rest => Some (errs ++ rest)
        end
    | Some (VnRes false _ _ errs) => Some errs
    end
  end.

(* validate before fix 04: switch v.scan.Peek() { case '/': (ref only) ...; case '!': ... } *)
Definition validate_fuel (fuel : nat) (isRef : bool) (pat : list item) : option (list diag) :=
  match pat with
  | [] => Some [mkDiag EmptyPat (errcol (mkSc 0 false pat)) NoName]
  | _ :: _ =>
    let '(s0, e0) := init_scan pat in
    let run (s : scanner) (prec : bool) (errs : list diag) :=
      match vloop fuel isRef prec s with
      | None => None
      | Some rest => Some (errs ++ rest)
      end in
    if peek_is s0 47 then
      if isRef then
        let '(_, s1, e1) := next s0 in
        run s1 true (e0 ++ e1 ++ [invalid_ref_char s1 (Some 47) RefLead])
      else run s0 false e0
    else if peek_is s0 33 then
      let '(_, s1, e1) := next s0 in
      if at_eof s1 then Some (e0 ++ e1 ++ [unexpected s1 (Some 33) BangAlone])
      else run s1 false (e0 ++ e1)
    else run s0 false e0
  end.

Definition byte_width (x : item) : nat :=
  if x <? 128 then 1 else if x <? 2048 then 2 else if x <? 65536 then 3
  else if x <? bad_limit then 4 else 1.
Definition byte_len (pat : list item) : nat := fold_right (fun x n => (byte_width x + n)%nat) 0%nat pat.

Definition hd_is (l : list item) (c : N) : bool :=
  match l with x :: _ => x =? c | [] => false end.
Definition last_is (l : list item) (c : N) : bool :=
  match l with [] => false | _ :: _ => last l 0 =? c end.

(* the fuel the wrappers supply *)
Definition fuel_of (pat : list item) : nat := S (length pat).

Definition validate (isRef : bool) (pat : list item) : option (list diag) :=
  validate_fuel (fuel_of pat) isRef pat.

(* ValidateRefGlob *)
Definition validate_ref (pat : list item) : option (list diag) := validate true pat.

(* ValidatePathGlob before fix 03: len(pat) counts bytes *)
Definition validate_path (pat : list item) : option (list diag) :=
  if hd_is pat 32 then Some [mkDiag PathLead 0 NoName]
  else if last_is pat 32 then Some [mkDiag PathTrail (byte_len pat) NoName]
  else validate false pat.

Definition validate_mode (isRef : bool) (pat : list item) : option (list diag) :=
  if isRef then validate_ref pat else validate_path pat.

End Old.

(* 01: "\[" as a ref filter names U+FFFD, "\[a" names 'a' — not the '[' at the column *)
Lemma esc_name_old_refuted :
  Old.validate_ref [92; 91] = Some [mkDiag RefChar 2 (NameChar 65533)] /\
  Old.validate_ref [92; 91; 97] = Some [mkDiag RefChar 2 (NameChar 97)] /\
  validate_ref [92; 91; 97] = Some [mkDiag RefChar 2 (NameChar 91)].
Proof. vm_compute. auto. Qed.

Lemma not_valid isRef pat : no_bom pat -> validate_mode isRef pat <> Some [] -> ~ valid isRef pat.
Proof. intros NB H V. apply H. now apply glob_exact. Qed.

(* 02: "[a<LF>b]" accepted in both modes, "[ ab]" and "[~a]" accepted as ref filters, none valid *)
Lemma set_chars_old_refuted :
  Old.validate_ref [91; 97; 10; 98; 93] = Some [] /\ Old.validate_path [91; 97; 10; 98; 93] = Some [] /\
  ~ valid true [91; 97; 10; 98; 93] /\ ~ valid false [91; 97; 10; 98; 93] /\
  Old.validate_ref [91; 32; 97; 98; 93] = Some [] /\ ~ valid true [91; 32; 97; 98; 93] /\
  Old.validate_ref [91; 126; 97; 93] = Some [] /\ ~ valid true [91; 126; 97; 93].
Proof.
  repeat split; try (vm_compute; reflexivity);
    (apply not_valid; [intros l; discriminate|vm_compute; discriminate]).
Qed.

(* 03: "é " as a path filter: column 3 in a pattern of 2 characters *)
Lemma trail_col_old_refuted :
  Old.validate_path [233; 32] = Some [mkDiag PathTrail 3 NoName] /\ length [233; 32] = 2%nat /\
  validate_path [233; 32] = Some [mkDiag PathTrail 2 NoName].
Proof. vm_compute. auto. Qed.

(* 04: "!/a" accepted as a ref filter although the ref name starts with / *)
Lemma neg_slash_old_refuted :
  Old.validate_ref [33; 47; 97] = Some [] /\ ~ valid true [33; 47; 97] /\
  validate_ref [33; 47; 97] = Some [mkDiag RefLead 2 (NameChar 47)].
Proof.
  split; [vm_compute; reflexivity|]. split; [|vm_compute; reflexivity].
  apply not_valid; [intros l; discriminate|vm_compute; discriminate].
Qed.
