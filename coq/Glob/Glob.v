(* Glob/Glob.v — literal model of glob.go (validateGlob, globValidator,
   validateNext, ValidateRefGlob, ValidatePathGlob) and of the column
   arithmetic of rule_glob.go (globErrors), for the tree with the four
   repo_patches/glob fixes applied (the pre-fix behaviour is in GlobOld.v).

   INPUT.  A Go string is modelled as the list of *items* text/scanner and
   range-over-string cut it into: a validly encoded code point cp is the item
   cp (< 0x110000); a byte b that is not part of a valid UTF-8 sequence is the
   item 0x110000 + b.  The scanner delivers [rune_of x] for item x and calls
   its Error callback for NUL and for invalid bytes ([scan_bad]).  Columns
   count items (text/scanner counts characters, one per invalid byte).

   SCANNER.  text/scanner keeps one character of look-ahead.  Reading the
   source shows (scanner.go: next, Next, Peek, Pos) that after k characters
   have been returned by Next (including a skipped leading BOM),
   Pos().Line > 1 iff one of them was '\n', and otherwise Pos().Column = k+1;
   so globValidator.error reports [errcol] = 0 if a '\n' was consumed, else k.
   The Error callback fires when a bad character is read *into the
   look-ahead*, i.e. during the Next that returns its predecessor (or during
   the very first Peek); [next] therefore returns the diagnostics of that
   callback.  EOF is [None]. *)
From Coq Require Import List NArith Bool Arith.
Import ListNotations.
Local Open Scope N_scope.

Notation item := N (only parsing).
Notation rune := (option N) (only parsing).   (* None = scanner.EOF (-1) *)

Definition bad_limit : N := 1114112.  (* 0x110000 *)
Definition rune_error : N := 65533.   (* utf8.RuneError U+FFFD *)
Definition bom : N := 65279.          (* U+FEFF *)

Definition rune_of (x : item) : N := if bad_limit <=? x then rune_error else x.
Definition scan_bad (x : item) : bool := (x =? 0) || (bad_limit <=? x).

(* --- diagnostics: class (by message prefix / "while checking" / reason),
       column, character named by the message --- *)
Inductive dclass :=
| EmptyPat      (* glob pattern cannot be empty *)
| PrecQ         (* unexpected '?' ... preceding character must not be special *)
| PrecPlus      (* unexpected '+' ... *)
| EmptySet      (* character match must not be empty *)
| MissingClose  (* unexpected EOF ... missing ] *)
| RangeNoEnd    (* end of range is missing *)
| RangeOrder    (* start of range is larger than end of range *)
| SingleSet     (* character match with single character is useless *)
| Newline       (* newline cannot be contained (outside []) *)
| NewlineInSet  (* newline cannot be contained (inside [], fix 02) *)
| BangAlone     (* at least one character must follow ! *)
| RefChar       (* ref name cannot contain spaces, ~, ^, :, [, ?, * *)
| RefEscape     (* only special characters ... can be escaped with \ *)
| RefTrail      (* ref name must not end with / and . *)
| RefLead       (* ref name must not start with / *)
| ScanErr       (* error while scanning glob pattern (NUL, invalid UTF-8) *)
| PathLead      (* path value must not start with spaces *)
| PathTrail.    (* path value must not end with spaces *)

Inductive named := NoName | NameEOF | NameChar (c : N).

Record diag := mkDiag { d_cls : dclass; d_col : nat; d_named : named }.

(* --- text/scanner --- *)
Record scanner := mkSc { sc_pos : nat; sc_nl : bool; sc_rest : list item }.

(* globValidator.error: c := Pos().Column - 1; if Pos().Line > 1 { c = 0 } *)
Definition errcol (s : scanner) : nat := if sc_nl s then 0%nat else sc_pos s.

Definition peek (s : scanner) : rune :=
  match sc_rest s with [] => None | x :: _ => Some (rune_of x) end.

Definition peek_is (s : scanner) (c : N) : bool :=
  match peek s with Some x => x =? c | None => false end.

Definition at_eof (s : scanner) : bool :=
  match sc_rest s with [] => true | _ :: _ => false end.

(* the Error callback when the head of [sc_rest s] has just been read into the
   look-ahead: error(fmt.Sprintf("error while scanning glob pattern ...")) *)
Definition read_errs (s : scanner) : list diag :=
  match sc_rest s with
  | x :: _ => if scan_bad x then [mkDiag ScanErr (errcol s) NoName] else []
  | [] => []
  end.

(* Next(): returns the look-ahead and reads the following character *)
Definition next (s : scanner) : rune * scanner * list diag :=
  match sc_rest s with
  | [] => (None, s, [])
  | x :: r =>
      let s' := mkSc (S (sc_pos s)) (sc_nl s || (rune_of x =? 10)) r in
      (Some (rune_of x), s', read_errs s')
  end.

(* first Peek(): reads the first character; a BOM there is skipped *)
Definition init_scan (pat : list item) : scanner * list diag :=
  let s0 := mkSc 0 false pat in
  if peek_is s0 bom then let '(_, s1, e) := next s0 in (s1, read_errs s0 ++ e)
  else (s0, read_errs s0).

(* --- globValidator helpers --- *)
Definition rune_name (c : rune) : named :=
  match c with None => NameEOF | Some c => NameChar c end.

(* unexpected(char, what, why): "unexpected EOF" / "unexpected character %q" *)
Definition unexpected (s : scanner) (c : rune) (k : dclass) : diag :=
  mkDiag k (errcol s) (rune_name c).

(* invalidRefChar(c, why): prints c with %q / '%c'; rune(-1) prints as U+FFFD *)
Definition invalid_ref_char (s : scanner) (c : rune) (k : dclass) : diag :=
  mkDiag k (errcol s) (NameChar (match c with Some c => c | None => rune_error end)).

Definition rune_is (c : rune) (x : N) : bool :=
  match c with Some y => y =? x | None => false end.

(* Go compares runes as int32 with EOF = -1 *)
Definition rune_ltb (a b : rune) : bool :=
  match a, b with
  | None, None => false
  | None, Some _ => true
  | Some _, None => false
  | Some x, Some y => x <? y
  end.

(* case ' ', '\t', '~', '^', ':' *)
Definition is_ref_forbidden (c : N) : bool :=
  (c =? 32) || (c =? 9) || (c =? 126) || (c =? 94) || (c =? 58).

(* checkCharInMatch (fix 02) *)
Definition check_char_in_match (isRef : bool) (s : scanner) (c : rune) : list diag :=
  if rune_is c 13 || rune_is c 10 then [unexpected s c NewlineInSet]
  else match c with
       | Some x => if is_ref_forbidden x && isRef then [invalid_ref_char s c RefChar] else []
       | None => []
       end.

(* --- the Loop: of validateNext (content of [...]) --- *)
Inductive set_res :=
| SetDone (c : rune) (chars : nat) (s : scanner) (errs : list diag)  (* break Loop *)
| SetEOF (s : scanner) (errs : list diag).                           (* return false *)

Definition pre_errs (e : list diag) (r : option set_res) : option set_res :=
  match r with
  | None => None
  | Some (SetDone c n s errs) => Some (SetDone c n s (e ++ errs))
  | Some (SetEOF s errs) => Some (SetEOF s (e ++ errs))
  end.

Fixpoint set_loop (fuel : nat) (isRef : bool) (s : scanner) (chars : nat) : option set_res :=
  match fuel with
  | O => None
  | S fuel =>
    let '(c, s1, e1) := next s in                       (* c = v.scan.Next() *)
    if rune_is c 93 then Some (SetDone c chars s1 e1)   (* case ']': break Loop *)
    else match c with
    | None =>                                           (* case scanner.EOF *)
        Some (SetEOF s1 (e1 ++ [unexpected s1 c MissingClose]))
    | Some _ =>
        let e2 := check_char_in_match isRef s1 c in
        if negb (peek_is s1 45) then                    (* single character *)
          pre_errs (e1 ++ e2) (set_loop fuel isRef s1 (S chars))
        else
          let '(_, s2, e3) := next s1 in                (* eat - *)
          if peek_is s2 93 then
            let '(c', s3, e4) := next s2 in             (* eat ] *)
            Some (SetDone c' (chars + 2) s3
                    (e1 ++ e2 ++ e3 ++ e4 ++ [unexpected s3 c' RangeNoEnd]))
          else if at_eof s2 then                        (* case scanner.EOF: do nothing *)
            pre_errs (e1 ++ e2 ++ e3) (set_loop fuel isRef s2 (chars + 2))
          else
            let '(c', s3, e4) := next s2 in             (* eat end of range *)
            let e5 := check_char_in_match isRef s3 c' in
            let e6 := if rune_ltb c' c then [unexpected s3 c' RangeOrder] else [] in
            pre_errs (e1 ++ e2 ++ e3 ++ e4 ++ e5 ++ e6) (set_loop fuel isRef s3 (chars + 2))
    end
  end.

(* --- validateNext --- *)
Inductive vn_res := VnRes (cont : bool) (prec : bool) (s : scanner) (errs : list diag).

(* the tail of validateNext: v.prec = prec; EOF test with the ref-only check
   of the last character *)
Definition finish (isRef : bool) (c : rune) (prec' : bool) (s : scanner) (errs : list diag) : vn_res :=
  if at_eof s then
    VnRes false prec' s
      (errs ++ if isRef && (rune_is c 47 || rune_is c 46) then [invalid_ref_char s c RefTrail] else [])
  else VnRes true prec' s errs.

Definition validate_next (fuel : nat) (isRef prec : bool) (s : scanner) : option vn_res :=
  let '(c, s1, e1) := next s in
  if rune_is c 92 then                                            (* case '\\' *)
    if peek_is s1 91 || peek_is s1 63 || peek_is s1 42 then       (* case '[', '?', '*' *)
      let '(c', s2, e2) := next s1 in
      Some (finish isRef c' true s2
              (e1 ++ e2 ++ if isRef then [invalid_ref_char s2 c' RefChar] else []))
    else if peek_is s1 43 || peek_is s1 92 || peek_is s1 33 then  (* case '+', '\\', '!' *)
      let '(c', s2, e2) := next s1 in
      Some (finish isRef c' true s2 (e1 ++ e2))
    else if isRef then
      let d := invalid_ref_char s1 (Some 92) RefEscape in
      let '(c', s2, e2) := next s1 in
      Some (finish isRef c' true s2 (e1 ++ [d] ++ e2))
    else Some (finish isRef c true s1 e1)
  else if rune_is c 63 then                                       (* case '?' *)
    Some (finish isRef c false s1 (e1 ++ if prec then [] else [unexpected s1 (Some 63) PrecQ]))
  else if rune_is c 43 then                                       (* case '+' *)
    Some (finish isRef c false s1 (e1 ++ if prec then [] else [unexpected s1 (Some 43) PrecPlus]))
  else if rune_is c 42 then                                       (* case '*' *)
    Some (finish isRef c false s1 e1)
  else if rune_is c 91 then                                       (* case '[' *)
    if peek_is s1 93 then
      let '(c', s2, e2) := next s1 in                             (* eat ] *)
      Some (finish isRef c' true s2 (e1 ++ e2 ++ [unexpected s2 (Some 93) EmptySet]))
    else
      match set_loop fuel isRef s1 0 with
      | None => None
      | Some (SetEOF s2 errs) => Some (VnRes false prec s2 (e1 ++ errs))
      | Some (SetDone c' chars s2 errs) =>
          Some (finish isRef c' true s2
                  (e1 ++ errs ++ if Nat.eqb chars 1 then [unexpected s2 c' SingleSet] else []))
      end
  else if rune_is c 13 then                                       (* case '\r' *)
    if peek_is s1 10 then
      let '(c', s2, e2) := next s1 in
      Some (finish isRef c' true s2 (e1 ++ e2 ++ [unexpected s2 c' Newline]))
    else Some (finish isRef c true s1 (e1 ++ [unexpected s1 c Newline]))
  else if rune_is c 10 then                                       (* case '\n' *)
    Some (finish isRef c true s1 (e1 ++ [unexpected s1 (Some 10) Newline]))
  else match c with
  | Some x =>
      if is_ref_forbidden x then                                  (* case ' ', '\t', '~', '^', ':' *)
        Some (finish isRef c true s1 (e1 ++ if isRef then [invalid_ref_char s1 c RefChar] else []))
      else Some (finish isRef c true s1 e1)                       (* default *)
  | None => Some (finish isRef c true s1 e1)                      (* default (c = EOF) *)
  end.

(* for v.validateNext() {} *)
Fixpoint vloop (fuel : nat) (isRef prec : bool) (s : scanner) : option (list diag) :=
  match fuel with
  | O => None
  | S f =>
    match validate_next (S f) isRef prec s with
    | None => None
    | Some (VnRes true prec' s' errs) =>
        match vloop f isRef prec' s' with
        | None => None
        | Some rest => Some (errs ++ rest)
        end
    | Some (VnRes false _ _ errs) => Some errs
    end
  end.

(* validate (with fix 04: '!' first, then the ref-only '/' test) *)
Definition validate_fuel (fuel : nat) (isRef : bool) (pat : list item) : option (list diag) :=
  match pat with
  | [] => Some [mkDiag EmptyPat (errcol (mkSc 0 false pat)) NoName]
  | _ :: _ =>
    let '(s0, e0) := init_scan pat in
    let after_bang (s : scanner) (prec : bool) (errs : list diag) :=
      if isRef && peek_is s 47 then
        let '(_, s', e) := next s in
        match vloop fuel isRef true s' with
        | None => None
        | Some rest => Some (errs ++ e ++ [invalid_ref_char s' (Some 47) RefLead] ++ rest)
        end
      else
        match vloop fuel isRef prec s with
        | None => None
        | Some rest => Some (errs ++ rest)
        end in
    if peek_is s0 33 then
      let '(_, s1, e1) := next s0 in
      if at_eof s1 then Some (e0 ++ e1 ++ [unexpected s1 (Some 33) BangAlone])
      else after_bang s1 false (e0 ++ e1)
    else after_bang s0 false e0
  end.

Definition hd_is (l : list item) (c : N) : bool :=
  match l with x :: _ => x =? c | [] => false end.
Definition last_is (l : list item) (c : N) : bool :=
  match l with [] => false | _ :: _ => last l 0 =? c end.

(* the fuel the wrappers supply *)
Definition fuel_of (pat : list item) : nat := S (length pat).

Definition validate (isRef : bool) (pat : list item) : option (list diag) :=
  validate_fuel (fuel_of pat) isRef pat.

(* ValidateRefGlob *)
Definition validate_ref (pat : list item) : option (list diag) := validate true pat.

(* ValidatePathGlob (with fix 03: the column of a trailing space counts characters) *)
Definition validate_path (pat : list item) : option (list diag) :=
  if hd_is pat 32 then Some [mkDiag PathLead 0 NoName]
  else if last_is pat 32 then Some [mkDiag PathTrail (length pat) NoName]
  else validate false pat.

Definition validate_mode (isRef : bool) (pat : list item) : option (list diag) :=
  if isRef then validate_ref pat else validate_path pat.

(* --- rule_glob.go: globErrors.  p := *pos; if quoted { p.Col++ };
       if err.Column != 0 { p.Col += err.Column - 1 } --- *)
Definition glob_error_col (posCol : nat) (quoted : bool) (col : nat) : nat :=
  let p := if quoted then S posCol else posCol in
  match col with O => p | S c => (p + c)%nat end.
