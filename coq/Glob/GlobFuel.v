(* Glob/GlobFuel.v — termination of the model of glob.go: the fuel the wrappers
   supply (length of the pattern + 1) always suffices, for the main loop and
   for the loop over the content of [...]; and the rule_glob column arithmetic. *)
From Coq Require Import List NArith Bool Arith Lia.
From AL Require Import Glob.Glob Glob.GlobSpec.
Import ListNotations.

(* ---------- termination ---------- *)
Lemma next_len s c s' e : next s = (c, s', e) ->
  (sc_rest s = [] /\ s' = s /\ c = None) \/
  (exists x, sc_rest s = x :: sc_rest s' /\ c = Some (rune_of x)).
Proof.
  unfold next. destruct (sc_rest s) as [|x r] eqn:E; intros H; inversion H; subst.
  - left; auto.
  - right. exists x. cbn. auto.
Qed.

Ltac next_facts :=
  repeat match goal with
  | H : next ?s = (_, _, _) |- _ =>
      let x := fresh "x" in let Hr := fresh "Hr" in let Hc := fresh "Hc" in let Hs := fresh "Hs" in
      apply next_len in H; destruct H as [(Hr & Hs & Hc)|(x & Hr & Hc)]
  end.

Lemma pre_errs_some e r : r <> None -> pre_errs e r <> None.
Proof. destruct r as [[]|]; cbn; congruence. Qed.

Lemma peek_is_rest s c : peek_is s c = true -> sc_rest s <> [].
Proof. unfold peek_is, peek. destruct (sc_rest s); congruence. Qed.

Lemma at_eof_false s : at_eof s = false -> sc_rest s <> [].
Proof. unfold at_eof. destruct (sc_rest s); congruence. Qed.

Definition shorter (s' s : scanner) := (length (sc_rest s') < length (sc_rest s))%nat.

Lemma set_loop_total : forall fuel isRef s n, (length (sc_rest s) < fuel)%nat ->
  exists r, set_loop fuel isRef s n = Some r /\
    match r with SetDone _ _ s' _ => shorter s' s | SetEOF _ _ => True end.
Proof.
  induction fuel as [|fuel IH]; intros isRef s n Hlen; [lia|].
  cbn [set_loop].
  destruct (next s) as [[c s1] e1] eqn:N1.
  destruct (rune_is c 93) eqn:Rc.
  { eexists; split; [reflexivity|]. unfold shorter. next_facts; subst; cbn in *; try discriminate. rewrite Hr. cbn. lia. }
  destruct c as [c|]; [|eexists; split; [reflexivity|exact I]].
  assert (L1 : (S (length (sc_rest s1)) = length (sc_rest s))%nat).
  { next_facts; try discriminate. rewrite Hr. reflexivity. }
  destruct (negb (peek_is s1 45)) eqn:P1.
  { destruct (IH isRef s1 (S n)) as (r & Hr & Hs); [lia|]. rewrite Hr.
    destruct r; cbn; eexists; split; try reflexivity; auto. unfold shorter in *. lia. }
  destruct (next s1) as [[c2 s2] e3] eqn:N2.
  assert (L2 : (S (length (sc_rest s2)) = length (sc_rest s1))%nat).
  { apply negb_false_iff in P1. apply peek_is_rest in P1. next_facts; try congruence. rewrite Hr. reflexivity. }
  destruct (peek_is s2 93) eqn:P2.
  { destruct (next s2) as [[c3 s3] e4] eqn:N3. eexists; split; [reflexivity|].
    apply peek_is_rest in P2. unfold shorter. next_facts; try congruence. rewrite Hr in *. cbn in *. lia. }
  destruct (at_eof s2) eqn:A2.
  { destruct (IH isRef s2 (n + 2)%nat) as (r & Hr & Hs); [lia|]. rewrite Hr.
    destruct r; cbn; eexists; split; try reflexivity; auto. unfold shorter in *. lia. }
  destruct (next s2) as [[c3 s3] e4] eqn:N3.
  assert (L3 : (S (length (sc_rest s3)) = length (sc_rest s2))%nat).
  { apply at_eof_false in A2. next_facts; try congruence. rewrite Hr. reflexivity. }
  destruct (IH isRef s3 (n + 2)%nat) as (r & Hr & Hs); [lia|]. rewrite Hr.
  destruct r; cbn; eexists; split; try reflexivity; auto. unfold shorter in *. lia.
Qed.

Lemma next_shorter s c s' e : next s = (c, s', e) ->
  (length (sc_rest s') <= length (sc_rest s))%nat /\
  (sc_rest s <> [] \/ c <> None \/ sc_rest s' <> [] -> (length (sc_rest s') < length (sc_rest s))%nat).
Proof.
  intros H. apply next_len in H. destruct H as [(Hr & -> & ->)|(x & Hr & _)].
  - split; [lia|]. intros [H|[H|H]]; congruence.
  - rewrite Hr. cbn. split; [lia|]. intros _. lia.
Qed.

Ltac len_facts :=
  repeat match goal with
  | H : next _ = (_, _, _) |- _ => apply next_shorter in H; destruct H as [? ?]
  | H : peek_is _ _ = true |- _ => apply peek_is_rest in H
  | H : at_eof _ = false |- _ => apply at_eof_false in H
  | H : _ || _ = true |- _ => apply orb_true_iff in H; destruct H as [H|H]
  end.

Ltac split_model :=
  repeat match goal with
  | |- context [next ?s] => let c := fresh "c" in let s' := fresh "s" in let e := fresh "e" in
        destruct (next s) as [[c s'] e] eqn:?
  | |- context [if ?b then _ else _] => destruct b eqn:?
  end.

Lemma validate_next_total fuel isRef prec s : (length (sc_rest s) < fuel)%nat ->
  exists cont p' s' e, validate_next fuel isRef prec s = Some (VnRes cont p' s' e) /\
    (cont = true -> shorter s' s).
Proof.
  intros Hlen. unfold validate_next.
  destruct (next s) as [[c s1] e1] eqn:N1.
  destruct (set_loop_total fuel isRef s1 0) as (r & Hset & Hr).
  { apply next_shorter in N1. lia. }
  rewrite Hset. unfold finish, shorter in *.
  destruct c as [c|]; destruct r as [c' m s2' errs|s2' errs];
  split_model; do 4 eexists; (split; [reflexivity|]); intros; try discriminate; len_facts;
    repeat match goal with H : _ \/ _ -> _ |- _ =>
      first [ specialize (H ltac:(first [left; assumption | left; discriminate | right; left; discriminate | right; right; assumption]))
            | clear H ] end; lia.
Qed.

Lemma vloop_total : forall fuel isRef prec s, (length (sc_rest s) < fuel)%nat ->
  exists ds, vloop fuel isRef prec s = Some ds.
Proof.
  induction fuel as [|f IH]; intros isRef prec s Hlen; [lia|].
  cbn [vloop].
  destruct (validate_next_total (S f) isRef prec s Hlen) as (cont & p' & s' & e & Hv & Hs).
  rewrite Hv. destruct cont; [|eauto].
  specialize (Hs eq_refl). unfold shorter in Hs.
  destruct (IH isRef p' s') as (ds & Hd); [lia|]. rewrite Hd. eauto.
Qed.

Lemma init_scan_len pat s0 e0 : init_scan pat = (s0, e0) ->
  (length (sc_rest s0) <= length pat)%nat.
Proof.
  unfold init_scan. destruct (peek_is _ bom).
  - destruct (next _) as [[c s1] e] eqn:N. intros H; inversion H; subst.
    apply next_shorter in N. cbn in N. lia.
  - intros H; inversion H; subst. cbn. lia.
Qed.

(* the fuel supplied by the wrappers always suffices: validation terminates *)
Lemma validate_total isRef pat : exists ds, validate isRef pat = Some ds.
Proof.
  unfold validate, validate_fuel, fuel_of. destruct pat as [|x pat']; [eauto|].
  set (pat := x :: pat').
  destruct (init_scan pat) as [s0 e0] eqn:I. apply init_scan_len in I.
  assert (TOT : forall s p, (length (sc_rest s) <= length pat)%nat ->
            exists ds, vloop (S (length pat)) isRef p s = Some ds).
  { intros. apply vloop_total. lia. }
  assert (AB : forall s p errs, (length (sc_rest s) <= length pat)%nat -> exists ds,
     (if isRef && peek_is s 47
      then let '(_, s', e) := next s in
           match vloop (S (length pat)) isRef true s' with
           | None => None
           | Some rest => Some (errs ++ e ++ [invalid_ref_char s' (Some 47%N) RefLead] ++ rest)
           end
      else match vloop (S (length pat)) isRef p s with
           | None => None
           | Some rest => Some (errs ++ rest)
           end) = Some ds).
  { intros s p errs Hs. destruct (isRef && peek_is s 47).
    - destruct (next s) as [[c s'] e] eqn:N. apply next_shorter in N.
      destruct (TOT s' true) as (ds & ->); [lia|]. eauto.
    - destruct (TOT s p Hs) as (ds & ->). eauto. }
  destruct (peek_is s0 33).
  - destruct (next s0) as [[c s1] e1] eqn:N. apply next_shorter in N.
    destruct (at_eof s1); [eauto|]. apply AB. lia.
  - apply AB. lia.
Qed.

Lemma validate_path_total pat : exists ds, validate_path pat = Some ds.
Proof.
  unfold validate_path. destruct (hd_is pat 32); [eauto|]. destruct (last_is pat 32); [eauto|].
  apply validate_total.
Qed.

Lemma validate_mode_total isRef pat : exists ds, validate_mode isRef pat = Some ds.
Proof. destruct isRef; cbn; [apply validate_total|apply validate_path_total]. Qed.

(* ---------- rule_glob.go ---------- *)
Lemma glob_error_col_spec posCol quoted col :
  glob_error_col posCol quoted col =
  (posCol + (if quoted then 1 else 0) + (col - 1))%nat.
Proof. unfold glob_error_col. destruct quoted, col; lia. Qed.
