(* Glob/GlobObs.v — projection of the model's diagnostics to the observable
   compared with the implementation: one tuple (class, column, name kind,
   named character) per diagnostic, in order.  [[999]] = out of fuel. *)
From Coq Require Import List NArith.
From AL Require Import Base.Corr Glob.Glob.
Import ListNotations.
Local Open Scope N_scope.

Definition cls_code (k : dclass) : N :=
  match k with
  | EmptyPat => 1 | PrecQ => 2 | PrecPlus => 3 | EmptySet => 4 | MissingClose => 5
  | RangeNoEnd => 6 | RangeOrder => 7 | SingleSet => 8 | Newline => 9 | NewlineInSet => 10
  | BangAlone => 11 | RefChar => 12 | RefEscape => 13 | RefTrail => 14 | RefLead => 15
  | ScanErr => 16 | PathLead => 17 | PathTrail => 18
  end.

Definition obs_of (d : diag) : tuple :=
  [cls_code (d_cls d); N.of_nat (d_col d);
   match d_named d with NoName => 0 | NameEOF => 1 | NameChar _ => 2 end;
   match d_named d with NameChar c => c | _ => 0 end].

Definition glob_obs (isRef : bool) (pat : list N) : list tuple :=
  match validate_mode isRef pat with
  | None => [[999]]
  | Some ds => map obs_of ds
  end.

Definition run_glob (x : bool * list N) : list tuple := glob_obs (fst x) (snd x).

(* rule_glob.go column arithmetic: ((Pos.Col, Quoted, InvalidGlobPattern.Column), [[column of the diagnostic]]) *)
Definition run_gcol (x : N * bool * N) : list tuple :=
  let '(p, q, c) := x in [[N.of_nat (glob_error_col (N.to_nat p) q (N.to_nat c))]].
