(* Glob/GlobSpec.v — the documented filter-pattern syntax, as the property
   states it, written from GitHub's "filter pattern cheat sheet" and from the
   Git ref-name rules actionlint documents (docs/checks.md, the wording of its
   messages) — NOT from glob.go.  A pattern is a list of items (see Glob.v for
   the encoding: code points; values >= 0x110000 stand for bytes that are not
   valid UTF-8; neither those nor NUL are characters).

     *  **      any characters
     ?  +       zero-or-one / one-or-more of the preceding character: allowed
                only directly after an ordinary character, an escape or [...]
     [...]      non-empty list of characters and ranges lo-hi with lo <= hi;
                a list consisting of one single character is rejected
     !          at the very start: negation; something must follow
     \x         x one of [ ? * + \ ! : that character literally; another \ is an
                ordinary character in a path and not allowed in a ref name
     no line breaks anywhere
     paths      do not start or end with a space
     refs       no space, TAB, ~ ^ : (outside and inside [...]), no escaped
                [ ? *, the name (after !) does not start with /, a / or . is
                never the last character

   [elems isRef p l]: l is a sequence of pattern elements; p says whether a
   ? or + may come first (the previous element was not special). *)
From Coq Require Import List NArith Bool.
Import ListNotations.
Local Open Scope N_scope.

(* a character: a code point other than NUL *)
Definition is_char (x : N) : Prop := x <> 0 /\ x < 1114112.

Definition line_break (c : N) : Prop := c = 10 \/ c = 13.

(* characters with a meaning of their own at element position *)
Definition special (c : N) : Prop := c = 42 \/ c = 63 \/ c = 43 \/ c = 91 \/ c = 92.

(* [ ? * + \ ! *)
Definition escapable (c : N) : Prop :=
  c = 91 \/ c = 63 \/ c = 42 \/ c = 43 \/ c = 92 \/ c = 33.

(* space TAB ~ ^ : *)
Definition ref_forbidden (c : N) : Prop :=
  c = 32 \/ c = 9 \/ c = 126 \/ c = 94 \/ c = 58.

(* a character listed in [...] *)
Definition member_ok (isRef : bool) (c : N) : Prop :=
  is_char c /\ ~ line_break c /\ (isRef = true -> ~ ref_forbidden c).

(* [set_items isRef k l rest]: l = items of a list, then ], then rest;
   k = number of single characters + 2 * number of ranges.  A character
   followed by - starts a range. *)
Inductive set_items (isRef : bool) : nat -> list N -> list N -> Prop :=
| S_close : forall rest, set_items isRef 0 (93 :: rest) rest
| S_single : forall k c l rest,
    c <> 93 -> member_ok isRef c ->
    (forall l', l <> 45 :: l') ->
    set_items isRef k l rest ->
    set_items isRef (S k) (c :: l) rest
| S_range : forall k lo hi l rest,
    lo <> 93 -> hi <> 93 -> member_ok isRef lo -> member_ok isRef hi ->
    lo <= hi ->
    set_items isRef k l rest ->
    set_items isRef (S (S k)) (lo :: 45 :: hi :: l) rest.

Inductive elems (isRef : bool) : bool -> list N -> Prop :=
| E_end : forall p, elems isRef p []
| E_star : forall p l, elems isRef false l -> elems isRef p (42 :: l)
| E_opt : forall l, elems isRef false l -> elems isRef true (63 :: l)
| E_plus : forall l, elems isRef false l -> elems isRef true (43 :: l)
| E_esc : forall p c l,
    escapable c ->
    (isRef = true -> c <> 91 /\ c <> 63 /\ c <> 42) ->
    elems isRef true l -> elems isRef p (92 :: c :: l)
| E_backslash : forall p l,
    isRef = false ->
    (forall c l', l = c :: l' -> ~ escapable c) ->
    elems isRef true l -> elems isRef p (92 :: l)
| E_set : forall p k l rest,
    set_items isRef k l rest -> (2 <= k)%nat ->
    elems isRef true rest -> elems isRef p (91 :: l)
| E_char : forall p c l,
    is_char c -> ~ special c -> ~ line_break c ->
    (isRef = true -> ~ ref_forbidden c /\ ((c = 47 \/ c = 46) -> l <> [])) ->
    elems isRef true l -> elems isRef p (c :: l).

(* the part after the optional leading ! *)
Definition body_ok (isRef : bool) (l : list N) : Prop :=
  l <> [] /\ (isRef = true -> forall l', l <> 47 :: l') /\ elems isRef false l.

Definition valid (isRef : bool) (pat : list N) : Prop :=
  (isRef = false -> (forall l, pat <> 32 :: l) /\ (pat <> [] -> last pat 0 <> 32)) /\
  ((exists l, pat = 33 :: l /\ body_ok isRef l) \/
   ((forall l, pat <> 33 :: l) /\ body_ok isRef pat)).
