(* Glob/GlobProofs.v — exactness of the model of glob.go against the documented
   syntax (GlobSpec.v): the [...] loop against [set_items], the main loop
   against [elems] (soundness by induction on the fuel, completeness by
   induction on the derivation), the wrappers against [valid]; ref => path. *)
From Coq Require Import List NArith Bool Arith Lia.
From AL Require Import Glob.Glob Glob.GlobSpec Glob.GlobFuel.
Import ListNotations.
Local Open Scope N_scope.

(* ---------- characters, look-ahead ---------- *)
Lemma scan_bad_char x : scan_bad x = false <-> is_char x.
Proof. unfold scan_bad, is_char, bad_limit. rewrite orb_false_iff, N.eqb_neq, N.leb_gt. tauto. Qed.

Lemma rune_of_char x : is_char x -> rune_of x = x.
Proof. unfold rune_of, is_char, bad_limit. intros [_ H]. apply N.leb_gt in H. now rewrite H. Qed.

Lemma rune_of_small x c : c < 65533 -> (rune_of x = c <-> x = c).
Proof.
  unfold rune_of, bad_limit, rune_error. intros Hc. destruct (N.leb_spec 1114112 x); [|tauto].
  split; intros; lia.
Qed.

Definition hd_ok (l : list N) : Prop := match l with x :: _ => is_char x | [] => True end.

Lemma read_errs_nil s : read_errs s = [] <-> hd_ok (sc_rest s).
Proof.
  unfold read_errs, hd_ok. destruct (sc_rest s) as [|x r]; [tauto|].
  destruct (scan_bad x) eqn:E.
  - split; [discriminate|]. intros H. apply scan_bad_char in H. congruence.
  - split; auto. intros _. now apply scan_bad_char.
Qed.

Lemma next_inv s c s1 e1 : next s = (c, s1, e1) -> hd_ok (sc_rest s) ->
  (sc_rest s = [] /\ c = None /\ s1 = s /\ e1 = []) \/
  (exists x, sc_rest s = x :: sc_rest s1 /\ is_char x /\ c = Some x /\ (e1 = [] <-> hd_ok (sc_rest s1))).
Proof.
  unfold next, hd_ok. destruct (sc_rest s) as [|x r] eqn:E; intros H Hok; inversion H; subst.
  - left; auto.
  - right. exists x. cbn [sc_rest]. rewrite (rune_of_char x Hok).
    split; [reflexivity|]. split; [exact Hok|]. split; [reflexivity|]. apply read_errs_nil.
Qed.

Definition adv (s : scanner) (x : N) (r : list N) : scanner :=
  mkSc (S (sc_pos s)) (sc_nl s || (x =? 10)) r.

Lemma next_char s x r : sc_rest s = x :: r -> is_char x -> hd_ok r ->
  next s = (Some x, adv s x r, []).
Proof.
  intros E Hx Hr. unfold next. rewrite E. rewrite (rune_of_char x Hx). unfold adv. f_equal.
  apply read_errs_nil. exact Hr.
Qed.

Lemma peek_is_iff s c : c < 65533 -> (peek_is s c = true <-> exists r, sc_rest s = c :: r).
Proof.
  intros Hc. unfold peek_is, peek. destruct (sc_rest s) as [|y r].
  - split; [discriminate|]. intros [r' H]; discriminate.
  - rewrite N.eqb_eq, (rune_of_small y c Hc). split.
    + intros ->. eauto.
    + intros [r' H]. congruence.
Qed.

Lemma peek_is_false s c y r : c < 65533 -> peek_is s c = false -> sc_rest s = y :: r -> y <> c.
Proof.
  intros Hc H E ->. assert (T : peek_is s c = true) by (apply peek_is_iff; eauto). congruence.
Qed.

Lemma peek_is_hd s c r : c < 65533 -> sc_rest s = c :: r -> peek_is s c = true.
Proof. intros Hc E. apply peek_is_iff; eauto. Qed.

Lemma peek_is_other s c y r : c < 65533 -> sc_rest s = y :: r -> y <> c -> peek_is s c = false.
Proof.
  intros Hc E Hy. destruct (peek_is s c) eqn:P; auto. apply peek_is_iff in P; auto.
  destruct P as [r' P]. congruence.
Qed.

Lemma peek_is_nil s c : sc_rest s = [] -> peek_is s c = false.
Proof. unfold peek_is, peek. now intros ->. Qed.

Lemma at_eof_iff s : at_eof s = true <-> sc_rest s = [].
Proof. unfold at_eof. destruct (sc_rest s); split; congruence. Qed.

Lemma is_ref_forbidden_iff x : is_ref_forbidden x = true <-> ref_forbidden x.
Proof. unfold is_ref_forbidden, ref_forbidden. rewrite !orb_true_iff, !N.eqb_eq. tauto. Qed.

Lemma is_ref_forbidden_false x : is_ref_forbidden x = false <-> ~ ref_forbidden x.
Proof. rewrite <- is_ref_forbidden_iff. destruct (is_ref_forbidden x); split; congruence. Qed.

Lemma check_char_nil isRef s x :
  check_char_in_match isRef s (Some x) = [] <->
  ~ line_break x /\ (isRef = true -> ~ ref_forbidden x).
Proof.
  unfold check_char_in_match, line_break. cbn [rune_is].
  destruct (N.eqb_spec x 13); [cbn; split; [discriminate|tauto]|].
  destruct (N.eqb_spec x 10); [cbn; split; [discriminate|tauto]|]. cbn [orb].
  destruct (is_ref_forbidden x) eqn:F.
  - apply is_ref_forbidden_iff in F. destruct isRef; cbn; split; try discriminate; try tauto.
    intros _. split; [tauto|discriminate].
  - apply is_ref_forbidden_false in F. cbn. split; auto. intros _. split; [tauto|auto].
Qed.

Ltac nils :=
  repeat match goal with
  | H : _ ++ _ = [] |- _ => apply app_eq_nil in H; destruct H
  | H : _ :: _ = [] |- _ => discriminate H
  | H : [] = _ :: _ |- _ => discriminate H
  end.

(* ---------- the content of [...] ---------- *)
Lemma pre_errs_done e r c m s' : pre_errs e r = Some (SetDone c m s' []) ->
  e = [] /\ r = Some (SetDone c m s' []).
Proof.
  destruct r as [[c0 m0 s0 errs|s0 errs]|]; cbn; intros H; inversion H; subst.
  nils. subst. auto.
Qed.

Lemma set_items_zero isRef l r : set_items isRef 0 l r -> l = 93 :: r.
Proof. intros H. inversion H. reflexivity. Qed.

Lemma set_sound isRef : forall fuel s n c m s',
  hd_ok (sc_rest s) -> set_loop fuel isRef s n = Some (SetDone c m s' []) ->
  c = Some 93 /\ hd_ok (sc_rest s') /\
  exists k, m = (n + k)%nat /\ set_items isRef k (sc_rest s) (sc_rest s').
Proof.
  induction fuel as [|fuel IH]; intros s n c m s' Hok H; [discriminate|].
  cbn [set_loop] in H.
  destruct (next s) as [[c1 s1] e1] eqn:N1.
  apply next_inv in N1; auto.
  destruct N1 as [(E & -> & -> & ->)|(x & E & Hx & -> & He1)].
  { cbn in H. discriminate. }
  cbn [rune_is] in H. destruct (N.eqb_spec x 93) as [->|Hx93].
  { inversion H; subst. split; auto. split; [now apply He1|]. exists 0%nat. split; [lia|].
    rewrite E. constructor. }
  destruct (negb (peek_is s1 45)) eqn:P1.
  { apply pre_errs_done in H. destruct H as [He H]. nils. subst e1.
    assert (Hs1 : hd_ok (sc_rest s1)) by now apply He1.
    apply IH in H; auto. destruct H as (-> & Hs' & k & -> & Hk).
    split; auto. split; auto. exists (S k). split; [lia|]. rewrite E.
    match goal with H : check_char_in_match _ _ _ = [] |- _ => apply check_char_nil in H; destruct H end.
    apply S_single; [assumption | unfold member_ok; auto | | assumption].
    intros l' El. apply negb_true_iff in P1. eapply peek_is_false in P1; eauto. reflexivity. }
  apply negb_false_iff in P1. apply peek_is_iff in P1; [|reflexivity]. destruct P1 as [r1 E1].
  destruct (next s1) as [[c2 s2] e3] eqn:N2.
  destruct (peek_is s2 93) eqn:P2.
  { destruct (next s2) as [[c3 s3] e4]. inversion H. nils. }
  destruct (at_eof s2) eqn:A2.
  { apply pre_errs_done in H. destruct H as [He H]. nils. subst.
    assert (Hs1 : hd_ok (sc_rest s1)) by now apply He1.
    apply next_inv in N2; auto. destruct N2 as [(E2 & _)|(y & E2 & Hy & -> & He3)]; [congruence|].
    assert (Hs2 : hd_ok (sc_rest s2)) by now apply He3.
    apply at_eof_iff in A2. destruct fuel; [discriminate|]. cbn [set_loop] in H.
    unfold next in H. rewrite A2 in H. cbn in H. discriminate. }
  destruct (next s2) as [[c3 s3] e4] eqn:N3.
  apply pre_errs_done in H. destruct H as [He H].
  nils. subst.
  assert (Hs1 : hd_ok (sc_rest s1)) by now apply He1.
  apply next_inv in N2; auto. destruct N2 as [(E2 & _)|(y & E2 & Hy & -> & He3)]; [congruence|].
  assert (Hs2 : hd_ok (sc_rest s2)) by now apply He3.
  assert (y = 45) by congruence. subst y.
  apply next_inv in N3; auto. destruct N3 as [(E3 & _)|(z & E3 & Hz & -> & He4)].
  { apply at_eof_iff in E3. congruence. }
  assert (Hs3 : hd_ok (sc_rest s3)) by now apply He4.
  apply IH in H; auto. destruct H as (-> & Hs' & k & -> & Hk).
  split; auto. split; auto. exists (S (S k)). split; [lia|].
  rewrite E, E2, E3.
  repeat match goal with H : check_char_in_match _ _ _ = [] |- _ => apply check_char_nil in H; destruct H end.
  apply S_range; [assumption | | unfold member_ok; auto | unfold member_ok; auto | | assumption].
  - eapply peek_is_false in P2; eauto. reflexivity.
  - match goal with H : (if rune_ltb _ _ then _ else _) = [] |- _ => cbn [rune_ltb] in H; destruct (N.ltb_spec z x); [discriminate|auto] end.
Qed.

Lemma set_items_hd_ok isRef k l r : set_items isRef k l r -> hd_ok l.
Proof. intros H. inversion H; subst; cbn; try (unfold is_char; lia); match goal with H : member_ok _ _ |- _ => apply H end. Qed.

Lemma char_small c : c <> 0 -> c < 1114112 -> is_char c.
Proof. unfold is_char. auto. Qed.

Lemma set_complete isRef : forall k l rest, set_items isRef k l rest -> hd_ok rest ->
  forall fuel s n, sc_rest s = l -> (length l < fuel)%nat ->
  exists s', set_loop fuel isRef s n = Some (SetDone (Some 93) (n + k) s' []) /\ sc_rest s' = rest.
Proof.
  induction 1 as [rest | k c l rest Hc Hm Hl Hitems IH | k lo hi l rest Hlo Hhi Hmlo Hmhi Hle Hitems IH];
    intros Hrest fuel s n E Hlen; (destruct fuel as [|fuel]; [lia|]); cbn [set_loop].
  - rewrite (next_char s 93 rest E); [|unfold is_char; lia|assumption].
    cbn. eexists. split; [rewrite Nat.add_0_r; reflexivity|reflexivity].
  - specialize (IH Hrest). pose proof (set_items_hd_ok _ _ _ _ Hitems) as Hl_ok.
    destruct Hm as (Hcc & Hlb & Hrf).
    rewrite (next_char s c l E Hcc Hl_ok). cbv beta iota zeta. cbn [rune_is].
    destruct (N.eqb_spec c 93); [contradiction|].
    assert (P : peek_is (adv s c l) 45 = false).
    { destruct l as [|y l'] eqn:El. - apply peek_is_nil. reflexivity.
      - eapply peek_is_other; [reflexivity|reflexivity|]. intros ->. eapply Hl; reflexivity. }
    rewrite P. cbn [negb].
    assert (C : check_char_in_match isRef (adv s c l) (Some c) = []) by (apply check_char_nil; auto).
    rewrite C. cbn [app].
    destruct (IH fuel (adv s c l) (S n)) as (s' & Hs' & Er); [reflexivity|cbn in Hlen; lia|].
    replace (n + S k)%nat with (S n + k)%nat by (clear; lia).
    rewrite Hs'. cbn. exists s'. split; [reflexivity|assumption].
  - specialize (IH Hrest). pose proof (set_items_hd_ok _ _ _ _ Hitems) as Hl_ok.
    destruct Hmlo as (Hclo & Hlblo & Hrflo). destruct Hmhi as (Hchi & Hlbhi & Hrfhi).
    assert (H45 : is_char 45) by (unfold is_char; lia).
    rewrite (next_char s lo (45 :: hi :: l) E Hclo H45). cbv beta iota zeta. cbn [rune_is].
    destruct (N.eqb_spec lo 93); [contradiction|].
    set (s1 := adv s lo (45 :: hi :: l)).
    assert (P : peek_is s1 45 = true) by (eapply peek_is_hd; [reflexivity|reflexivity]).
    rewrite P. cbn [negb].
    rewrite (next_char s1 45 (hi :: l) eq_refl H45 Hchi). cbv beta iota zeta.
    set (s2 := adv s1 45 (hi :: l)).
    assert (P2 : peek_is s2 93 = false) by (eapply peek_is_other; [reflexivity|reflexivity|assumption]).
    rewrite P2. cbn [at_eof s2 sc_rest adv].
    rewrite (next_char s2 hi l eq_refl Hchi Hl_ok). cbv beta iota zeta.
    set (s3 := adv s2 hi l).
    assert (C1 : check_char_in_match isRef s1 (Some lo) = []) by (apply check_char_nil; auto).
    assert (C2 : check_char_in_match isRef s3 (Some hi) = []) by (apply check_char_nil; auto).
    rewrite C1, C2. cbn [rune_ltb].
    destruct (N.ltb_spec hi lo) as [Hlt|_]; [exfalso; apply N.lt_nge in Hlt; contradiction|]. cbn [app].
    assert (Hl' : (length l < fuel)%nat) by (clear - Hlen; cbn in Hlen; lia).
    destruct (IH fuel s3 (n + 2)%nat eq_refl Hl') as (s' & Hs' & Er).
    replace (n + S (S k))%nat with (n + 2 + k)%nat by (clear; lia).
    rewrite Hs'. cbn. exists s'. split; [reflexivity|assumption].
Qed.

Lemma pre_errs_eof e r s errs : pre_errs e r = Some (SetEOF s errs) ->
  exists errs', r = Some (SetEOF s errs') /\ errs = e ++ errs'.
Proof. destruct r as [[]|]; cbn; intros H; inversion H; subst; eauto. Qed.

Lemma set_eof_errs isRef : forall fuel s n s' errs,
  set_loop fuel isRef s n = Some (SetEOF s' errs) -> errs <> [].
Proof.
  induction fuel as [|fuel IH]; intros s n s' errs H; [discriminate|].
  cbn [set_loop] in H.
  destruct (next s) as [[c1 s1] e1].
  destruct (rune_is c1 93); [discriminate|].
  destruct c1 as [x|].
  2:{ inversion H. intros K. nils. }
  destruct (negb (peek_is s1 45)).
  { apply pre_errs_eof in H. destruct H as (errs' & H & ->). apply IH in H. intros K. nils. contradiction. }
  destruct (next s1) as [[c2 s2] e3].
  destruct (peek_is s2 93).
  { destruct (next s2) as [[c3 s3] e4]. discriminate. }
  destruct (at_eof s2).
  { apply pre_errs_eof in H. destruct H as (errs' & H & ->). apply IH in H. intros K. nils. contradiction. }
  destruct (next s2) as [[c3 s3] e4].
  apply pre_errs_eof in H. destruct H as (errs' & H & ->). apply IH in H. intros K. nils. contradiction.
Qed.

(* ---------- the main loop: soundness ---------- *)
Definition continue (isRef : bool) (f : nat) (r : vn_res) : option (list diag) :=
  match r with
  | VnRes true p s e =>
      match vloop f isRef p s with None => None | Some rest => Some (e ++ rest) end
  | VnRes false _ _ e => Some e
  end.

Lemma vloop_S isRef f prec s :
  vloop (S f) isRef prec s =
  match validate_next (S f) isRef prec s with None => None | Some r => continue isRef f r end.
Proof. cbn [vloop]. destruct (validate_next (S f) isRef prec s) as [[[] ? ? ?]|]; reflexivity. Qed.

Definition sound_at (isRef : bool) (f : nat) : Prop :=
  forall p s, hd_ok (sc_rest s) -> vloop f isRef p s = Some [] -> elems isRef p (sc_rest s).

Lemma finish_sound isRef f (IH : sound_at isRef f) c p s errs :
  continue isRef f (finish isRef c p s errs) = Some [] ->
  errs = [] /\ (hd_ok (sc_rest s) -> elems isRef p (sc_rest s)) /\
  (isRef = true -> sc_rest s = [] -> rune_is c 47 || rune_is c 46 = false).
Proof.
  unfold finish. destruct (at_eof s) eqn:A.
  - apply at_eof_iff in A. cbn. intros H. injection H as H. apply app_eq_nil in H. destruct H as [H0 H1].
    split; [exact H0|]. split.
    + intros _. rewrite A. constructor.
    + intros R _. rewrite R in H1. cbn [andb] in H1. destruct (rune_is c 47 || rune_is c 46); [discriminate|reflexivity].
  - cbn. destruct (vloop f isRef p s) as [rest|] eqn:V; [|discriminate]. intros H. injection H as H.
    apply app_eq_nil in H. destruct H as [H0 H1]. subst rest.
    split; [exact H0|]. split; [intros; apply IH; auto|]. intros _ E. apply at_eof_iff in E. congruence.
Qed.

Lemma vn_sound isRef f (IH : sound_at isRef f) prec s : hd_ok (sc_rest s) ->
  vloop (S f) isRef prec s = Some [] -> elems isRef prec (sc_rest s).
Proof.
  intros Hok H. pose proof (finish_sound isRef f IH) as FS. clear IH.
  rewrite vloop_S in H. unfold validate_next in H.
  destruct (next s) as [[c s1] e1] eqn:N1.
  apply next_inv in N1; auto.
  destruct N1 as [(E & -> & -> & ->)|(x & E & Hx & -> & He1)].
  { rewrite E. constructor. }
  rewrite E. cbn [rune_is] in H.
  destruct (N.eqb_spec x 92) as [->|N92].
  { (* backslash *)
    destruct (peek_is s1 91 || peek_is s1 63 || peek_is s1 42) eqn:P1.
    { destruct (next s1) as [[c2 s2] e2] eqn:N2.
      apply FS in H. destruct H as (He & Hel & _). nils. subst.
      assert (Hs1 : hd_ok (sc_rest s1)) by now apply He1.
      destruct isRef eqn:R; [nils|].
      apply next_inv in N2; auto. destruct N2 as [(E2 & _)|(y & E2 & Hy & -> & He2)].
      { rewrite !(peek_is_nil _ _ E2) in P1. discriminate. }
      rewrite E2. apply E_esc; [|discriminate|apply Hel; now apply He2].
      unfold escapable. rewrite !orb_true_iff in P1.
      destruct P1 as [[P|P]|P]; apply peek_is_iff in P; try reflexivity; destruct P as [r P]; rewrite E2 in P; injection P as Py _; tauto. }
    destruct (peek_is s1 43 || peek_is s1 92 || peek_is s1 33) eqn:P2.
    { destruct (next s1) as [[c2 s2] e2] eqn:N2.
      apply FS in H. destruct H as (He & Hel & _). nils. subst.
      assert (Hs1 : hd_ok (sc_rest s1)) by now apply He1.
      apply next_inv in N2; auto. destruct N2 as [(E2 & _)|(y & E2 & Hy & -> & He2)].
      { rewrite !(peek_is_nil _ _ E2) in P2. discriminate. }
      rewrite E2. rewrite !orb_true_iff in P2.
      assert (Y : y = 43 \/ y = 92 \/ y = 33).
      { destruct P2 as [[P|P]|P]; apply peek_is_iff in P; try reflexivity; destruct P as [r P]; rewrite E2 in P; injection P as Py _; tauto. }
      apply E_esc.
      - unfold escapable; tauto.
      - intros _. destruct Y as [Y|[Y|Y]]; subst y; repeat split; discriminate.
      - apply Hel; now apply He2. }
    destruct isRef eqn:R.
    { destruct (next s1) as [[c2 s2] e2]. apply FS in H. destruct H as (He & _). nils. }
    apply FS in H. destruct H as (He & Hel & _). subst.
    assert (Hs1 : hd_ok (sc_rest s1)) by now apply He1.
    apply E_backslash; [reflexivity| |auto].
    intros c l' El. rewrite !orb_false_iff in P1, P2. destruct P1 as [[Pa Pb] Pc]. destruct P2 as [[Pd Pe] Pf].
    unfold escapable. intros K.
    repeat match goal with P : peek_is s1 _ = false |- _ => eapply peek_is_false in P; [|reflexivity|exact El] end.
    tauto. }
  destruct (N.eqb_spec x 63) as [->|N63].
  { apply FS in H. destruct H as (He & Hel & _). nils. destruct prec; [|nils]. subst.
    apply E_opt. apply Hel. now apply He1. }
  destruct (N.eqb_spec x 43) as [->|N43].
  { apply FS in H. destruct H as (He & Hel & _). nils. destruct prec; [|nils]. subst.
    apply E_plus. apply Hel. now apply He1. }
  destruct (N.eqb_spec x 42) as [->|N42].
  { apply FS in H. destruct H as (He & Hel & _). subst.
    apply E_star. apply Hel. now apply He1. }
  destruct (N.eqb_spec x 91) as [->|N91].
  { destruct (peek_is s1 93) eqn:P1.
    { destruct (next s1) as [[c2 s2] e2]. apply FS in H. destruct H as (He & _). nils. }
    destruct (set_loop (S f) isRef s1 0) as [[c' chars s2 errs|s2 errs]|] eqn:SL; [| |discriminate].
    2:{ cbn in H. inversion H. nils. subst. apply set_eof_errs in SL. contradiction. }
    apply FS in H. destruct H as (He & Hel & _). nils. subst.
    assert (Hs1 : hd_ok (sc_rest s1)) by now apply He1.
    apply set_sound in SL; auto. destruct SL as (-> & Hs2 & k & -> & Hk).
    cbn [Nat.add] in *.
    apply E_set with (k := k) (rest := sc_rest s2); auto.
    destruct k as [|[|k]]; [| |lia].
    - apply set_items_zero in Hk. eapply peek_is_false in P1; [|reflexivity|exact Hk]. congruence.
    - match goal with H : (if Nat.eqb 1 1 then _ else _) = [] |- _ => cbn in H; discriminate end. }
  destruct (N.eqb_spec x 13) as [->|N13].
  { destruct (peek_is s1 10).
    - destruct (next s1) as [[c2 s2] e2]. apply FS in H. destruct H as (He & _). nils.
    - apply FS in H. destruct H as (He & _). nils. }
  destruct (N.eqb_spec x 10) as [->|N10].
  { apply FS in H. destruct H as (He & _). nils. }
  assert (SP : ~ special x) by (unfold special; intros [?|[?|[?|[?|?]]]]; congruence).
  assert (LB : ~ line_break x) by (unfold line_break; intros [?|?]; congruence).
  destruct (is_ref_forbidden x) eqn:F.
  { apply FS in H. destruct H as (He & Hel & _). nils. subst.
    destruct isRef eqn:R; [nils|].
    apply E_char; auto; [discriminate|]. apply Hel. now apply He1. }
  apply FS in H. destruct H as (He & Hel & Htr). subst.
  apply is_ref_forbidden_false in F.
  apply E_char; auto; [|apply Hel; now apply He1].
  intros R. split; auto. intros Hx47 El. specialize (Htr R El). cbn [rune_is] in Htr.
  apply orb_false_iff in Htr. destruct Htr as [T1 T2]. apply N.eqb_neq in T1, T2. tauto.
Qed.

Lemma vloop_sound isRef : forall f prec s, hd_ok (sc_rest s) ->
  vloop f isRef prec s = Some [] -> elems isRef prec (sc_rest s).
Proof.
  induction f as [|f IH]; intros prec s Hok H; [discriminate|].
  eapply vn_sound; eauto.
Qed.

(* ---------- the main loop: completeness ---------- *)
Lemma elems_hd_ok isRef p l : elems isRef p l -> hd_ok l.
Proof. intros H. inversion H; subst; cbn; auto; unfold is_char; lia. Qed.

Lemma finish_complete isRef f c p s :
  (sc_rest s = [] -> isRef = true -> rune_is c 47 || rune_is c 46 = false) ->
  (sc_rest s <> [] -> vloop f isRef p s = Some []) ->
  continue isRef f (finish isRef c p s []) = Some [].
Proof.
  intros Ht Hc. unfold finish. destruct (at_eof s) eqn:A.
  - apply at_eof_iff in A. cbn. destruct isRef; [|reflexivity]. rewrite (Ht A eq_refl). reflexivity.
  - cbn. rewrite Hc; [reflexivity|]. intros K. apply at_eof_iff in K. congruence.
Qed.

Ltac step_next s x r E Hx Hr :=
  rewrite (next_char s x r E Hx Hr); cbv beta iota zeta; cbn [rune_is].

Lemma is_char_const c : (c =? 0) = false -> (c <? 1114112) = true -> is_char c.
Proof. intros H1 H2. apply N.eqb_neq in H1. apply N.ltb_lt in H2. split; auto. Qed.

Ltac ischar := apply is_char_const; reflexivity.
Lemma ic42 : is_char 42. Proof. ischar. Qed.
Lemma ic63 : is_char 63. Proof. ischar. Qed.
Lemma ic43 : is_char 43. Proof. ischar. Qed.
Lemma ic92 : is_char 92. Proof. ischar. Qed.
Lemma ic91 : is_char 91. Proof. ischar. Qed.

Lemma vloop_complete isRef : forall p l, elems isRef p l ->
  forall fuel s, sc_rest s = l -> (length l < fuel)%nat -> vloop fuel isRef p s = Some [].
Proof.
  induction 1 as [p | p l Hl IH | l Hl IH | l Hl IH | p c l Hesc Href Hl IH | p l Hpath Hne Hl IH
                 | p k l rest Hset Hk Hl IH | p c l Hc Hsp Hlb Href Hl IH];
    intros fuel s E Hlen; (destruct fuel as [|f]; [lia|]); rewrite vloop_S; unfold validate_next.
  - (* end *)
    unfold next. rewrite E. cbn. unfold finish, at_eof. rewrite E. cbn. rewrite andb_false_r. reflexivity.
  - (* star *)
    pose proof (elems_hd_ok _ _ _ Hl) as Hok.
    step_next s 42 l E ic42 Hok. cbn.
    apply finish_complete; [reflexivity|]. intros _. apply IH; [reflexivity|cbn in Hlen; lia].
  - (* ? *)
    pose proof (elems_hd_ok _ _ _ Hl) as Hok.
    step_next s 63 l E ic63 Hok. cbn.
    apply finish_complete; [reflexivity|]. intros _. apply IH; [reflexivity|cbn in Hlen; lia].
  - (* + *)
    pose proof (elems_hd_ok _ _ _ Hl) as Hok.
    step_next s 43 l E ic43 Hok. cbn.
    apply finish_complete; [reflexivity|]. intros _. apply IH; [reflexivity|cbn in Hlen; lia].
  - (* escape *)
    pose proof (elems_hd_ok _ _ _ Hl) as Hok.
    assert (Hcc : is_char c) by (destruct Hesc as [ -> | [ -> | [ -> | [ -> | [ -> | -> ] ] ] ] ]; ischar).
    step_next s 92 (c :: l) E ic92 Hcc. cbn [N.eqb Pos.eqb].
    set (s1 := adv s 92 (c :: l)).
    assert (IHc : forall s2, sc_rest s2 = l -> sc_rest s2 <> [] -> vloop f isRef true s2 = Some []).
    { intros s2 E2 _. apply IH; [exact E2|cbn in Hlen; lia]. }
    assert (TR : forall s2, sc_rest s2 = [] -> isRef = true -> rune_is (Some c) 47 || rune_is (Some c) 46 = false).
    { intros _ _ _. cbn. destruct Hesc as [ -> | [ -> | [ -> | [ -> | [ -> | -> ] ] ] ] ]; reflexivity. }
    subst s1.
    destruct Hesc as [ -> | [ -> | [ -> | [ -> | [ -> | -> ] ] ] ] ];
      repeat match goal with
      | |- context [peek_is (adv ?a ?b (?c :: ?d)) ?k] =>
          let v := eval vm_compute in (peek_is (adv a b (c :: d)) k) in
          change (peek_is (adv a b (c :: d)) k) with v
      end; cbn [orb];
      match goal with |- context [next (adv s 92 (?c :: l))] =>
        rewrite (next_char (adv s 92 (c :: l)) c l eq_refl Hcc Hok) end;
      cbv beta iota zeta;
      try (destruct isRef; [destruct (Href eq_refl) as (? & ? & ?); congruence|]); cbn [app];
      (apply finish_complete; [apply TR; reflexivity|apply IHc; reflexivity]).
  - (* lone backslash in a path *)
    subst isRef. pose proof (elems_hd_ok _ _ _ Hl) as Hok.
    step_next s 92 l E ic92 Hok. cbn [N.eqb Pos.eqb].
    set (s1 := adv s 92 l).
    assert (PK : forall k, k < 65533 -> escapable k -> peek_is s1 k = false).
    { intros k Hk Hek. destruct l as [|y l'] eqn:El; [apply peek_is_nil; reflexivity|].
      eapply peek_is_other; [exact Hk|reflexivity|]. intros ->. eapply Hne; eauto. }
    rewrite !PK by (try reflexivity; unfold escapable; tauto). cbn [orb].
    apply finish_complete; [discriminate|]. intros _. apply IH; [reflexivity|cbn in Hlen; lia].
  - (* set *)
    pose proof (elems_hd_ok _ _ _ Hl) as Hok. pose proof (set_items_hd_ok _ _ _ _ Hset) as Hlok.
    step_next s 91 l E ic91 Hlok. cbn [N.eqb Pos.eqb].
    set (s1 := adv s 91 l).
    assert (P : peek_is s1 93 = false).
    { destruct l as [|y l'] eqn:El; [apply peek_is_nil; reflexivity|].
      eapply peek_is_other; [reflexivity|reflexivity|]. intros ->.
      inversion Hset; subst; try congruence. lia. }
    rewrite P.
    destruct (set_complete isRef k l rest Hset Hok (S f) s1 0%nat eq_refl) as (s2 & Hs2 & E2).
    { cbn in Hlen. lia. }
    rewrite Hs2. cbn [Nat.add].
    destruct (Nat.eqb_spec k 1); [lia|]. cbn [app].
    apply finish_complete; [reflexivity|]. intros _. apply IH; [exact E2|].
    (* the rest is shorter than the pattern *)
    pose proof (set_loop_total (S f) isRef s1 0%nat) as T. rewrite Hs2 in T.
    destruct T as (r & Hr & Hsh); [cbn in Hlen |- *; lia|]. inversion Hr; subst r. unfold shorter in Hsh.
    rewrite E2 in Hsh. cbn in Hsh, Hlen. lia.
  - (* ordinary character *)
    pose proof (elems_hd_ok _ _ _ Hl) as Hok.
    step_next s c l E Hc Hok.
    destruct (N.eqb_spec c 92); [exfalso; apply Hsp; unfold special; tauto|].
    destruct (N.eqb_spec c 63); [exfalso; apply Hsp; unfold special; tauto|].
    destruct (N.eqb_spec c 43); [exfalso; apply Hsp; unfold special; tauto|].
    destruct (N.eqb_spec c 42); [exfalso; apply Hsp; unfold special; tauto|].
    destruct (N.eqb_spec c 91); [exfalso; apply Hsp; unfold special; tauto|].
    destruct (N.eqb_spec c 13); [exfalso; apply Hlb; unfold line_break; tauto|].
    destruct (N.eqb_spec c 10); [exfalso; apply Hlb; unfold line_break; tauto|].
    assert (CONT : sc_rest (adv s c l) <> [] -> vloop f isRef true (adv s c l) = Some []).
    { intros _. apply IH; [reflexivity|cbn in Hlen; lia]. }
    assert (TR : sc_rest (adv s c l) = [] -> isRef = true -> rune_is (Some c) 47 || rune_is (Some c) 46 = false).
    { intros El R. destruct (Href R) as [_ Hlast]. cbn [rune_is].
      destruct (N.eqb_spec c 47); [exfalso; apply Hlast; auto|].
      destruct (N.eqb_spec c 46); [exfalso; apply Hlast; auto|]. reflexivity. }
    destruct (is_ref_forbidden c) eqn:F.
    + apply is_ref_forbidden_iff in F.
      destruct isRef; [destruct (Href eq_refl); contradiction|]. cbn [app].
      apply finish_complete; auto.
    + apply finish_complete; auto.
Qed.

(* ---------- validate ---------- *)
Definition after_bang (isRef : bool) (fuel : nat) (s : scanner) (prec : bool) (errs : list diag) :=
  if isRef && peek_is s 47 then
    let '(_, s', e) := next s in
    match vloop fuel isRef true s' with
    | None => None
    | Some rest => Some (errs ++ e ++ [invalid_ref_char s' (Some 47) RefLead] ++ rest)
    end
  else
    match vloop fuel isRef prec s with
    | None => None
    | Some rest => Some (errs ++ rest)
    end.

Definition core (isRef : bool) (fuel : nat) (s0 : scanner) (e0 : list diag) :=
  if peek_is s0 33 then
    let '(_, s1, e1) := next s0 in
    if at_eof s1 then Some (e0 ++ e1 ++ [unexpected s1 (Some 33) BangAlone])
    else after_bang isRef fuel s1 false (e0 ++ e1)
  else after_bang isRef fuel s0 false e0.

Lemma validate_fuel_core fuel isRef x r :
  validate_fuel fuel isRef (x :: r) = let '(s0, e0) := init_scan (x :: r) in core isRef fuel s0 e0.
Proof. reflexivity. Qed.

Definition rest_ok (isRef : bool) (l : list N) : Prop :=
  (isRef = true -> forall l', l <> 47 :: l') /\ elems isRef false l.

Lemma after_bang_exact isRef fuel s errs :
  (length (sc_rest s) < fuel)%nat -> (errs = [] -> hd_ok (sc_rest s)) ->
  (after_bang isRef fuel s false errs = Some [] <-> errs = [] /\ rest_ok isRef (sc_rest s)).
Proof.
  intros Hlen Hok. unfold after_bang, rest_ok.
  destruct (isRef && peek_is s 47) eqn:B.
  - apply andb_true_iff in B. destruct B as [R P]. apply peek_is_iff in P; [|reflexivity]. destruct P as [r P].
    destruct (next s) as [[c s'] e]. split.
    + destruct (vloop fuel isRef true s'); [|discriminate]. intros H. injection H as H. nils.
    + intros (_ & H & _). exfalso. eapply H; eauto.
  - assert (NS : isRef = true -> forall l', sc_rest s <> 47 :: l').
    { intros R l' E. rewrite R in B. cbn in B. erewrite peek_is_hd in B; eauto; [discriminate|reflexivity]. }
    split.
    + destruct (vloop fuel isRef false s) as [rest|] eqn:V; [|discriminate]. intros H. injection H as H. nils. subst.
      split; auto. split; auto. apply vloop_sound with (f := fuel); auto.
    + intros (-> & _ & H). rewrite (vloop_complete isRef false _ H fuel s eq_refl Hlen). reflexivity.
Qed.

Definition core_valid (isRef : bool) (l : list N) : Prop :=
  (exists l', l = 33 :: l' /\ body_ok isRef l') \/ ((forall l', l <> 33 :: l') /\ body_ok isRef l).

Lemma body_ok_rest isRef l : body_ok isRef l <-> l <> [] /\ rest_ok isRef l.
Proof. unfold body_ok, rest_ok. tauto. Qed.

Lemma core_exact isRef fuel s0 e0 :
  (length (sc_rest s0) < fuel)%nat -> sc_rest s0 <> [] -> (e0 = [] -> hd_ok (sc_rest s0)) ->
  (core isRef fuel s0 e0 = Some [] <-> e0 = [] /\ core_valid isRef (sc_rest s0)).
Proof.
  intros Hlen Hne Hok. unfold core, core_valid.
  destruct (peek_is s0 33) eqn:P.
  - apply peek_is_iff in P; [|reflexivity]. destruct P as [r P].
    destruct (next s0) as [[c s1] e1] eqn:N1.
    assert (NX : e0 = [] -> sc_rest s1 = r /\ (e1 = [] <-> hd_ok r)).
    { intros E0. apply next_inv in N1; auto. destruct N1 as [(E & _)|(x & E & Hx & _ & He)]; [congruence|].
      rewrite P in E. injection E as Ex Er. subst x r. split; [reflexivity|exact He]. }
    assert (LEN : (length (sc_rest s1) < fuel)%nat).
    { apply next_shorter in N1. lia. }
    destruct (at_eof s1) eqn:A.
    + split; [intros H; injection H as H; nils|].
      intros (E0 & [(l' & E & Hb)|(Hn & _)]); [|exfalso; eapply Hn; eauto].
      destruct (NX E0) as [Er _]. apply at_eof_iff in A. rewrite P in E. injection E as <-.
      destruct Hb as [Hb _]. congruence.
    + rewrite after_bang_exact; auto.
      * split.
        -- intros (E & Hr). nils. subst. split; auto. left. exists r. split; auto.
           destruct (NX eq_refl) as [Er _]. rewrite Er in *. apply body_ok_rest. split; auto.
           intros ->. apply at_eof_iff in Er. congruence.
        -- intros (E0 & [(l' & E & Hb)|(Hn & _)]); [|exfalso; eapply Hn; eauto].
           rewrite P in E. injection E as <-. destruct (NX E0) as [Er He]. subst e0. rewrite Er.
           apply body_ok_rest in Hb. destruct Hb as [_ Hb]. split; auto.
           assert (hd_ok r) by (destruct Hb as [_ Hb]; eapply elems_hd_ok; eauto).
           cbn. now apply He.
      * intros E. nils. subst. destruct (NX eq_refl) as [Er He]. rewrite Er. now apply He.
  - rewrite after_bang_exact; auto.
    assert (NB : forall l', sc_rest s0 <> 33 :: l').
    { intros l' E. erewrite peek_is_hd in P; eauto; [discriminate|reflexivity]. }
    split.
    + intros (E & Hr). split; auto. right. split; auto. apply body_ok_rest. auto.
    + intros (E & [(l' & El & _)|(_ & Hb)]); [exfalso; eapply NB; eauto|].
      destruct (proj1 (body_ok_rest _ _) Hb) as [_ Hr]. auto.
Qed.

Definition no_bom (pat : list N) : Prop := forall l, pat <> 65279 :: l.

Lemma validate_exact isRef pat : no_bom pat ->
  (validate isRef pat = Some [] <-> core_valid isRef pat).
Proof.
  intros NB. unfold validate. destruct pat as [|x r].
  - cbn. split; [discriminate|]. unfold core_valid, body_ok. intros [(l' & E & _)|(_ & H & _)]; congruence.
  - rewrite validate_fuel_core. unfold init_scan.
    set (s0 := mkSc 0 false (x :: r)).
    assert (P : peek_is s0 bom = false).
    { destruct (peek_is s0 bom) eqn:P; auto. apply peek_is_iff in P; [|reflexivity].
      destruct P as [r' P]. cbn in P. exfalso. eapply NB; eauto. }
    rewrite P. rewrite core_exact.
    + cbn [sc_rest s0]. split; [tauto|]. intros H. split; auto.
      apply read_errs_nil. cbn [sc_rest s0].
      destruct H as [(l' & E & _)|(_ & Hb)].
      * injection E as -> _. cbn. unfold is_char; lia.
      * destruct Hb as (_ & _ & He). eapply elems_hd_ok; eauto.
    + cbn. unfold fuel_of. cbn. lia.
    + cbn. discriminate.
    + intros E. now apply read_errs_nil.
Qed.

Lemma hd_is_iff l c : hd_is l c = true <-> exists l', l = c :: l'.
Proof.
  destruct l as [|x l']; cbn.
  - split; [discriminate|intros [? ?]; discriminate].
  - rewrite N.eqb_eq. split; [intros ->; eauto|intros [? H]; congruence].
Qed.

Lemma last_is_iff l c : last_is l c = true <-> l <> [] /\ last l 0 = c.
Proof.
  unfold last_is. destruct l as [|x l'].
  - split; [discriminate|intros [H _]; congruence].
  - rewrite N.eqb_eq. split; [intros H; split; [discriminate|exact H]|tauto].
Qed.

(* glob_exact: nothing is reported iff the pattern is valid *)
Lemma glob_exact isRef pat : no_bom pat ->
  (validate_mode isRef pat = Some [] <-> valid isRef pat).
Proof.
  intros NB. unfold valid. fold (core_valid isRef pat). destruct isRef; cbn [validate_mode].
  - unfold validate_ref. rewrite (validate_exact true pat NB). split; [intros H; split; [discriminate|exact H]|tauto].
  - unfold validate_path.
    destruct (hd_is pat 32) eqn:Hh.
    { apply hd_is_iff in Hh. destruct Hh as [l' ->]. split; [discriminate|].
      intros [H _]. destruct (H eq_refl) as [H1 _]. exfalso. eapply H1; eauto. }
    destruct (last_is pat 32) eqn:Hl.
    { apply last_is_iff in Hl. destruct Hl as [Hne Hl]. split; [discriminate|].
      intros [H _]. destruct (H eq_refl) as [_ H2]. exfalso. apply H2; auto. }
    rewrite (validate_exact false pat NB). split; [|tauto]. intros H. split; [|exact H]. intros _. split.
    + intros l E. assert (T : hd_is pat 32 = true) by (apply hd_is_iff; eauto). congruence.
    + intros Hne E. assert (T : last_is pat 32 = true) by (apply last_is_iff; auto). congruence.
Qed.

(* ---------- ref => path ---------- *)
Lemma set_items_mono k l rest : set_items true k l rest -> set_items false k l rest.
Proof.
  induction 1.
  - constructor.
  - apply S_single; auto. destruct H0 as (? & ? & ?). split; [assumption|]. split; [assumption|intros; discriminate].
  - apply S_range; auto.
    + destruct H1 as (? & ? & ?). split; [assumption|]. split; [assumption|intros; discriminate].
    + destruct H2 as (? & ? & ?). split; [assumption|]. split; [assumption|intros; discriminate].
Qed.

Lemma elems_mono p l : elems true p l -> elems false p l.
Proof.
  induction 1.
  - constructor.
  - now apply E_star.
  - now apply E_opt.
  - now apply E_plus.
  - apply E_esc; auto; intros; discriminate.
  - discriminate.
  - eapply E_set; eauto. now apply set_items_mono.
  - apply E_char; auto; intros; discriminate.
Qed.

Lemma last_app_ne (a b : list N) d : b <> [] -> last (a ++ b) d = last b d.
Proof.
  intros Hb. induction a as [|x a IH]; [reflexivity|].
  cbn [app]. destruct (a ++ b) eqn:E.
  - destruct a; [cbn in E; congruence|discriminate].
  - rewrite <- IH. reflexivity.
Qed.

Lemma set_items_split isRef k l rest : set_items isRef k l rest -> exists body, l = body ++ 93 :: rest.
Proof.
  induction 1 as [rest|k c l rest _ _ _ _ [body ->]|k lo hi l rest _ _ _ _ _ _ [body ->]].
  - exists []. reflexivity.
  - exists (c :: body). reflexivity.
  - exists (lo :: 45 :: hi :: body). reflexivity.
Qed.

Lemma last_cons_ne (x : N) l d : l <> [] -> last (x :: l) d = last l d.
Proof. destruct l; [congruence|reflexivity]. Qed.

Lemma elems_ref_last p l : elems true p l -> l <> [] -> last l 0 <> 32.
Proof.
  induction 1 as [p | p l Hl IH | l Hl IH | l Hl IH | p c l Hesc Href Hl IH | p l Hpath Hne Hl IH
                 | p k l rest Hset Hk Hl IH | p c l Hc Hsp Hlb Href Hl IH]; intros Hnn.
  - congruence.
  - destruct l; [cbn; discriminate|]. rewrite last_cons_ne by discriminate. apply IH. discriminate.
  - destruct l; [cbn; discriminate|]. rewrite last_cons_ne by discriminate. apply IH. discriminate.
  - destruct l; [cbn; discriminate|]. rewrite last_cons_ne by discriminate. apply IH. discriminate.
  - rewrite last_cons_ne by discriminate. destruct l.
    + cbn. destruct Hesc as [ -> | [ -> | [ -> | [ -> | [ -> | -> ] ] ] ] ]; discriminate.
    + rewrite last_cons_ne by discriminate. apply IH. discriminate.
  - discriminate.
  - apply set_items_split in Hset. destruct Hset as [body ->].
    change (91 :: body ++ 93 :: rest) with ((91 :: body) ++ 93 :: rest).
    rewrite last_app_ne by discriminate. destruct rest.
    + cbn. discriminate.
    + rewrite last_cons_ne by discriminate. apply IH. discriminate.
  - destruct l.
    + cbn. destruct (Href eq_refl) as [Hf _]. intros ->. apply Hf. unfold ref_forbidden. tauto.
    + rewrite last_cons_ne by discriminate. apply IH. discriminate.
Qed.

Lemma elems_ref_hd p l l' : elems true p l -> l <> 32 :: l'.
Proof.
  intros H E. subst. inversion H; subst.
  match goal with H : true = true -> ~ ref_forbidden 32 /\ _ |- _ => destruct (H eq_refl) as [Hf _]; apply Hf end.
  unfold ref_forbidden. tauto.
Qed.

Lemma body_ok_mono l : body_ok true l -> body_ok false l.
Proof.
  intros (Hne & _ & He). split; auto. split; [discriminate|]. now apply elems_mono.
Qed.

(* every pattern valid as a ref filter is valid as a path filter *)
Lemma valid_ref_path pat : valid true pat -> valid false pat.
Proof.
  intros [_ H]. split.
  - intros _. destruct H as [(l & -> & Hb)|(Hn & Hb)].
    + split; [discriminate|]. intros _. destruct Hb as (Hne & _ & He).
      rewrite last_cons_ne by assumption. eapply elems_ref_last; eauto.
    + destruct Hb as (Hne & _ & He). split.
      * intros l. eapply elems_ref_hd; eauto.
      * intros _. eapply elems_ref_last; eauto.
  - destruct H as [(l & -> & Hb)|(Hn & Hb)]; [left|right]; eauto using body_ok_mono.
Qed.

Lemma ref_implies_path pat : no_bom pat ->
  validate_ref pat = Some [] -> validate_path pat = Some [].
Proof.
  intros NB H. apply (glob_exact false pat NB). apply valid_ref_path. apply (glob_exact true pat NB). exact H.
Qed.

(* the excluded class is not empty talk: with a leading U+FEFF the
   equivalence fails (known finding C17-leading-bom) *)
Lemma glob_exact_bom_refuted :
  exists isRef pat, valid isRef pat /\ validate_mode isRef pat <> Some [].
Proof.
  exists false, [65279; 43]. split; [|vm_compute; discriminate].
  split.
  - intros _. split; [discriminate|]. cbn. discriminate.
  - right. split; [discriminate|]. split; [discriminate|]. split; [discriminate|].
    apply E_char.
    + unfold is_char; lia.
    + unfold special; lia.
    + unfold line_break; lia.
    + discriminate.
    + apply E_plus. constructor.
Qed.

(* the hypotheses are satisfiable by non-trivial patterns: "v[0-9]+.*" is a
   valid ref (hence path) filter, and is accepted *)
Example valid_example : valid true [118; 91; 48; 45; 57; 93; 43; 46; 42] /\
  validate_ref [118; 91; 48; 45; 57; 93; 43; 46; 42] = Some [] /\
  no_bom [118; 91; 48; 45; 57; 93; 43; 46; 42].
Proof.
  assert (NB : no_bom [118; 91; 48; 45; 57; 93; 43; 46; 42]) by (intros l; discriminate).
  assert (V : validate_ref [118; 91; 48; 45; 57; 93; 43; 46; 42] = Some []) by (vm_compute; reflexivity).
  split; [|split; auto]. apply (glob_exact true _ NB). exact V.
Qed.
