(* Base/Str.v — strings as Coq [string] (byte sequences); ASCII lower-casing,
   substring search, the Go helper [ContainsExpression] (ast.go). *)
From Coq Require Export String Ascii List Bool Arith NArith Lia.
Export ListNotations.
Open Scope string_scope.
Open Scope nat_scope.
Open Scope list_scope.

(* ASCII lower-casing (strings.ToLower restricted to ASCII; non-ASCII cased
   letters are outside the model, see DESIGN.md section 3). *)
Definition lower_ascii (c : ascii) : ascii :=
  let n := nat_of_ascii c in
  if andb (65 <=? n) (n <=? 90) then ascii_of_nat (n + 32) else c.

Fixpoint lower (s : string) : string :=
  match s with
  | EmptyString => EmptyString
  | String c s' => String (lower_ascii c) (lower s')
  end.

Definition upper_ascii (c : ascii) : ascii :=
  let n := nat_of_ascii c in
  if andb (97 <=? n) (n <=? 122) then ascii_of_nat (n - 32) else c.

Fixpoint upper (s : string) : string :=
  match s with
  | EmptyString => EmptyString
  | String c s' => String (upper_ascii c) (upper s')
  end.

(* strings.Index(s, sub): first occurrence or None. *)
Definition str_index (sub s : string) : option nat := String.index 0 sub s.

(* ast.go: func ContainsExpression(s string) bool {
     i := strings.Index(s, "${{"); return i >= 0 && i < strings.Index(s, "}}") } *)
(* ContainsExpression (ast.go): the closing braces are looked for AFTER the opening (from the
   repair of the round-7 defect on; before it the FIRST "}}" of the string had to lie behind the
   first "${{", so `c }} ${{ x }}` counted as plain text: [contains_expr_old]) *)
Definition contains_expr (s : string) : bool :=
  match str_index "${{" s with
  | Some i => match String.index i "}}" s with Some _ => true | None => false end
  | None => false
  end.

Definition contains_expr_old (s : string) : bool :=
  match str_index "${{" s, str_index "}}" s with
  | Some i, Some j => i <? j
  | _, _ => false
  end.

Lemma contains_expr_spec s :
  contains_expr s = true <-> exists i j, String.index 0 "${{" s = Some i /\ String.index i "}}" s = Some j.
Proof.
  unfold contains_expr, str_index. split.
  - destruct (String.index 0 "${{" s) as [i|]; [|discriminate].
    destruct (String.index i "}}" s) as [j|] eqn:E; [|discriminate]. intros _. exists i, j. auto.
  - intros (i & j & Hi & Hj). now rewrite Hi, Hj.
Qed.

Lemma contains_expr_old_refuted :
  exists s, contains_expr s = true /\ contains_expr_old s = false.
Proof. exists "c }} ${{ github.ref }}"%string. split; reflexivity. Qed.

Lemma lower_ascii_idem c : lower_ascii (lower_ascii c) = lower_ascii c.
Proof.
  unfold lower_ascii.
  destruct (andb (65 <=? nat_of_ascii c) (nat_of_ascii c <=? 90)) eqn:E; [|rewrite E; reflexivity].
  apply andb_prop in E. destruct E as [E1 E2].
  apply Nat.leb_le in E1. apply Nat.leb_le in E2.
  rewrite nat_ascii_embedding by lia.
  replace (nat_of_ascii c + 32 <=? 90) with false by (symmetry; apply Nat.leb_gt; lia).
  rewrite andb_false_r. reflexivity.
Qed.

Lemma lower_idem s : lower (lower s) = lower s.
Proof. induction s as [|c s IH]; cbn; [reflexivity|]. now rewrite lower_ascii_idem, IH. Qed.

Lemma string_eqb_refl s : String.eqb s s = true.
Proof. apply String.eqb_eq. reflexivity. Qed.
