(* Base/Corr.v — helpers for the correspondence check: observables are lists
   of number tuples, compared after sorting; [mismatches] returns the indices
   of the cases on which the model's observable differs from the recorded one. *)
From Coq Require Import List NArith Bool.
Import ListNotations.

Definition tuple := list N.

Fixpoint tuple_leb (a b : tuple) : bool :=
  match a, b with
  | [], _ => true
  | _ :: _, [] => false
  | x :: a', y :: b' => if N.ltb x y then true else if N.eqb x y then tuple_leb a' b' else false
  end.

Fixpoint tuple_eqb (a b : tuple) : bool :=
  match a, b with
  | [], [] => true
  | x :: a', y :: b' => N.eqb x y && tuple_eqb a' b'
  | _, _ => false
  end.

Fixpoint insert_t (x : tuple) (l : list tuple) : list tuple :=
  match l with
  | [] => [x]
  | y :: l' => if tuple_leb x y then x :: l else y :: insert_t x l'
  end.

Definition sort_t (l : list tuple) : list tuple := fold_right insert_t [] l.

Fixpoint tuples_eqb (a b : list tuple) : bool :=
  match a, b with
  | [], [] => true
  | x :: a', y :: b' => tuple_eqb x y && tuples_eqb a' b'
  | _, _ => false
  end.

(* unordered comparison *)
Definition same_set (a b : list tuple) : bool := tuples_eqb (sort_t a) (sort_t b).

Section Mismatch.
Context {A : Type} (run : A -> list tuple).
Fixpoint mismatches_from (i : nat) (cases : list (A * list tuple)) : list nat :=
  match cases with
  | [] => []
  | (a, want) :: cs =>
      if same_set (run a) want then mismatches_from (S i) cs
      else i :: mismatches_from (S i) cs
  end.
Definition mismatches := mismatches_from 0.

(* ordered comparison, for observables whose order is part of the contract *)
Fixpoint mismatches_ord_from (i : nat) (cases : list (A * list tuple)) : list nat :=
  match cases with
  | [] => []
  | (a, want) :: cs =>
      if tuples_eqb (run a) want then mismatches_ord_from (S i) cs
      else i :: mismatches_ord_from (S i) cs
  end.
Definition mismatches_ord := mismatches_ord_from 0.
End Mismatch.
