(* Base/AList.v — Go maps as association lists with distinct keys.  Every
   "for k, v := range m" is modelled as iteration over the list in the given
   order; order independence is stated as invariance under [Permutation]. *)
From AL Require Export Base.Str.
From Coq Require Export Permutation.

Section AList.
Context {V : Type}.

Fixpoint lookup (k : string) (m : list (string * V)) : option V :=
  match m with
  | [] => None
  | (k', v) :: m' => if String.eqb k k' then Some v else lookup k m'
  end.

Definition keys (m : list (string * V)) : list string := map fst m.
Definition NoDupKeys (m : list (string * V)) : Prop := NoDup (keys m).

Lemma lookup_In k v m : lookup k m = Some v -> In (k, v) m.
Proof.
  induction m as [|[k' v'] m IH]; cbn; [discriminate|].
  destruct (String.eqb k k') eqn:E.
  - apply String.eqb_eq in E. subst. intros H; inversion H; subst. now left.
  - intros H. right. now apply IH.
Qed.

Lemma lookup_None k m : lookup k m = None <-> ~ In k (keys m).
Proof.
  induction m as [|[k' v'] m IH]; cbn.
  - split; [intros _ []|reflexivity].
  - destruct (String.eqb k k') eqn:E.
    + apply String.eqb_eq in E. subst. split; [discriminate|]. intros H. exfalso. apply H. now left.
    + apply String.eqb_neq in E. rewrite IH. split.
      * intros H [H1|H1]; [congruence|auto].
      * intros H H1. apply H. now right.
Qed.

Lemma lookup_Some_key k v m : lookup k m = Some v -> In k (keys m).
Proof. intros H. apply lookup_In in H. unfold keys. change k with (fst (k, v)). now apply in_map. Qed.

Lemma In_lookup k v m : NoDupKeys m -> In (k, v) m -> lookup k m = Some v.
Proof.
  unfold NoDupKeys, keys.
  induction m as [|[k' v'] m IH]; cbn; [intros _ []|].
  intros ND [H|H].
  - inversion H; subst. now rewrite string_eqb_refl.
  - inversion ND as [|? ? Hn ND']; subst.
    destruct (String.eqb k k') eqn:E.
    + apply String.eqb_eq in E. subst. exfalso. apply Hn.
      change k' with (fst (k', v)). now apply in_map.
    + now apply IH.
Qed.

Lemma NoDupKeys_perm m m' : Permutation m m' -> NoDupKeys m -> NoDupKeys m'.
Proof.
  unfold NoDupKeys, keys. intros P. apply Permutation_NoDup. now apply Permutation_map.
Qed.

Lemma lookup_perm k m m' : Permutation m m' -> NoDupKeys m -> lookup k m = lookup k m'.
Proof.
  intros P ND.
  destruct (lookup k m) as [v|] eqn:E.
  - symmetry. apply In_lookup; [eapply NoDupKeys_perm; eauto|].
    eapply Permutation_in; [exact P|]. now apply lookup_In.
  - symmetry. apply lookup_None. apply lookup_None in E. intros H. apply E.
    unfold keys in *. eapply Permutation_in; [|exact H]. apply Permutation_map. now apply Permutation_sym.
Qed.

Lemma NoDupKeys_cons_inv k v m : NoDupKeys ((k, v) :: m) -> ~ In k (keys m) /\ NoDupKeys m.
Proof. unfold NoDupKeys; cbn. intros H; inversion H; auto. Qed.

End AList.

(* upsert: m[k] = v *)
Fixpoint upsert {V} (k : string) (v : V) (m : list (string * V)) : list (string * V) :=
  match m with
  | [] => [(k, v)]
  | (k', v') :: m' => if String.eqb k k' then (k, v) :: m' else (k', v') :: upsert k v m'
  end.

Lemma lookup_upsert_same {V} k (v : V) m : lookup k (upsert k v m) = Some v.
Proof.
  induction m as [|[k' v'] m IH]; cbn.
  - now rewrite string_eqb_refl.
  - destruct (String.eqb k k') eqn:E; cbn.
    + now rewrite string_eqb_refl.
    + now rewrite E.
Qed.

Lemma lookup_upsert_other {V} k k' (v : V) m : k <> k' -> lookup k' (upsert k v m) = lookup k' m.
Proof.
  intros N. induction m as [|[k2 v2] m IH]; cbn.
  - destruct (String.eqb k' k) eqn:E; [apply String.eqb_eq in E; congruence|reflexivity].
  - destruct (String.eqb k k2) eqn:E; cbn.
    + apply String.eqb_eq in E. subst k2.
      destruct (String.eqb k' k) eqn:E2; [apply String.eqb_eq in E2; congruence|reflexivity].
    + now rewrite IH.
Qed.

Lemma keys_upsert {V} k (v : V) m k' : In k' (keys (upsert k v m)) <-> k' = k \/ In k' (keys m).
Proof.
  induction m as [|[k2 v2] m IH]; cbn.
  - intuition.
  - destruct (String.eqb k k2) eqn:E; cbn.
    + apply String.eqb_eq in E. subst. intuition.
    + rewrite IH. intuition.
Qed.

Lemma NoDupKeys_upsert {V} k (v : V) m : NoDupKeys m -> NoDupKeys (upsert k v m).
Proof.
  unfold NoDupKeys.
  induction m as [|[k2 v2] m IH]; cbn; intros ND.
  - constructor; [intros []|constructor].
  - inversion ND as [|? ? Hn ND']; subst.
    destruct (String.eqb k k2) eqn:E; cbn.
    + apply String.eqb_eq in E. subst. now constructor.
    + constructor; [|now apply IH].
      intros H. apply (keys_upsert k v m k2) in H. destruct H as [H|H].
      * subst. now rewrite string_eqb_refl in E.
      * auto.
Qed.
