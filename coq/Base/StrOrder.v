(* Base/StrOrder.v — String.leb (byte-wise lexicographic order = Go's string
   comparison and sort.Strings) is transitive; with totality and antisymmetry
   from the standard library it is a total order. *)
From Coq Require Import String Ascii NArith Lia.

Lemma ascii_compare_refl a : Ascii.compare a a = Eq.
Proof. unfold Ascii.compare. apply N.compare_refl. Qed.

Lemma ascii_compare_lt_trans a b c :
  Ascii.compare a b = Lt -> Ascii.compare b c = Lt -> Ascii.compare a c = Lt.
Proof. unfold Ascii.compare. rewrite !N.compare_lt_iff. lia. Qed.

Lemma string_compare_refl s : String.compare s s = Eq.
Proof. induction s as [|a s IH]; cbn; [reflexivity|]. now rewrite ascii_compare_refl. Qed.

(* compare a b <> Gt -> compare b c <> Gt -> compare a c <> Gt *)
Lemma string_compare_le_trans a : forall b c,
  String.compare a b <> Gt -> String.compare b c <> Gt -> String.compare a c <> Gt.
Proof.
  induction a as [|x a IH]; intros [|y b] [|z c]; cbn; try congruence.
  destruct (Ascii.compare x y) eqn:Exy; try congruence.
  - apply Ascii.compare_eq_iff in Exy. subst y.
    destruct (Ascii.compare x z) eqn:Exz; try congruence.
    apply IH.
  - destruct (Ascii.compare y z) eqn:Eyz; try congruence.
    + apply Ascii.compare_eq_iff in Eyz. subst z. rewrite Exy. congruence.
    + rewrite (ascii_compare_lt_trans _ _ _ Exy Eyz). congruence.
Qed.

Lemma string_leb_trans a b c : String.leb a b = true -> String.leb b c = true -> String.leb a c = true.
Proof.
  unfold String.leb. intros H1 H2.
  assert (String.compare a b <> Gt) as N1 by (destruct (String.compare a b); congruence).
  assert (String.compare b c <> Gt) as N2 by (destruct (String.compare b c); congruence).
  pose proof (string_compare_le_trans a b c N1 N2) as N3.
  destruct (String.compare a c); congruence.
Qed.

Lemma string_leb_refl a : String.leb a a = true.
Proof. unfold String.leb. now rewrite string_compare_refl. Qed.
