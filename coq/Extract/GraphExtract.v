(* Extract/GraphExtract.v — extraction of the needs-graph model for the bulk
   correspondence check (ExtrOcamlBasic only: N, nat, string, ascii stay Coq
   inductives).  The extracted file is written next to the .vo by make; the
   check copies it to build/ and compiles it with ocaml/c18/driver.ml. *)
From Coq Require Extraction.
From Coq Require Import ExtrOcamlBasic.
From AL Require Import Graph.NeedsObs.
Extraction Language OCaml.
Extraction "needs_model.ml" k_check obs.
