(* Extract/GraphExtract.v — extraction of the needs-graph model for the bulk
   correspondence check (ExtrOcamlBasic only: N, nat, string, ascii stay Coq
   inductives).  Extraction writes needs_model.ml{,i} into the directory coqc is
   run from: props/C18.py runs coqc on this file from build/c18/ml and compiles
   the result with ocaml/c18/driver.ml. *)
From Coq Require Extraction.
From Coq Require Import ExtrOcamlBasic.
From AL Require Import Graph.NeedsObs.
Extraction Language OCaml.
Extraction "needs_model.ml" k_check obs.
