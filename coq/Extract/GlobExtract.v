(* Extract/GlobExtract.v — extraction set-up for the C17 model (ExtrOcamlBasic
   only; N, positive, nat stay Coq inductives).  The check compiles, in its
   build directory, a two-line file
     From AL Require Import Extract.GlobExtract.  Extraction "globmodel.ml" glob_obs.
   so that no generated file is written under coq/. *)
From Coq Require Export Extraction ExtrOcamlBasic.
From AL Require Export Glob.Glob Glob.GlobObs.
Extraction Language OCaml.
