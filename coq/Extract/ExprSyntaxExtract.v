(* Extract/ExprSyntaxExtract.v — OCaml extraction of the lexer + parser model
   for the bulk of the C04 correspondence check (ExtrOcamlBasic only; N, Z,
   nat, string, ascii stay Coq inductives).  The file is written to the
   directory coqc runs in. *)
From Coq Require Import ExtrOcamlBasic.
From AL Require Import Expr.ParseSrc.
Extraction "c04_model.ml" run_c04 run_c04_prefix.
