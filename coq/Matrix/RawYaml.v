(* Matrix/RawYaml.v — model of RawYAMLValue (ast.go) with Equals, and of
   isYAMLValueSubset (rule_matrix.go).  Objects are Go maps: association
   lists with distinct (lower-cased) keys. *)
From AL Require Export Base.AList.

Definition pos : Type := (N * N)%type.   (* line, column *)

Inductive yval : Type :=
| YStr (p : pos) (s : string)
| YArr (p : pos) (es : list yval)
| YObj (p : pos) (ps : list (string * yval)).

Definition ypos (v : yval) : pos :=
  match v with YStr p _ => p | YArr p _ => p | YObj p _ => p end.

(* --- RawYAML*.Equals -------------------------------------------------- *)
(* Object case (ast.go, after the fix commit): the two maps have the same
   number of entries and every entry of the receiver has an equal partner. *)
Fixpoint equals (a b : yval) {struct a} : bool :=
  match a, b with
  | YStr _ s, YStr _ t => String.eqb s t
  | YArr _ xs, YArr _ ys =>
      (length xs =? length ys) &&
      (fix go (xs ys : list yval) {struct xs} : bool :=
         match xs, ys with
         | x :: xs', y :: ys' => equals x y && go xs' ys'
         | _, _ => true
         end) xs ys
  | YObj _ m1, YObj _ m2 =>
      (length m1 =? length m2) &&
      (fix go (m : list (string * yval)) {struct m} : bool :=
         match m with
         | [] => true
         | (n, p1) :: m' =>
             match lookup n m2 with
             | Some p2 => equals p1 p2
             | None => false
             end && go m'
         end) m1
  | _, _ => false
  end.

(* The pre-fix object comparison (one direction only), kept to document the
   defect that was repaired: see [equals_old_not_sym] in MatrixProofs.v. *)
Fixpoint equals_old (a b : yval) {struct a} : bool :=
  match a, b with
  | YStr _ s, YStr _ t => String.eqb s t
  | YArr _ xs, YArr _ ys =>
      (length xs =? length ys) &&
      (fix go (xs ys : list yval) {struct xs} : bool :=
         match xs, ys with
         | x :: xs', y :: ys' => equals_old x y && go xs' ys'
         | _, _ => true
         end) xs ys
  | YObj _ m1, YObj _ m2 =>
      (fix go (m : list (string * yval)) {struct m} : bool :=
         match m with
         | [] => true
         | (n, p1) :: m' =>
             match lookup n m2 with
             | Some p2 => equals_old p1 p2
             | None => false
             end && go m'
         end) m1
  | _, _ => false
  end.

(* --- isYAMLValueSubset ------------------------------------------------ *)
Definition is_expr_str (v : yval) : bool :=
  match v with YStr _ s => contains_expr s | _ => false end.

Fixpoint subset (v sub : yval) {struct v} : bool :=
  if is_expr_str sub then true else
  match v with
  | YObj _ m =>
      match sub with
      | YObj _ ms =>
          forallb (fun ns : string * yval =>
                     let (n, s) := ns in
                     (fix find (m : list (string * yval)) {struct m} : bool :=
                        match m with
                        | [] => false
                        | (k, p) :: m' => if String.eqb n k then subset p s else find m'
                        end) m) ms
      | _ => false
      end
  | YArr _ es =>
      match sub with
      | YArr _ ss =>
          (length es =? length ss) &&
          (fix go (es ss : list yval) {struct es} : bool :=
             match es, ss with
             | e :: es', s :: ss' => subset e s && go es' ss'
             | _, _ => true
             end) es ss
      | _ => false
      end
  | YStr _ s =>
      if contains_expr s then true else
      match sub with YStr _ t => String.eqb s t | _ => false end
  end.

(* --- declarative specifications --------------------------------------- *)
Inductive option_rel {A B} (R : A -> B -> Prop) : option A -> option B -> Prop :=
| OR_none : option_rel R None None
| OR_some a b : R a b -> option_rel R (Some a) (Some b).

(* structural equality, objects as finite maps, positions ignored *)
Inductive yeq : yval -> yval -> Prop :=
| yeq_str p q s : yeq (YStr p s) (YStr q s)
| yeq_arr p q xs ys : Forall2 yeq xs ys -> yeq (YArr p xs) (YArr q ys)
| yeq_obj p q m1 m2 :
    (forall k, option_rel yeq (lookup k m1) (lookup k m2)) ->
    yeq (YObj p m1) (YObj q m2).

(* "v contains sub": mappings by member subset, sequences element-wise,
   scalars by equality; an expression on either side matches. *)
Inductive ysubset : yval -> yval -> Prop :=
| ysub_expr_r v p t : contains_expr t = true -> ysubset v (YStr p t)
| ysub_expr_l p s sub : contains_expr s = true -> ysubset (YStr p s) sub
| ysub_str p q s : ysubset (YStr p s) (YStr q s)
| ysub_arr p q es ss : Forall2 ysubset es ss -> ysubset (YArr p es) (YArr q ss)
| ysub_obj p q m ms :
    (forall k s, In (k, s) ms -> exists v, lookup k m = Some v /\ ysubset v s) ->
    ysubset (YObj p m) (YObj q ms).

(* well-formed: every object has distinct keys (it is a Go map) *)
Inductive ywf : yval -> Prop :=
| ywf_str p s : ywf (YStr p s)
| ywf_arr p es : Forall ywf es -> ywf (YArr p es)
| ywf_obj p m : NoDupKeys m -> Forall (fun kv => ywf (snd kv)) m -> ywf (YObj p m).

(* induction principle that reaches inside arrays and objects *)
Section YvalInd.
Variable P : yval -> Prop.
Hypothesis Hstr : forall p s, P (YStr p s).
Hypothesis Harr : forall p es, Forall P es -> P (YArr p es).
Hypothesis Hobj : forall p m, Forall (fun kv => P (snd kv)) m -> P (YObj p m).

Fixpoint yval_ind' (v : yval) : P v :=
  match v with
  | YStr p s => Hstr p s
  | YArr p es =>
      Harr p es ((fix go (l : list yval) : Forall P l :=
                    match l with
                    | [] => Forall_nil _
                    | x :: l' => Forall_cons _ (yval_ind' x) (go l')
                    end) es)
  | YObj p m =>
      Hobj p m ((fix go (l : list (string * yval)) : Forall (fun kv => P (snd kv)) l :=
                   match l with
                   | [] => Forall_nil _
                   | (k, x) :: l' => Forall_cons (k, x) (yval_ind' x) (go l')
                   end) m)
  end.
End YvalInd.
