(* Matrix/MatrixObs.v — projection of the matrix model's diagnostics to the
   observable compared with the implementation: (kind, line, col, ref line, ref col). *)
From AL Require Import Base.Corr Matrix.MatrixRule.

Definition kind_code (k : dkind) : N :=
  match k with DupValue => 0 | NoVariation => 1 | KeyMissing => 2 | NoMatch => 3 end%N.

Definition obs_of (d : diag) : tuple :=
  [kind_code (d_kind d); fst (d_pos d); snd (d_pos d);
   match d_ref d with Some p => fst p | None => 0%N end;
   match d_ref d with Some p => snd p | None => 0%N end].

Definition run_matrix (m : matrix) : list tuple := map obs_of (check_matrix m).
