(* Matrix/PermProofs.v — the verdicts of RuleMatrix do not depend on the order
   in which the rows map (Go map iteration) or the assignments of an exclude
   entry are visited. *)
From AL Require Import Matrix.RawYaml Matrix.MatrixRule Matrix.EqualsProofs Matrix.MatrixProofs Matrix.ExcludeProofs.

Definition rows_equiv (r1 r2 : list (string * list yval)) : Prop := forall k, lookup k r1 = lookup k r2.
Definition ign_equiv (i1 i2 : list string) : Prop := forall k, mem_str k i1 = mem_str k i2.

Lemma row_of_equiv r1 r2 k : rows_equiv r1 r2 -> row_of r1 k = row_of r2 k.
Proof. intros H. unfold row_of. now rewrite H. Qed.

Lemma add_assign_equiv i1 i2 r1 r2 na :
  rows_equiv r1 r2 -> ign_equiv i1 i2 -> rows_equiv (add_assign i1 r1 na) (add_assign i2 r2 na).
Proof.
  destruct na as [n a]. intros R I k.
  destruct (mem_str n i1) eqn:M1.
  - rewrite add_assign_ignored by exact M1. rewrite add_assign_ignored by (now rewrite <- I). apply R.
  - assert (M2 : mem_str n i2 = false) by (now rewrite <- I).
    destruct (String.eqb n k) eqn:E.
    + apply String.eqb_eq in E. subst k.
      rewrite (add_assign_same i1 r1 n a M1), (add_assign_same i2 r2 n a M2).
      rewrite (row_of_equiv r1 r2 n R), (R n). reflexivity.
    + apply String.eqb_neq in E. rewrite !add_assign_other by exact E. apply R.
Qed.

Lemma fold_add_assign_equiv i1 i2 flat : forall r1 r2,
  rows_equiv r1 r2 -> ign_equiv i1 i2 ->
  rows_equiv (fold_left (add_assign i1) flat r1) (fold_left (add_assign i2) flat r2).
Proof.
  induction flat as [|na flat IH]; intros r1 r2 R I; cbn; [exact R|].
  apply IH; [now apply add_assign_equiv|exact I].
Qed.

Lemma check_assign_equiv i1 i2 r1 r2 ka :
  rows_equiv r1 r2 -> ign_equiv i1 i2 -> check_assign i1 r1 ka = check_assign i2 r2 ka.
Proof.
  destruct ka as [k a]. intros R I. unfold check_assign. now rewrite (I k), (R k).
Qed.

Lemma base_rows_perm rs rs' : Permutation rs rs' -> NoDupKeys rs ->
  rows_equiv (fst (base_rows rs)) (fst (base_rows rs')) /\ ign_equiv (snd (base_rows rs)) (snd (base_rows rs')).
Proof.
  intros P ND.
  pose proof (base_rows_spec rs ND) as B. pose proof (base_rows_spec rs' (NoDupKeys_perm _ _ P ND)) as B'.
  destruct (base_rows rs) as [rows ign], (base_rows rs') as [rows' ign']. cbn.
  destruct B as [B1 B2], B' as [B1' B2']. split.
  - intros k. rewrite B2, B2', (lookup_perm k rs rs' P ND). reflexivity.
  - intros k. destruct (mem_str k ign) eqn:E, (mem_str k ign') eqn:E'; try reflexivity; exfalso.
    + apply mem_str_In in E. apply B1 in E. rewrite (lookup_perm k rs rs' P ND) in E. apply B1' in E.
      apply mem_str_In in E. congruence.
    + apply mem_str_In in E'. apply B1' in E'. rewrite <- (lookup_perm k rs rs' P ND) in E'. apply B1 in E'.
      apply mem_str_In in E'. congruence.
Qed.

Definition with_rows (m : matrix) (rs : list (string * row)) : matrix :=
  {| m_expr := m_expr m; m_pos := m_pos m; m_rows := rs; m_include := m_include m; m_exclude := m_exclude m |}.

Lemma candidates_perm m rs' : Permutation (m_rows m) rs' -> NoDupKeys (m_rows m) ->
  rows_equiv (fst (candidates m)) (fst (candidates (with_rows m rs'))) /\
  ign_equiv (snd (candidates m)) (snd (candidates (with_rows m rs'))).
Proof.
  intros P ND. unfold candidates. cbn [m_rows with_rows].
  pose proof (base_rows_perm (m_rows m) rs' P ND) as [R I].
  destruct (base_rows (m_rows m)) as [rows ign], (base_rows rs') as [rows' ign']. cbn in *.
  split; [|exact I].
  unfold add_include, include_list. cbn [m_include with_rows].
  rewrite !(fold_left_flat_map (add_assign _) c_assigns).
  now apply fold_add_assign_equiv.
Qed.

Lemma flat_map_ext_eq {A B} (f g : A -> list B) l : (forall x, f x = g x) -> flat_map f l = flat_map g l.
Proof. intros H. induction l as [|x l IH]; cbn; [reflexivity|]. now rewrite H, IH. Qed.

(* the exclude verdicts are literally the same list *)
Theorem check_exclude_rows_perm m rs' : Permutation (m_rows m) rs' -> NoDupKeys (m_rows m) ->
  check_exclude (with_rows m rs') = check_exclude m.
Proof.
  intros P ND. unfold check_exclude. cbn [m_exclude m_include m_rows m_pos with_rows].
  destruct (m_exclude m) as [ex|]; [|reflexivity].
  destruct (cs_list ex) as [|c0 cl] eqn:EL; [reflexivity|].
  destruct (match m_include m with Some inc => combs_contains_expr inc | None => false end); [reflexivity|].
  assert (Hemp : match rs' with [] => true | _ :: _ => false end = match m_rows m with [] => true | _ :: _ => false end).
  { destruct (m_rows m) as [|x xs] eqn:E.
    - apply Permutation_nil in P. now subst.
    - destruct rs'; [apply Permutation_sym, Permutation_nil in P; discriminate|reflexivity]. }
  unfold include_list at 1. cbn [m_include with_rows]. fold (include_list m). rewrite Hemp.
  destruct (match m_rows m with [] => true | _ :: _ => false end && match include_list m with [] => true | _ :: _ => false end); [reflexivity|].
  pose proof (candidates_perm m rs' P ND) as [R I].
  destruct (candidates m) as [rows ign], (candidates (with_rows m rs')) as [rows' ign']. cbn in R, I.
  apply flat_map_ext_eq. intros c. apply flat_map_ext_eq. intros ka.
  apply check_assign_equiv; [intros k; symmetry; apply R|intros k; symmetry; apply I].
Qed.

(* C19: visiting the rows map in another order yields the same diagnostics
   (as a multiset: the final sort by position makes the order irrelevant) *)
Theorem check_matrix_rows_perm m rs' : Permutation (m_rows m) rs' -> NoDupKeys (m_rows m) ->
  Permutation (check_matrix m) (check_matrix (with_rows m rs')).
Proof.
  intros P ND. unfold check_matrix. cbn [m_expr m_rows with_rows].
  destruct (m_expr m); [constructor|].
  rewrite (check_exclude_rows_perm m rs' P ND).
  apply Permutation_app_tail. now apply Permutation_flat_map.
Qed.

(* visiting the assignments of exclude entries in another order *)
Lemma flat_map_perm_inner {A B C} (f : B -> list C) (g g' : A -> list B) (l : list A) :
  (forall x, Permutation (g x) (g' x)) ->
  Permutation (flat_map (fun x => flat_map f (g x)) l) (flat_map (fun x => flat_map f (g' x)) l).
Proof.
  intros H. induction l as [|x l IH]; cbn; [constructor|].
  apply Permutation_app; [now apply Permutation_flat_map|exact IH].
Qed.
