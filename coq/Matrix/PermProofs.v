(* Matrix/PermProofs.v — the verdicts of RuleMatrix do not depend on the order
   in which the rows map (Go map iteration) or the assignments of an exclude
   entry are visited. *)
From AL Require Import Matrix.RawYaml Matrix.MatrixRule Matrix.EqualsProofs Matrix.MatrixProofs Matrix.ExcludeProofs.

Definition rows_equiv (r1 r2 : list (string * list yval)) : Prop := forall k, lookup k r1 = lookup k r2.
Definition ign_equiv (i1 i2 : list string) : Prop := forall k, mem_str k i1 = mem_str k i2.

Lemma row_of_equiv r1 r2 k : rows_equiv r1 r2 -> row_of r1 k = row_of r2 k.
Proof. intros H. unfold row_of. now rewrite H. Qed.

Lemma add_assign_equiv i1 i2 r1 r2 na :
  rows_equiv r1 r2 -> ign_equiv i1 i2 -> rows_equiv (add_assign i1 r1 na) (add_assign i2 r2 na).
Proof.
  destruct na as [n a]. intros R I k.
  destruct (mem_str n i1) eqn:M1.
  - rewrite add_assign_ignored by exact M1. rewrite add_assign_ignored by (now rewrite <- I). apply R.
  - assert (M2 : mem_str n i2 = false) by (now rewrite <- I).
    destruct (String.eqb n k) eqn:E.
    + apply String.eqb_eq in E. subst k.
      rewrite (add_assign_same i1 r1 n a M1), (add_assign_same i2 r2 n a M2).
      rewrite (row_of_equiv r1 r2 n R), (R n). reflexivity.
    + apply String.eqb_neq in E. rewrite !add_assign_other by exact E. apply R.
Qed.

Lemma fold_add_assign_equiv i1 i2 flat : forall r1 r2,
  rows_equiv r1 r2 -> ign_equiv i1 i2 ->
  rows_equiv (fold_left (add_assign i1) flat r1) (fold_left (add_assign i2) flat r2).
Proof.
  induction flat as [|na flat IH]; intros r1 r2 R I; cbn; [exact R|].
  apply IH; [now apply add_assign_equiv|exact I].
Qed.

Lemma check_assign_equiv i1 i2 r1 r2 ka :
  rows_equiv r1 r2 -> ign_equiv i1 i2 -> check_assign i1 r1 ka = check_assign i2 r2 ka.
Proof.
  destruct ka as [k a]. intros R I. unfold check_assign. now rewrite (I k), (R k).
Qed.

Lemma base_rows_perm rs rs' : Permutation rs rs' -> NoDupKeys rs ->
  rows_equiv (fst (base_rows rs)) (fst (base_rows rs')) /\ ign_equiv (snd (base_rows rs)) (snd (base_rows rs')).
Proof.
  intros P ND.
  pose proof (base_rows_spec rs ND) as B. pose proof (base_rows_spec rs' (NoDupKeys_perm _ _ P ND)) as B'.
  destruct (base_rows rs) as [rows ign], (base_rows rs') as [rows' ign']. cbn.
  destruct B as [B1 B2], B' as [B1' B2']. split.
  - intros k. rewrite B2, B2', (lookup_perm k rs rs' P ND). reflexivity.
  - intros k. destruct (mem_str k ign) eqn:E, (mem_str k ign') eqn:E'; try reflexivity; exfalso.
    + apply mem_str_In in E. apply B1 in E. rewrite (lookup_perm k rs rs' P ND) in E. apply B1' in E.
      apply mem_str_In in E. congruence.
    + apply mem_str_In in E'. apply B1' in E'. rewrite <- (lookup_perm k rs rs' P ND) in E'. apply B1 in E'.
      apply mem_str_In in E'. congruence.
Qed.

Definition with_rows (m : matrix) (rs : list (string * row)) : matrix :=
  {| m_expr := m_expr m; m_pos := m_pos m; m_rows := rs; m_include := m_include m; m_exclude := m_exclude m |}.

Lemma candidates_perm m rs' : Permutation (m_rows m) rs' -> NoDupKeys (m_rows m) ->
  rows_equiv (fst (candidates m)) (fst (candidates (with_rows m rs'))) /\
  ign_equiv (snd (candidates m)) (snd (candidates (with_rows m rs'))).
Proof.
  intros P ND. unfold candidates. cbn [m_rows with_rows].
  pose proof (base_rows_perm (m_rows m) rs' P ND) as [R I].
  destruct (base_rows (m_rows m)) as [rows ign], (base_rows rs') as [rows' ign']. cbn in *.
  split; [|exact I].
  unfold add_include, include_list. cbn [m_include with_rows].
  rewrite !(fold_left_flat_map (add_assign _) c_assigns).
  now apply fold_add_assign_equiv.
Qed.

Lemma flat_map_ext_eq {A B} (f g : A -> list B) l : (forall x, f x = g x) -> flat_map f l = flat_map g l.
Proof. intros H. induction l as [|x l IH]; cbn; [reflexivity|]. now rewrite H, IH. Qed.

(* the exclude verdicts are literally the same list *)
Theorem check_exclude_rows_perm m rs' : Permutation (m_rows m) rs' -> NoDupKeys (m_rows m) ->
  check_exclude (with_rows m rs') = check_exclude m.
Proof.
  intros P ND. unfold check_exclude. cbn [m_exclude m_include m_rows m_pos with_rows].
  destruct (m_exclude m) as [ex|]; [|reflexivity].
  destruct (cs_list ex) as [|c0 cl] eqn:EL; [reflexivity|].
  destruct (match m_include m with Some inc => combs_contains_expr inc | None => false end); [reflexivity|].
  assert (Hemp : match rs' with [] => true | _ :: _ => false end = match m_rows m with [] => true | _ :: _ => false end).
  { destruct (m_rows m) as [|x xs] eqn:E.
    - apply Permutation_nil in P. now subst.
    - destruct rs'; [apply Permutation_sym, Permutation_nil in P; discriminate|reflexivity]. }
  unfold include_list at 1. cbn [m_include with_rows]. fold (include_list m). rewrite Hemp.
  destruct (match m_rows m with [] => true | _ :: _ => false end && match include_list m with [] => true | _ :: _ => false end); [reflexivity|].
  pose proof (candidates_perm m rs' P ND) as [R I].
  destruct (candidates m) as [rows ign], (candidates (with_rows m rs')) as [rows' ign']. cbn in R, I.
  apply flat_map_ext_eq. intros c. apply flat_map_ext_eq. intros ka.
  apply check_assign_equiv; [intros k; symmetry; apply R|intros k; symmetry; apply I].
Qed.

(* C19: visiting the rows map in another order yields the same diagnostics
   (as a multiset: the final sort by position makes the order irrelevant) *)
Theorem check_matrix_rows_perm m rs' : Permutation (m_rows m) rs' -> NoDupKeys (m_rows m) ->
  Permutation (check_matrix m) (check_matrix (with_rows m rs')).
Proof.
  intros P ND. unfold check_matrix. cbn [m_expr m_rows with_rows].
  destruct (m_expr m); [constructor|].
  rewrite (check_exclude_rows_perm m rs' P ND).
  apply Permutation_app_tail. now apply Permutation_flat_map.
Qed.

(* visiting the assignments of exclude entries in another order *)
Lemma flat_map_perm_inner {A B C} (f : B -> list C) (g g' : A -> list B) (l : list A) :
  (forall x, Permutation (g x) (g' x)) ->
  Permutation (flat_map (fun x => flat_map f (g x)) l) (flat_map (fun x => flat_map f (g' x)) l).
Proof.
  intros H. induction l as [|x l IH]; cbn; [constructor|].
  apply Permutation_app; [now apply Permutation_flat_map|exact IH].
Qed.

(* ---------------------------------------------------------------------- *)
(* the assignments of one include / exclude entry are a Go map as well      *)

Lemma rows_equiv_refl r : rows_equiv r r.
Proof. intros k; reflexivity. Qed.
Lemma rows_equiv_sym r1 r2 : rows_equiv r1 r2 -> rows_equiv r2 r1.
Proof. intros H k; symmetry; apply H. Qed.
Lemma rows_equiv_trans r1 r2 r3 : rows_equiv r1 r2 -> rows_equiv r2 r3 -> rows_equiv r1 r3.
Proof. intros H1 H2 k; rewrite H1; apply H2. Qed.
Lemma ign_equiv_refl i : ign_equiv i i.
Proof. intros k; reflexivity. Qed.

(* assignments to different keys commute (up to lookup equivalence) *)
Lemma add_assign_comm ign rows n1 a1 n2 a2 : n1 <> n2 ->
  rows_equiv (add_assign ign (add_assign ign rows (n1, a1)) (n2, a2))
             (add_assign ign (add_assign ign rows (n2, a2)) (n1, a1)).
Proof.
  intros N k.
  destruct (mem_str n1 ign) eqn:M1.
  { rewrite (add_assign_ignored ign rows n1 a1 M1).
    rewrite (add_assign_ignored ign (add_assign ign rows (n2, a2)) n1 a1 M1). reflexivity. }
  destruct (mem_str n2 ign) eqn:M2.
  { rewrite (add_assign_ignored ign rows n2 a2 M2).
    rewrite (add_assign_ignored ign (add_assign ign rows (n1, a1)) n2 a2 M2). reflexivity. }
  assert (N' : n2 <> n1) by congruence.
  destruct (String.eqb n1 k) eqn:E1.
  - apply String.eqb_eq in E1. subst k.
    rewrite (add_assign_other ign _ n2 a2 n1 N').
    rewrite !(add_assign_same ign _ n1 a1 M1).
    unfold row_of. rewrite (add_assign_other ign rows n2 a2 n1 N'). reflexivity.
  - destruct (String.eqb n2 k) eqn:E2.
    + apply String.eqb_eq in E2. subst k.
      rewrite (add_assign_other ign _ n1 a1 n2 N).
      rewrite !(add_assign_same ign _ n2 a2 M2).
      unfold row_of. rewrite (add_assign_other ign rows n1 a1 n2 N). reflexivity.
    + apply String.eqb_neq in E1. apply String.eqb_neq in E2.
      rewrite !add_assign_other by assumption. reflexivity.
Qed.

Lemma fold_add_assign_perm ign l l' : Permutation l l' -> NoDupKeys l ->
  forall rows rows', rows_equiv rows rows' ->
  rows_equiv (fold_left (add_assign ign) l rows) (fold_left (add_assign ign) l' rows').
Proof.
  induction 1 as [|x l l' P IH|x y l|l l' l'' P1 IH1 P2 IH2]; intros ND rows rows' R.
  - exact R.
  - cbn. destruct x as [n a]. apply NoDupKeys_cons_inv in ND. destruct ND as [_ ND].
    apply IH; [exact ND|]. apply add_assign_equiv; [exact R|apply ign_equiv_refl].
  - cbn. destruct x as [n1 a1], y as [n2 a2].
    assert (N : n2 <> n1).
    { unfold NoDupKeys in ND. cbn in ND. inversion ND as [|? ? Hn _]; subst. intros ->. apply Hn. now left. }
    apply fold_add_assign_equiv; [|apply ign_equiv_refl].
    eapply rows_equiv_trans; [apply add_assign_comm; exact N|].
    apply add_assign_equiv; [|apply ign_equiv_refl]. apply add_assign_equiv; [exact R|apply ign_equiv_refl].
  - eapply rows_equiv_trans; [apply (IH1 ND rows rows' R)|].
    apply IH2; [eapply NoDupKeys_perm; eauto|apply rows_equiv_refl].
Qed.

(* two include lists that differ only in the order in which each entry's
   assignments are stored *)
Definition comb_perm (c c' : comb) : Prop :=
  c_expr c = c_expr c' /\ Permutation (c_assigns c) (c_assigns c') /\ NoDupKeys (c_assigns c).

Lemma fold_add_include_perm ign cs : forall cs' rows rows',
  Forall2 comb_perm cs cs' -> rows_equiv rows rows' ->
  rows_equiv (fold_left (add_include ign) cs rows) (fold_left (add_include ign) cs' rows').
Proof.
  induction cs as [|c cs IH]; intros cs' rows rows' F R; inversion F as [|? c' ? ? [_ [P ND]] F']; subst; cbn; [exact R|].
  apply IH; [exact F'|]. unfold add_include. now apply fold_add_assign_perm.
Qed.

Definition with_include (m : matrix) (inc : option combs) : matrix :=
  {| m_expr := m_expr m; m_pos := m_pos m; m_rows := m_rows m; m_include := inc; m_exclude := m_exclude m |}.

Lemma existsb_comb_perm cs cs' : Forall2 comb_perm cs cs' -> existsb c_expr cs = existsb c_expr cs'.
Proof. induction 1 as [|c c' l l' [E _] _ IH]; cbn; [reflexivity|]. now rewrite E, IH. Qed.

Lemma Forall2_nil_iff {A B} (R : A -> B -> Prop) l l' : Forall2 R l l' ->
  match l with [] => true | _ :: _ => false end = match l' with [] => true | _ :: _ => false end.
Proof. intros H; inversion H; reflexivity. Qed.

(* C19: the order in which the assignments of include entries are visited
   (Go map iteration) does not change any exclude verdict *)
Theorem check_exclude_include_perm m ce cs' :
  m_include m = Some {| cs_expr := ce; cs_list := cs' |} -> forall cs,
  Forall2 comb_perm cs cs' ->
  check_exclude (with_include m (Some {| cs_expr := ce; cs_list := cs |})) = check_exclude m.
Proof.
  intros HI cs F. unfold check_exclude. cbn [m_exclude m_include m_rows m_pos with_include].
  rewrite HI.
  destruct (m_exclude m) as [ex|]; [|reflexivity].
  destruct (cs_list ex) as [|c0 cl] eqn:EL; [reflexivity|].
  unfold combs_contains_expr. cbn [cs_expr cs_list]. rewrite (existsb_comb_perm cs cs' F).
  destruct (ce || existsb c_expr cs'); [reflexivity|].
  assert (IL1 : include_list (with_include m (Some {| cs_expr := ce; cs_list := cs |})) = cs) by reflexivity.
  assert (IL2 : include_list m = cs') by (unfold include_list; now rewrite HI).
  rewrite IL1, IL2, (Forall2_nil_iff _ _ _ F).
  destruct (match m_rows m with [] => true | _ :: _ => false end && match cs' with [] => true | _ :: _ => false end); [reflexivity|].
  unfold candidates. rewrite IL1, IL2. cbn [m_rows with_include].
  destruct (base_rows (m_rows m)) as [rows ign].
  pose proof (fold_add_include_perm ign cs cs' rows rows F (rows_equiv_refl rows)) as R.
  apply flat_map_ext_eq. intros c. apply flat_map_ext_eq. intros ka.
  apply check_assign_equiv; [exact R|apply ign_equiv_refl].
Qed.
