(* Matrix/MatrixRule.v — model of RuleMatrix.VisitJobPre (rule_matrix.go):
   checkDuplicateInRow and checkExclude, over the Matrix AST (ast.go). *)
From AL Require Export Matrix.RawYaml.

(* MatrixRow: Values == nil iff [r_vals = None]; Expression != nil iff [r_expr]. *)
Record row := { r_expr : bool; r_vals : option (list yval) }.

(* MatrixAssign: key position and value. *)
Record assign := { a_keypos : pos; a_val : yval }.

(* MatrixCombination: Expression != nil iff [c_expr]; Assigns is a Go map. *)
Record comb := { c_expr : bool; c_assigns : list (string * assign) }.

(* MatrixCombinations *)
Record combs := { cs_expr : bool; cs_list : list comb }.

Record matrix := {
  m_expr : bool;                       (* Matrix.Expression != nil *)
  m_pos : pos;
  m_rows : list (string * row);        (* Go map, lower-cased keys *)
  m_include : option combs;
  m_exclude : option combs }.

Inductive dkind := DupValue | NoVariation | KeyMissing | NoMatch.

(* diagnostic: kind, position, and for DupValue the cited earlier position *)
Record diag := { d_kind : dkind; d_pos : pos; d_ref : option pos }.

(* --- checkDuplicateInRow --- *)
Fixpoint dup_scan (seen vs : list yval) : list diag :=
  match vs with
  | [] => []
  | v :: vs' =>
      match find (fun p => equals p v) seen with
      | Some p => {| d_kind := DupValue; d_pos := ypos v; d_ref := Some (ypos p) |} :: dup_scan seen vs'
      | None => dup_scan (seen ++ [v]) vs'
      end
  end.

Definition check_dup_row (r : row) : list diag :=
  match r_vals r with
  | None => []
  | Some vs => dup_scan [] vs
  end.

(* --- checkExclude --- *)
Definition combs_contains_expr (cs : combs) : bool :=
  cs_expr cs || existsb c_expr (cs_list cs).

(* first loop: rows with an expression are ignored, the others give candidates *)
Fixpoint base_rows (rs : list (string * row)) : list (string * list yval) * list string :=
  match rs with
  | [] => ([], [])
  | (n, r) :: rs' =>
      let (rows, ign) := base_rows rs' in
      if r_expr r then (rows, n :: ign)
      else ((n, match r_vals r with Some vs => vs | None => [] end) :: rows, ign)
  end.

Definition mem_str (k : string) (l : list string) : bool := existsb (String.eqb k) l.

Definition add_assign (ign : list string) (rows : list (string * list yval))
           (na : string * assign) : list (string * list yval) :=
  let (n, a) := na in
  if mem_str n ign then rows else
  let r := match lookup n rows with Some r => r | None => [] end in
  if existsb (fun v => equals v (a_val a)) r then rows
  else upsert n (r ++ [a_val a]) rows.

Definition add_include (ign : list string) (rows : list (string * list yval)) (c : comb) :=
  fold_left (add_assign ign) (c_assigns c) rows.

Definition check_assign (ign : list string) (rows : list (string * list yval))
           (ka : string * assign) : list diag :=
  let (k, a) := ka in
  if mem_str k ign then [] else
  match lookup k rows with
  | None => [{| d_kind := KeyMissing; d_pos := a_keypos a; d_ref := None |}]
  | Some r =>
      if existsb (fun v => subset v (a_val a)) r then []
      else [{| d_kind := NoMatch; d_pos := ypos (a_val a); d_ref := None |}]
  end.

Definition include_list (m : matrix) : list comb :=
  match m_include m with Some cs => cs_list cs | None => [] end.

Definition candidates (m : matrix) : list (string * list yval) * list string :=
  let (rows, ign) := base_rows (m_rows m) in
  (fold_left (add_include ign) (include_list m) rows, ign).

Definition check_exclude (m : matrix) : list diag :=
  match m_exclude m with
  | None => []
  | Some ex =>
      match cs_list ex with
      | [] => []
      | _ =>
          if match m_include m with Some inc => combs_contains_expr inc | None => false end
          then []
          else if match m_rows m with [] => true | _ => false end &&
                  match include_list m with [] => true | _ => false end
          then [{| d_kind := NoVariation; d_pos := m_pos m; d_ref := None |}]
          else
            let (rows, ign) := candidates m in
            flat_map (fun c => flat_map (check_assign ign rows) (c_assigns c)) (cs_list ex)
      end
  end.

(* --- VisitJobPre --- *)
Definition check_matrix (m : matrix) : list diag :=
  if m_expr m then []
  else flat_map (fun nr => check_dup_row (snd nr)) (m_rows m) ++ check_exclude m.
