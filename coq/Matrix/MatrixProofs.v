(* Matrix/MatrixProofs.v — checkDuplicateInRow reports exactly the values that
   are structurally equal to an earlier value of the row; isYAMLValueSubset
   decides the declarative containment relation. *)
From AL Require Import Matrix.RawYaml Matrix.MatrixRule Matrix.EqualsProofs.

(* ------------------------------------------------------------------------ *)
(* duplicates                                                               *)

Fixpoint dup_flags (seen vs : list yval) : list bool :=
  match vs with
  | [] => []
  | v :: vs' =>
      if existsb (fun p => equals p v) seen then true :: dup_flags seen vs'
      else false :: dup_flags (seen ++ [v]) vs'
  end.

Fixpoint select {A} (fs : list bool) (xs : list A) : list A :=
  match fs, xs with
  | f :: fs', x :: xs' => if f then x :: select fs' xs' else select fs' xs'
  | _, _ => []
  end.

Lemma find_existsb {A} (f : A -> bool) l :
  existsb f l = match find f l with Some _ => true | None => false end.
Proof. induction l as [|x l IH]; cbn; [reflexivity|]. destruct (f x); auto. Qed.

(* the diagnostics of the model are exactly the flagged values, in order *)
Lemma dup_scan_flags seen vs :
  map d_pos (dup_scan seen vs) = map ypos (select (dup_flags seen vs) vs).
Proof.
  revert seen; induction vs as [|v vs IH]; intros seen; cbn; [reflexivity|].
  rewrite find_existsb. destruct (find (fun p => equals p v) seen); cbn; now rewrite IH.
Qed.

Lemma dup_scan_kinds seen vs : Forall (fun d => d_kind d = DupValue) (dup_scan seen vs).
Proof.
  revert seen; induction vs as [|v vs IH]; intros seen; cbn; [constructor|].
  destruct (find (fun p => equals p v) seen); [constructor; auto|auto].
Qed.

Lemma existsb_equals_spec seen v :
  Forall ywf seen -> ywf v ->
  (existsb (fun p => equals p v) seen = true <-> exists s, In s seen /\ yeq s v).
Proof.
  intros Ws Wv. rewrite existsb_exists. rewrite Forall_forall in Ws. split.
  - intros [s [I E]]. exists s. split; auto. apply equals_exact in E; auto.
  - intros [s [I E]]. exists s. split; auto. apply equals_exact; auto.
Qed.

(* invariant: [seen] is a set of representatives of the processed prefix *)
Definition covers (seen pre : list yval) : Prop :=
  (forall s, In s seen -> In s pre) /\ (forall u, In u pre -> exists s, In s seen /\ yeq s u).

Lemma dup_flags_spec vs :
  Forall ywf vs -> forall seen pre, Forall ywf pre -> covers seen pre ->
  forall i v, nth_error vs i = Some v ->
  (nth i (dup_flags seen vs) false = true <->
   exists u, (In u pre \/ exists j, j < i /\ nth_error vs j = Some u) /\ yeq u v).
Proof.
  induction 1 as [|v0 vs W0 Wvs IH]; intros seen pre Wpre [C1 C2] i v Hi.
  - destruct i; discriminate.
  - assert (Wseen : Forall ywf seen).
    { rewrite Forall_forall in *. intros s Hs. apply Wpre. auto. }
    pose proof (existsb_equals_spec seen v0 Wseen W0) as HE.
    destruct i as [|i]; cbn in Hi.
    + inversion Hi; subst v0. cbn [dup_flags].
      destruct (existsb (fun p => equals p v) seen) eqn:E; cbn [nth].
      * split; [intros _|reflexivity].
        destruct (proj1 HE eq_refl) as [s [I Y]]. exists s. split; auto.
      * split; [discriminate|]. intros [u [[I|[j [Hj _]]] Y]]; [|lia].
        destruct (C2 _ I) as [s [Is Ys]].
        assert (false = true) as E'.
        { apply HE. exists s. split; auto. eapply yeq_trans; eauto. }
        discriminate E'.
    + cbn [dup_flags].
      assert (Wpre' : Forall ywf (pre ++ [v0])) by (apply Forall_app; split; auto).
      assert (Hshift : forall u, (In u (pre ++ [v0]) \/ exists j, j < i /\ nth_error vs j = Some u) <->
                               (In u pre \/ exists j, j < S i /\ nth_error (v0 :: vs) j = Some u)).
      { intros u. rewrite in_app_iff. cbn [In]. split.
        - intros [[I|[->|[]]]|[j [Hj Hn]]]; auto.
          + right. exists 0. split; [lia|reflexivity].
          + right. exists (S j). split; [lia|exact Hn].
        - intros [I|[j [Hj Hn]]]; auto.
          destruct j as [|j]; cbn in Hn.
          + inversion Hn; subst. left. right. now left.
          + right. exists j. split; [lia|exact Hn]. }
      destruct (existsb (fun p => equals p v0) seen) eqn:E; cbn [nth].
      * destruct (proj1 HE eq_refl) as [s0 [I0 Y0]].
        assert (C' : covers seen (pre ++ [v0])).
        { split.
          - intros s Hs. apply in_app_iff. left. auto.
          - intros u Hu. apply in_app_iff in Hu. destruct Hu as [Hu|[->|[]]]; auto.
            exists s0. auto. }
        rewrite (IH seen (pre ++ [v0]) Wpre' C' i v Hi).
        split; intros [u [D Y]]; exists u; (split; [apply Hshift; exact D|exact Y]).
      * assert (C' : covers (seen ++ [v0]) (pre ++ [v0])).
        { split.
          - intros s Hs. apply in_app_iff in Hs. apply in_app_iff. destruct Hs as [Hs|Hs]; auto.
          - intros u Hu. apply in_app_iff in Hu. destruct Hu as [Hu|[->|[]]].
            + destruct (C2 _ Hu) as [s [Is Ys]]. exists s. split; auto. apply in_app_iff. auto.
            + exists u. split; [apply in_app_iff; right; now left|apply yeq_refl]. }
        rewrite (IH (seen ++ [v0]) (pre ++ [v0]) Wpre' C' i v Hi).
        split; intros [u [D Y]]; exists u; (split; [apply Hshift; exact D|exact Y]).
Qed.

(* C19, first clause: a row value is reported as duplicate iff it is
   structurally equal to an earlier value of the same row. *)
Theorem dup_exact vs : Forall ywf vs -> forall i v, nth_error vs i = Some v ->
  (nth i (dup_flags [] vs) false = true <->
   exists j u, j < i /\ nth_error vs j = Some u /\ yeq u v).
Proof.
  intros W i v Hi.
  rewrite (dup_flags_spec vs W [] [] (Forall_nil _)); [| |exact Hi].
  - split.
    + intros [u [[[]|[j [Hj Hn]]] Y]]. exists j, u. auto.
    + intros [j [u [Hj [Hn Y]]]]. exists u. split; auto. right. exists j. auto.
  - split; [intros s []|intros u []].
Qed.

(* a row given by an expression is never reported *)
Lemma dup_expr_silent r : r_vals r = None -> check_dup_row r = [].
Proof. unfold check_dup_row. now intros ->. Qed.

(* the number of reported duplicates does not depend on the order of values:
   it is the number of values minus the number of equivalence classes; here
   the part needed below: flags length *)
Lemma dup_flags_length seen vs : length (dup_flags seen vs) = length vs.
Proof.
  revert seen; induction vs as [|v vs IH]; intros seen; cbn; [reflexivity|].
  destruct (existsb _ seen); cbn; now rewrite IH.
Qed.

(* ------------------------------------------------------------------------ *)
(* containment                                                              *)

Lemma find_lookup (f : yval -> bool) n (m : list (string * yval)) :
  (fix find (m : list (string * yval)) {struct m} : bool :=
     match m with
     | [] => false
     | (k, p) :: m' => if String.eqb n k then f p else find m'
     end) m = match lookup n m with Some v => f v | None => false end.
Proof.
  induction m as [|[k p] m IH]; cbn; [reflexivity|].
  destruct (String.eqb n k); auto.
Qed.

Definition sub_entry_ok (m : list (string * yval)) (ns : string * yval) : bool :=
  match lookup (fst ns) m with Some v => subset v (snd ns) | None => false end.

Lemma subset_obj_obj p q m ms :
  subset (YObj p m) (YObj q ms) = forallb (sub_entry_ok m) ms.
Proof.
  cbn [subset is_expr_str].
  induction ms as [|[n s] ms IH]; cbn [forallb]; [reflexivity|].
  rewrite IH. f_equal. unfold sub_entry_ok; cbn [fst snd].
  apply (find_lookup (fun p => subset p s)).
Qed.

Lemma subset_arr_arr p q es ss :
  subset (YArr p es) (YArr q ss) = (length es =? length ss) && all2 subset es ss.
Proof.
  cbn [subset is_expr_str]. f_equal.
  revert ss; induction es as [|e es IH]; intros [|s ss]; cbn; try reflexivity.
  now rewrite IH.
Qed.

Lemma subset_expr_r v q t : contains_expr t = true -> subset v (YStr q t) = true.
Proof. intros H. destruct v; cbn [subset is_expr_str]; now rewrite H. Qed.

Lemma subset_nonexpr sub v : is_expr_str sub = false ->
  subset v sub =
  match v with
  | YObj _ m => match sub with YObj _ ms => forallb (sub_entry_ok m) ms | _ => false end
  | YArr _ es => match sub with YArr _ ss => (length es =? length ss) && all2 subset es ss | _ => false end
  | YStr _ s => if contains_expr s then true else match sub with YStr _ t => String.eqb s t | _ => false end
  end.
Proof.
  intros H. destruct v as [p s|p es|p m].
  - cbn [subset]. now rewrite H.
  - destruct sub as [q t|q ss|q ms].
    + cbn [subset]. now rewrite H.
    + apply subset_arr_arr.
    + cbn [subset]. now rewrite H.
  - destruct sub as [q t|q ss|q ms].
    + cbn [subset]. now rewrite H.
    + cbn [subset]. now rewrite H.
    + apply subset_obj_obj.
Qed.

Lemma all2_subset_spec (es : list yval) :
  Forall (fun e => forall s, subset e s = true <-> ysubset e s) es ->
  forall ss, ((length es =? length ss) && all2 subset es ss = true <-> Forall2 ysubset es ss).
Proof.
  induction 1 as [|e es He _ IH]; intros [|s ss]; cbn.
  - split; [constructor|reflexivity].
  - split; [discriminate|intros H; inversion H].
  - split; [discriminate|intros H; inversion H].
  - change (S (length es) =? S (length ss)) with (length es =? length ss).
    specialize (IH ss). split.
    + intros H. apply andb_prop in H. destruct H as [HL H]. apply andb_prop in H. destruct H as [H1 H2].
      constructor; [now apply He|]. apply IH. now rewrite HL, H2.
    + intros H. inversion H as [|? ? ? ? E1 E2]; subst.
      apply IH in E2. apply andb_prop in E2. destruct E2 as [HL H2].
      rewrite HL, H2. apply He in E1. now rewrite E1.
Qed.

(* C19: "mappings match by subset, sequences element-wise, scalars by
   equality", an expression on either side matches. *)
Theorem subset_spec v : forall sub, subset v sub = true <-> ysubset v sub.
Proof.
  induction v as [p s|p es IH|p m IH] using yval_ind'; intros sub.
  - destruct (is_expr_str sub) eqn:X.
    + destruct sub as [q t| |]; try discriminate. cbn in X.
      rewrite subset_expr_r by exact X. split; [intros _; now constructor|reflexivity].
    + rewrite subset_nonexpr by exact X.
      destruct (contains_expr s) eqn:Cs.
      * split; [intros _; now apply ysub_expr_l|reflexivity].
      * destruct sub as [q t|q ss|q ms].
        -- rewrite String.eqb_eq. cbn in X. split.
           ++ intros ->. apply ysub_str.
           ++ intros H; inversion H; subst; congruence.
        -- split; [discriminate|]. intros H; inversion H; subst; congruence.
        -- split; [discriminate|]. intros H; inversion H; subst; congruence.
  - destruct (is_expr_str sub) eqn:X.
    + destruct sub as [q t| |]; try discriminate. cbn in X.
      rewrite subset_expr_r by exact X. split; [intros _; now constructor|reflexivity].
    + rewrite subset_nonexpr by exact X.
      destruct sub as [q t|q ss|q ms].
      * cbn in X. split; [discriminate|]. intros H; inversion H; subst; congruence.
      * rewrite (all2_subset_spec es IH ss).
        split; [intros H; now constructor|intros H; now inversion H].
      * split; [discriminate|]. intros H; inversion H.
  - destruct (is_expr_str sub) eqn:X.
    + destruct sub as [q t| |]; try discriminate. cbn in X.
      rewrite subset_expr_r by exact X. split; [intros _; now constructor|reflexivity].
    + rewrite subset_nonexpr by exact X.
      destruct sub as [q t|q ss|q ms].
      * cbn in X. split; [discriminate|]. intros H; inversion H; subst; congruence.
      * split; [discriminate|]. intros H; inversion H.
      * rewrite forallb_forall. rewrite Forall_forall in IH. split.
        -- intros H. constructor. intros k s I. specialize (H _ I).
           unfold sub_entry_ok in H; cbn in H.
           destruct (lookup k m) as [v|] eqn:L; [|discriminate].
           exists v. split; [reflexivity|].
           apply (IH _ (lookup_In _ _ _ L)). exact H.
        -- intros H. inversion H as [| | | |? ? ? ? HS]; subst.
           intros [k s] I. destruct (HS _ _ I) as [v [L Y]].
           unfold sub_entry_ok; cbn. rewrite L.
           apply (IH _ (lookup_In _ _ _ L)). exact Y.
Qed.

(* ------------------------------------------------------------------------ *)
(* exclude entries                                                          *)

Lemma mem_str_In k l : mem_str k l = true <-> In k l.
Proof.
  unfold mem_str. rewrite existsb_exists. split.
  - intros [x [I E]]. apply String.eqb_eq in E. now subst.
  - intros I. exists k. split; auto. apply string_eqb_refl.
Qed.

Definition mk (k : dkind) (p : pos) : diag := {| d_kind := k; d_pos := p; d_ref := None |}.

(* what the property demands for one exclude entry [k: a], given the
   candidate values per key and the set of keys whose row is an expression *)
Inductive assign_verdict (ign : list string) (rows : list (string * list yval))
          (k : string) (a : assign) : list diag -> Prop :=
| AV_ignored : In k ign -> assign_verdict ign rows k a []
| AV_missing : ~ In k ign -> lookup k rows = None ->
               assign_verdict ign rows k a [mk KeyMissing (a_keypos a)]
| AV_match r v : ~ In k ign -> lookup k rows = Some r -> In v r -> ysubset v (a_val a) ->
                 assign_verdict ign rows k a []
| AV_nomatch r : ~ In k ign -> lookup k rows = Some r ->
                 (forall v, In v r -> ~ ysubset v (a_val a)) ->
                 assign_verdict ign rows k a [mk NoMatch (ypos (a_val a))].

Theorem check_assign_exact ign rows k a :
  assign_verdict ign rows k a (check_assign ign rows (k, a)).
Proof.
  unfold check_assign.
  destruct (mem_str k ign) eqn:M.
  - apply AV_ignored. now apply mem_str_In.
  - assert (NI : ~ In k ign) by (intros I; apply mem_str_In in I; congruence).
    destruct (lookup k rows) as [r|] eqn:L.
    + destruct (existsb (fun v => subset v (a_val a)) r) eqn:E.
      * apply existsb_exists in E. destruct E as [v [I S]].
        eapply AV_match; eauto. now apply subset_spec.
      * eapply AV_nomatch; eauto. intros v I Y.
        assert (existsb (fun v => subset v (a_val a)) r = true) as E'.
        { apply existsb_exists. exists v. split; auto. now apply subset_spec. }
        congruence.
    + now apply AV_missing.
Qed.

(* the verdict is a function of the situation: the four cases exclude each other *)
Lemma assign_verdict_functional ign rows k a d1 d2 :
  assign_verdict ign rows k a d1 -> assign_verdict ign rows k a d2 -> d1 = d2.
Proof.
  intros H1 H2; inversion H1; inversion H2; subst; try reflexivity; try contradiction; try congruence;
    repeat match goal with
           | A : lookup k rows = Some ?r1, B : lookup k rows = Some ?r2 |- _ =>
               rewrite A in B; inversion B; subst; clear B
           end;
    exfalso;
    match goal with
    | HN : forall v, In v ?r -> ~ ysubset v _, HI : In ?v ?r, HY : ysubset ?v _ |- _ => exact (HN v HI HY)
    end.
Qed.
