(* Matrix/ExcludeProofs.v — the candidate values that `exclude` entries are
   matched against are exactly the row values plus the values assigned by
   `include` entries (de-duplicated up to structural equality), rows given by
   an expression being ignored. *)
From AL Require Import Matrix.RawYaml Matrix.MatrixRule Matrix.EqualsProofs Matrix.MatrixProofs.

Definition row_of (rows : list (string * list yval)) (k : string) : list yval :=
  match lookup k rows with Some r => r | None => [] end.

(* the values that the assignments in [flat] give to key k, in order *)
Fixpoint assigned (k : string) (flat : list (string * assign)) : list yval :=
  match flat with
  | [] => []
  | (n, a) :: flat' => if String.eqb n k then a_val a :: assigned k flat' else assigned k flat'
  end.

Definition rows_wf (rows : list (string * list yval)) : Prop :=
  forall k r, lookup k rows = Some r -> Forall ywf r.
Definition flat_wf (flat : list (string * assign)) : Prop :=
  Forall (fun na => ywf (a_val (snd na))) flat.

Lemma add_assign_ignored ign rows n a : mem_str n ign = true -> add_assign ign rows (n, a) = rows.
Proof. unfold add_assign. now intros ->. Qed.

Lemma add_assign_other ign rows n a k : n <> k ->
  lookup k (add_assign ign rows (n, a)) = lookup k rows.
Proof.
  intros N. unfold add_assign. destruct (mem_str n ign); [reflexivity|].
  destruct (existsb _ _); [reflexivity|]. now apply lookup_upsert_other.
Qed.

Lemma add_assign_same ign rows k a : mem_str k ign = false ->
  lookup k (add_assign ign rows (k, a)) =
  if existsb (fun v => equals v (a_val a)) (row_of rows k) then lookup k rows
  else Some (row_of rows k ++ [a_val a]).
Proof.
  intros M. unfold add_assign, row_of. rewrite M.
  destruct (existsb _ _); [reflexivity|]. apply lookup_upsert_same.
Qed.

Lemma add_assign_wf ign rows na : rows_wf rows -> ywf (a_val (snd na)) -> rows_wf (add_assign ign rows na).
Proof.
  destruct na as [n a]. intros W Wa k r. unfold add_assign.
  destruct (mem_str n ign); [apply W|].
  destruct (existsb _ _); [apply W|].
  destruct (String.eqb n k) eqn:E.
  - apply String.eqb_eq in E. subst. rewrite lookup_upsert_same. intros H; inversion H; subst.
    apply Forall_app. split; [|repeat constructor; exact Wa].
    destruct (lookup k rows) eqn:L; [eapply W; eauto|constructor].
  - apply String.eqb_neq in E. rewrite lookup_upsert_other by exact E. apply W.
Qed.

(* main invariant of the include loops *)
Lemma add_assigns_spec ign flat : forall rows, rows_wf rows -> flat_wf flat ->
  let rows' := fold_left (add_assign ign) flat rows in
  forall k, mem_str k ign = false ->
    (lookup k rows' = None <-> lookup k rows = None /\ assigned k flat = []) /\
    (forall v, In v (row_of rows' k) -> In v (row_of rows k ++ assigned k flat)) /\
    (forall u, In u (row_of rows k ++ assigned k flat) -> exists v, In v (row_of rows' k) /\ yeq v u).
Proof.
  induction flat as [|[n a] flat IH]; intros rows W F rows' k M; subst rows'; cbn [fold_left assigned].
  - rewrite app_nil_r. split; [split; [auto|now intros [H _]]|].
    split; [auto|]. intros u I. exists u. split; [exact I|apply yeq_refl].
  - inversion F as [|? ? Wa F']; subst. cbn in Wa.
    pose proof (add_assign_wf ign rows (n, a) W Wa) as W1.
    specialize (IH (add_assign ign rows (n, a)) W1 F' k M). cbv zeta in IH.
    destruct IH as [IH1 [IH2 IH3]].
    destruct (String.eqb n k) eqn:E.
    + apply String.eqb_eq in E. subst n.
      pose proof (add_assign_same ign rows k a M) as L.
      assert (Wr : Forall ywf (row_of rows k)).
      { unfold row_of. destruct (lookup k rows) eqn:Lk; [eapply W; eauto|constructor]. }
      destruct (existsb (fun v => equals v (a_val a)) (row_of rows k)) eqn:X.
      * (* already present up to structural equality: rows unchanged at k *)
        assert (R1 : row_of (add_assign ign rows (k, a)) k = row_of rows k) by (unfold row_of; now rewrite L).
        rewrite L in IH1. rewrite R1 in IH2, IH3.
        apply existsb_exists in X. destruct X as [v0 [I0 E0]].
        assert (Y0 : yeq v0 (a_val a)).
        { apply equals_exact; auto. rewrite Forall_forall in Wr. auto. }
        split; [|split].
        -- rewrite IH1. split; [intros [H1 H2]|intros [H1 H2]; discriminate H2].
           exfalso. unfold row_of in I0. rewrite H1 in I0. destruct I0.
        -- intros v I. specialize (IH2 v I). apply in_app_iff in IH2. apply in_app_iff.
           destruct IH2; [now left|right; now right].
        -- intros u I. apply in_app_iff in I. destruct I as [I|[<-|I]].
           ++ apply IH3. apply in_app_iff. now left.
           ++ destruct (IH3 v0) as [v [Iv Yv]]; [apply in_app_iff; now left|].
              exists v. split; [exact Iv|eapply yeq_trans; eauto].
           ++ apply IH3. apply in_app_iff. now right.
      * (* appended *)
        assert (R1 : row_of (add_assign ign rows (k, a)) k = row_of rows k ++ [a_val a]) by (unfold row_of; now rewrite L).
        rewrite L in IH1. rewrite R1 in IH2, IH3.
        split; [|split].
        -- rewrite IH1. split; [intros [H _]; discriminate H|intros [_ H]; discriminate H].
        -- intros v I. specialize (IH2 v I). rewrite <- app_assoc in IH2. exact IH2.
        -- intros u I. apply IH3. rewrite <- app_assoc. exact I.
    + apply String.eqb_neq in E.
      pose proof (add_assign_other ign rows n a k E) as L.
      assert (R1 : row_of (add_assign ign rows (n, a)) k = row_of rows k) by (unfold row_of; now rewrite L).
      rewrite L in IH1. rewrite R1 in IH2, IH3. auto.
Qed.

Lemma fold_left_flat_map {A B C} (f : A -> B -> A) (g : C -> list B) (l : list C) (a : A) :
  fold_left (fun acc c => fold_left f (g c) acc) l a = fold_left f (flat_map g l) a.
Proof.
  revert a; induction l as [|c l IH]; intros a; cbn; [reflexivity|].
  now rewrite IH, fold_left_app.
Qed.

(* --- base rows ---------------------------------------------------------- *)
Lemma base_rows_spec rs : NoDupKeys rs ->
  let (rows, ign) := base_rows rs in
  (forall k, In k ign <-> exists r, lookup k rs = Some r /\ r_expr r = true) /\
  (forall k, lookup k rows =
             match lookup k rs with
             | Some r => if r_expr r then None else Some (match r_vals r with Some vs => vs | None => [] end)
             | None => None
             end).
Proof.
  induction rs as [|[n r] rs IH]; intros ND; cbn [base_rows].
  - split; [intros k; split; [intros []|intros [r [H _]]; discriminate H]|reflexivity].
  - apply NoDupKeys_cons_inv in ND. destruct ND as [Hn ND]. specialize (IH ND).
    destruct (base_rows rs) as [rows ign]. destruct IH as [IH1 IH2].
    assert (Ln : lookup n rs = None) by (now apply lookup_None).
    destruct (r_expr r) eqn:X.
    + split.
      * intros k. cbn [In lookup]. destruct (String.eqb k n) eqn:E.
        -- apply String.eqb_eq in E. subst. split; [intros _; exists r; auto|now left].
        -- apply String.eqb_neq in E. rewrite IH1. split; [intros [H|H]; [congruence|exact H]|now right].
      * intros k. cbn [lookup]. destruct (String.eqb k n) eqn:E.
        -- apply String.eqb_eq in E. subst. rewrite X, IH2, Ln. reflexivity.
        -- apply IH2.
    + split.
      * intros k. cbn [lookup]. destruct (String.eqb k n) eqn:E.
        -- apply String.eqb_eq in E. subst. rewrite IH1, Ln. split; [intros [r' [H _]]; discriminate H|].
           intros [r' [H1 H2]]. inversion H1; subst. congruence.
        -- apply IH1.
      * intros k. cbn [lookup]. destruct (String.eqb k n) eqn:E.
        -- now rewrite X.
        -- apply IH2.
Qed.

(* --- the source values of a key ------------------------------------------ *)
Definition include_assigns (m : matrix) : list (string * assign) :=
  flat_map c_assigns (include_list m).

Definition row_values (m : matrix) (k : string) : list yval :=
  match lookup k (m_rows m) with
  | Some r => if r_expr r then [] else match r_vals r with Some vs => vs | None => [] end
  | None => []
  end.

(* a candidate source: a literal value of row k, or a value an include entry assigns to k *)
Definition source_values (m : matrix) (k : string) : list yval :=
  row_values m k ++ assigned k (include_assigns m).

Definition matrix_wf (m : matrix) : Prop :=
  NoDupKeys (m_rows m) /\
  (forall k r vs, lookup k (m_rows m) = Some r -> r_vals r = Some vs -> Forall ywf vs) /\
  flat_wf (include_assigns m).

(* C19: the candidates of key k are its source values, up to structural
   equality; the key has candidates iff a literal row or an include entry
   defines it; keys whose row is an expression are ignored. *)
Theorem candidates_spec m : matrix_wf m ->
  let (rows, ign) := candidates m in
  (forall k, In k ign <-> exists r, lookup k (m_rows m) = Some r /\ r_expr r = true) /\
  (forall k, ~ In k ign ->
     (lookup k rows = None <->
      (match lookup k (m_rows m) with Some _ => False | None => True end) /\ assigned k (include_assigns m) = []) /\
     (forall v, In v (row_of rows k) -> In v (source_values m k)) /\
     (forall u, In u (source_values m k) -> exists v, In v (row_of rows k) /\ yeq v u)).
Proof.
  intros [ND [Wv Wf]]. unfold candidates.
  pose proof (base_rows_spec (m_rows m) ND) as B.
  destruct (base_rows (m_rows m)) as [rows0 ign]. destruct B as [B1 B2].
  split; [exact B1|].
  intros k NI.
  assert (M : mem_str k ign = false).
  { destruct (mem_str k ign) eqn:E; [|reflexivity]. apply mem_str_In in E. contradiction. }
  unfold add_include. rewrite (fold_left_flat_map (add_assign ign) c_assigns).
  assert (W0 : rows_wf rows0).
  { intros k' r L. rewrite B2 in L. destruct (lookup k' (m_rows m)) as [r0|] eqn:L0; [|discriminate].
    destruct (r_expr r0); [discriminate|]. inversion L; subst.
    destruct (r_vals r0) eqn:V; [eapply Wv; eauto|constructor]. }
  pose proof (add_assigns_spec ign (include_assigns m) rows0 W0 Wf k M) as S. cbv zeta in S.
  fold (include_assigns m).
  destruct S as [S1 [S2 S3]].
  assert (R0 : row_of rows0 k = row_values m k).
  { unfold row_of, row_values. rewrite B2. destruct (lookup k (m_rows m)) as [r0|]; [|reflexivity].
    destruct (r_expr r0); reflexivity. }
  assert (L0 : lookup k rows0 = None <-> match lookup k (m_rows m) with Some _ => False | None => True end).
  { rewrite B2. destruct (lookup k (m_rows m)) as [r0|] eqn:Lk; [|tauto].
    destruct (r_expr r0) eqn:X; [|split; [discriminate|intros []]].
    exfalso. apply NI. apply B1. exists r0. auto. }
  split; [|split].
  - rewrite S1, L0. reflexivity.
  - intros v I. unfold source_values. rewrite <- R0. now apply S2.
  - intros u I. apply S3. rewrite R0. exact I.
Qed.

(* containment does not distinguish structurally equal candidates *)
Lemma ysubset_yeq_l v : forall v' a, ywf v -> ywf v' -> yeq v v' -> ysubset v a -> ysubset v' a.
Proof.
  induction v as [p s|p es IH|p m IH] using yval_ind'; intros v' a W W' Y S.
  - inversion Y; subst. inversion S; subst.
    + now apply ysub_expr_r.
    + now apply ysub_expr_l.
    + apply ysub_str.
  - inversion Y as [|? ? ? ys F2|]; subst. inversion S as [| | |? ? ? ss FS|]; subst; [now constructor|].
    constructor. apply ywf_arr_inv in W. apply ywf_arr_inv in W'.
    clear Y S. revert ys ss F2 FS W'. induction es as [|e es IHes]; intros ys ss F2 FS W'.
    + inversion F2; subst. inversion FS; subst. constructor.
    + inversion F2 as [|? y ? ys' Y1 Y2]; subst. inversion FS as [|? s ? ss' S1 S2]; subst.
      inversion IH as [|? ? IHe IHrest]; subst. inversion W as [|? ? We Wes]; subst.
      inversion W' as [|? ? Wy Wys]; subst.
      constructor; [eapply IHe; eauto|]. eapply IHes; eauto.
  - inversion Y as [| |? ? ? m2 HK]; subst. inversion S as [| | | |? ? ? ms HS]; subst; [now constructor|].
    constructor. intros k s I. destruct (HS _ _ I) as [v [L Sv]].
    specialize (HK k). rewrite L in HK. inversion HK as [|? v2 Yv E1 E2]; subst.
    exists v2. split; [reflexivity|].
    apply ywf_obj_inv in W. destruct W as [_ Wm]. apply ywf_obj_inv in W'. destruct W' as [_ Wm2].
    rewrite Forall_forall in IH.
    assert (Wv : ywf v) by exact (ywf_lookup _ _ _ Wm L).
    assert (Wv2 : ywf v2) by (eapply (ywf_lookup k v2 m2 Wm2); congruence).
    exact (IH (k, v) (lookup_In _ _ _ L) v2 s Wv Wv2 Yv Sv).
Qed.

(* C19, second clause, in terms of the written matrix: an exclude entry
   [k: a] (k not an expression row, k defined) is accepted iff some source
   value of k contains a. *)
Theorem exclude_verdict_sources m : matrix_wf m ->
  let (rows, ign) := candidates m in
  forall k a, ~ In k ign ->
    (existsb (fun v => subset v a) (row_of rows k) = true <->
     exists u, In u (source_values m k) /\ ysubset u a).
Proof.
  intros Wm. pose proof (candidates_spec m Wm) as C.
  destruct (candidates m) as [rows ign]. destruct C as [_ C].
  intros k a NI. destruct (C k NI) as [_ [C2 C3]].
  rewrite existsb_exists. split.
  - intros [v [I S]]. exists v. split; [now apply C2|now apply subset_spec].
  - intros [u [I S]]. destruct (C3 u I) as [v [Iv Yv]].
    exists v. split; [exact Iv|]. apply subset_spec.
    assert (Wu : ywf u).
    { destruct Wm as [_ [Wv Wf]]. unfold source_values in I. apply in_app_iff in I. destruct I as [I|I].
      - unfold row_values in I. destruct (lookup k (m_rows m)) as [r|] eqn:L; [|destruct I].
        destruct (r_expr r); [destruct I|]. destruct (r_vals r) eqn:V; [|destruct I].
        pose proof (Wv _ _ _ L V) as F. rewrite Forall_forall in F. auto.
      - clear - I Wf. unfold flat_wf in Wf. induction (include_assigns m) as [|[n x] l IH]; [destruct I|].
        inversion Wf; subst. cbn in I. destruct (String.eqb n k); [destruct I as [<-|I]; auto|auto]. }
    assert (Wv' : ywf v).
    { pose proof (C2 v Iv) as I'.
      destruct Wm as [_ [Wv Wf]]. unfold source_values in I'. apply in_app_iff in I'. destruct I' as [I'|I'].
      - unfold row_values in I'. destruct (lookup k (m_rows m)) as [r|] eqn:L; [|destruct I'].
        destruct (r_expr r); [destruct I'|]. destruct (r_vals r) eqn:V; [|destruct I'].
        pose proof (Wv _ _ _ L V) as F. rewrite Forall_forall in F. auto.
      - clear - I' Wf. unfold flat_wf in Wf. induction (include_assigns m) as [|[n x] l IH]; [destruct I'|].
        inversion Wf; subst. cbn in I'. destruct (String.eqb n k); [destruct I' as [<-|I']; auto|auto]. }
    eapply (ysubset_yeq_l u v a Wu Wv'); [apply yeq_sym; exact Yv|exact S].
Qed.
