(* Matrix/EqualsProofs.v — RawYAMLValue.Equals decides structural equality
   (objects as finite maps); it is an equivalence and does not depend on the
   order in which object members are stored. *)
From AL Require Import Matrix.RawYaml.

Fixpoint all2 (f : yval -> yval -> bool) (xs ys : list yval) : bool :=
  match xs, ys with
  | x :: xs', y :: ys' => f x y && all2 f xs' ys'
  | _, _ => true
  end.

Lemma equals_arr p q xs ys :
  equals (YArr p xs) (YArr q ys) = (length xs =? length ys) && all2 equals xs ys.
Proof.
  cbn [equals]. f_equal.
  revert ys; induction xs as [|x xs IH]; intros [|y ys]; cbn; try reflexivity.
  now rewrite IH.
Qed.

Definition obj_entry_ok (f : yval -> yval -> bool) (m2 : list (string * yval)) (np : string * yval) : bool :=
  match lookup (fst np) m2 with Some p2 => f (snd np) p2 | None => false end.

Lemma equals_obj p q m1 m2 :
  equals (YObj p m1) (YObj q m2) = (length m1 =? length m2) && forallb (obj_entry_ok equals m2) m1.
Proof.
  cbn [equals]. f_equal.
  induction m1 as [|[n p1] m1 IH]; cbn; [reflexivity|].
  unfold obj_entry_ok at 1; cbn. now rewrite IH.
Qed.

Lemma equals_str p q s t : equals (YStr p s) (YStr q t) = String.eqb s t.
Proof. reflexivity. Qed.

(* inversion helpers for ywf *)
Lemma ywf_arr_inv p es : ywf (YArr p es) -> Forall ywf es.
Proof. intros H; inversion H; assumption. Qed.
Lemma ywf_obj_inv p m : ywf (YObj p m) -> NoDupKeys m /\ Forall (fun kv => ywf (snd kv)) m.
Proof. intros H; inversion H; auto. Qed.

Lemma ywf_lookup k v m : Forall (fun kv => ywf (snd kv)) m -> lookup k m = Some v -> ywf v.
Proof.
  intros F L. apply lookup_In in L. rewrite Forall_forall in F. exact (F _ L).
Qed.

Lemma keys_length {V} (m : list (string * V)) : length (keys m) = length m.
Proof. apply map_length. Qed.

Lemma all2_spec (xs : list yval) :
  Forall (fun x => forall b, ywf b -> (equals x b = true <-> yeq x b)) xs ->
  forall ys, Forall ywf ys ->
  ((length xs =? length ys) && all2 equals xs ys = true <-> Forall2 yeq xs ys).
Proof.
  induction 1 as [|x xs Hx _ IH]; intros [|y ys] Wy; cbn.
  - split; [constructor|reflexivity].
  - split; [discriminate|intros H; inversion H].
  - split; [discriminate|intros H; inversion H].
  - inversion Wy as [|? ? Wy1 Wy2]; subst.
    specialize (IH ys Wy2). specialize (Hx y Wy1).
    change (S (length xs) =? S (length ys)) with (length xs =? length ys).
    split.
    + intros H. apply andb_prop in H. destruct H as [HL H]. apply andb_prop in H. destruct H as [H1 H2].
      constructor; [now apply Hx|]. apply IH. now rewrite HL, H2.
    + intros H. inversion H as [|? ? ? ? E1 E2]; subst.
      apply IH in E2. apply andb_prop in E2. destruct E2 as [HL H2].
      rewrite HL, H2. apply Hx in E1. now rewrite E1.
Qed.

Theorem equals_exact a : ywf a -> forall b, ywf b -> (equals a b = true <-> yeq a b).
Proof.
  induction a as [p s|p es IH|p m IH] using yval_ind'; intros Wa b Wb.
  - destruct b as [q t|q ys|q m2]; cbn.
    + rewrite String.eqb_eq. split; [intros ->; constructor|intros H; now inversion H].
    + split; [discriminate|intros H; inversion H].
    + split; [discriminate|intros H; inversion H].
  - destruct b as [q t|q ys|q m2].
    + cbn. split; [discriminate|intros H; inversion H].
    + rewrite equals_arr. apply ywf_arr_inv in Wa. apply ywf_arr_inv in Wb.
      assert (IH' : Forall (fun x => forall b, ywf b -> (equals x b = true <-> yeq x b)) es).
      { rewrite Forall_forall in *. intros x Hx. apply IH; auto. }
      rewrite (all2_spec es IH' ys Wb).
      split; [intros H; now constructor|intros H; now inversion H].
    + cbn. split; [discriminate|intros H; inversion H].
  - destruct b as [q t|q ys|q m2].
    + cbn. split; [discriminate|intros H; inversion H].
    + cbn. split; [discriminate|intros H; inversion H].
    + rewrite equals_obj.
      apply ywf_obj_inv in Wa. destruct Wa as [ND1 W1].
      apply ywf_obj_inv in Wb. destruct Wb as [ND2 W2].
      split.
      * intros H. apply andb_prop in H. destruct H as [HL HF].
        apply Nat.eqb_eq in HL. rewrite forallb_forall in HF.
        assert (Hsub : forall k p1, lookup k m = Some p1 ->
                  exists p2, lookup k m2 = Some p2 /\ yeq p1 p2).
        { intros k p1 L. pose proof (lookup_In _ _ _ L) as I.
          specialize (HF _ I). unfold obj_entry_ok in HF; cbn in HF.
          destruct (lookup k m2) as [p2|] eqn:L2; [|discriminate].
          exists p2. split; [reflexivity|].
          rewrite Forall_forall in IH.
          assert (Wp1 : ywf p1) by exact (ywf_lookup _ _ _ W1 L).
          assert (Wp2 : ywf p2) by exact (ywf_lookup _ _ _ W2 L2).
          apply (proj1 (IH (k, p1) I Wp1 p2 Wp2)). exact HF. }
        assert (Hincl : incl (keys m) (keys m2)).
        { intros k Hk. destruct (lookup k m) as [p1|] eqn:L.
          - destruct (Hsub _ _ L) as [p2 [L2 _]]. eapply lookup_Some_key; eauto.
          - apply lookup_None in L. contradiction. }
        assert (Hincl' : incl (keys m2) (keys m)).
        { apply NoDup_length_incl; auto. rewrite !keys_length. lia. }
        constructor. intros k.
        destruct (lookup k m) as [p1|] eqn:L.
        -- destruct (Hsub _ _ L) as [p2 [L2 E]]. rewrite L2. now constructor.
        -- destruct (lookup k m2) as [p2|] eqn:L2; [|constructor].
           exfalso. apply lookup_None in L. apply L. apply Hincl'. eapply lookup_Some_key; eauto.
      * intros H. inversion H as [| |? ? ? ? HK]; subst.
        assert (Hk : forall k, In k (keys m) <-> In k (keys m2)).
        { intros k. specialize (HK k). split; intros I.
          - destruct (lookup k m2) eqn:L2; [eapply lookup_Some_key; eauto|].
            destruct (lookup k m) eqn:L1; [inversion HK|]. apply lookup_None in L1. contradiction.
          - destruct (lookup k m) eqn:L1; [eapply lookup_Some_key; eauto|].
            destruct (lookup k m2) eqn:L2; [inversion HK|]. apply lookup_None in L2. contradiction. }
        assert (HL : length m = length m2).
        { rewrite <- (keys_length m), <- (keys_length m2).
          apply Permutation_length. apply NoDup_Permutation; auto. }
        rewrite HL, Nat.eqb_refl. cbn.
        apply forallb_forall. intros [n p1] I. unfold obj_entry_ok; cbn.
        pose proof (In_lookup _ _ _ ND1 I) as L1.
        specialize (HK n). rewrite L1 in HK. inversion HK as [|? p2 E E1 E2]; subst.
        rewrite Forall_forall in IH.
        assert (Wp1 : ywf p1) by exact (ywf_lookup _ _ _ W1 L1).
        assert (Wp2 : ywf p2) by (eapply (ywf_lookup n p2 m2 W2); congruence).
        apply (proj2 (IH (n, p1) I Wp1 p2 Wp2)). exact E.
Qed.

(* --- yeq is an equivalence relation ----------------------------------- *)
Lemma yeq_refl a : yeq a a.
Proof.
  induction a as [p s|p es IH|p m IH] using yval_ind'.
  - constructor.
  - constructor. induction IH; constructor; auto.
  - constructor. intros k. destruct (lookup k m) as [v|] eqn:L; constructor.
    rewrite Forall_forall in IH. apply (IH _ (lookup_In _ _ _ L)).
Qed.

Lemma Forall2_sym_with (xs : list yval) :
  Forall (fun x => forall b, yeq x b -> yeq b x) xs ->
  forall ys, Forall2 yeq xs ys -> Forall2 yeq ys xs.
Proof.
  induction 1 as [|x xs Hx _ IH]; intros ys H; inversion H; subst; constructor; auto.
Qed.

Lemma yeq_sym a : forall b, yeq a b -> yeq b a.
Proof.
  induction a as [p s|p es IH|p m IH] using yval_ind'; intros b H; inversion H; subst.
  - constructor.
  - constructor. now apply Forall2_sym_with.
  - constructor. intros k.
    match goal with HK : forall k, option_rel yeq _ _ |- _ => specialize (HK k); rename HK into HK' end.
    destruct (lookup k m) as [v|] eqn:L; inversion HK'; subst; constructor.
    rewrite Forall_forall in IH. apply (IH _ (lookup_In _ _ _ L)). assumption.
Qed.

Lemma Forall2_trans_with (xs : list yval) :
  Forall (fun x => forall b c, yeq x b -> yeq b c -> yeq x c) xs ->
  forall ys zs, Forall2 yeq xs ys -> Forall2 yeq ys zs -> Forall2 yeq xs zs.
Proof.
  induction 1 as [|x xs Hx _ IH]; intros ys zs H1 H2; inversion H1; subst; inversion H2; subst;
    constructor; eauto.
Qed.

Lemma yeq_trans a : forall b c, yeq a b -> yeq b c -> yeq a c.
Proof.
  induction a as [p s|p es IH|p m IH] using yval_ind'; intros b c H1 H2;
    inversion H1; subst; inversion H2; subst.
  - constructor.
  - constructor. eapply Forall2_trans_with; eauto.
  - constructor. intros k.
    repeat match goal with HK : forall k, option_rel yeq _ _ |- _ => specialize (HK k) end.
    destruct (lookup k m) as [v|] eqn:L.
    + match goal with H : option_rel yeq (Some v) _ |- _ => inversion H; subst end.
      match goal with E : Some _ = lookup k ?mm, H : option_rel yeq (lookup k ?mm) _ |- _ =>
        rewrite <- E in H; inversion H; subst end.
      constructor. rewrite Forall_forall in IH. eapply (IH _ (lookup_In _ _ _ L)); eauto.
    + match goal with H : option_rel yeq None _ |- _ => inversion H; subst end.
      match goal with E : None = lookup k ?mm, H : option_rel yeq (lookup k ?mm) _ |- _ =>
        rewrite <- E in H; inversion H; subst end.
      constructor.
Qed.

Corollary equals_sym a b : ywf a -> ywf b -> equals a b = equals b a.
Proof.
  intros Wa Wb.
  destruct (equals a b) eqn:E1, (equals b a) eqn:E2; try reflexivity.
  - apply (equals_exact a Wa b Wb) in E1. apply yeq_sym in E1.
    apply (equals_exact b Wb a Wa) in E1. congruence.
  - apply (equals_exact b Wb a Wa) in E2. apply yeq_sym in E2.
    apply (equals_exact a Wa b Wb) in E2. congruence.
Qed.

Corollary equals_refl a : ywf a -> equals a a = true.
Proof. intros W. apply equals_exact; auto. apply yeq_refl. Qed.

(* --- member order does not matter -------------------------------------- *)
Lemma yeq_obj_perm p q m m' : Permutation m m' -> NoDupKeys m -> yeq (YObj p m) (YObj q m').
Proof.
  intros P ND. constructor. intros k. rewrite <- (lookup_perm k m m' P ND).
  destruct (lookup k m); constructor. apply yeq_refl.
Qed.

Lemma ywf_obj_perm p m m' : Permutation m m' -> ywf (YObj p m) -> ywf (YObj p m').
Proof.
  intros P W. apply ywf_obj_inv in W. destruct W as [ND F]. constructor.
  - eapply NoDupKeys_perm; eauto.
  - eapply Permutation_Forall; eauto.
Qed.

Lemma equals_respects_yeq a a' b b' :
  ywf a -> ywf a' -> ywf b -> ywf b' -> yeq a a' -> yeq b b' -> equals a b = equals a' b'.
Proof.
  intros Wa Wa' Wb Wb' Ea Eb.
  destruct (equals a b) eqn:E1, (equals a' b') eqn:E2; try reflexivity.
  - apply (equals_exact a Wa b Wb) in E1.
    assert (yeq a' b') as H by (eapply yeq_trans; [apply yeq_sym; eauto|eapply yeq_trans; eauto]).
    apply (equals_exact a' Wa' b' Wb') in H. congruence.
  - apply (equals_exact a' Wa' b' Wb') in E2.
    assert (yeq a b) as H by (eapply yeq_trans; [eauto|eapply yeq_trans; [eauto|apply yeq_sym; eauto]]).
    apply (equals_exact a Wa b Wb) in H. congruence.
Qed.

Theorem equals_perm p q m1 m1' m2 m2' :
  Permutation m1 m1' -> Permutation m2 m2' -> ywf (YObj p m1) -> ywf (YObj q m2) ->
  equals (YObj p m1) (YObj q m2) = equals (YObj p m1') (YObj q m2').
Proof.
  intros P1 P2 W1 W2.
  apply equals_respects_yeq; auto.
  - eapply ywf_obj_perm; eauto.
  - eapply ywf_obj_perm; eauto.
  - apply yeq_obj_perm; auto. now apply ywf_obj_inv in W1.
  - apply yeq_obj_perm; auto. now apply ywf_obj_inv in W2.
Qed.

(* The pre-fix comparison was not symmetric: {a: 1} "equals" {a: 1, b: 2}
   but not conversely (finding #19, repaired by a fix: commit). *)
Lemma equals_old_not_sym :
  exists a b, ywf a /\ ywf b /\ equals_old a b = true /\ equals_old b a = false.
Proof.
  exists (YObj (1,1)%N [("a", YStr (1,2)%N "1")]),
         (YObj (2,1)%N [("a", YStr (2,2)%N "1"); ("b", YStr (2,3)%N "2")]).
  repeat split.
  - constructor; [repeat constructor; intros []|repeat constructor].
  - constructor; [|repeat constructor].
    unfold NoDupKeys; cbn. constructor; [intros [H|[]]; discriminate|constructor; [intros []|constructor]].
Qed.
