(* Expr/RecaseObs.v — input and observable of the model side of the C08
   correspondence check.  A case is a C06 case (updates, configuration, JSON
   oracle, expression) whose expression is dumped *as written* (names taken from
   the tokens, before the parser folds them), plus a second spelling of the same
   expression.  [run_c08] evaluates the model on both spellings (through
   [parser_fold]), demands that the two results coincide, and returns the
   observable of the first, which is compared with what
   ExprSemanticsChecker.Check reported for it.  When the harness changed the
   case of name occurrences only (no key of a JSON literal), the pair must be in
   [recase_rel]: decided by [recase_relb]. *)
From AL Require Import Base.Corr Expr.Sema Expr.SemaObs Expr.Recase Gen.GenFuncs.

Definition tpos_eqb (a b : tpos) : bool :=
  N.eqb (t_off a) (t_off b) && N.eqb (t_line a) (t_line b) && N.eqb (t_col a) (t_col b).
Definition fold_eqb (s s' : string) : bool := String.eqb (lower s) (lower s').
Definition cmpop_eqb (a b : cmpop) : bool :=
  match a, b with
  | CLess, CLess | CLessEq, CLessEq | CGreater, CGreater | CGreaterEq, CGreaterEq | CEq, CEq | CNotEq, CNotEq => true
  | _, _ => false
  end.
Definition logop_eqb (a b : logop) : bool :=
  match a, b with LAnd, LAnd | LOr, LOr => true | _, _ => false end.

Fixpoint recase_relb (e e' : expr) {struct e} : bool :=
  match e, e' with
  | EVar p n, EVar p' n' => tpos_eqb p p' && fold_eqb n n'
  | ENull p, ENull p' => tpos_eqb p p'
  | EBool p b, EBool p' b' => tpos_eqb p p' && Bool.eqb b b'
  | EInt p z, EInt p' z' => tpos_eqb p p' && Z.eqb z z'
  | EFloat p r, EFloat p' r' => tpos_eqb p p' && String.eqb r r'
  | EStr p s, EStr p' s' => tpos_eqb p p' && String.eqb s s'
  | EDeref r n, EDeref r' n' => recase_relb r r' && fold_eqb n n'
  | EArrDeref r, EArrDeref r' => recase_relb r r'
  | EIndex o i, EIndex o' i' =>
      recase_relb o o' &&
      match i, i' with
      | EStr p s, EStr p' s' => tpos_eqb p p' && fold_eqb s s'
      | _, _ => recase_relb i i'
      end
  | ENot p x, ENot p' x' => tpos_eqb p p' && recase_relb x x'
  | ECmp op l r, ECmp op' l' r' => cmpop_eqb op op' && recase_relb l l' && recase_relb r r'
  | ELog op l r, ELog op' l' r' => logop_eqb op op' && recase_relb l l' && recase_relb r r'
  | ECall p c args, ECall p' c' args' =>
      tpos_eqb p p' && fold_eqb c c' &&
      (fix go (l l' : list expr) {struct l} : bool :=
         match l, l' with
         | [], [] => true
         | a :: t, a' :: t' => recase_relb a a' && go t t'
         | _, _ => false
         end) args args'
  | _, _ => false
  end.

Lemma tpos_eqb_eq a b : tpos_eqb a b = true -> a = b.
Proof.
  unfold tpos_eqb. destruct a, b; cbn. intros H.
  apply andb_prop in H. destruct H as [H H3]. apply andb_prop in H. destruct H as [H1 H2].
  apply N.eqb_eq in H1, H2, H3. congruence.
Qed.
Lemma fold_eqb_eq s s' : fold_eqb s s' = true -> same_fold s s'.
Proof. apply String.eqb_eq. Qed.

Ltac split_andb :=
  repeat match goal with H : _ && _ = true |- _ => apply andb_prop in H; destruct H end.

Theorem recase_relb_sound e : forall e', recase_relb e e' = true -> recase_rel e e'.
Proof.
  induction e as [p n|p|p b|p z|p r|p s|r n IHr|r IHr|o i IHo IHi|p x IHx|op l r IHl IHr|op l r IHl IHr|p c args IHargs]
    using expr_ind'; intros e' H; destruct e'; try discriminate H; cbn [recase_relb] in H; split_andb.
  - apply tpos_eqb_eq in H. subst. constructor. now apply fold_eqb_eq.
  - apply tpos_eqb_eq in H. subst. constructor.
  - apply tpos_eqb_eq in H. apply Bool.eqb_prop in H0. subst. constructor.
  - apply tpos_eqb_eq in H. apply Z.eqb_eq in H0. subst. constructor.
  - apply tpos_eqb_eq in H. apply String.eqb_eq in H0. subst. constructor.
  - apply tpos_eqb_eq in H. apply String.eqb_eq in H0. subst. constructor.
  - constructor; [now apply IHr|now apply fold_eqb_eq].
  - constructor. now apply IHr.
  - destruct i; try (apply RIndex; [now apply IHo|now apply IHi]).
    destruct e'2; try (apply RIndex; [now apply IHo|now apply IHi]).
    split_andb. match goal with H : tpos_eqb _ _ = true |- _ => apply tpos_eqb_eq in H; subst end.
    apply RIndexLit; [now apply IHo|now apply fold_eqb_eq].
  - apply tpos_eqb_eq in H. subst. constructor. now apply IHx.
  - match goal with H : cmpop_eqb ?a ?b = true |- _ => destruct a, b; try discriminate H end; constructor; auto.
  - match goal with H : logop_eqb ?a ?b = true |- _ => destruct a, b; try discriminate H end; constructor; auto.
  - apply tpos_eqb_eq in H. subst. constructor; [now apply fold_eqb_eq|].
    clear H1. revert args0 H0. induction IHargs as [|a l Ha _ IH]; intros l' H0; destruct l'; try discriminate H0; [constructor|].
    split_andb. constructor; [now apply Ha|now apply IH].
Qed.

Record rcase := RC {
  r_case : kcase;        (* k_expr = the first spelling, as written *)
  r_variant : expr;      (* the second spelling, as written *)
  r_ty : ty;             (* result type reported by the implementation for the first spelling *)
  r_names_only : bool    (* the harness changed name occurrences of the expression only (no JSON key) *)
}.

Definition run_c08 (c : rcase) : list tuple :=
  let E := case_env (r_case c) in
  let e := k_expr (r_case c) in
  let '(t, ds) := check E (parser_fold e) in
  let '(t', ds') := check E (parser_fold (r_variant c)) in
  if negb (ty_eqb (canon t) (canon (r_ty c))) then [[999%N]]
  else if negb (ty_eqb (canon t) (canon t') && tuples_eqb (map obs_of ds) (map obs_of ds')) then [[998%N]]
  else if r_names_only c && negb (recase_relb e (r_variant c)) then [[997%N]]
  else map obs_of ds.
