(* Expr/ParserProofs.v — the parser model accepts exactly the grammar:
   soundness, completeness, uniqueness of the derived tree, sufficiency of the
   fuel, location of the single diagnostic, precedence strata. *)
From AL Require Import Expr.Parser Expr.Grammar.
From Coq Require Import Lia.

Ltac inv H := inversion H; subst; clear H.

Section Proofs.
Variable int_lit : string -> option Z.
Variable float_ok : string -> bool.

Notation p_or := (p_or int_lit float_ok).
Notation p_and := (p_and int_lit float_ok).
Notation p_cmp := (p_cmp int_lit float_ok).
Notation p_pre := (p_pre int_lit float_ok).
Notation p_post := (p_post int_lit float_ok).
Notation p_postloop := (p_postloop int_lit float_ok).
Notation p_prim := (p_prim int_lit float_ok).
Notation p_args := (p_args int_lit float_ok).
Notation parse_toks := (parse_toks int_lit float_ok).
Notation d_or := (d_or int_lit float_ok).
Notation d_and := (d_and int_lit float_ok).
Notation d_cmp := (d_cmp int_lit float_ok).
Notation d_pre := (d_pre int_lit float_ok).
Notation d_post := (d_post int_lit float_ok).
Notation d_prim := (d_prim int_lit float_ok).
Notation d_args := (d_args int_lit float_ok).

(* ------------------------------------------------------------ first sets *)
Definition expr_start (k : tkind) : bool :=
  match k with TIdent | TLParen | TInt | TFloat | TString | TNot => true | _ => false end.
Definition prim_start (k : tkind) : bool :=
  match k with TIdent | TLParen | TInt | TFloat | TString => true | _ => false end.

Definition starts (c : tkind -> bool) (ts : list token) : Prop :=
  exists t ts', ts = t :: ts' /\ c (tk_kind t) = true.

Lemma starts_app c ts more : starts c ts -> starts c (ts ++ more).
Proof. intros (t & ts' & -> & H). exists t, (ts' ++ more). split; [reflexivity|exact H]. Qed.

Lemma prim_expr_start k : prim_start k = true -> expr_start k = true.
Proof. destruct k; cbn; congruence. Qed.

Lemma starts_weaken ts : starts prim_start ts -> starts expr_start ts.
Proof. intros (t & ts' & -> & H). exists t, ts'. split; [reflexivity|now apply prim_expr_start]. Qed.

Lemma first_prim ts e : d_prim ts e -> starts prim_start ts.
Proof.
  destruct 1; eexists; eexists; (split; [reflexivity|]);
    match goal with H : tk_kind _ = _ |- _ => try (rewrite H; reflexivity) end.
  all: try (rewrite H; reflexivity).
Qed.

Lemma first_post ts e : d_post ts e -> starts prim_start ts.
Proof.
  induction 1 as [ts e H | ts e t1 t2 H IH K1 K2 | ts e t1 t2 H IH K1 K2 | ts e tl ti i tr H IH K1 Hi K2].
  - eapply first_prim; eauto.
  - now apply starts_app.
  - now apply starts_app.
  - now apply starts_app.
Qed.

Lemma first_pre ts e : d_pre ts e -> starts expr_start ts.
Proof.
  induction 1 as [ts e H | t ts e K H IH].
  - apply starts_weaken. eapply first_post; eauto.
  - exists t, ts. split; [reflexivity|]. rewrite K. reflexivity.
Qed.

Lemma first_cmp ts e : d_cmp ts e -> starts expr_start ts.
Proof. destruct 1 as [ts e H | ts1 t ts2 op l r H]; [|apply starts_app]; eapply first_pre; eauto. Qed.
Lemma first_and ts e : d_and ts e -> starts expr_start ts.
Proof. destruct 1 as [ts e H | ts1 t ts2 l r H]; [|apply starts_app]; eapply first_cmp; eauto. Qed.
Lemma first_or ts e : d_or ts e -> starts expr_start ts.
Proof. destruct 1 as [ts e H | ts1 t ts2 l r H]; [|apply starts_app]; eapply first_and; eauto. Qed.
Lemma first_args ts es : d_args ts es -> starts expr_start ts.
Proof. destruct 1 as [ts e H | ts e c rest es H]; [|apply starts_app]; eapply first_or; eauto. Qed.

Lemma starts_length c ts rest : starts c ts -> length rest < length (ts ++ rest).
Proof. intros (t & ts' & -> & _). rewrite app_length. cbn. lia. Qed.

(* ------------------------------------------------------------ unfolding *)
Lemma p_or_S n ts : p_or (S n) ts =
  rbind (p_and n ts) (fun l rest =>
    match rest with
    | t :: rest' =>
        match tk_kind t with
        | TOr => rbind (p_or n rest') (fun r rest'' => ROk (ELog LOr l r) rest'')
        | _ => ROk l rest
        end
    | [] => ROk l rest
    end).
Proof. reflexivity. Qed.

Lemma p_and_S n ts : p_and (S n) ts =
  rbind (p_cmp n ts) (fun l rest =>
    match rest with
    | t :: rest' =>
        match tk_kind t with
        | TAnd => rbind (p_and n rest') (fun r rest'' => ROk (ELog LAnd l r) rest'')
        | _ => ROk l rest
        end
    | [] => ROk l rest
    end).
Proof. reflexivity. Qed.

Lemma p_cmp_S n ts : p_cmp (S n) ts =
  rbind (p_pre n ts) (fun l rest =>
    match rest with
    | t :: rest' =>
        match cmp_of_kind (tk_kind t) with
        | Some op => rbind (p_cmp n rest') (fun r rest'' => ROk (ECmp op l r) rest'')
        | None => ROk l rest
        end
    | [] => ROk l rest
    end).
Proof. reflexivity. Qed.

Lemma p_pre_S n ts : p_pre (S n) ts =
  match ts with
  | t :: rest =>
      match tk_kind t with
      | TNot => rbind (p_pre n rest) (fun o rest' => ROk (ENot (tk_pos t) o) rest')
      | _ => p_post n ts
      end
  | [] => p_post n ts
  end.
Proof. reflexivity. Qed.

Lemma p_post_S n ts : p_post (S n) ts = rbind (p_prim n ts) (fun e rest => p_postloop n e rest).
Proof. reflexivity. Qed.

Lemma p_postloop_S n ret ts : p_postloop (S n) ret ts =
  match ts with
  | t :: rest =>
      match tk_kind t with
      | TDot =>
          match rest with
          | t2 :: rest2 =>
              match tk_kind t2 with
              | TStar => p_postloop n (EArrDeref ret) rest2
              | TIdent => p_postloop n (EDeref ret (lower (tk_val t2))) rest2
              | _ => err_here (PEUnexpected 4) rest
              end
          | [] => err_here (PEUnexpected 4) rest
          end
      | TLBracket =>
          rbind (p_or n rest) (fun idx rest1 =>
            match rest1 with
            | t2 :: rest2 =>
                match tk_kind t2 with
                | TRBracket => p_postloop n (EIndex ret idx) rest2
                | _ => err_here (PEUnexpected 5) rest1
                end
            | [] => err_here (PEUnexpected 5) rest1
            end)
      | _ => ROk ret ts
      end
  | [] => ROk ret ts
  end.
Proof. reflexivity. Qed.

Lemma p_prim_S n ts : p_prim (S n) ts =
  match ts with
  | t :: rest =>
      match tk_kind t with
      | TIdent =>
          match rest with
          | lp :: rest1 =>
              match tk_kind lp with
              | TLParen =>
                  match rest1 with
                  | rp :: rest2 =>
                      match tk_kind rp with
                      | TRParen => ROk (ECall (tk_pos t) (tk_val t) []) rest2
                      | _ => rbind (p_args n rest1) (fun args rest3 =>
                               ROk (ECall (tk_pos t) (tk_val t) args) rest3)
                      end
                  | [] => rbind (p_args n rest1) (fun args rest3 =>
                            ROk (ECall (tk_pos t) (tk_val t) args) rest3)
                  end
              | _ => ROk (ident_node t) rest
              end
          | [] => ROk (ident_node t) rest
          end
      | TLParen =>
          rbind (p_or n rest) (fun e rest1 =>
            match rest1 with
            | rp :: rest2 =>
                match tk_kind rp with
                | TRParen => ROk e rest2
                | _ => err_here (PEUnexpected 3) rest1
                end
            | [] => err_here (PEUnexpected 3) rest1
            end)
      | TInt =>
          match int_lit (tk_val t) with
          | Some z => ROk (EInt (tk_pos t) z) rest
          | None => err_here PEBadInt ts
          end
      | TFloat =>
          if float_ok (tk_val t) then ROk (EFloat (tk_pos t) (tk_val t)) rest
          else err_here PEBadFloat ts
      | TString =>
          match unquote (tk_val t) with
          | Some s => ROk (EStr (tk_pos t) s) rest
          | None => RPanic
          end
      | _ => err_here (PEUnexpected 1) ts
      end
  | [] => err_here (PEUnexpected 1) ts
  end.
Proof. reflexivity. Qed.

Lemma p_args_S n ts : p_args (S n) ts =
  rbind (p_or n ts) (fun a rest =>
    match rest with
    | t :: rest' =>
        match tk_kind t with
        | TComma => rbind (p_args n rest') (fun more rest'' => ROk (a :: more) rest'')
        | TRParen => ROk [a] rest'
        | _ => err_here (PEUnexpected 2) rest
        end
    | [] => err_here (PEUnexpected 2) rest
    end).
Proof. reflexivity. Qed.

(* ------------------------------------------------------------ soundness *)
Definition S_expr (f : nat -> list token -> res expr) (d : list token -> expr -> Prop) (n : nat) :=
  forall ts e rest, f n ts = ROk e rest -> exists pre, ts = pre ++ rest /\ d pre e.

Definition S_loop n := forall ret ts e rest pre0, d_post pre0 ret -> p_postloop n ret ts = ROk e rest ->
  exists mid, ts = mid ++ rest /\ d_post (pre0 ++ mid) e.

Definition S_args n := forall ts es rest, p_args n ts = ROk es rest ->
  exists pre rp, ts = pre ++ rp :: rest /\ tk_kind rp = TRParen /\ d_args pre es.

Lemma sound_all n :
  S_expr p_or d_or n /\ S_expr p_and d_and n /\ S_expr p_cmp d_cmp n /\ S_expr p_pre d_pre n /\
  S_expr p_post d_post n /\ S_loop n /\ S_expr p_prim d_prim n /\ S_args n.
Proof.
  induction n as [|n IH].
  { repeat split; unfold S_expr, S_loop, S_args; cbn; intros; discriminate. }
  destruct IH as (IHor & IHand & IHcmp & IHpre & IHpost & IHloop & IHprim & IHargs).
  repeat split.
  - (* or *)
    intros ts e rest H. rewrite p_or_S in H.
    destruct (p_and n ts) as [l r1| | |] eqn:E; cbn [rbind] in H; try discriminate.
    apply IHand in E. destruct E as (pre1 & -> & D1).
    destruct r1 as [|t r1'].
    { inv H. exists pre1. split; [reflexivity|]. now apply D_or_and. }
    destruct (tk_kind t) eqn:K;
      try (inv H; exists pre1; split; [reflexivity|now apply D_or_and]).
    destruct (p_or n r1') as [r r2| | |] eqn:E2; cbn [rbind] in H; try discriminate.
    inv H. apply IHor in E2. destruct E2 as (pre2 & -> & D2).
    exists (pre1 ++ t :: pre2). split; [now rewrite <- app_assoc|]. eapply D_or; eauto.
  - (* and *)
    intros ts e rest H. rewrite p_and_S in H.
    destruct (p_cmp n ts) as [l r1| | |] eqn:E; cbn [rbind] in H; try discriminate.
    apply IHcmp in E. destruct E as (pre1 & -> & D1).
    destruct r1 as [|t r1'].
    { inv H. exists pre1. split; [reflexivity|]. now apply D_and_cmp. }
    destruct (tk_kind t) eqn:K;
      try (inv H; exists pre1; split; [reflexivity|now apply D_and_cmp]).
    destruct (p_and n r1') as [r r2| | |] eqn:E2; cbn [rbind] in H; try discriminate.
    inv H. apply IHand in E2. destruct E2 as (pre2 & -> & D2).
    exists (pre1 ++ t :: pre2). split; [now rewrite <- app_assoc|]. eapply D_and; eauto.
  - (* cmp *)
    intros ts e rest H. rewrite p_cmp_S in H.
    destruct (p_pre n ts) as [l r1| | |] eqn:E; cbn [rbind] in H; try discriminate.
    apply IHpre in E. destruct E as (pre1 & -> & D1).
    destruct r1 as [|t r1'].
    { inv H. exists pre1. split; [reflexivity|]. now apply D_cmp_pre. }
    destruct (cmp_of_kind (tk_kind t)) as [op|] eqn:K.
    2:{ inv H. exists pre1. split; [reflexivity|]. now apply D_cmp_pre. }
    destruct (p_cmp n r1') as [r r2| | |] eqn:E2; cbn [rbind] in H; try discriminate.
    inv H. apply IHcmp in E2. destruct E2 as (pre2 & -> & D2).
    exists (pre1 ++ t :: pre2). split; [now rewrite <- app_assoc|]. eapply D_cmp; eauto.
  - (* pre *)
    intros ts e rest H. rewrite p_pre_S in H.
    assert (Hpost : p_post n ts = ROk e rest -> exists pre, ts = pre ++ rest /\ d_pre pre e).
    { intros E. apply IHpost in E. destruct E as (pre1 & -> & D1). exists pre1.
      split; [reflexivity|now apply D_pre_post]. }
    destruct ts as [|t ts']; [now apply Hpost|].
    destruct (tk_kind t) eqn:K; try (now apply Hpost).
    destruct (p_pre n ts') as [o r2| | |] eqn:E2; cbn [rbind] in H; try discriminate.
    inv H. apply IHpre in E2. destruct E2 as (pre2 & -> & D2).
    exists (t :: pre2). split; [reflexivity|]. now apply D_not.
  - (* post *)
    intros ts e rest H. rewrite p_post_S in H.
    destruct (p_prim n ts) as [e0 r1| | |] eqn:E; cbn [rbind] in H; try discriminate.
    apply IHprim in E. destruct E as (pre1 & -> & D1).
    eapply IHloop in H; [|apply D_post_prim; exact D1].
    destruct H as (mid & -> & D2). exists (pre1 ++ mid). split; [now rewrite app_assoc|exact D2].
  - (* postloop *)
    intros ret ts e rest pre0 D0 H. rewrite p_postloop_S in H.
    assert (Hstop : ROk ret ts = ROk e rest -> exists mid, ts = mid ++ rest /\ d_post (pre0 ++ mid) e).
    { intros E. inv E. exists []. split; [reflexivity|]. now rewrite app_nil_r. }
    destruct ts as [|t ts']; [now apply Hstop|].
    destruct (tk_kind t) eqn:K; try (now apply Hstop).
    + (* [ *)
      destruct (p_or n ts') as [idx r1| | |] eqn:E; cbn [rbind] in H; try discriminate.
      apply IHor in E. destruct E as (pi & -> & Di).
      destruct r1 as [|t2 r2]; [discriminate|].
      destruct (tk_kind t2) eqn:K2; try discriminate.
      eapply IHloop in H.
      2:{ eapply (D_index _ _ pre0 ret t pi idx t2); eauto. }
      destruct H as (mid & -> & D2).
      exists (t :: pi ++ t2 :: mid). split.
      { cbn. now rewrite <- app_assoc. }
      replace (pre0 ++ t :: pi ++ t2 :: mid) with ((pre0 ++ t :: pi ++ [t2]) ++ mid); [exact D2|].
      rewrite <- !app_assoc. cbn. rewrite <- app_assoc. reflexivity.
    + (* . *)
      destruct ts' as [|t2 r2]; [discriminate|].
      destruct (tk_kind t2) eqn:K2; try discriminate.
      * eapply IHloop in H.
        2:{ eapply (D_deref _ _ pre0 ret t t2); eauto. }
        destruct H as (mid & -> & D2). exists (t :: t2 :: mid). split; [reflexivity|].
        replace (pre0 ++ t :: t2 :: mid) with ((pre0 ++ [t; t2]) ++ mid); [exact D2|].
        now rewrite <- app_assoc.
      * eapply IHloop in H.
        2:{ eapply (D_star _ _ pre0 ret t t2); eauto. }
        destruct H as (mid & -> & D2). exists (t :: t2 :: mid). split; [reflexivity|].
        replace (pre0 ++ t :: t2 :: mid) with ((pre0 ++ [t; t2]) ++ mid); [exact D2|].
        now rewrite <- app_assoc.
  - (* prim *)
    intros ts e rest H. rewrite p_prim_S in H.
    destruct ts as [|t ts']; [discriminate|].
    destruct (tk_kind t) eqn:K; try discriminate.
    + (* ident *)
      assert (Hid : ROk (ident_node t) ts' = ROk e rest -> exists pre, t :: ts' = pre ++ rest /\ d_prim pre e).
      { intros E. inv E. exists [t]. split; [reflexivity|]. now apply D_ident. }
      destruct ts' as [|lp r1]; [now apply Hid|].
      destruct (tk_kind lp) eqn:KL; try (now apply Hid).
      assert (Hargs : rbind (p_args n r1) (fun args rest3 => ROk (ECall (tk_pos t) (tk_val t) args) rest3) = ROk e rest ->
                      exists pre, t :: lp :: r1 = pre ++ rest /\ d_prim pre e).
      { intros E. destruct (p_args n r1) as [args r3| | |] eqn:EA; cbn [rbind] in E; try discriminate.
        inv E. apply IHargs in EA. destruct EA as (pa & rp & -> & KR & DA).
        exists (t :: lp :: pa ++ [rp]). split.
        { cbn. rewrite <- app_assoc. reflexivity. }
        eapply D_call; eauto. }
      destruct r1 as [|rp r2]; [now apply Hargs|].
      destruct (tk_kind rp) eqn:KR; try (now apply Hargs).
      inv H. exists [t; lp; rp]. split; [reflexivity|]. now apply D_call0.
    + (* string *)
      destruct (unquote (tk_val t)) as [s|] eqn:U; [|discriminate].
      inv H. exists [t]. split; [reflexivity|]. now apply D_string.
    + (* int *)
      destruct (int_lit (tk_val t)) as [z|] eqn:U; [|discriminate].
      inv H. exists [t]. split; [reflexivity|]. now apply D_int.
    + (* float *)
      destruct (float_ok (tk_val t)) eqn:U; [|discriminate].
      inv H. exists [t]. split; [reflexivity|]. now apply D_float.
    + (* paren *)
      destruct (p_or n ts') as [e1 r1| | |] eqn:E; cbn [rbind] in H; try discriminate.
      apply IHor in E. destruct E as (pi & -> & Di).
      destruct r1 as [|rp r2]; [discriminate|].
      destruct (tk_kind rp) eqn:KR; try discriminate.
      inv H. exists (t :: pi ++ [rp]). split.
      { cbn. now rewrite <- app_assoc. }
      now apply D_paren.
  - (* args *)
    intros ts es rest H. rewrite p_args_S in H.
    destruct (p_or n ts) as [a r1| | |] eqn:E; cbn [rbind] in H; try discriminate.
    apply IHor in E. destruct E as (pa & -> & Da).
    destruct r1 as [|t r1']; [discriminate|].
    destruct (tk_kind t) eqn:K; try discriminate.
    + (* ) *)
      inv H. exists pa, t. repeat split; auto. now apply D_arg1.
    + (* , *)
      destruct (p_args n r1') as [more r2| | |] eqn:E2; cbn [rbind] in H; try discriminate.
      inv H. apply IHargs in E2. destruct E2 as (pm & rp & -> & KR & DM).
      exists (pa ++ t :: pm), rp. split; [now rewrite <- app_assoc|]. split; [exact KR|].
      eapply D_args; eauto.
Qed.

Lemma p_or_sound n ts e rest : p_or n ts = ROk e rest -> exists pre, ts = pre ++ rest /\ d_or pre e.
Proof. apply sound_all. Qed.

(* consumed part is never empty *)
Lemma p_or_shorter n ts e rest : p_or n ts = ROk e rest -> length rest < length ts.
Proof. intros H. apply p_or_sound in H. destruct H as (pre & -> & D). eapply starts_length, first_or; eauto. Qed.
Lemma p_and_shorter n ts e rest : p_and n ts = ROk e rest -> length rest < length ts.
Proof. intros H. apply sound_all in H. destruct H as (pre & -> & D). eapply starts_length, first_and; eauto. Qed.
Lemma p_cmp_shorter n ts e rest : p_cmp n ts = ROk e rest -> length rest < length ts.
Proof. intros H. apply sound_all in H. destruct H as (pre & -> & D). eapply starts_length, first_cmp; eauto. Qed.
Lemma p_pre_shorter n ts e rest : p_pre n ts = ROk e rest -> length rest < length ts.
Proof. intros H. apply sound_all in H. destruct H as (pre & -> & D). eapply starts_length, first_pre; eauto. Qed.
Lemma p_prim_shorter n ts e rest : p_prim n ts = ROk e rest -> length rest < length ts.
Proof. intros H. apply sound_all in H. destruct H as (pre & -> & D). eapply starts_length, first_prim; eauto. Qed.

(* ------------------------------------------------------------ where a failure points *)
Definition err_in (d : perr) (ts : list token) : Prop :=
  match pe_at d with None => True | Some t => In t ts end.
Definition bad_string (ts : list token) : Prop :=
  exists t, In t ts /\ tk_kind t = TString /\ unquote (tk_val t) = None.

Definition fail_ok {A} (r : res A) (ts : list token) : Prop :=
  match r with RErr d => err_in d ts | RPanic => bad_string ts | _ => True end.

Lemma fail_ok_mono {A} (r : res A) rest ts : incl rest ts -> fail_ok r rest -> fail_ok r ts.
Proof.
  intros I. destruct r as [a r1|d| |]; cbn; auto.
  - unfold err_in. destruct (pe_at d); auto.
  - intros (t & H1 & H2). exists t. split; auto.
Qed.

Lemma fail_ok_bind {A B} (r : res A) (f : A -> list token -> res B) ts :
  fail_ok r ts -> (forall a rest, r = ROk a rest -> fail_ok (f a rest) ts) -> fail_ok (rbind r f) ts.
Proof. destruct r; cbn; auto. Qed.

Lemma fail_ok_here {A} c ts : fail_ok (@err_here A c ts) ts.
Proof. destruct ts; cbn; unfold err_in; cbn; auto. Qed.

Lemma sound_incl (f : nat -> list token -> res expr) d n ts e rest :
  S_expr f d n -> f n ts = ROk e rest -> incl rest ts.
Proof. intros S H. apply S in H. destruct H as (pre & -> & _). apply incl_appr, incl_refl. Qed.

Lemma incl_cons_l (t : token) r ts : incl (t :: r) ts -> incl r ts.
Proof. intros I x Hx. apply I. now right. Qed.

Lemma fail_all n :
  (forall ts, fail_ok (p_or n ts) ts) /\ (forall ts, fail_ok (p_and n ts) ts) /\
  (forall ts, fail_ok (p_cmp n ts) ts) /\ (forall ts, fail_ok (p_pre n ts) ts) /\
  (forall ts, fail_ok (p_post n ts) ts) /\ (forall ret ts, fail_ok (p_postloop n ret ts) ts) /\
  (forall ts, fail_ok (p_prim n ts) ts) /\ (forall ts, fail_ok (p_args n ts) ts).
Proof.
  induction n as [|n IH].
  { repeat split; intros; exact I. }
  destruct IH as (IHor & IHand & IHcmp & IHpre & IHpost & IHloop & IHprim & IHargs).
  destruct (sound_all n) as (Sor & Sand & Scmp & Spre & Spost & _ & Sprim & _).
  repeat split.
  - intros ts. rewrite p_or_S. apply fail_ok_bind; [apply IHand|].
    intros l rest E. apply (sound_incl _ _ _ _ _ _ Sand) in E.
    destruct rest as [|t r]; [exact I|]. destruct (tk_kind t); try exact I.
    apply fail_ok_bind; [|intros; exact I].
    eapply fail_ok_mono; [|apply IHor]. eapply incl_cons_l; eauto.
  - intros ts. rewrite p_and_S. apply fail_ok_bind; [apply IHcmp|].
    intros l rest E. apply (sound_incl _ _ _ _ _ _ Scmp) in E.
    destruct rest as [|t r]; [exact I|]. destruct (tk_kind t); try exact I.
    apply fail_ok_bind; [|intros; exact I].
    eapply fail_ok_mono; [|apply IHand]. eapply incl_cons_l; eauto.
  - intros ts. rewrite p_cmp_S. apply fail_ok_bind; [apply IHpre|].
    intros l rest E. apply (sound_incl _ _ _ _ _ _ Spre) in E.
    destruct rest as [|t r]; [exact I|]. destruct (cmp_of_kind (tk_kind t)); try exact I.
    apply fail_ok_bind; [|intros; exact I].
    eapply fail_ok_mono; [|apply IHcmp]. eapply incl_cons_l; eauto.
  - intros ts. rewrite p_pre_S. destruct ts as [|t r]; [apply IHpost|].
    destruct (tk_kind t); try apply IHpost.
    apply fail_ok_bind; [|intros; exact I].
    eapply fail_ok_mono; [|apply IHpre]. apply incl_tl, incl_refl.
  - intros ts. rewrite p_post_S. apply fail_ok_bind; [apply IHprim|].
    intros e rest E. apply (sound_incl _ _ _ _ _ _ Sprim) in E.
    eapply fail_ok_mono; [exact E|apply IHloop].
  - intros ret ts. rewrite p_postloop_S. destruct ts as [|t r]; [exact I|].
    destruct (tk_kind t); try exact I.
    + apply fail_ok_bind.
      { eapply fail_ok_mono; [|apply IHor]. apply incl_tl, incl_refl. }
      intros idx r1 E. apply (sound_incl _ _ _ _ _ _ Sor) in E.
      assert (I1 : incl r1 (t :: r)) by (apply incl_tl; exact E).
      destruct r1 as [|t2 r2].
      { eapply fail_ok_mono; [exact I1|apply fail_ok_here]. }
      destruct (tk_kind t2); try (eapply fail_ok_mono; [exact I1|apply fail_ok_here]).
      eapply fail_ok_mono; [|apply IHloop]. eapply incl_cons_l; eauto.
    + assert (I1 : incl r (t :: r)) by (apply incl_tl, incl_refl).
      destruct r as [|t2 r2].
      { eapply fail_ok_mono; [exact I1|apply fail_ok_here]. }
      destruct (tk_kind t2); try (eapply fail_ok_mono; [exact I1|apply fail_ok_here]).
      * eapply fail_ok_mono; [|apply IHloop]. eapply incl_cons_l; eauto.
      * eapply fail_ok_mono; [|apply IHloop]. eapply incl_cons_l; eauto.
  - intros ts. rewrite p_prim_S. destruct ts as [|t r]; [apply fail_ok_here|].
    destruct (tk_kind t) eqn:K; try apply fail_ok_here.
    + destruct r as [|lp r1]; [exact I|]. destruct (tk_kind lp); try exact I.
      assert (HA : fail_ok (rbind (p_args n r1) (fun args rest3 => ROk (ECall (tk_pos t) (tk_val t) args) rest3)) (t :: lp :: r1)).
      { apply fail_ok_bind; [|intros; exact I].
        eapply fail_ok_mono; [|apply IHargs]. apply incl_tl, incl_tl, incl_refl. }
      destruct r1 as [|rp r2]; [exact HA|]. destruct (tk_kind rp); try exact HA. exact I.
    + destruct (unquote (tk_val t)) eqn:U; [exact I|]. exists t. repeat split; auto. now left.
    + destruct (int_lit (tk_val t)); [exact I|apply fail_ok_here].
    + destruct (float_ok (tk_val t)); [exact I|apply fail_ok_here].
    + apply fail_ok_bind.
      { eapply fail_ok_mono; [|apply IHor]. apply incl_tl, incl_refl. }
      intros e r1 E. apply (sound_incl _ _ _ _ _ _ Sor) in E.
      assert (I1 : incl r1 (t :: r)) by (apply incl_tl; exact E).
      destruct r1 as [|rp r2].
      { eapply fail_ok_mono; [exact I1|apply fail_ok_here]. }
      destruct (tk_kind rp); try (eapply fail_ok_mono; [exact I1|apply fail_ok_here]). exact I.
  - intros ts. rewrite p_args_S. apply fail_ok_bind; [apply IHor|].
    intros a r1 E. apply (sound_incl _ _ _ _ _ _ Sor) in E.
    destruct r1 as [|t r2].
    { eapply fail_ok_mono; [exact E|apply fail_ok_here]. }
    destruct (tk_kind t); try (eapply fail_ok_mono; [exact E|apply fail_ok_here]).
    + exact I.
    + apply fail_ok_bind; [|intros; exact I].
      eapply fail_ok_mono; [|apply IHargs]. eapply incl_cons_l; eauto.
Qed.

(* ------------------------------------------------------------ the fuel suffices *)
Lemma nf_bind {A B} (r : res A) (f : A -> list token -> res B) :
  r <> RFuel -> (forall a rest, r = ROk a rest -> f a rest <> RFuel) -> rbind r f <> RFuel.
Proof. destruct r; cbn; auto; intros; discriminate. Qed.

Lemma nf_here {A} c ts : @err_here A c ts <> RFuel.
Proof. discriminate. Qed.

Ltac len := repeat first [rewrite app_length in * | progress cbn [length] in * ].

Lemma nofuel_all n :
  (forall ts, 8 * length ts + 7 <= n -> p_or n ts <> RFuel) /\
  (forall ts, 8 * length ts + 6 <= n -> p_and n ts <> RFuel) /\
  (forall ts, 8 * length ts + 5 <= n -> p_cmp n ts <> RFuel) /\
  (forall ts, 8 * length ts + 4 <= n -> p_pre n ts <> RFuel) /\
  (forall ts, 8 * length ts + 3 <= n -> p_post n ts <> RFuel) /\
  (forall ret ts, 8 * length ts + 1 <= n -> p_postloop n ret ts <> RFuel) /\
  (forall ts, 8 * length ts + 2 <= n -> p_prim n ts <> RFuel) /\
  (forall ts, 8 * length ts + 8 <= n -> p_args n ts <> RFuel).
Proof.
  induction n as [|n IH].
  { repeat split; intros; lia. }
  destruct IH as (IHor & IHand & IHcmp & IHpre & IHpost & IHloop & IHprim & IHargs).
  repeat split.
  - intros ts Hn. rewrite p_or_S. apply nf_bind; [apply IHand; lia|].
    intros l rest E. apply p_and_shorter in E.
    destruct rest as [|t r]; [discriminate|]. destruct (tk_kind t); try discriminate.
    apply nf_bind; [|intros; discriminate]. apply IHor. cbn [length] in E. lia.
  - intros ts Hn. rewrite p_and_S. apply nf_bind; [apply IHcmp; lia|].
    intros l rest E. apply p_cmp_shorter in E.
    destruct rest as [|t r]; [discriminate|]. destruct (tk_kind t); try discriminate.
    apply nf_bind; [|intros; discriminate]. apply IHand. cbn [length] in E. lia.
  - intros ts Hn. rewrite p_cmp_S. apply nf_bind; [apply IHpre; lia|].
    intros l rest E. apply p_pre_shorter in E.
    destruct rest as [|t r]; [discriminate|]. destruct (cmp_of_kind (tk_kind t)); try discriminate.
    apply nf_bind; [|intros; discriminate]. apply IHcmp. cbn [length] in E. lia.
  - intros ts Hn. rewrite p_pre_S. destruct ts as [|t r]; [apply IHpost; lia|].
    destruct (tk_kind t); try (apply IHpost; lia).
    apply nf_bind; [|intros; discriminate]. apply IHpre. cbn [length] in Hn. lia.
  - intros ts Hn. rewrite p_post_S. apply nf_bind; [apply IHprim; lia|].
    intros e rest E. apply p_prim_shorter in E. apply IHloop. lia.
  - intros ret ts Hn. rewrite p_postloop_S. destruct ts as [|t r]; [discriminate|].
    cbn [length] in Hn.
    destruct (tk_kind t); try discriminate.
    + apply nf_bind; [apply IHor; lia|].
      intros idx r1 E. apply p_or_shorter in E.
      destruct r1 as [|t2 r2]; [apply nf_here|].
      destruct (tk_kind t2); try apply nf_here. apply IHloop. cbn [length] in E. lia.
    + destruct r as [|t2 r2]; [apply nf_here|].
      cbn [length] in Hn.
      destruct (tk_kind t2); try apply nf_here; apply IHloop; lia.
  - intros ts Hn. rewrite p_prim_S. destruct ts as [|t r]; [apply nf_here|].
    cbn [length] in Hn.
    destruct (tk_kind t); try apply nf_here.
    + destruct r as [|lp r1]; [discriminate|]. destruct (tk_kind lp); try discriminate.
      cbn [length] in Hn.
      assert (HA : rbind (p_args n r1) (fun args rest3 => ROk (ECall (tk_pos t) (tk_val t) args) rest3) <> RFuel).
      { apply nf_bind; [|intros; discriminate]. apply IHargs. lia. }
      destruct r1 as [|rp r2]; [exact HA|]. destruct (tk_kind rp); try exact HA. discriminate.
    + destruct (unquote (tk_val t)); discriminate.
    + destruct (int_lit (tk_val t)); [discriminate|apply nf_here].
    + destruct (float_ok (tk_val t)); [discriminate|apply nf_here].
    + apply nf_bind; [apply IHor; lia|].
      intros e r1 E. destruct r1 as [|rp r2]; [apply nf_here|].
      destruct (tk_kind rp); try apply nf_here. discriminate.
  - intros ts Hn. rewrite p_args_S. apply nf_bind; [apply IHor; lia|].
    intros a r1 E. apply p_or_shorter in E.
    destruct r1 as [|t r2]; [apply nf_here|].
    destruct (tk_kind t); try apply nf_here.
    + discriminate.
    + apply nf_bind; [|intros; discriminate]. apply IHargs. cbn [length] in E. lia.
Qed.

Lemma p_or_no_fuel ts : p_or (parse_fuel ts) ts <> RFuel.
Proof. apply nofuel_all. unfold parse_fuel. lia. Qed.

(* ------------------------------------------------------------ completeness *)
Definition cont_post (k : tkind) : bool :=
  match k with TDot | TLBracket | TLParen => true | _ => false end.
Definition cont_cmp (k : tkind) : bool :=
  cont_post k || match cmp_of_kind k with Some _ => true | None => false end.
Definition cont_and (k : tkind) : bool := cont_cmp k || match k with TAnd => true | _ => false end.
Definition cont_or (k : tkind) : bool := cont_and k || match k with TOr => true | _ => false end.
Definition is_lparen (k : tkind) : bool := match k with TLParen => true | _ => false end.

(* the rest of the input does not continue the construct *)
Definition stop (c : tkind -> bool) (rest : list token) : Prop :=
  match rest with [] => True | t :: _ => c (tk_kind t) = false end.

Lemma stop_weaken c1 c2 rest : (forall k, c1 k = false -> c2 k = false) -> stop c1 rest -> stop c2 rest.
Proof. intros H. destruct rest; cbn; auto. Qed.
Lemma stop_or_and rest : stop cont_or rest -> stop cont_and rest.
Proof. apply stop_weaken. intros k; destruct k; cbn; congruence. Qed.
Lemma stop_and_cmp rest : stop cont_and rest -> stop cont_cmp rest.
Proof. apply stop_weaken. intros k; destruct k; cbn; congruence. Qed.
Lemma stop_cmp_post rest : stop cont_cmp rest -> stop cont_post rest.
Proof. apply stop_weaken. intros k; destruct k; cbn; congruence. Qed.
Lemma stop_post_lparen rest : stop cont_post rest -> stop is_lparen rest.
Proof. apply stop_weaken. intros k; destruct k; cbn; congruence. Qed.

Definition C_expr (f : nat -> list token -> res expr) (c : tkind -> bool) (rank : nat)
  (pre : list token) (e : expr) : Prop :=
  forall rest, stop c rest -> forall n, 8 * length (pre ++ rest) + rank <= n ->
  f n (pre ++ rest) = ROk e rest.
Definition C_post (pre : list token) (e : expr) : Prop :=
  forall rest, stop is_lparen rest -> forall n, 8 * length (pre ++ rest) + 3 <= n ->
  exists m, 8 * length rest + 1 <= m /\ p_post n (pre ++ rest) = p_postloop m e rest.
Definition C_args (pre : list token) (es : list expr) : Prop :=
  forall rp rest, tk_kind rp = TRParen -> forall n, 8 * length (pre ++ rp :: rest) + 8 <= n ->
  p_args n (pre ++ rp :: rest) = ROk es rest.

Lemma complete_all :
  (forall ts e, d_or ts e -> C_expr p_or cont_or 7 ts e) /\
  (forall ts e, d_and ts e -> C_expr p_and cont_and 6 ts e) /\
  (forall ts e, d_cmp ts e -> C_expr p_cmp cont_cmp 5 ts e) /\
  (forall ts e, d_pre ts e -> C_expr p_pre cont_post 4 ts e) /\
  (forall ts e, d_post ts e -> C_post ts e) /\
  (forall ts e, d_prim ts e -> C_expr p_prim is_lparen 2 ts e) /\
  (forall ts es, d_args ts es -> C_args ts es).
Proof.
  apply derives_mutind; unfold C_expr, C_post, C_args.
  - (* D_or_and *)
    intros ts e D IH rest Hs n Hn. destruct n; [lia|]. rewrite p_or_S.
    rewrite (IH rest (stop_or_and _ Hs) n) by lia. cbn [rbind].
    destruct rest as [|t r]; [reflexivity|]. cbn in Hs.
    destruct (tk_kind t) eqn:K; try reflexivity. try rewrite K in Hs; cbn in Hs; discriminate.
  - (* D_or *)
    intros ts1 t ts2 l r D1 IH1 K D2 IH2 rest Hs n Hn. destruct n; [lia|]. rewrite p_or_S.
    len. rewrite <- app_assoc. cbn [app].
    rewrite (IH1 (t :: ts2 ++ rest)); [| cbn; rewrite K; reflexivity | len; lia].
    cbn [rbind]. rewrite K. rewrite (IH2 rest Hs n) by (len; lia). reflexivity.
  - (* D_and_cmp *)
    intros ts e D IH rest Hs n Hn. destruct n; [lia|]. rewrite p_and_S.
    rewrite (IH rest (stop_and_cmp _ Hs) n) by lia. cbn [rbind].
    destruct rest as [|t r]; [reflexivity|]. cbn in Hs.
    destruct (tk_kind t) eqn:K; try reflexivity. try rewrite K in Hs; cbn in Hs; discriminate.
  - (* D_and *)
    intros ts1 t ts2 l r D1 IH1 K D2 IH2 rest Hs n Hn. destruct n; [lia|]. rewrite p_and_S.
    len. rewrite <- app_assoc. cbn [app].
    rewrite (IH1 (t :: ts2 ++ rest)); [| cbn; rewrite K; reflexivity | len; lia].
    cbn [rbind]. rewrite K. rewrite (IH2 rest Hs n) by (len; lia). reflexivity.
  - (* D_cmp_pre *)
    intros ts e D IH rest Hs n Hn. destruct n; [lia|]. rewrite p_cmp_S.
    rewrite (IH rest (stop_cmp_post _ Hs) n) by lia. cbn [rbind].
    destruct rest as [|t r]; [reflexivity|]. cbn in Hs. unfold cont_cmp in Hs.
    destruct (cmp_of_kind (tk_kind t)) eqn:K; [|reflexivity].
    rewrite Bool.orb_true_r in Hs. discriminate.
  - (* D_cmp *)
    intros ts1 t ts2 op l r D1 IH1 K D2 IH2 rest Hs n Hn. destruct n; [lia|]. rewrite p_cmp_S.
    len. rewrite <- app_assoc. cbn [app].
    rewrite (IH1 (t :: ts2 ++ rest));
      [| cbn; destruct (tk_kind t); cbn in K; try discriminate; reflexivity | len; lia].
    cbn [rbind]. rewrite K. rewrite (IH2 rest Hs n) by (len; lia). reflexivity.
  - (* D_pre_post *)
    intros ts e D IH rest Hs n Hn. destruct n; [lia|]. rewrite p_pre_S.
    assert (G : p_post n (ts ++ rest) = ROk e rest).
    { destruct (IH rest (stop_post_lparen _ Hs) n) as (m & Hm & ->); [lia|].
      destruct m; [lia|]. rewrite p_postloop_S.
      destruct rest as [|t r]; [reflexivity|]. cbn in Hs.
      destruct (tk_kind t) eqn:K; try reflexivity; try rewrite K in Hs; cbn in Hs; discriminate. }
    destruct (first_post _ _ D) as (t0 & ts' & -> & F). cbn [app] in *.
    destruct (tk_kind t0) eqn:K0; try exact G. cbn in F. discriminate.
  - (* D_not *)
    intros t ts e K D IH rest Hs n Hn. destruct n; [lia|]. rewrite p_pre_S. cbn [app].
    rewrite K. rewrite (IH rest Hs n) by (len; lia). reflexivity.
  - (* D_post_prim *)
    intros ts e D IH rest Hs n Hn. destruct n; [lia|]. rewrite p_post_S.
    rewrite (IH rest Hs n) by lia. cbn [rbind]. exists n. split; [len; lia|reflexivity].
  - (* D_deref *)
    intros ts e t1 t2 D IH K1 K2 rest Hs n Hn. len. rewrite <- app_assoc. cbn [app].
    destruct (IH (t1 :: t2 :: rest)) with (n := n) as (m & Hm & ->);
      [cbn; rewrite K1; reflexivity | len; lia |].
    len. destruct m; [lia|]. exists m. split; [lia|].
    rewrite p_postloop_S, K1, K2. reflexivity.
  - (* D_star *)
    intros ts e t1 t2 D IH K1 K2 rest Hs n Hn. len. rewrite <- app_assoc. cbn [app].
    destruct (IH (t1 :: t2 :: rest)) with (n := n) as (m & Hm & ->);
      [cbn; rewrite K1; reflexivity | len; lia |].
    len. destruct m; [lia|]. exists m. split; [lia|].
    rewrite p_postloop_S, K1, K2. reflexivity.
  - (* D_index *)
    intros ts e tl ti i tr D IH K1 Di IHi K2 rest Hs n Hn. len.
    rewrite <- app_assoc. cbn [app]. rewrite <- app_assoc. cbn [app].
    destruct (IH (tl :: ti ++ tr :: rest)) with (n := n) as (m & Hm & ->);
      [cbn; rewrite K1; reflexivity | len; lia |].
    len. destruct m; [lia|]. exists m. split; [lia|].
    rewrite p_postloop_S, K1.
    rewrite (IHi (tr :: rest)); [| cbn; rewrite K2; reflexivity | len; lia].
    cbn [rbind]. rewrite K2. reflexivity.
  - (* D_ident *)
    intros t K rest Hs n Hn. destruct n; [lia|]. rewrite p_prim_S. cbn [app]. rewrite K.
    destruct rest as [|lp r]; [reflexivity|]. cbn in Hs.
    destruct (tk_kind lp) eqn:KL; try reflexivity. discriminate.
  - (* D_call0 *)
    intros t lp rp K KL KR rest Hs n Hn. destruct n; [lia|]. rewrite p_prim_S. cbn [app].
    rewrite K, KL, KR. reflexivity.
  - (* D_call *)
    intros t lp ta args rp K KL DA IHA KR rest Hs n Hn. destruct n; [lia|]. rewrite p_prim_S.
    cbn [app]. rewrite K, KL. rewrite <- app_assoc. cbn [app].
    assert (HA : p_args n (ta ++ rp :: rest) = ROk args rest).
    { apply IHA; [exact KR|]. len. lia. }
    destruct (first_args _ _ DA) as (t0 & ta' & -> & F). cbn [app] in *.
    destruct (tk_kind t0) eqn:K0; cbn in F; try discriminate; rewrite HA; reflexivity.
  - (* D_paren *)
    intros lp ts e rp KL D IH KR rest Hs n Hn. destruct n; [lia|]. rewrite p_prim_S.
    cbn [app]. rewrite KL. rewrite <- app_assoc. cbn [app].
    rewrite (IH (rp :: rest)); [| cbn; rewrite KR; reflexivity | len; lia].
    cbn [rbind]. rewrite KR. reflexivity.
  - (* D_int *)
    intros t z K E rest Hs n Hn. destruct n; [lia|]. rewrite p_prim_S. cbn [app].
    rewrite K, E. reflexivity.
  - (* D_float *)
    intros t K E rest Hs n Hn. destruct n; [lia|]. rewrite p_prim_S. cbn [app].
    rewrite K, E. reflexivity.
  - (* D_string *)
    intros t s K E rest Hs n Hn. destruct n; [lia|]. rewrite p_prim_S. cbn [app].
    rewrite K, E. reflexivity.
  - (* D_arg1 *)
    intros ts e D IH rp rest KR n Hn. destruct n; [lia|]. rewrite p_args_S.
    rewrite (IH (rp :: rest)); [| cbn; rewrite KR; reflexivity | lia].
    cbn [rbind]. rewrite KR. reflexivity.
  - (* D_args *)
    intros ts e c rs es D IH KC DA IHA rp rest KR n Hn. destruct n; [lia|]. rewrite p_args_S.
    len. rewrite <- app_assoc. cbn [app].
    rewrite (IH (c :: rs ++ rp :: rest)); [| cbn; rewrite KC; reflexivity | len; lia].
    cbn [rbind]. rewrite KC. rewrite (IHA rp rest KR n) by (len; lia). reflexivity.
Qed.

(* ------------------------------------------------------------ top level *)
Theorem parse_sound ts e : parse_toks ts = POk e -> d_or ts e.
Proof.
  unfold parse_toks. destruct (p_or (parse_fuel ts) ts) as [e0 rest|d| |] eqn:E; try discriminate.
  destruct rest; [|discriminate]. intros H. inv H.
  apply p_or_sound in E. destruct E as (pre & -> & D). now rewrite app_nil_r.
Qed.

Theorem parse_complete ts e : d_or ts e -> parse_toks ts = POk e.
Proof.
  intros D. unfold parse_toks.
  destruct complete_all as (C & _). specialize (C ts e D [] I (parse_fuel ts)).
  rewrite app_nil_r in C. rewrite C; [reflexivity|]. unfold parse_fuel. lia.
Qed.

Theorem derives_unique ts e e' : d_or ts e -> d_or ts e' -> e = e'.
Proof. intros D1 D2. apply parse_complete in D1, D2. congruence. Qed.

Theorem parse_no_fuel ts : parse_toks ts <> PFuel.
Proof.
  unfold parse_toks. pose proof (p_or_no_fuel ts) as NF.
  destruct (p_or (parse_fuel ts) ts) as [e0 rest|d| |]; try discriminate; [|congruence].
  destruct rest; discriminate.
Qed.

(* Go would panic (slice bounds) only on a STRING token shorter than two bytes,
   which the lexer never produces *)
Theorem parse_panic_only_bad_string ts : parse_toks ts = PPanic -> bad_string ts.
Proof.
  unfold parse_toks. destruct (fail_all (parse_fuel ts)) as (F & _). specialize (F ts).
  destruct (p_or (parse_fuel ts) ts) as [e0 rest|d| |]; try discriminate.
  - destruct rest; discriminate.
  - intros _. exact F.
Qed.

(* a rejected token list yields one diagnostic, located at one of its tokens or
   at the End token *)
Theorem reject_one_error ts : Forall (fun t => tk_kind t = TString -> unquote (tk_val t) <> None) ts ->
  (exists e, parse_toks ts = POk e /\ d_or ts e) \/
  (exists d, parse_toks ts = PErr d /\ err_in d ts /\ forall e, ~ d_or ts e).
Proof.
  intros WF. destruct (parse_toks ts) as [e|d| |] eqn:E.
  - left. exists e. split; [reflexivity|]. now apply parse_sound.
  - right. exists d. split; [reflexivity|]. split.
    + unfold parse_toks in E. destruct (fail_all (parse_fuel ts)) as (F & _). specialize (F ts).
      destruct (p_or (parse_fuel ts) ts) as [e0 rest|d0| |] eqn:E0; try discriminate.
      * destruct rest as [|t r]; [discriminate|]. inv E. unfold err_in. cbn.
        apply p_or_sound in E0. destruct E0 as (pre & -> & _). apply in_or_app. right. now left.
      * inv E. exact F.
    + intros e D. apply parse_complete in D. congruence.
  - exfalso. eapply parse_no_fuel; eauto.
  - exfalso. apply parse_panic_only_bad_string in E. destruct E as (t & I & K & U).
    rewrite Forall_forall in WF. exact (WF t I K U).
Qed.

(* ------------------------------------------------------------ precedence strata *)
Definition flat (ts : list token) : Prop :=
  Forall (fun t => tk_kind t <> TLParen /\ tk_kind t <> TLBracket) ts.

Lemma flat_app a b : flat (a ++ b) -> flat a /\ flat b.
Proof. unfold flat. rewrite Forall_app. auto. Qed.
Lemma flat_cons t a : flat (t :: a) -> (tk_kind t <> TLParen /\ tk_kind t <> TLBracket) /\ flat a.
Proof. intros H. inv H. auto. Qed.

Lemma ident_node_s_post t : s_post (ident_node t).
Proof.
  unfold ident_node.
  destruct (tk_val t =? "null")%string; [constructor|].
  destruct (tk_val t =? "true")%string; [constructor|].
  destruct (tk_val t =? "false")%string; constructor.
Qed.

Lemma strata_all :
  (forall ts e, d_or ts e -> flat ts -> s_or e) /\
  (forall ts e, d_and ts e -> flat ts -> s_and e) /\
  (forall ts e, d_cmp ts e -> flat ts -> s_cmp e) /\
  (forall ts e, d_pre ts e -> flat ts -> s_pre e) /\
  (forall ts e, d_post ts e -> flat ts -> s_post e) /\
  (forall ts e, d_prim ts e -> flat ts -> s_post e) /\
  (forall ts (es : list expr), d_args ts es -> True).
Proof.
  apply derives_mutind; auto.
  - intros. apply SO_and. auto.
  - intros ts1 t ts2 l r D1 IH1 K D2 IH2 F. apply flat_app in F. destruct F as (F1 & F2).
    apply flat_cons in F2. destruct F2 as (_ & F2). apply SO_or; auto.
  - intros. apply SA_cmp. auto.
  - intros ts1 t ts2 l r D1 IH1 K D2 IH2 F. apply flat_app in F. destruct F as (F1 & F2).
    apply flat_cons in F2. destruct F2 as (_ & F2). apply SA_and; auto.
  - intros. apply SC_pre. auto.
  - intros ts1 t ts2 op l r D1 IH1 K D2 IH2 F. apply flat_app in F. destruct F as (F1 & F2).
    apply flat_cons in F2. destruct F2 as (_ & F2). apply SC_cmp; auto.
  - intros. apply SPre_post. auto.
  - intros t ts e K D IH F. apply flat_cons in F. destruct F as (_ & F). apply SPre_not; auto.
  - intros ts e t1 t2 D IH K1 K2 F. apply flat_app in F. destruct F as (F1 & _). apply SP_deref; auto.
  - intros ts e t1 t2 D IH K1 K2 F. apply flat_app in F. destruct F as (F1 & _). apply SP_star; auto.
  - intros ts e tl ti i tr D IH K1 Di IHi K2 F. apply flat_app in F. destruct F as (_ & F2).
    apply flat_cons in F2. destruct F2 as ((_ & N) & _). congruence.
  - intros t K F. apply ident_node_s_post.
  - intros t lp rp K KL KR F. apply flat_cons in F. destruct F as (_ & F).
    apply flat_cons in F. destruct F as ((N & _) & _). congruence.
  - intros t lp ta args rp K KL DA _ KR F. apply flat_cons in F. destruct F as (_ & F).
    apply flat_cons in F. destruct F as ((N & _) & _). congruence.
  - intros lp ts e rp KL D IH KR F. apply flat_cons in F. destruct F as ((N & _) & _). congruence.
  - intros. constructor.
  - intros. constructor.
  - intros. constructor.
Qed.

Theorem precedence_shape ts e : flat ts -> parse_toks ts = POk e -> s_or e.
Proof. intros F H. apply parse_sound in H. destruct strata_all as (S & _). eauto. Qed.

End Proofs.
