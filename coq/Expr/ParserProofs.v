(* Expr/ParserProofs.v — the parser model accepts exactly the grammar:
   soundness, completeness, uniqueness of the derived tree, sufficiency of the
   fuel, location of the single diagnostic, precedence strata. *)
From AL Require Import Expr.Parser Expr.Grammar.
From Coq Require Import Lia.

Ltac inv H := inversion H; subst; clear H.

Section Proofs.
Variable int_lit : string -> option Z.
Variable float_ok : string -> bool.

Notation p_or := (p_or int_lit float_ok).
Notation p_and := (p_and int_lit float_ok).
Notation p_cmp := (p_cmp int_lit float_ok).
Notation p_pre := (p_pre int_lit float_ok).
Notation p_post := (p_post int_lit float_ok).
Notation p_postloop := (p_postloop int_lit float_ok).
Notation p_prim := (p_prim int_lit float_ok).
Notation p_args := (p_args int_lit float_ok).
Notation parse_toks := (parse_toks int_lit float_ok).
Notation d_or := (d_or int_lit float_ok).
Notation d_and := (d_and int_lit float_ok).
Notation d_cmp := (d_cmp int_lit float_ok).
Notation d_pre := (d_pre int_lit float_ok).
Notation d_post := (d_post int_lit float_ok).
Notation d_prim := (d_prim int_lit float_ok).
Notation d_args := (d_args int_lit float_ok).

(* ------------------------------------------------------------ first sets *)
Definition expr_start (k : tkind) : bool :=
  match k with TIdent | TLParen | TInt | TFloat | TString | TNot => true | _ => false end.
Definition prim_start (k : tkind) : bool :=
  match k with TIdent | TLParen | TInt | TFloat | TString => true | _ => false end.

Definition starts (c : tkind -> bool) (ts : list token) : Prop :=
  exists t ts', ts = t :: ts' /\ c (tk_kind t) = true.

Lemma starts_app c ts more : starts c ts -> starts c (ts ++ more).
Proof. intros (t & ts' & -> & H). exists t, (ts' ++ more). split; [reflexivity|exact H]. Qed.

Lemma prim_expr_start k : prim_start k = true -> expr_start k = true.
Proof. destruct k; cbn; congruence. Qed.

Lemma starts_weaken ts : starts prim_start ts -> starts expr_start ts.
Proof. intros (t & ts' & -> & H). exists t, ts'. split; [reflexivity|now apply prim_expr_start]. Qed.

Lemma first_prim ts e : d_prim ts e -> starts prim_start ts.
Proof.
  destruct 1; eexists; eexists; (split; [reflexivity|]);
    match goal with H : tk_kind _ = _ |- _ => try (rewrite H; reflexivity) end.
  all: try (rewrite H; reflexivity).
Qed.

Lemma first_post ts e : d_post ts e -> starts prim_start ts.
Proof.
  induction 1 as [ts e H | ts e t1 t2 H IH K1 K2 | ts e t1 t2 H IH K1 K2 | ts e tl ti i tr H IH K1 Hi K2].
  - eapply first_prim; eauto.
  - now apply starts_app.
  - now apply starts_app.
  - now apply starts_app.
Qed.

Lemma first_pre ts e : d_pre ts e -> starts expr_start ts.
Proof.
  induction 1 as [ts e H | t ts e K H IH].
  - apply starts_weaken. eapply first_post; eauto.
  - exists t, ts. split; [reflexivity|]. rewrite K. reflexivity.
Qed.

Lemma first_cmp ts e : d_cmp ts e -> starts expr_start ts.
Proof. destruct 1 as [ts e H | ts1 t ts2 op l r H]; [|apply starts_app]; eapply first_pre; eauto. Qed.
Lemma first_and ts e : d_and ts e -> starts expr_start ts.
Proof. destruct 1 as [ts e H | ts1 t ts2 l r H]; [|apply starts_app]; eapply first_cmp; eauto. Qed.
Lemma first_or ts e : d_or ts e -> starts expr_start ts.
Proof. destruct 1 as [ts e H | ts1 t ts2 l r H]; [|apply starts_app]; eapply first_and; eauto. Qed.
Lemma first_args ts es : d_args ts es -> starts expr_start ts.
Proof. destruct 1 as [ts e H | ts e c rest es H]; [|apply starts_app]; eapply first_or; eauto. Qed.

Lemma starts_length c ts rest : starts c ts -> length rest < length (ts ++ rest).
Proof. intros (t & ts' & -> & _). rewrite app_length. cbn. lia. Qed.

(* ------------------------------------------------------------ unfolding *)
Lemma p_or_S n ts : p_or (S n) ts =
  rbind (p_and n ts) (fun l rest =>
    match rest with
    | t :: rest' =>
        match tk_kind t with
        | TOr => rbind (p_or n rest') (fun r rest'' => ROk (ELog LOr l r) rest'')
        | _ => ROk l rest
        end
    | [] => ROk l rest
    end).
Proof. reflexivity. Qed.

Lemma p_and_S n ts : p_and (S n) ts =
  rbind (p_cmp n ts) (fun l rest =>
    match rest with
    | t :: rest' =>
        match tk_kind t with
        | TAnd => rbind (p_and n rest') (fun r rest'' => ROk (ELog LAnd l r) rest'')
        | _ => ROk l rest
        end
    | [] => ROk l rest
    end).
Proof. reflexivity. Qed.

Lemma p_cmp_S n ts : p_cmp (S n) ts =
  rbind (p_pre n ts) (fun l rest =>
    match rest with
    | t :: rest' =>
        match cmp_of_kind (tk_kind t) with
        | Some op => rbind (p_cmp n rest') (fun r rest'' => ROk (ECmp op l r) rest'')
        | None => ROk l rest
        end
    | [] => ROk l rest
    end).
Proof. reflexivity. Qed.

Lemma p_pre_S n ts : p_pre (S n) ts =
  match ts with
  | t :: rest =>
      match tk_kind t with
      | TNot => rbind (p_pre n rest) (fun o rest' => ROk (ENot (tk_pos t) o) rest')
      | _ => p_post n ts
      end
  | [] => p_post n ts
  end.
Proof. reflexivity. Qed.

Lemma p_post_S n ts : p_post (S n) ts = rbind (p_prim n ts) (fun e rest => p_postloop n e rest).
Proof. reflexivity. Qed.

Lemma p_postloop_S n ret ts : p_postloop (S n) ret ts =
  match ts with
  | t :: rest =>
      match tk_kind t with
      | TDot =>
          match rest with
          | t2 :: rest2 =>
              match tk_kind t2 with
              | TStar => p_postloop n (EArrDeref ret) rest2
              | TIdent => p_postloop n (EDeref ret (lower (tk_val t2))) rest2
              | _ => err_here (PEUnexpected 4) rest
              end
          | [] => err_here (PEUnexpected 4) rest
          end
      | TLBracket =>
          rbind (p_or n rest) (fun idx rest1 =>
            match rest1 with
            | t2 :: rest2 =>
                match tk_kind t2 with
                | TRBracket => p_postloop n (EIndex ret idx) rest2
                | _ => err_here (PEUnexpected 5) rest1
                end
            | [] => err_here (PEUnexpected 5) rest1
            end)
      | _ => ROk ret ts
      end
  | [] => ROk ret ts
  end.
Proof. reflexivity. Qed.

Lemma p_prim_S n ts : p_prim (S n) ts =
  match ts with
  | t :: rest =>
      match tk_kind t with
      | TIdent =>
          match rest with
          | lp :: rest1 =>
              match tk_kind lp with
              | TLParen =>
                  match rest1 with
                  | rp :: rest2 =>
                      match tk_kind rp with
                      | TRParen => ROk (ECall (tk_pos t) (tk_val t) []) rest2
                      | _ => rbind (p_args n rest1) (fun args rest3 =>
                               ROk (ECall (tk_pos t) (tk_val t) args) rest3)
                      end
                  | [] => rbind (p_args n rest1) (fun args rest3 =>
                            ROk (ECall (tk_pos t) (tk_val t) args) rest3)
                  end
              | _ => ROk (ident_node t) rest
              end
          | [] => ROk (ident_node t) rest
          end
      | TLParen =>
          rbind (p_or n rest) (fun e rest1 =>
            match rest1 with
            | rp :: rest2 =>
                match tk_kind rp with
                | TRParen => ROk e rest2
                | _ => err_here (PEUnexpected 3) rest1
                end
            | [] => err_here (PEUnexpected 3) rest1
            end)
      | TInt =>
          match int_lit (tk_val t) with
          | Some z => ROk (EInt (tk_pos t) z) rest
          | None => err_here PEBadInt ts
          end
      | TFloat =>
          if float_ok (tk_val t) then ROk (EFloat (tk_pos t) (tk_val t)) rest
          else err_here PEBadFloat ts
      | TString =>
          match unquote (tk_val t) with
          | Some s => ROk (EStr (tk_pos t) s) rest
          | None => RPanic
          end
      | _ => err_here (PEUnexpected 1) ts
      end
  | [] => err_here (PEUnexpected 1) ts
  end.
Proof. reflexivity. Qed.

Lemma p_args_S n ts : p_args (S n) ts =
  rbind (p_or n ts) (fun a rest =>
    match rest with
    | t :: rest' =>
        match tk_kind t with
        | TComma => rbind (p_args n rest') (fun more rest'' => ROk (a :: more) rest'')
        | TRParen => ROk [a] rest'
        | _ => err_here (PEUnexpected 2) rest
        end
    | [] => err_here (PEUnexpected 2) rest
    end).
Proof. reflexivity. Qed.

(* ------------------------------------------------------------ soundness *)
Definition S_expr (f : nat -> list token -> res expr) (d : list token -> expr -> Prop) (n : nat) :=
  forall ts e rest, f n ts = ROk e rest -> exists pre, ts = pre ++ rest /\ d pre e.

Definition S_loop n := forall ret ts e rest pre0, d_post pre0 ret -> p_postloop n ret ts = ROk e rest ->
  exists mid, ts = mid ++ rest /\ d_post (pre0 ++ mid) e.

Definition S_args n := forall ts es rest, p_args n ts = ROk es rest ->
  exists pre rp, ts = pre ++ rp :: rest /\ tk_kind rp = TRParen /\ d_args pre es.

Lemma sound_all n :
  S_expr p_or d_or n /\ S_expr p_and d_and n /\ S_expr p_cmp d_cmp n /\ S_expr p_pre d_pre n /\
  S_expr p_post d_post n /\ S_loop n /\ S_expr p_prim d_prim n /\ S_args n.
Proof.
  induction n as [|n IH].
  { repeat split; unfold S_expr, S_loop, S_args; cbn; intros; discriminate. }
  destruct IH as (IHor & IHand & IHcmp & IHpre & IHpost & IHloop & IHprim & IHargs).
  repeat split.
  - (* or *)
    intros ts e rest H. rewrite p_or_S in H.
    destruct (p_and n ts) as [l r1| | |] eqn:E; cbn [rbind] in H; try discriminate.
    apply IHand in E. destruct E as (pre1 & -> & D1).
    destruct r1 as [|t r1'].
    { inv H. exists pre1. split; [reflexivity|]. now apply D_or_and. }
    destruct (tk_kind t) eqn:K;
      try (inv H; exists pre1; split; [reflexivity|now apply D_or_and]).
    destruct (p_or n r1') as [r r2| | |] eqn:E2; cbn [rbind] in H; try discriminate.
    inv H. apply IHor in E2. destruct E2 as (pre2 & -> & D2).
    exists (pre1 ++ t :: pre2). split; [now rewrite <- app_assoc|]. eapply D_or; eauto.
  - (* and *)
    intros ts e rest H. rewrite p_and_S in H.
    destruct (p_cmp n ts) as [l r1| | |] eqn:E; cbn [rbind] in H; try discriminate.
    apply IHcmp in E. destruct E as (pre1 & -> & D1).
    destruct r1 as [|t r1'].
    { inv H. exists pre1. split; [reflexivity|]. now apply D_and_cmp. }
    destruct (tk_kind t) eqn:K;
      try (inv H; exists pre1; split; [reflexivity|now apply D_and_cmp]).
    destruct (p_and n r1') as [r r2| | |] eqn:E2; cbn [rbind] in H; try discriminate.
    inv H. apply IHand in E2. destruct E2 as (pre2 & -> & D2).
    exists (pre1 ++ t :: pre2). split; [now rewrite <- app_assoc|]. eapply D_and; eauto.
  - (* cmp *)
    intros ts e rest H. rewrite p_cmp_S in H.
    destruct (p_pre n ts) as [l r1| | |] eqn:E; cbn [rbind] in H; try discriminate.
    apply IHpre in E. destruct E as (pre1 & -> & D1).
    destruct r1 as [|t r1'].
    { inv H. exists pre1. split; [reflexivity|]. now apply D_cmp_pre. }
    destruct (cmp_of_kind (tk_kind t)) as [op|] eqn:K.
    2:{ inv H. exists pre1. split; [reflexivity|]. now apply D_cmp_pre. }
    destruct (p_cmp n r1') as [r r2| | |] eqn:E2; cbn [rbind] in H; try discriminate.
    inv H. apply IHcmp in E2. destruct E2 as (pre2 & -> & D2).
    exists (pre1 ++ t :: pre2). split; [now rewrite <- app_assoc|]. eapply D_cmp; eauto.
  - (* pre *)
    intros ts e rest H. rewrite p_pre_S in H.
    assert (Hpost : p_post n ts = ROk e rest -> exists pre, ts = pre ++ rest /\ d_pre pre e).
    { intros E. apply IHpost in E. destruct E as (pre1 & -> & D1). exists pre1.
      split; [reflexivity|now apply D_pre_post]. }
    destruct ts as [|t ts']; [now apply Hpost|].
    destruct (tk_kind t) eqn:K; try (now apply Hpost).
    destruct (p_pre n ts') as [o r2| | |] eqn:E2; cbn [rbind] in H; try discriminate.
    inv H. apply IHpre in E2. destruct E2 as (pre2 & -> & D2).
    exists (t :: pre2). split; [reflexivity|]. now apply D_not.
  - (* post *)
    intros ts e rest H. rewrite p_post_S in H.
    destruct (p_prim n ts) as [e0 r1| | |] eqn:E; cbn [rbind] in H; try discriminate.
    apply IHprim in E. destruct E as (pre1 & -> & D1).
    eapply IHloop in H; [|apply D_post_prim; exact D1].
    destruct H as (mid & -> & D2). exists (pre1 ++ mid). split; [now rewrite app_assoc|exact D2].
  - (* postloop *)
    intros ret ts e rest pre0 D0 H. rewrite p_postloop_S in H.
    assert (Hstop : ROk ret ts = ROk e rest -> exists mid, ts = mid ++ rest /\ d_post (pre0 ++ mid) e).
    { intros E. inv E. exists []. split; [reflexivity|]. now rewrite app_nil_r. }
    destruct ts as [|t ts']; [now apply Hstop|].
    destruct (tk_kind t) eqn:K; try (now apply Hstop).
    + (* [ *)
      destruct (p_or n ts') as [idx r1| | |] eqn:E; cbn [rbind] in H; try discriminate.
      apply IHor in E. destruct E as (pi & -> & Di).
      destruct r1 as [|t2 r2]; [discriminate|].
      destruct (tk_kind t2) eqn:K2; try discriminate.
      eapply IHloop in H.
      2:{ eapply (D_index _ _ pre0 ret t pi idx t2); eauto. }
      destruct H as (mid & -> & D2).
      exists (t :: pi ++ t2 :: mid). split.
      { cbn. now rewrite <- app_assoc. }
      replace (pre0 ++ t :: pi ++ t2 :: mid) with ((pre0 ++ t :: pi ++ [t2]) ++ mid); [exact D2|].
      rewrite <- !app_assoc. cbn. rewrite <- app_assoc. reflexivity.
    + (* . *)
      destruct ts' as [|t2 r2]; [discriminate|].
      destruct (tk_kind t2) eqn:K2; try discriminate.
      * eapply IHloop in H.
        2:{ eapply (D_deref _ _ pre0 ret t t2); eauto. }
        destruct H as (mid & -> & D2). exists (t :: t2 :: mid). split; [reflexivity|].
        replace (pre0 ++ t :: t2 :: mid) with ((pre0 ++ [t; t2]) ++ mid); [exact D2|].
        now rewrite <- app_assoc.
      * eapply IHloop in H.
        2:{ eapply (D_star _ _ pre0 ret t t2); eauto. }
        destruct H as (mid & -> & D2). exists (t :: t2 :: mid). split; [reflexivity|].
        replace (pre0 ++ t :: t2 :: mid) with ((pre0 ++ [t; t2]) ++ mid); [exact D2|].
        now rewrite <- app_assoc.
  - (* prim *)
    intros ts e rest H. rewrite p_prim_S in H.
    destruct ts as [|t ts']; [discriminate|].
    destruct (tk_kind t) eqn:K; try discriminate.
    + (* ident *)
      assert (Hid : ROk (ident_node t) ts' = ROk e rest -> exists pre, t :: ts' = pre ++ rest /\ d_prim pre e).
      { intros E. inv E. exists [t]. split; [reflexivity|]. now apply D_ident. }
      destruct ts' as [|lp r1]; [now apply Hid|].
      destruct (tk_kind lp) eqn:KL; try (now apply Hid).
      assert (Hargs : rbind (p_args n r1) (fun args rest3 => ROk (ECall (tk_pos t) (tk_val t) args) rest3) = ROk e rest ->
                      exists pre, t :: lp :: r1 = pre ++ rest /\ d_prim pre e).
      { intros E. destruct (p_args n r1) as [args r3| | |] eqn:EA; cbn [rbind] in E; try discriminate.
        inv E. apply IHargs in EA. destruct EA as (pa & rp & -> & KR & DA).
        exists (t :: lp :: pa ++ [rp]). split.
        { cbn. rewrite <- app_assoc. reflexivity. }
        eapply D_call; eauto. }
      destruct r1 as [|rp r2]; [now apply Hargs|].
      destruct (tk_kind rp) eqn:KR; try (now apply Hargs).
      inv H. exists [t; lp; rp]. split; [reflexivity|]. now apply D_call0.
    + (* string *)
      destruct (unquote (tk_val t)) as [s|] eqn:U; [|discriminate].
      inv H. exists [t]. split; [reflexivity|]. now apply D_string.
    + (* int *)
      destruct (int_lit (tk_val t)) as [z|] eqn:U; [|discriminate].
      inv H. exists [t]. split; [reflexivity|]. now apply D_int.
    + (* float *)
      destruct (float_ok (tk_val t)) eqn:U; [|discriminate].
      inv H. exists [t]. split; [reflexivity|]. now apply D_float.
    + (* paren *)
      destruct (p_or n ts') as [e1 r1| | |] eqn:E; cbn [rbind] in H; try discriminate.
      apply IHor in E. destruct E as (pi & -> & Di).
      destruct r1 as [|rp r2]; [discriminate|].
      destruct (tk_kind rp) eqn:KR; try discriminate.
      inv H. exists (t :: pi ++ [rp]). split.
      { cbn. now rewrite <- app_assoc. }
      now apply D_paren.
  - (* args *)
    intros ts es rest H. rewrite p_args_S in H.
    destruct (p_or n ts) as [a r1| | |] eqn:E; cbn [rbind] in H; try discriminate.
    apply IHor in E. destruct E as (pa & -> & Da).
    destruct r1 as [|t r1']; [discriminate|].
    destruct (tk_kind t) eqn:K; try discriminate.
    + (* ) *)
      inv H. exists pa, t. repeat split; auto. now apply D_arg1.
    + (* , *)
      destruct (p_args n r1') as [more r2| | |] eqn:E2; cbn [rbind] in H; try discriminate.
      inv H. apply IHargs in E2. destruct E2 as (pm & rp & -> & KR & DM).
      exists (pa ++ t :: pm), rp. split; [now rewrite <- app_assoc|]. split; [exact KR|].
      eapply D_args; eauto.
Qed.

Lemma p_or_sound n ts e rest : p_or n ts = ROk e rest -> exists pre, ts = pre ++ rest /\ d_or pre e.
Proof. apply sound_all. Qed.

(* consumed part is never empty *)
Lemma p_or_shorter n ts e rest : p_or n ts = ROk e rest -> length rest < length ts.
Proof. intros H. apply p_or_sound in H. destruct H as (pre & -> & D). eapply starts_length, first_or; eauto. Qed.
Lemma p_and_shorter n ts e rest : p_and n ts = ROk e rest -> length rest < length ts.
Proof. intros H. apply sound_all in H. destruct H as (pre & -> & D). eapply starts_length, first_and; eauto. Qed.
Lemma p_cmp_shorter n ts e rest : p_cmp n ts = ROk e rest -> length rest < length ts.
Proof. intros H. apply sound_all in H. destruct H as (pre & -> & D). eapply starts_length, first_cmp; eauto. Qed.
Lemma p_pre_shorter n ts e rest : p_pre n ts = ROk e rest -> length rest < length ts.
Proof. intros H. apply sound_all in H. destruct H as (pre & -> & D). eapply starts_length, first_pre; eauto. Qed.
Lemma p_prim_shorter n ts e rest : p_prim n ts = ROk e rest -> length rest < length ts.
Proof. intros H. apply sound_all in H. destruct H as (pre & -> & D). eapply starts_length, first_prim; eauto. Qed.

End Proofs.
