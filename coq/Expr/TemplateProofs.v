(* Expr/TemplateProofs.v — proofs about the position arithmetic of
   Expr/PosModel.v (scanner positions, PosLex) and Expr/Template.v
   (checkExprsIn & co., globErrors, node positions). *)
From AL Require Import Base.Str Expr.Ast Expr.PosModel Expr.Template.
From Coq Require Import Lia Sorted.

(* ------------------------------------------------------------------ *)
(* strings *)

Lemma pos_app_assoc (a b c : string) : ((a ++ b) ++ c = a ++ (b ++ c))%string.
Proof. induction a as [|x a IH]; cbn; [reflexivity|]. now rewrite IH. Qed.

Lemma pos_app_length (a b : string) : String.length (a ++ b)%string = String.length a + String.length b.
Proof. induction a as [|x a IH]; cbn; [reflexivity|]. now rewrite IH. Qed.

Lemma pos_skip_empty n : pos_skip n EmptyString = EmptyString.
Proof. destruct n; reflexivity. Qed.

Lemma pos_skip_skip a : forall b s, pos_skip b (pos_skip a s) = pos_skip (a + b) s.
Proof.
  induction a as [|a IH]; intros b s; cbn [plus]; [reflexivity|].
  destruct s as [|c s]; cbn [pos_skip].
  - now rewrite pos_skip_empty.
  - apply IH.
Qed.

Lemma pos_skip_length n : forall s, String.length (pos_skip n s) = String.length s - n.
Proof.
  induction n as [|n IH]; intros s; cbn [pos_skip]; [lia|].
  destruct s as [|c s]; cbn [String.length]; [reflexivity|]. rewrite IH. lia.
Qed.

Lemma pos_skip_app (pre s : string) : pos_skip (String.length pre) (pre ++ s) = s.
Proof. induction pre as [|c pre IH]; cbn; [reflexivity|exact IH]. Qed.

(* ------------------------------------------------------------------ *)
(* scanner positions *)

Lemma sp_step_off p c : sp_off (sp_step p c) = S (sp_off p).
Proof. unfold sp_step. destruct (Ascii.eqb c pos_nl); [reflexivity|]. destruct (pos_is_cont c); reflexivity. Qed.

Lemma sp_fold_off pre : forall p, sp_off (sp_fold p pre) = sp_off p + String.length pre.
Proof.
  induction pre as [|c pre IH]; intros p; cbn [sp_fold String.length]; [lia|].
  rewrite IH, sp_step_off. lia.
Qed.

Lemma sp_fold_app a : forall p b, sp_fold p (a ++ b) = sp_fold (sp_fold p a) b.
Proof. induction a as [|c a IH]; intros p b; cbn; [reflexivity|apply IH]. Qed.

Lemma sp_run_app pre : forall p s, sp_run p (String.length pre) (pre ++ s) = sp_fold p pre.
Proof.
  induction pre as [|c pre IH]; intros p s; cbn [String.length sp_fold append].
  - destruct s; reflexivity.
  - cbn [sp_run]. apply IH.
Qed.

Lemma sp_step_ge1 p c : 1 <= sp_line p -> 1 <= sp_col p ->
  1 <= sp_line (sp_step p c) /\ 1 <= sp_col (sp_step p c).
Proof.
  intros Hl Hc. unfold sp_step.
  destruct (Ascii.eqb c pos_nl); [cbn; lia|]. destruct (pos_is_cont c); cbn; lia.
Qed.

Lemma sp_run_ge1 n : forall s p, 1 <= sp_line p -> 1 <= sp_col p ->
  1 <= sp_line (sp_run p n s) /\ 1 <= sp_col (sp_run p n s).
Proof.
  induction n as [|n IH]; intros s p Hl Hc; cbn [sp_run]; [split; assumption|].
  destruct s as [|c s]; [split; assumption|].
  destruct (sp_step_ge1 p c Hl Hc) as [H1 H2]. now apply IH.
Qed.

Lemma pos_at_ge1 s o : 1 <= sp_line (pos_at s o) /\ 1 <= sp_col (pos_at s o).
Proof. apply sp_run_ge1; cbn; lia. Qed.

(* number of line breaks in a string *)
Fixpoint pos_count_nl (s : string) : nat :=
  match s with
  | EmptyString => 0
  | String c r => (if Ascii.eqb c pos_nl then 1 else 0) + pos_count_nl r
  end.

Lemma sp_step_line p c : sp_line (sp_step p c) = sp_line p + (if Ascii.eqb c pos_nl then 1 else 0).
Proof.
  unfold sp_step. destruct (Ascii.eqb c pos_nl); [cbn; lia|]. destruct (pos_is_cont c); cbn; lia.
Qed.

Lemma sp_run_line_le n : forall s p, sp_line (sp_run p n s) <= sp_line p + pos_count_nl s.
Proof.
  induction n as [|n IH]; intros s p; cbn [sp_run]; [lia|].
  destruct s as [|c s]; [lia|]. cbn [pos_count_nl].
  specialize (IH s (sp_step p c)). rewrite sp_step_line in IH. lia.
Qed.

Lemma pos_at_line_le s o : sp_line (pos_at s o) <= 1 + pos_count_nl s.
Proof. apply (sp_run_line_le o s sp_start). Qed.

Lemma pos_count_nl_skip n : forall s, pos_count_nl (pos_skip n s) <= pos_count_nl s.
Proof.
  induction n as [|n IH]; intros s; cbn [pos_skip]; [lia|].
  destruct s as [|c s]; [lia|]. cbn [pos_count_nl]. specialize (IH s). lia.
Qed.

(* one-line ASCII text: every byte is < 128 and none is a line break *)
Definition pos_plain_char (c : ascii) : bool :=
  andb (nat_of_ascii c <? 128) (negb (Ascii.eqb c pos_nl)).

Fixpoint pos_plain (s : string) : bool :=
  match s with
  | EmptyString => true
  | String c r => andb (pos_plain_char c) (pos_plain r)
  end.

Lemma sp_step_plain p c : pos_plain_char c = true ->
  sp_step p c = mkSpos (S (sp_off p)) (sp_line p) (S (sp_col p)).
Proof.
  unfold pos_plain_char, sp_step, pos_is_cont. intros H.
  apply andb_prop in H. destruct H as [H1 H2].
  apply negb_true_iff in H2. rewrite H2.
  apply Nat.ltb_lt in H1.
  replace (128 <=? nat_of_ascii c) with false by (symmetry; apply Nat.leb_gt; lia).
  reflexivity.
Qed.

Lemma sp_run_plain n : forall s p, pos_plain s = true -> n <= String.length s ->
  sp_run p n s = mkSpos (sp_off p + n) (sp_line p) (sp_col p + n).
Proof.
  induction n as [|n IH]; intros s p Hp Hn; cbn [sp_run].
  - destruct p; cbn. f_equal; lia.
  - destruct s as [|c s]; cbn [String.length] in Hn; [lia|].
    cbn [pos_plain] in Hp. apply andb_prop in Hp. destruct Hp as [Hc Hs].
    rewrite IH by (assumption || lia). rewrite sp_step_plain by assumption. cbn. f_equal; lia.
Qed.

(* token_col_is_offset: before a token there is neither a line break nor a
   non-ASCII character => Line = 1, Column = Offset + 1 *)
Lemma pos_at_plain s o : pos_plain s = true -> o <= String.length s ->
  pos_at s o = mkSpos o 1 (S o).
Proof. intros Hp Ho. unfold pos_at. rewrite sp_run_plain by assumption. cbn. f_equal. Qed.

Lemma pos_plain_skip n : forall s, pos_plain s = true -> pos_plain (pos_skip n s) = true.
Proof.
  induction n as [|n IH]; intros s H; cbn [pos_skip]; [assumption|].
  destruct s as [|c s]; [reflexivity|]. cbn [pos_plain] in H. apply andb_prop in H. now apply IH.
Qed.

Lemma pos_plain_app a b : pos_plain (a ++ b) = andb (pos_plain a) (pos_plain b).
Proof. induction a as [|c a IH]; cbn; [reflexivity|]. rewrite IH. now rewrite andb_assoc. Qed.

Lemma pos_plain_no_nl s : pos_plain s = true -> pos_count_nl s = 0.
Proof.
  induction s as [|c s IH]; cbn; [reflexivity|]. intros H.
  apply andb_prop in H. destruct H as [Hc Hs]. unfold pos_plain_char in Hc.
  apply andb_prop in Hc. destruct Hc as [_ Hc]. apply negb_true_iff in Hc. rewrite Hc. now rewrite IH.
Qed.

(* ------------------------------------------------------------------ *)
(* PosLex: every position the lexer reads is Pos() after a prefix of the source *)

Definition reach (src : string) (st : lx) : Prop :=
  exists pre, src = (pre ++ fst st)%string /\ snd st = sp_fold sp_start pre.

Definition reach_p (src : string) (p : spos) : Prop := exists s, reach src (s, p).

Lemma reach_start src : reach src (src, sp_start).
Proof. exists EmptyString. split; reflexivity. Qed.

Lemma reach_is_p src st : reach src st -> reach_p src (snd st).
Proof. destruct st as [s p]. intros H. now exists s. Qed.

Lemma reach_eat1 src st : reach src st -> reach src (pos_eat1 st).
Proof.
  destruct st as [s p]. intros [pre [H1 H2]]. unfold pos_eat1. cbn [fst snd] in *.
  destruct s as [|c r]; [now exists pre|].
  exists (pre ++ String c EmptyString)%string. cbn [fst snd]. split.
  - rewrite pos_app_assoc. exact H1.
  - rewrite sp_fold_app, <- H2. reflexivity.
Qed.

Lemma reach_eat_if src c st : reach src st -> reach src (pos_eat_if c st).
Proof. intros H. unfold pos_eat_if. destruct (pos_peek_is c st); [now apply reach_eat1|assumption]. Qed.

Lemma reach_eat_while src f : forall s p, reach src (s, p) -> reach src (pos_eat_while_s f s p).
Proof.
  induction s as [|c r IH]; intros p H; cbn [pos_eat_while_s]; [assumption|].
  destruct (f c); [|assumption]. apply IH. exact (reach_eat1 src (String c r, p) H).
Qed.

Lemma reach_eat_while' src f st : reach src st -> reach src (pos_eat_while f st).
Proof. destruct st as [s p]. apply reach_eat_while. Qed.

Definition lexres_ok (src : string) (r : lexres) : Prop :=
  match r with
  | LTok t _ st => reach_p src t /\ reach src st
  | LErr e => reach_p src e
  end.

Local Hint Resolve reach_eat1 reach_eat_if reach_eat_while' reach_is_p : poslex.

Lemma pos_num_end_ok src st t : reach src st -> reach_p src t -> lexres_ok src (pos_num_end st t).
Proof. intros H Ht. unfold pos_num_end. destruct (pos_peek_in pos_is_alnum st); cbn; auto with poslex. Qed.
Local Hint Resolve pos_num_end_ok : poslex.

Lemma pos_num_exp_ok src st t : reach src st -> reach_p src t -> lexres_ok src (pos_num_exp st t).
Proof.
  intros H Ht. unfold pos_num_exp.
  destruct (orb _ _); [|auto with poslex].
  destruct (pos_peek_is "0" _); [auto 6 with poslex|].
  destruct (pos_peek_in pos_is_num _); [auto 6 with poslex|].
  cbn. auto 6 with poslex.
Qed.
Local Hint Resolve pos_num_exp_ok : poslex.

Lemma pos_num_frac_ok src st t : reach src st -> reach_p src t -> lexres_ok src (pos_num_frac st t).
Proof.
  intros H Ht. unfold pos_num_frac.
  destruct (pos_peek_is "." st); [|auto with poslex].
  destruct (pos_peek_in pos_is_num _); [auto 6 with poslex|]. cbn. auto with poslex.
Qed.
Local Hint Resolve pos_num_frac_ok : poslex.

Lemma pos_lex_hex_ok src st t : reach src st -> reach_p src t -> lexres_ok src (pos_lex_hex st t).
Proof.
  intros H Ht. unfold pos_lex_hex.
  destruct (pos_peek_is "0" st); [auto with poslex|].
  destruct (pos_peek_in pos_is_hex st); [auto with poslex|]. cbn. auto with poslex.
Qed.
Local Hint Resolve pos_lex_hex_ok : poslex.

Lemma pos_lex_num_ok src st t : reach src st -> reach_p src t -> lexres_ok src (pos_lex_num st t).
Proof.
  intros H Ht. unfold pos_lex_num.
  destruct (pos_peek_is "0" _).
  - destruct (pos_peek_is "x" _); auto 7 with poslex.
  - destruct (pos_peek_in pos_is_num _); [auto 6 with poslex|]. cbn. auto with poslex.
Qed.

Lemma pos_lex_str_ok src t : reach_p src t -> forall s p, reach src (s, p) -> lexres_ok src (pos_lex_str s p t).
Proof.
  intros Ht. fix IH 1. intros s p H. destruct s as [|c r]; cbn [pos_lex_str].
  - cbn. exact (reach_is_p _ _ H).
  - pose proof (reach_eat1 src _ H) as H1. unfold pos_eat1 in H1. cbn [fst snd] in H1.
    destruct (Ascii.eqb c "'").
    + destruct r as [|c2 r'].
      * cbn. split; assumption.
      * destruct (Ascii.eqb c2 "'").
        -- apply IH. exact (reach_eat1 src _ H1).
        -- cbn. split; assumption.
    + apply IH. exact H1.
Qed.

Lemma pos_lex_req_ok src c e st t : reach src st -> reach_p src t -> lexres_ok src (pos_lex_req c e st t).
Proof. intros H Ht. unfold pos_lex_req. destruct (pos_peek_is c st); cbn; auto with poslex. Qed.

Lemma pos_lex_opt_ok src c st t : reach src st -> reach_p src t -> lexres_ok src (pos_lex_opt c st t).
Proof. intros H Ht. unfold pos_lex_opt. cbn. auto with poslex. Qed.

Lemma pos_lex_next_ok src st : reach src st -> lexres_ok src (pos_lex_next st).
Proof.
  intros H. unfold pos_lex_next.
  pose proof (reach_eat_while' src pos_is_white st H) as H1.
  set (st1 := pos_eat_while pos_is_white st) in *.
  pose proof (reach_is_p _ _ H1) as Ht.
  pose proof (reach_eat1 _ _ H1) as H2.
  destruct (fst st1) as [|c r] eqn:E; [exact Ht|].
  repeat match goal with
         | |- lexres_ok _ (if ?b then _ else _) => destruct b
         end;
    first [ now apply pos_lex_num_ok
          | now apply pos_lex_req_ok
          | now apply pos_lex_opt_ok
          | (apply pos_lex_str_ok; [assumption|destruct (pos_eat1 st1); exact H2])
          | (cbn; auto with poslex) ].
Qed.

(* what a reachable position is: the model of scan.Pos() at that offset *)
Lemma reach_pos_at src st : reach src st ->
  snd st = pos_at src (sp_off (snd st)) /\ sp_off (snd st) <= String.length src /\
  fst st = pos_skip (sp_off (snd st)) src.
Proof.
  destruct st as [s p]. intros [pre [H1 H2]]. cbn [fst snd] in *.
  assert (Ho : sp_off p = String.length pre) by (rewrite H2, sp_fold_off; reflexivity).
  rewrite Ho, H1. repeat split.
  - unfold pos_at. now rewrite sp_run_app.
  - rewrite pos_app_length. lia.
  - now rewrite pos_skip_app.
Qed.

Definition spos_consistent (src : string) (p : spos) : Prop :=
  p = pos_at src (sp_off p) /\ sp_off p <= String.length src.

Lemma reach_p_consistent src p : reach_p src p -> spos_consistent src p.
Proof. intros [s H]. destruct (reach_pos_at _ _ H) as [H1 [H2 _]]. split; assumption. Qed.

Lemma pos_lex_loop_ok src fuel : forall st acc,
  reach src st -> Forall (fun t => reach_p src (fst t)) acc ->
  match pos_lex_loop fuel st acc with
  | LAOk toks after => Forall (fun t => reach_p src (fst t)) toks /\ after <= String.length src
  | LAErr toks e => Forall (fun t => reach_p src (fst t)) toks /\ reach_p src e
  | LAFuel => True
  end.
Proof.
  induction fuel as [|f IH]; intros st acc H Hacc; cbn [pos_lex_loop]; [exact I|].
  pose proof (pos_lex_next_ok src st H) as Hn.
  destruct (pos_lex_next st) as [t e st'|e]; cbn in Hn.
  - destruct Hn as [Ht Hst]. destruct e.
    + split.
      * apply Forall_rev. constructor; assumption.
      * destruct (reach_pos_at _ _ Hst) as [_ [Hle _]]. exact Hle.
    + apply IH; [assumption|]. constructor; assumption.
  - split; [now apply Forall_rev|assumption].
Qed.

(* poslex_token_pos: the (Offset, Line, Column) of every token start, and of
   the first lexing error, is the scanner position of that offset in the
   source handed to the lexer. *)
Lemma pos_lex_all_consistent src :
  match pos_lex_all src with
  | LAOk toks after => Forall (fun t => spos_consistent src (fst t)) toks /\ after <= String.length src
  | LAErr toks e => Forall (fun t => spos_consistent src (fst t)) toks /\ spos_consistent src e
  | LAFuel => True
  end.
Proof.
  unfold pos_lex_all.
  pose proof (pos_lex_loop_ok src (S (String.length src)) (src, sp_start) [] (reach_start src) (Forall_nil _)) as H.
  destruct (pos_lex_loop _ _ _) as [toks after|toks e|]; [| |exact I].
  - destruct H as [H1 H2]. split; [|assumption].
    eapply Forall_impl; [|exact H1]. intros t Ht. now apply reach_p_consistent.
  - destruct H as [H1 H2]. split; [|now apply reach_p_consistent].
    eapply Forall_impl; [|exact H1]. intros t Ht. now apply reach_p_consistent.
Qed.

(* ------------------------------------------------------------------ *)
(* the checkExprsIn loop *)

Section LoopProofs.
Variable sem : nat -> string -> sem_res.

(* suffix invariant, >= 3 bytes per iteration, and no fuel exhaustion *)
Definition calls_inv (orig : string) (lo : nat) (calls : list (nat * string)) : Prop :=
  Forall (fun c => snd c = pos_skip (fst c) orig /\ lo + 3 <= fst c) calls.

Lemma template_loop_calls orig : forall fuel s offset line col ts,
  s = pos_skip offset orig ->
  let o := template_loop sem fuel s offset line col ts in
  calls_inv orig offset (lo_calls o) /\
  StronglySorted (fun a b => fst a + 3 <= fst b) (lo_calls o).
Proof.
  induction fuel as [|f IH]; intros s offset line col ts Hs; cbn [template_loop].
  - split; constructor.
  - destruct (str_index "${{" s) as [idx|]; [|split; constructor].
    cbn zeta.
    set (start := idx + 3). set (s1 := pos_skip start s). set (offset1 := offset + start).
    assert (Hs1 : s1 = pos_skip offset1 orig).
    { unfold s1, offset1. rewrite Hs. apply pos_skip_skip. }
    assert (Hc : snd (offset1, s1) = pos_skip (fst (offset1, s1)) orig /\ offset + 3 <= fst (offset1, s1)).
    { cbn [fst snd]. split; [exact Hs1|]. unfold offset1, start. lia. }
    destruct (negb (sr_ok (sem offset1 s1))); cbn [lo_calls].
    { split; repeat constructor; apply Hc. }
    destruct (sr_ty (sem offset1 s1)) as [ty|]; cbn [lo_calls];
      [|split; repeat constructor; apply Hc].
    destruct (sr_after (sem offset1 s1) =? 0); cbn [lo_calls];
      [split; repeat constructor; apply Hc|].
    set (after := sr_after (sem offset1 s1)).
    specialize (IH (pos_skip after s1) (offset1 + after) line col (ts ++ [(ty, (line, col + offset1 - 3))])).
    assert (Hs2 : pos_skip after s1 = pos_skip (offset1 + after) orig).
    { rewrite Hs1. apply pos_skip_skip. }
    specialize (IH Hs2). cbn zeta in IH. destruct IH as [IH1 IH2].
    split.
    + constructor; [exact Hc|].
      eapply Forall_impl; [|exact IH1]. cbn beta. intros c [Hc1 Hc2]. split; [assumption|].
      unfold offset1, start in Hc2. lia.
    + constructor; [exact IH2|].
      eapply Forall_impl; [|exact IH1]. cbn beta. intros c [Hc1 Hc2]. cbn [fst]. lia.
Qed.

(* the fuel S (length s) is never exhausted: every iteration removes "${{" *)
Lemma str_index_nonempty s idx : str_index "${{" s = Some idx -> 1 <= String.length s.
Proof. destruct s; [discriminate|]. cbn [String.length]. lia. Qed.

Lemma template_loop_fuel : forall fuel s offset line col ts,
  String.length s < fuel -> lo_fuel (template_loop sem fuel s offset line col ts) = false.
Proof.
  induction fuel as [|f IH]; intros s offset line col ts Hlen; [lia|]. cbn [template_loop].
  destruct (str_index "${{" s) as [idx|] eqn:E; [|reflexivity]. cbn zeta.
  destruct (negb _); [reflexivity|].
  destruct (sr_ty _); [|reflexivity].
  destruct (_ =? 0); [reflexivity|]. cbn [lo_fuel].
  apply IH. rewrite !pos_skip_length.
  pose proof (str_index_nonempty _ _ E). lia.
Qed.

(* every diagnostic comes from a token of one of the calls *)
Definition diag_of_call (line col : nat) (d : nat * fpos) : Prop :=
  exists off src e, In e (sr_errs (sem off src)) /\
    fst d = off + sp_off e /\ snd d = template_conv e line (col + off).

Lemma template_loop_diags : forall fuel s offset line col ts,
  let o := template_loop sem fuel s offset line col ts in
  Forall (fun d => exists c e, In c (lo_calls o) /\ In e (sr_errs (sem (fst c) (snd c))) /\
                   fst d = fst c + sp_off e /\ snd d = template_conv e line (col + fst c)) (lo_diags o).
Proof.
  induction fuel as [|f IH]; intros s offset line col ts; cbn [template_loop]; [constructor|].
  destruct (str_index "${{" s) as [idx|]; [|constructor]. cbn zeta.
  set (offset1 := offset + (idx + 3)). set (s1 := pos_skip (idx + 3) s).
  destruct (negb (sr_ok (sem offset1 s1))); cbn [lo_diags lo_calls].
  { apply Forall_forall. intros d Hd. apply in_map_iff in Hd. destruct Hd as [e [Hd He]].
    exists (offset1, s1), e. subst d. cbn [fst snd]. repeat split; auto. now left. }
  destruct (sr_ty _); [|constructor].
  destruct (_ =? 0); [constructor|]. cbn [lo_diags lo_calls].
  eapply Forall_impl; [|apply IH]. cbn beta. intros d [c [e [H1 [H2 [H3 H4]]]]].
  exists c, e. repeat split; auto. now right.
Qed.

(* the typedExpr positions are the positions of the "${{" of the calls *)
Lemma template_loop_ts : forall fuel s offset line col ts tys,
  lo_ts (template_loop sem fuel s offset line col ts) = Some tys ->
  Forall (fun t => exists off, 3 <= off /\ snd t = (line, col + off - 3)) ts ->
  Forall (fun t => exists off, 3 <= off /\ snd t = (line, col + off - 3)) tys.
Proof.
  induction fuel as [|f IH]; intros s offset line col ts tys; cbn [template_loop]; [discriminate|].
  destruct (str_index "${{" s) as [idx|]; [|intros H; injection H as <-; auto]. cbn zeta.
  destruct (negb _); [discriminate|].
  destruct (sr_ty _); [|intros H; injection H as <-; constructor].
  destruct (_ =? 0); [intros H; injection H as <-; constructor|]. cbn [lo_ts].
  intros H Hts. eapply IH; [exact H|].
  apply Forall_app. split; [assumption|]. constructor; [|constructor].
  exists (offset + (idx + 3)). cbn [snd]. split; [lia|reflexivity].
Qed.

End LoopProofs.

(* ------------------------------------------------------------------ *)
(* exactness *)

(* the abstract checker reports tokens of the source it was given *)
Definition sem_consistent (sem : nat -> string -> sem_res) : Prop :=
  forall off src, Forall (spos_consistent src) (sr_errs (sem off src)).

Lemma conv_plain src e line colb : pos_plain src = true -> spos_consistent src e ->
  template_conv e line colb = (line, colb + sp_off e).
Proof.
  intros Hp [He Hle]. unfold template_conv. rewrite He.
  rewrite pos_at_plain by assumption. cbn [sp_line sp_col sp_off]. f_equal; lia.
Qed.

Definition qcol (col : nat) (quoted : bool) : nat := if quoted then S col else col.

(* expr_diag_col for checkExprsIn: one-line ASCII text; any number of earlier
   placeholders and any filler (the statement quantifies over the whole text) *)
Lemma check_exprs_in_exact sem text line col quoted :
  sem_consistent sem -> pos_plain text = true ->
  Forall (fun d => snd d = (line, qcol col quoted + fst d))
         (lo_diags (check_exprs_in sem text line col quoted)).
Proof.
  intros Hsem Hp. unfold check_exprs_in.
  pose proof (template_loop_calls sem text (S (String.length text)) text 0 line (qcol col quoted) []
                (eq_refl : text = pos_skip 0 text)) as [Hinv _].
  pose proof (template_loop_diags sem (S (String.length text)) text 0 line (qcol col quoted) []) as Hd.
  cbn zeta in Hinv, Hd. fold (qcol col quoted).
  eapply Forall_impl; [|exact Hd]. cbn beta.
  intros d [c [e [Hc [He [H1 H2]]]]].
  unfold calls_inv in Hinv. rewrite Forall_forall in Hinv. destruct (Hinv c Hc) as [Hsrc _].
  pose proof (Hsem (fst c) (snd c)) as Hcons. rewrite Forall_forall in Hcons.
  unfold fpos in *. rewrite H2, H1.
  rewrite (conv_plain (snd c)); [f_equal; lia| |auto].
  rewrite Hsrc. now apply pos_plain_skip.
Qed.

Lemma check_exprs_in_fuel sem text line col quoted :
  lo_fuel (check_exprs_in sem text line col quoted) = false.
Proof. unfold check_exprs_in. apply template_loop_fuel. lia. Qed.

(* the template-type diagnostics point at the "${{" of their placeholder *)
Lemma template_type_diags_pos sem text line col quoted tys :
  lo_ts (check_exprs_in sem text line col quoted) = Some tys ->
  Forall (fun p => exists off, 3 <= off /\ p = (line, qcol col quoted + (off - 3))) (template_type_diags tys).
Proof.
  intros H. unfold check_exprs_in in H. fold (qcol col quoted) in H.
  pose proof (template_loop_ts sem _ _ _ _ _ _ _ H (Forall_nil _)) as Hts.
  unfold template_type_diags. apply Forall_forall. intros p Hp.
  apply in_map_iff in Hp. destruct Hp as [t [Hp Ht]]. apply filter_In in Ht. destruct Ht as [Ht _].
  rewrite Forall_forall in Hts. destruct (Hts t Ht) as [off [Ho Hs]].
  exists off. split; [assumption|]. unfold fpos, tyd in *. rewrite <- Hp, Hs. f_equal. lia.
Qed.

(* the sites: expression diagnostics of checkString / checkOneExpression /
   checkRawYAMLString are those of checkExprsIn *)
Definition expr_diags_exact (line col : nat) (quoted : bool) (ds : list (nat * fpos)) : Prop :=
  Forall (fun d => snd d = (line, qcol col quoted + fst d)) ds.

(* matrix values: the quoted flag is not passed, so the report is at
   (line, col + o): exact for plain scalars ... *)
Lemma check_raw_yaml_string_cols sem y :
  sem_consistent sem -> pos_plain (ys_val y) = true ->
  exists ds, check_raw_yaml_string sem y = map snd ds /\
             expr_diags_exact (ys_line y) (ys_col y) false ds.
Proof.
  intros Hs Hp. unfold check_raw_yaml_string, check_raw_yaml_string_gen. cbn [andb].
  eexists. split; [reflexivity|]. now apply check_exprs_in_exact.
Qed.

Lemma check_raw_yaml_string_exact_partial sem y :
  sem_consistent sem -> pos_plain (ys_val y) = true -> ys_quoted y = false ->
  exists ds, check_raw_yaml_string sem y = map snd ds /\
             expr_diags_exact (ys_line y) (ys_col y) (ys_quoted y) ds.
Proof. intros Hs Hp Hq. rewrite Hq. now apply check_raw_yaml_string_cols. Qed.

(* ... and with the (not applied) repair for every scalar *)
Lemma check_raw_yaml_string_repaired_exact sem y :
  sem_consistent sem -> pos_plain (ys_val y) = true ->
  exists ds, check_raw_yaml_string_repaired sem y = map snd ds /\
             expr_diags_exact (ys_line y) (ys_col y) (ys_quoted y) ds.
Proof.
  intros Hs Hp. unfold check_raw_yaml_string_repaired, check_raw_yaml_string_gen. cbn [andb].
  eexists. split; [reflexivity|]. now apply check_exprs_in_exact.
Qed.

(* quoted matrix values are reported one column too far left (finding #7a) *)
Lemma check_raw_yaml_string_quoted_refuted :
  exists sem y o, sem_consistent sem /\ pos_plain (ys_val y) = true /\ ys_quoted y = true /\
    check_raw_yaml_string sem y = [(ys_line y, qcol (ys_col y) (ys_quoted y) + o - 1)] /\
    check_raw_yaml_string_repaired sem y = [(ys_line y, qcol (ys_col y) (ys_quoted y) + o)].
Proof.
  exists (pos_sem [4] []), (mkYstr "${{ foo }}" true 6 13), 4.
  split; [|split; [reflexivity|split; [reflexivity|split; vm_compute; reflexivity]]].
  intros off src. unfold pos_sem.
  pose proof (pos_lex_all_consistent src) as H.
  destruct (pos_lex_all src) as [toks after|toks e|]; cbn [sr_errs].
  - destruct H as [H _]. apply Forall_forall. intros t Ht. apply filter_In in Ht. destruct Ht as [Ht _].
    apply in_map_iff in Ht. destruct Ht as [x [<- Hx]]. rewrite Forall_forall in H. now apply H.
  - destruct H as [_ H]. constructor; [assumption|constructor].
  - constructor.
Qed.

(* pos_sem reports tokens of its source *)
Lemma pos_sem_consistent os tb : sem_consistent (pos_sem os tb).
Proof.
  intros off src. unfold pos_sem.
  pose proof (pos_lex_all_consistent src) as H.
  destruct (pos_lex_all src) as [toks after|toks e|]; cbn [sr_errs].
  - destruct H as [H _]. apply Forall_forall. intros t Ht. apply filter_In in Ht. destruct Ht as [Ht _].
    apply in_map_iff in Ht. destruct Ht as [x [<- Hx]]. rewrite Forall_forall in H. now apply H.
  - destruct H as [_ H]. constructor; [assumption|constructor].
  - constructor.
Qed.

(* checkIfCondition without ${{ }}: src = value ++ "}}"; tokens inside the
   value (offset <= length value) are exact after the fix *)
Lemma check_if_bare_exact sem y :
  sem_consistent sem -> pos_plain (ys_val y) = true -> contains_expr (ys_val y) = false ->
  exists es, check_if_condition sem y = map (fun e => template_conv e (ys_line y) (qcol (ys_col y) (ys_quoted y))) es /\
    Forall (fun e => template_conv e (ys_line y) (qcol (ys_col y) (ys_quoted y)) =
                     (ys_line y, qcol (ys_col y) (ys_quoted y) + sp_off e)) es.
Proof.
  intros Hs Hp Hc. unfold check_if_condition, check_if_condition_gen. rewrite Hc. cbn [andb].
  exists (sr_errs (sem 0 (ys_val y ++ "}}")%string)). split.
  - unfold qcol. destruct (ys_quoted y); reflexivity.
  - eapply Forall_impl; [|apply (Hs 0 (ys_val y ++ "}}")%string)]. cbn beta. intros e He.
    apply (conv_plain (ys_val y ++ "}}")%string); [|assumption].
    rewrite pos_plain_app, Hp. reflexivity.
Qed.

Lemma check_if_condition_old_refuted :
  exists y o, pos_plain (ys_val y) = true /\ contains_expr (ys_val y) = false /\
    check_if_condition_old (pos_sem [o] []) y = [(ys_line y, qcol (ys_col y) (ys_quoted y) + o - 1)] /\
    check_if_condition (pos_sem [o] []) y = [(ys_line y, qcol (ys_col y) (ys_quoted y) + o)].
Proof. exists (mkYstr "foo" true 10 9), 0. repeat split; vm_compute; reflexivity. Qed.

(* checkString / checkOneExpression *)
Lemma check_string_exact sem y :
  sem_consistent sem -> pos_plain (ys_val y) = true ->
  exists ds tds, check_string sem y = map snd ds ++ tds /\
    expr_diags_exact (ys_line y) (ys_col y) (ys_quoted y) ds /\
    Forall (fun p => exists off, 3 <= off /\ p = (ys_line y, qcol (ys_col y) (ys_quoted y) + (off - 3))) tds.
Proof.
  intros Hs Hp. unfold check_string.
  destruct (lo_ts (check_exprs_in sem (ys_val y) (ys_line y) (ys_col y) (ys_quoted y))) as [tys|] eqn:E.
  - eexists; eexists. split; [reflexivity|]. split; [now apply check_exprs_in_exact|].
    now apply (template_type_diags_pos sem (ys_val y)).
  - eexists; exists []. split; [reflexivity|]. split; [now apply check_exprs_in_exact|constructor].
Qed.

(* ------------------------------------------------------------------ *)
(* errorAtExpr: the reported token is one of the tree's tokens (the first
   token of the sub-expression: Ast.etok) *)
Lemma etok_in_toks e : In (etok e) (expr_toks e).
Proof.
  induction e using expr_ind'; cbn [etok expr_toks]; auto using in_eq.
  - apply in_or_app. now left.
  - apply in_or_app. now left.
  - apply in_or_app. now left.
Qed.

Lemma error_at_expr_consistent src e :
  Forall (fun t => spos_consistent src (spos_of_tpos t)) (expr_toks e) ->
  spos_consistent src (error_at_expr e).
Proof. intros H. rewrite Forall_forall in H. apply H. apply etok_in_toks. Qed.

(* ------------------------------------------------------------------ *)
(* glob, key, value *)

Lemma glob_errors_exact cols line col quoted :
  Forall2 (fun c p => p = (line, qcol col quoted + (c - 1))) cols (glob_errors cols line col quoted).
Proof.
  unfold glob_errors. induction cols as [|c cols IH]; cbn [map]; constructor; [|exact IH].
  fold (qcol col quoted). destruct (c =? 0) eqn:E; [|reflexivity].
  apply Nat.eqb_eq in E. subst c. f_equal. lia.
Qed.

Lemma key_diag_exact n : key_diag n = n.
Proof. destruct n; reflexivity. Qed.
Lemma value_diag_exact n : value_diag n = n.
Proof. destruct n; reflexivity. Qed.

(* ------------------------------------------------------------------ *)
(* shifts: line and column of the scalar enter every report additively,
   for every text (multi-line and non-ASCII included) *)

Definition shift_pos (dl dc : nat) (p : fpos) : fpos := (fst p + dl, snd p + dc).

Lemma conv_shift e line col dl dc :
  template_conv e (line + dl) (col + dc) = shift_pos dl dc (template_conv e line col).
Proof. unfold template_conv, shift_pos. cbn [fst snd]. f_equal; lia. Qed.

Lemma template_loop_shift sem dl dc : forall fuel s offset line col ts,
  let o := template_loop sem fuel s offset line col ts in
  let o' := template_loop sem fuel s offset (line + dl) (col + dc) (map (fun t => (fst t, shift_pos dl dc (snd t))) ts) in
  lo_diags o' = map (fun d => (fst d, shift_pos dl dc (snd d))) (lo_diags o) /\
  lo_ts o' = option_map (map (fun t => (fst t, shift_pos dl dc (snd t)))) (lo_ts o) /\
  lo_calls o' = lo_calls o /\ lo_fuel o' = lo_fuel o.
Proof.
  induction fuel as [|f IH]; intros s offset line col ts; cbn [template_loop].
  - repeat split; reflexivity.
  - destruct (str_index "${{" s) as [idx|]; [|repeat split; reflexivity]. cbn zeta.
    set (offset1 := offset + (idx + 3)). set (s1 := pos_skip (idx + 3) s).
    destruct (negb (sr_ok (sem offset1 s1))).
    { cbn [lo_diags lo_ts lo_calls lo_fuel]. repeat split; try reflexivity.
      rewrite map_map. apply map_ext. intros e. cbn [fst snd]. f_equal.
      replace (col + dc + offset1) with (col + offset1 + dc) by lia. apply conv_shift. }
    destruct (sr_ty (sem offset1 s1)) as [ty|]; [|repeat split; reflexivity].
    destruct (sr_after (sem offset1 s1) =? 0); [repeat split; reflexivity|].
    cbn [lo_diags lo_ts lo_calls lo_fuel].
    specialize (IH (pos_skip (sr_after (sem offset1 s1)) s1) (offset1 + sr_after (sem offset1 s1)) line col
                   (ts ++ [(ty, (line, col + offset1 - 3))])).
    cbn zeta in IH. rewrite map_app in IH. cbn [map fst snd] in IH.
    replace (shift_pos dl dc (line, col + offset1 - 3)) with (line + dl, col + dc + offset1 - 3) in IH
      by (unfold shift_pos, offset1; cbn [fst snd]; f_equal; lia).
    destruct IH as [I1 [I2 [I3 I4]]]. repeat split; [exact I1|exact I2|f_equal; exact I3|exact I4].
Qed.

Lemma check_exprs_in_shift sem text line col quoted dl dc :
  let o := check_exprs_in sem text line col quoted in
  let o' := check_exprs_in sem text (line + dl) (col + dc) quoted in
  lo_diags o' = map (fun d => (fst d, shift_pos dl dc (snd d))) (lo_diags o) /\
  lo_ts o' = option_map (map (fun t => (fst t, shift_pos dl dc (snd t)))) (lo_ts o).
Proof.
  cbn zeta. unfold check_exprs_in.
  pose proof (template_loop_shift sem dl dc (S (String.length text)) text 0 line (qcol col quoted) []) as H.
  cbn zeta in H. cbn [map] in H. destruct H as [H1 [H2 _]].
  replace (if quoted then S (col + dc) else col + dc) with (qcol col quoted + dc)
    by (unfold qcol; destruct quoted; lia).
  fold (qcol col quoted). split; assumption.
Qed.

Lemma template_type_diags_shift dl dc ts :
  template_type_diags (map (fun t => (fst t, shift_pos dl dc (snd t))) ts) =
  map (shift_pos dl dc) (template_type_diags ts).
Proof.
  unfold template_type_diags. induction ts as [|t ts IH]; cbn [map filter]; [reflexivity|].
  cbn [fst]. destruct (fst t); cbn [map snd]; now rewrite IH.
Qed.

Definition ystr_shift (dl dc : nat) (y : ystr) : ystr :=
  mkYstr (ys_val y) (ys_quoted y) (ys_line y + dl) (ys_col y + dc).

(* moving the scalar by dl lines and dc columns moves every report of
   checkString by exactly (dl, dc) — for every text *)
Lemma check_string_shift sem y dl dc :
  check_string sem (ystr_shift dl dc y) = map (shift_pos dl dc) (check_string sem y).
Proof.
  unfold check_string, ystr_shift. cbn [ys_val ys_quoted ys_line ys_col].
  destruct (check_exprs_in_shift sem (ys_val y) (ys_line y) (ys_col y) (ys_quoted y) dl dc) as [H1 H2].
  rewrite H1, H2. clear H1 H2.
  destruct (lo_ts (check_exprs_in sem (ys_val y) (ys_line y) (ys_col y) (ys_quoted y))) as [ts|]; cbn [option_map].
  - rewrite map_app, !map_map. cbn [snd]. f_equal. apply template_type_diags_shift.
  - rewrite map_app, !map_map. reflexivity.
Qed.

Lemma check_one_expression_shift sem y dl dc :
  check_one_expression sem (ystr_shift dl dc y) = map (shift_pos dl dc) (check_one_expression sem y).
Proof.
  unfold check_one_expression, ystr_shift. cbn [ys_val ys_quoted ys_line ys_col].
  destruct (check_exprs_in_shift sem (ys_val y) (ys_line y) (ys_col y) (ys_quoted y) dl dc) as [H1 H2].
  rewrite H1, H2. clear H1 H2.
  destruct (lo_ts (check_exprs_in sem (ys_val y) (ys_line y) (ys_col y) (ys_quoted y))) as [ts|]; cbn [option_map].
  - rewrite map_app, !map_map. cbn [snd]. f_equal. rewrite map_length.
    unfold tyd, fpos in *. destruct (Datatypes.length ts =? 1); reflexivity.
  - rewrite map_app, !map_map. reflexivity.
Qed.

Lemma check_raw_yaml_string_shift sem y dl dc :
  check_raw_yaml_string sem (ystr_shift dl dc y) = map (shift_pos dl dc) (check_raw_yaml_string sem y).
Proof.
  unfold check_raw_yaml_string, check_raw_yaml_string_gen, ystr_shift. cbn [ys_val ys_quoted ys_line ys_col andb].
  destruct (check_exprs_in_shift sem (ys_val y) (ys_line y) (ys_col y) false dl dc) as [H1 _].
  rewrite H1, !map_map. reflexivity.
Qed.

Lemma check_if_condition_shift sem y dl dc :
  check_if_condition sem (ystr_shift dl dc y) = map (shift_pos dl dc) (check_if_condition sem y).
Proof.
  unfold check_if_condition, check_if_condition_gen.
  replace (ys_val (ystr_shift dl dc y)) with (ys_val y) by reflexivity.
  destruct (contains_expr (ys_val y)); [apply check_string_shift|].
  unfold ystr_shift. cbn [ys_val ys_quoted ys_line ys_col andb]. rewrite map_map.
  apply map_ext. intros e.
  replace (if ys_quoted y then S (ys_col y + dc) else ys_col y + dc)
    with ((if ys_quoted y then S (ys_col y) else ys_col y) + dc) by (destruct (ys_quoted y); lia).
  apply conv_shift.
Qed.

Lemma glob_errors_shift cols line col quoted dl dc :
  glob_errors cols (line + dl) (col + dc) quoted = map (shift_pos dl dc) (glob_errors cols line col quoted).
Proof.
  unfold glob_errors. rewrite map_map. apply map_ext. intros c. unfold shift_pos. cbn [fst snd].
  destruct quoted; destruct (c =? 0); f_equal; lia.
Qed.

(* inner shift: k more characters of one-line ASCII text in front of the token
   (in the scalar) move the report by exactly k columns *)
Lemma expr_diag_inner_shift sem sem' text text' line col quoted d d' k :
  sem_consistent sem -> sem_consistent sem' -> pos_plain text = true -> pos_plain text' = true ->
  In d (lo_diags (check_exprs_in sem text line col quoted)) ->
  In d' (lo_diags (check_exprs_in sem' text' line col quoted)) ->
  fst d' = fst d + k -> snd d' = shift_pos 0 k (snd d).
Proof.
  intros Hs Hs' Hp Hp' Hd Hd' Hk.
  pose proof (check_exprs_in_exact sem text line col quoted Hs Hp) as H.
  pose proof (check_exprs_in_exact sem' text' line col quoted Hs' Hp') as H'.
  rewrite Forall_forall in H, H'. unfold fpos in *. rewrite (H d Hd), (H' d' Hd'), Hk.
  unfold shift_pos. cbn [fst snd]. f_equal; lia.
Qed.

(* ------------------------------------------------------------------ *)
(* bounds *)

Lemma conv_ge1 src e line colb : spos_consistent src e -> 1 <= line -> 1 <= colb ->
  1 <= fst (template_conv e line colb) /\ 1 <= snd (template_conv e line colb).
Proof. intros _ Hl Hc. unfold template_conv. cbn [fst snd]. lia. Qed.

Lemma conv_line_le src e line colb : spos_consistent src e ->
  fst (template_conv e line colb) <= line + pos_count_nl src.
Proof.
  intros [He _]. unfold template_conv. cbn [fst]. rewrite He.
  pose proof (pos_at_line_le src (sp_off e)). lia.
Qed.

(* every report of checkExprsIn: line >= 1, col >= 1; line <= scalar line +
   number of line breaks in the text (so <= nlines for one-line text when the
   scalar is inside the file) *)
Lemma check_exprs_in_bounds sem text line col quoted :
  sem_consistent sem -> 1 <= line -> 1 <= col ->
  Forall (fun d => 1 <= fst (snd d) /\ 1 <= snd (snd d) /\ line <= fst (snd d) <= line + pos_count_nl text)
         (lo_diags (check_exprs_in sem text line col quoted)).
Proof.
  intros Hsem Hl Hc. unfold check_exprs_in.
  pose proof (template_loop_calls sem text (S (String.length text)) text 0 line (qcol col quoted) []
                (eq_refl : text = pos_skip 0 text)) as [Hinv _].
  pose proof (template_loop_diags sem (S (String.length text)) text 0 line (qcol col quoted) []) as Hd.
  cbn zeta in Hinv, Hd. fold (qcol col quoted).
  eapply Forall_impl; [|exact Hd]. cbn beta.
  intros d [c [e [Hcin [He [H1 H2]]]]].
  unfold calls_inv in Hinv. rewrite Forall_forall in Hinv. destruct (Hinv c Hcin) as [Hsrc _].
  pose proof (Hsem (fst c) (snd c)) as Hcons. rewrite Forall_forall in Hcons.
  specialize (Hcons e He). unfold fpos in *. rewrite H2.
  pose proof (conv_line_le (snd c) e line (qcol col quoted + fst c) Hcons) as Hle.
  rewrite Hsrc in Hle. pose proof (pos_count_nl_skip (fst c) text).
  unfold template_conv in *. cbn [fst snd] in *. unfold qcol. destruct quoted; lia.
Qed.

Lemma diag_bounds_one_line sem text line col quoted nlines :
  sem_consistent sem -> pos_plain text = true -> 1 <= line <= nlines -> 1 <= col ->
  Forall (fun d => 1 <= fst (snd d) <= nlines /\ 1 <= snd (snd d))
         (lo_diags (check_exprs_in sem text line col quoted)).
Proof.
  intros Hs Hp Hl Hc.
  eapply Forall_impl; [|apply (check_exprs_in_bounds sem text line col quoted Hs)]; try lia.
  cbn beta. intros d. rewrite (pos_plain_no_nl text Hp). lia.
Qed.

(* the unrestricted bound fails: decoded line breaks inside a placeholder are
   added to the scalar's line (DESIGN Appendix A #7) *)
Definition pos_witness_nl : string :=
  ("${{ " ++ String pos_nl (String pos_nl (String pos_nl " x }}")))%string.

Lemma diag_line_bound_refuted :
  exists text line col nlines, line <= nlines /\
    exists d, In d (check_string (pos_sem [String.length text - 4] []) (mkYstr text true line col)) /\
              nlines < fst d.
Proof.
  exists pos_witness_nl, 7, 15, 7. split; [lia|].
  eexists. split; [vm_compute; left; reflexivity|]. cbn. lia.
Qed.

Lemma glob_errors_bounds cols line col quoted : 1 <= line -> 1 <= col ->
  Forall (fun p => fst p = line /\ 1 <= snd p) (glob_errors cols line col quoted).
Proof.
  intros Hl Hc. unfold glob_errors. apply Forall_forall. intros p Hp.
  apply in_map_iff in Hp. destruct Hp as [c [<- _]]. cbn [fst snd].
  split; [reflexivity|]. destruct quoted; destruct (c =? 0); lia.
Qed.

(* ------------------------------------------------------------------ *)
(* template_offset_inv: the loop invariant of checkExprsIn, for every checker
   behaviour [sem], every text: at each checkSemantics call the remaining
   string is the suffix of the scalar text at the accumulated offset; each
   iteration advances the offset by at least 3 bytes ("${{"); the loop
   terminates within the supplied fuel. *)
Lemma template_offset_inv sem text line col quoted :
  let o := check_exprs_in sem text line col quoted in
  Forall (fun c => snd c = pos_skip (fst c) text /\ 3 <= fst c) (lo_calls o) /\
  StronglySorted (fun a b => fst a + 3 <= fst b) (lo_calls o) /\
  lo_fuel o = false.
Proof.
  cbn zeta. split; [|split].
  - unfold check_exprs_in.
    pose proof (template_loop_calls sem text (S (String.length text)) text 0 line (qcol col quoted) []
                  (eq_refl : text = pos_skip 0 text)) as [Hinv _].
    exact Hinv.
  - unfold check_exprs_in.
    pose proof (template_loop_calls sem text (S (String.length text)) text 0 line (qcol col quoted) []
                  (eq_refl : text = pos_skip 0 text)) as [_ Hs].
    exact Hs.
  - apply check_exprs_in_fuel.
Qed.

(* the hypotheses of the exactness theorems are satisfiable, non-trivially *)
Example template_example :
  pos_plain "echo ${{ 1 }} ${{ github.foo }}" = true /\
  sem_consistent (pos_sem [18] []) /\
  check_string (pos_sem [18] []) (mkYstr "echo ${{ 1 }} ${{ github.foo }}" true 16 14) = [(16, 14 + 1 + 18)].
Proof. split; [reflexivity|]. split; [apply pos_sem_consistent|vm_compute; reflexivity]. Qed.

Example template_loop_example :
  map fst (lo_calls (check_exprs_in (pos_sem [] []) "a ${{ 1 }} b ${{ 2 }}${{ 3 }}" 1 1 false)) = [5; 16; 24].
Proof. vm_compute. reflexivity. Qed.
