(* Expr/ParseSrc.v — ExprParser.Parse(NewExprLexer(src)) as a whole, and the
   observables compared with the implementation by the correspondence check.

   The parser pulls tokens one at a time; a lexical error makes the lexer hand
   out an End token, and ExprParser.Err() lets the lexer's error win.  Since the
   parser never asks for a token after an End token, and stops pulling as soon
   as it has recorded its own error, the result is determined by the token
   stream up to the first `}}`/error ([lex_all]) as follows:
   - the parser fails while its current token is a real token: no lexical error
     has happened yet -> the parser's diagnostic;
   - the parser fails at, or succeeds up to, the End token that stands for a
     lexical error -> the lexer's diagnostic;
   - the parser returns with tokens left ("remaining tokens"): Err() was nil at
     that point; lexical errors met while counting the rest are dropped. *)
From AL Require Export Expr.Lexer Expr.Parser.
From AL Require Import Base.Corr.

Inductive outcome :=
| OAccept (e : expr)
| OLexErr (e : lexerr)
| OParseErr (c : perr_class) (p : tpos)
| OFuel
| OPanic.

Section Src.
Variable plus : bool.
Variable int_lit : string -> option Z.
Variable float_ok : string -> bool.

Definition combine (ts : list token) (fin : lex_fin) : outcome :=
  match fin with
  | FFuel => OFuel
  | FEnd p _ =>
      match parse_toks int_lit float_ok ts with
      | POk e => OAccept e
      | PErr d => OParseErr (pe_class d) (match pe_at d with Some t => tk_pos t | None => p end)
      | PFuel => OFuel
      | PPanic => OPanic
      end
  | FErr le endp =>
      match parse_toks int_lit float_ok ts with
      | POk e => OLexErr le
      | PErr d =>
          match pe_at d with
          | Some t => OParseErr (pe_class d) (tk_pos t)
          | None => OLexErr le
          end
      | PFuel => OFuel
      | PPanic => OPanic
      end
  end.

Definition parse_src (src : string) : outcome :=
  let (ts, fin) := lex_all plus src in combine ts fin.

End Src.

(* ------------------------------------------------------------------ observables *)
Local Open Scope N_scope.

Definition n_of_nat := N.of_nat.
Definition ser_pos (p : tpos) : list N := [t_off p; t_line p; t_col p].
Fixpoint str_bytes (s : string) : list N :=
  match s with EmptyString => [] | String c r => N.of_nat (nat_of_ascii c) :: str_bytes r end.
Definition ser_str (s : string) : list N := N.of_nat (String.length s) :: str_bytes s.

Definition cmp_code (o : cmpop) : N :=
  match o with CLess => 1 | CLessEq => 2 | CGreater => 3 | CGreaterEq => 4 | CEq => 5 | CNotEq => 6 end.
Definition log_code (o : logop) : N := match o with LAnd => 1 | LOr => 2 end.

Fixpoint ser (e : expr) : list N :=
  match e with
  | EVar p n => 1 :: ser_pos p ++ ser_str n
  | ENull p => 2 :: ser_pos p
  | EBool p b => 3 :: ser_pos p ++ [if b then 1 else 0]
  | EInt p z => 4 :: ser_pos p ++ [if (z <? 0)%Z then 1 else 0; Z.abs_N z]
  | EFloat p r => 5 :: ser_pos p ++ ser_str r
  | EStr p s => 6 :: ser_pos p ++ ser_str s
  | EDeref r n => 7 :: ser_str n ++ ser r
  | EArrDeref r => 8 :: ser r
  | EIndex o i => 9 :: ser o ++ ser i
  | ENot p x => 10 :: ser_pos p ++ ser x
  | ECmp o l r => 11 :: cmp_code o :: ser l ++ ser r
  | ELog o l r => 12 :: log_code o :: ser l ++ ser r
  | ECall p c args =>
      13 :: ser_pos p ++ ser_str c ++ N.of_nat (length args) :: flat_map ser args
  end.

Definition tok_obs (t : token) : tuple :=
  10 :: kind_code (tk_kind t) :: ser_pos (tk_pos t) ++ [N.of_nat (String.length (tk_val t))].

(* LexExpression *)
Definition lex_obs (plus : bool) (src : string) : list tuple :=
  let (ts, fin) := lex_all plus src in
  match fin with
  | FEnd p after => map tok_obs ts ++ [10 :: end_code :: ser_pos p ++ [2]; [11; t_off after]]
  | FErr e _ => [12 :: le_class e :: ser_pos (le_pos e)]
  | FFuel => [[99]]
  end.

Definition perr_obs (c : perr_class) : list N :=
  match c with
  | PEUnexpected site => [1; site]
  | PEBadInt => [2; 0]
  | PEBadFloat => [3; 0]
  | PERemaining n => [4; N.of_nat n]
  end.

Definition outcome_obs (o : outcome) : tuple :=
  match o with
  | OAccept e => 20 :: ser e
  | OParseErr c p => 21 :: perr_obs c ++ ser_pos p
  | OLexErr e => 22 :: le_class e :: ser_pos (le_pos e)
  | OFuel => [98]
  | OPanic => [97]
  end.

(* the model of the code in /repo: '+' accepted in exponents (after the fix),
   int literals through strconv.ParseInt(_, 0, 32); [bad] lists the float
   literal texts strconv.ParseFloat rejects (oracle input) *)
Definition float_ok_of (bad : list string) (raw : string) : bool :=
  negb (existsb (String.eqb raw) bad).

Definition run_c04_with (plus : bool) (input : string * list string) : list tuple :=
  let (src, bad) := input in
  lex_obs plus src ++ [outcome_obs (parse_src plus int32_lit (float_ok_of bad) src)].

Definition run_c04 := run_c04_with true.
Definition run_c04_prefix := run_c04_with false.   (* the lexer before the '+' fix *)
