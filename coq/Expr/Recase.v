(* Expr/Recase.v — vocabulary of property C08 ("names are matched
   case-insensitively everywhere") over the shared expression tree (Expr/Ast.v),
   the semantic-checker model (Expr/Sema.v) and the JSON values of
   typeOfJSONValue (Expr/Types.v).

   Name occurrences of an expression, as the property lists them (DESIGN.md
   Appendix B): variable (context) names, property names of `.name`
   dereferences, function names, and string literals used as an index
   `x['Name']`.  Everything else — the keywords true/false/null, numbers, every
   other string literal (including the format string of format() and the JSON
   text passed to fromJSON()), operators, token positions — is not a name
   occurrence and is kept as it is.

   [same_fold s s']: the two spellings differ in ASCII letter case only.
   [recase_rel e e']: same tree up to the ASCII case of its name occurrences.
   [parser_fold]: what expr_parser.go does to names before the semantic checker
   sees the tree (VariableNode.Name and ObjectDerefNode.Property are lower-cased,
   expr_parser.go:117,218; FuncCallNode.Callee and StringNode.Value are kept as
   written and folded by the checker at each use). *)
From AL Require Export Expr.Sema.

(* two spellings of one name: equal after ASCII lower-casing *)
Definition same_fold (s s' : string) : Prop := lower s = lower s'.

(* ---- expressions -------------------------------------------------------------- *)
Inductive recase_rel : expr -> expr -> Prop :=
| RVar p n n' : same_fold n n' -> recase_rel (EVar p n) (EVar p n')
| RNull p : recase_rel (ENull p) (ENull p)                       (* keyword: untouched *)
| RBool p b : recase_rel (EBool p b) (EBool p b)                 (* keyword: untouched *)
| RInt p z : recase_rel (EInt p z) (EInt p z)
| RFloat p r : recase_rel (EFloat p r) (EFloat p r)
| RStr p s : recase_rel (EStr p s) (EStr p s)                    (* ordinary string literal: untouched *)
| RDeref r r' n n' : recase_rel r r' -> same_fold n n' -> recase_rel (EDeref r n) (EDeref r' n')
| RArrDeref r r' : recase_rel r r' -> recase_rel (EArrDeref r) (EArrDeref r')
| RIndex o o' i i' : recase_rel o o' -> recase_rel i i' -> recase_rel (EIndex o i) (EIndex o' i')
| RIndexLit o o' p s s' : recase_rel o o' -> same_fold s s' ->   (* string literal used as an index *)
    recase_rel (EIndex o (EStr p s)) (EIndex o' (EStr p s'))
| RNot p x x' : recase_rel x x' -> recase_rel (ENot p x) (ENot p x')
| RCmp op l l' r r' : recase_rel l l' -> recase_rel r r' -> recase_rel (ECmp op l r) (ECmp op l' r')
| RLog op l l' r r' : recase_rel l l' -> recase_rel r r' -> recase_rel (ELog op l r) (ELog op l' r')
| RCall p c c' args args' : same_fold c c' -> Forall2 recase_rel args args' ->
    recase_rel (ECall p c args) (ECall p c' args').

(* expr_parser.go: the tree handed to the semantic checker *)
Fixpoint parser_fold (e : expr) : expr :=
  match e with
  | EVar p n => EVar p (lower n)
  | ENull _ | EBool _ _ | EInt _ _ | EFloat _ _ | EStr _ _ => e
  | EDeref r n => EDeref (parser_fold r) (lower n)
  | EArrDeref r => EArrDeref (parser_fold r)
  | EIndex o i => EIndex (parser_fold o) (parser_fold i)
  | ENot p x => ENot p (parser_fold x)
  | ECmp op l r => ECmp op (parser_fold l) (parser_fold r)
  | ELog op l r => ELog op (parser_fold l) (parser_fold r)
  | ECall p c args => ECall p c (map parser_fold args)
  end.

(* the observable of property C08 on one expression: result type and the ordered list of
   (position, class).  A class of the model ([dkind]) carries the *types* its message names and
   no spelling: the spelling echoed by the real messages (the property name as written in an
   index literal, the callee as written) is not part of it — "compared modulo the echoed
   spelling" is therefore plain equality here. *)
Definition sema_obs (E : env) (e : expr) : ty * list (tpos * dkind) :=
  let '(t, ds) := check E (parser_fold e) in (t, map (fun d => (d_pos d, d_kind d)) ds).

(* ---- JSON values --------------------------------------------------------------- *)
(* same JSON value up to the ASCII case of its object keys *)
Inductive jrecase : jval -> jval -> Prop :=
| JRNull : jrecase JNull JNull
| JRBool : jrecase JBool JBool
| JRNum : jrecase JNum JNum
| JRStr : jrecase JStr JStr
| JRArr es es' : Forall2 jrecase es es' -> jrecase (JArr es) (JArr es')
| JRObj ps ps' : Forall2 (fun kv kv' => same_fold (fst kv) (fst kv') /\ jrecase (snd kv) (snd kv')) ps ps' ->
    jrecase (JObj ps) (JObj ps').

(* no two keys of one object differ in letter case only (in particular the keys are distinct) *)
Fixpoint jkeys_fold_distinct (v : jval) : Prop :=
  match v with
  | JArr es => (fix all (l : list jval) : Prop :=
                  match l with [] => True | e :: l' => jkeys_fold_distinct e /\ all l' end) es
  | JObj ps => NoDup (map (fun kv : string * jval => lower (fst kv)) ps) /\
               (fix all (l : list (string * jval)) : Prop :=
                  match l with [] => True | kv :: l' => jkeys_fold_distinct (snd kv) /\ all l' end) ps
  | _ => True
  end.

(* induction principle of [jval] reaching into arrays and objects *)
Section JvalInd.
Variable P : jval -> Prop.
Hypothesis Hnull : P JNull.
Hypothesis Hbool : P JBool.
Hypothesis Hnum : P JNum.
Hypothesis Hstr : P JStr.
Hypothesis Harr : forall es, Forall P es -> P (JArr es).
Hypothesis Hobj : forall ps, Forall (fun kv => P (snd kv)) ps -> P (JObj ps).
Fixpoint jval_ind' (v : jval) : P v :=
  match v with
  | JNull => Hnull | JBool => Hbool | JNum => Hnum | JStr => Hstr
  | JArr es => Harr es ((fix go (l : list jval) : Forall P l :=
                           match l with [] => Forall_nil _ | e :: l' => Forall_cons e (jval_ind' e) (go l') end) es)
  | JObj ps => Hobj ps ((fix go (l : list (string * jval)) : Forall (fun kv => P (snd kv)) l :=
                           match l with [] => Forall_nil _ | kv :: l' => Forall_cons kv (jval_ind' (snd kv)) (go l') end) ps)
  end.
End JvalInd.
