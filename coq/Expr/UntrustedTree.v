(* Expr/UntrustedTree.v — the search tree of expr_insecure.go
   (UntrustedInputMap / UntrustedInputSearchRoots), shared by the automaton
   model (Untrusted.v), the specification (UntrustedSpec.v) and the generated
   table (Gen/GenUntrusted.v). *)
From AL Require Export Base.Str.

Inductive utree : Type := UT (name : string) (children : list utree).

Definition ut_name (t : utree) : string := let 'UT n _ := t in n.
Definition ut_children (t : utree) : list utree := let 'UT _ cs := t in cs.

(* roots[name], Children[name]: first entry with that name *)
Fixpoint find_named (name : string) (ts : list utree) : option utree :=
  match ts with
  | [] => None
  | t :: ts' => if String.eqb name (ut_name t) then Some t else find_named name ts'
  end.

Definition path := list string.
