(* Expr/TemplateStop.v — the loop of checkExprsIn stops at the first
   placeholder that drew a diagnostic: later placeholders of the same scalar
   are not handed to the checker at all.  For C11 ("every expression that
   reads an untrusted input is reported ... several per expression") and C12
   this is a defect of the pinned tree that the project's own expected output
   (testdata/err/context_availability.out) pins; it is recorded as a known
   finding.  What does hold: the diagnostics of the FIRST erroneous placeholder
   are all reported, and nothing is skipped while no diagnostic is raised. *)
From AL Require Import Base.Str Expr.Ast Expr.PosModel Expr.Template.

(* a checker under which every placeholder `x}}` has one diagnostic at its first token *)
Definition sem_always_err (_ : nat) (_ : string) : sem_res :=
  mkSem [mkSpos 0 1 1] (Some TyPlain) 3.

(* two erroneous placeholders, one diagnostic *)
Theorem later_placeholder_unchecked :
  let o := check_exprs_in sem_always_err "${{x}} ${{x}}" 7 10 false in
  lo_diags o = [(3, (7, 13))] /\ List.length (lo_calls o) = 1 /\ lo_ts o = None.
Proof. vm_compute. repeat split. Qed.

(* with the loop continued after semantic errors (the four-line repair that the
   pinned expected output forbids) both are reported *)
Section Repaired.
Variable sem : nat -> string -> sem_res.
Fixpoint template_loop_cont (fuel : nat) (s : string) (offset line col : nat) (failed : bool) : list (nat * fpos) :=
  match fuel with
  | O => []
  | S f =>
      match str_index "${{" s with
      | None => []
      | Some idx =>
          let start := idx + 3 in
          let s1 := pos_skip start s in
          let offset1 := offset + start in
          let col1 := col + offset1 in
          let r := sem offset1 s1 in
          let diags := map (fun e => (offset1 + sp_off e, template_conv e line col1)) (sr_errs r) in
          match sr_ty r with
          | None => diags
          | Some _ =>
              if sr_after r =? 0 then diags
              else diags ++ template_loop_cont f (pos_skip (sr_after r) s1) (offset1 + sr_after r) line col (failed || negb (sr_ok r))
          end
      end
  end.
End Repaired.

Theorem later_placeholder_checked_when_continued :
  template_loop_cont sem_always_err 14 "${{x}} ${{x}}" 0 7 10 false = [(3, (7, 13)); (10, (7, 20))].
Proof. vm_compute. reflexivity. Qed.
