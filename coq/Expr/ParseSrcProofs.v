(* Expr/ParseSrcProofs.v — the whole pipeline ExprParser.Parse(NewExprLexer(src)):
   text is accepted iff it tokenises (LexerSpec) into a sentence of the grammar
   (Grammar); otherwise there is exactly one diagnostic and its offset lies
   within the text; the model never runs out of fuel and never reaches the
   slice expression of parseString with a text shorter than two bytes. *)
From AL Require Import Expr.ParseSrc Expr.Grammar Expr.ParserProofs Expr.LexerSpec Expr.LexerProofs.
From Coq Require Import Lia.

Section SrcProofs.
Variable plus : bool.
Variable int_lit : string -> option Z.
Variable float_ok : string -> bool.

Notation parse_src := (parse_src plus int_lit float_ok).

Theorem src_accept_iff src e :
  parse_src src = OAccept e <->
  exists ts ep a, tokenises true plus pos0 src ts ep a /\ derives int_lit float_ok ts e.
Proof.
  unfold parse_src. split.
  - destruct (lex_all plus src) as [ts fin] eqn:L. unfold ParseSrc.combine.
    destruct fin as [p a|le endp|].
    + destruct (parse_toks int_lit float_ok ts) as [e0|d| |] eqn:P; try discriminate.
      intros H. inv H. exists ts, p, a. split; [now apply lex_sound|now apply parse_sound].
    + destruct (parse_toks int_lit float_ok ts) as [e0|d| |]; try discriminate.
      destruct (pe_at d); discriminate.
    + discriminate.
  - intros (ts & ep & a & T & D). apply lex_complete in T. rewrite T. unfold ParseSrc.combine.
    apply parse_complete in D. unfold derives in D. now rewrite D.
Qed.

Definition within (src : string) (p : tpos) : Prop := (t_off p <= N.of_nat (String.length src))%N.

(* exactly one of: a tree; one lexical diagnostic; one syntactic diagnostic —
   and a diagnostic is positioned within the text *)
Theorem src_outcome src :
  (exists e, parse_src src = OAccept e) \/
  (exists le, parse_src src = OLexErr le /\ within src (le_pos le)) \/
  (exists c p, parse_src src = OParseErr c p /\ within src p).
Proof.
  unfold ParseSrc.parse_src, within. destruct (lex_all plus src) as [ts fin] eqn:L.
  pose proof (lex_all_no_fuel _ _ _ _ L) as NF.
  pose proof (lex_strings_wf _ _ _ _ L) as WF.
  destruct (lex_all_bounds _ _ _ _ L) as (BT & BF).
  assert (Htok : forall d t, err_in d ts -> pe_at d = Some t ->
            (t_off (tk_pos t) <= N.of_nat (String.length src))%N).
  { intros d t I E. unfold err_in in I. rewrite E in I. rewrite Forall_forall in BT.
    apply BT in I. unfold tk_off in I. lia. }
  unfold ParseSrc.combine.
  destruct (reject_one_error int_lit float_ok ts WF) as [(e & E & _)|(d & E & I & _)]; rewrite E.
  - destruct fin as [p a|le endp|]; [left; eauto| |congruence].
    right. left. exists le. split; [reflexivity|]. cbn in BF. lia.
  - destruct fin as [p a|le endp|]; [| |congruence].
    + right. right. exists (pe_class d). destruct (pe_at d) as [t|] eqn:A.
      * exists (tk_pos t). split; [reflexivity|]. eapply Htok; eauto.
      * exists p. split; [reflexivity|]. cbn in BF. lia.
    + destruct (pe_at d) as [t|] eqn:A.
      * right. right. exists (pe_class d), (tk_pos t). split; [reflexivity|]. eapply Htok; eauto.
      * right. left. exists le. split; [reflexivity|]. cbn in BF. lia.
Qed.

Corollary src_no_fuel_no_panic src : parse_src src <> OFuel /\ parse_src src <> OPanic.
Proof.
  destruct (src_outcome src) as [(e & ->)|[(le & -> & _)|(c & p & -> & _)]]; split; discriminate.
Qed.

End SrcProofs.

(* ------------------------------------------------------------ dialects and defects *)
Local Open Scope string_scope.

(* the implemented number forms are among the documented ones *)
Lemma nolead_digits1 isd s : (forall c, c = "0"%char -> isd c = true) -> nolead isd s -> digits1 isd s.
Proof.
  intros Z [->|(c & r & -> & Hc & _ & F)].
  - split; [discriminate|]. cbn. rewrite Z; reflexivity.
  - split; [discriminate|]. cbn. now rewrite Hc, F.
Qed.

Lemma num_lexeme_documented plus k s : num_lexeme true plus k s -> num_lexeme false true k s.
Proof.
  assert (He : forall ex, expo true plus ex -> expo false true ex).
  { intros ex [->|(e & sg & ds & -> & E & S & D)]; [now left|]. right. exists e, sg, ds.
    split; [reflexivity|]. split; [exact E|]. split.
    - destruct S as [->|[->|(_ & ->)]]; [now left|right; now left|right; right; auto].
    - cbn in *. apply nolead_digits1; [intros c ->; reflexivity|exact D]. }
  destruct 1 as [sg ds Hsg Hds | sg ip fr ex Hsg Hip Hfr Hex].
  - apply NL_hex; auto. cbn in *. apply nolead_digits1; auto. intros c ->. reflexivity.
  - apply NL_dec; auto.
Qed.

Lemma lexeme_documented plus k s : lexeme true plus k s -> lexeme false true k s.
Proof. destruct k; cbn; auto; apply num_lexeme_documented. Qed.

Theorem tokenises_documented plus p src ts e a :
  tokenises true plus p src ts e a -> tokenises false true p src ts e a.
Proof.
  induction 1 as [p ws tail W | p ws k lx rest ts e a W L Fo T IH].
  - now apply TK_end.
  - apply TK_tok; auto. eapply lexeme_documented; eauto.
Qed.

(* ... but not conversely: the documented language has token sequences the
   lexer rejects (known findings C04-exp-leading-zero, C04-hex-leading-zero) *)
Definition tok1 (k : tkind) (v : string) : token := mkTok k v pos0.

Lemma doc_1e05 : tokenises false true pos0 "1e05}}" [tok1 TFloat "1e05"]
                   (adv_str pos0 "1e05") (adv_str pos0 "1e05}}").
Proof.
  apply (TK_tok false true pos0 "" TFloat "1e05" "}}" [] _ _ eq_refl).
  - apply (NL_dec false true "" "1" "" "e05").
    + now left.
    + right. exists "1"%char, "". repeat split; auto. discriminate.
    + now left.
    + right. exists "e"%char, "", "05". repeat split; auto. { now left. } discriminate.
  - reflexivity.
  - apply (TK_end false true _ "" "" eq_refl).
Qed.

Lemma doc_0x0a : tokenises false true pos0 "0x0a}}" [tok1 TInt "0x0a"]
                   (adv_str pos0 "0x0a") (adv_str pos0 "0x0a}}").
Proof.
  apply (TK_tok false true pos0 "" TInt "0x0a" "}}" [] _ _ eq_refl).
  - apply (NL_hex false true "" "0a"); [now left|]. split; [discriminate|reflexivity].
  - split; [reflexivity|]. intros H. discriminate H.
  - apply (TK_end false true _ "" "" eq_refl).
Qed.

Theorem lex_complete_documented_refuted :
  exists src ts e a, tokenises false true pos0 src ts e a /\
                     forall ts' e' a', lex_all true src <> (ts', FEnd e' a').
Proof.
  exists "1e05}}", [tok1 TFloat "1e05"], (adv_str pos0 "1e05"), (adv_str pos0 "1e05}}").
  split; [exact doc_1e05|]. intros ts' e' a'. vm_compute. discriminate.
Qed.

Theorem lex_complete_documented_refuted_hex :
  exists src ts e a, tokenises false true pos0 src ts e a /\
                     forall ts' e' a', lex_all true src <> (ts', FEnd e' a').
Proof.
  exists "0x0a}}", [tok1 TInt "0x0a"], (adv_str pos0 "0x0a"), (adv_str pos0 "0x0a}}").
  split; [exact doc_0x0a|]. intros ts' e' a'. vm_compute. discriminate.
Qed.

(* the lexer before repo_patches/lexparse/01-fix rejected a '+' in the exponent *)
Theorem lex_prefix_rejects_plus :
  (exists ts e a, lex_all true "1e+5}}" = (ts, FEnd e a)) /\
  (forall ts e a, lex_all false "1e+5}}" <> (ts, FEnd e a)).
Proof.
  split.
  - eexists; eexists; eexists. vm_compute. reflexivity.
  - intros ts e a. vm_compute. discriminate.
Qed.

(* integer literals beyond int32 are sentences of the documented language
   (int_lit_unbounded) which the implementation (int32_lit) rejects: C04-int32-range *)
Theorem parse_complete_documented_refuted :
  exists ts e, derives int_lit_unbounded (fun _ => true) ts e /\
               forall e', parse_toks int32_lit (fun _ => true) ts <> POk e'.
Proof.
  exists [tok1 TInt "2147483648"], (EInt pos0 2147483648). split.
  - apply D_or_and, D_and_cmp, D_cmp_pre, D_pre_post, D_post_prim.
    apply (D_int int_lit_unbounded (fun _ => true) (tok1 TInt "2147483648") 2147483648); reflexivity.
  - intros e'. vm_compute. discriminate.
Qed.

(* satisfiability of the hypotheses of the main theorems by non-trivial values *)
Example src_accept_example :
  parse_src true int32_lit (fun _ => true) "a.b == 'x''y' && !f(1, 0x1f)[2] }}" =
  OAccept (ELog LAnd
    (ECmp CEq (EDeref (EVar {| t_off := 0; t_line := 1; t_col := 1 |} "a") "b")
              (EStr {| t_off := 7; t_line := 1; t_col := 8 |} "x'y"))
    (ENot {| t_off := 17; t_line := 1; t_col := 18 |}
      (EIndex (ECall {| t_off := 18; t_line := 1; t_col := 19 |} "f"
                 [EInt {| t_off := 20; t_line := 1; t_col := 21 |} 1;
                  EInt {| t_off := 23; t_line := 1; t_col := 24 |} 31])
              (EInt {| t_off := 29; t_line := 1; t_col := 30 |} 2)))).
Proof. vm_compute. reflexivity. Qed.

Example reject_examples :
  forall s, In s ["a.1}}"; "f(a,)}}"; "0123}}"; "1.}}"; "TRUE(}}"; "a b}}"; "(a}}"; "a[}}"; "1e}}"; "'abc}}"; "a = b}}"; "a & b}}"; "(f)(a)}}"; "a.b(c)}}"; "a.*(c)}}"; "!}}"; "a ||}}"; "f(,a)}}"]%string ->
  forall e, parse_src true int32_lit (fun _ => true) s <> OAccept e.
Proof.
  intros s H e. cbn in H.
  repeat (destruct H as [<-|H]; [vm_compute; discriminate|]). contradiction.
Qed.

Example keywords_case_sensitive :
  parse_src true int32_lit (fun _ => true) "TRUE}}" = OAccept (EVar pos0 "true") /\
  parse_src true int32_lit (fun _ => true) "true}}" = OAccept (EBool pos0 true).
Proof. split; vm_compute; reflexivity. Qed.

(* positions across line breaks, a tab and a two-byte character, as observed on
   the implementation (LexExpression + Parse); evaluated by the kernel, so the
   newline handling of the extracted evaluator is cross-checked here *)
Definition chr (n : nat) : string := String (ascii_of_nat n) EmptyString.
Example multiline_positions :
  run_c04 ("a" ++ chr 10 ++ "&& b" ++ chr 13 ++ chr 10 ++ "|| 'x" ++ chr 10 ++ "yé' ." ++ chr 9 ++ "c }}", []) =
  [[10;2;0;1;1;1]; [10;18;2;2;1;2]; [10;2;5;2;4;1]; [10;19;8;3;1;2]; [10;3;11;3;4;7]; [10;10;19;4;5;1];
   [10;2;21;4;7;1]; [10;1;23;4;9;2]; [11;25];
   [20;12;2;12;1;1;0;1;1;1;97;1;5;2;4;1;98;7;1;99;6;11;3;4;5;120;10;121;195;169]]%N.
Proof. vm_compute. reflexivity. Qed.
