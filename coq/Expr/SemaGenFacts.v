(* Expr/SemaGenFacts.v — facts about the tables regenerated from /repo
   (Gen/GenFuncs.v) that the C06 theorems need; re-checked on every run. *)
From AL Require Import Expr.Types Expr.TypesProofs Expr.Sema Expr.SemaProofs Expr.SemaObs Gen.GenFuncs.

(* every overload of a built-in function has the same return type *)
Lemma builtin_funcs_coherent : funcs_coherent builtin_funcs.
Proof.
  intros k sigs H s1 s2 I1 I2. unfold builtin_funcs in H. cbn [lookup fst snd] in H.
  repeat match type of H with
         | (if ?c then _ else _) = _ =>
             destruct c; [inversion H; subst; clear H; cbn in I1, I2; intuition (subst; reflexivity)|]
         end.
  discriminate.
Qed.

(* a variable-length signature has at least one parameter (Go indexes Params[len-1]) and the
   special-cased functions take at least one argument (Go indexes Args[0]) *)
Definition sig_shape_ok (f : string * list fsig) : bool :=
  forallb (fun s => (negb (fs_varlen s) || negb (is_nil (fs_params s))) &&
                    (negb (String.eqb (fst f) "format" || String.eqb (fst f) "fromjson") || negb (is_nil (fs_params s))))
          (snd f).
Lemma builtin_sig_shapes : forallb sig_shape_ok builtin_funcs = true.
Proof. vm_compute. reflexivity. Qed.

(* the Update* methods do not touch the function table *)
Lemma apply_upd_funcs E u : e_funcs (apply_upd E u) = e_funcs E.
Proof.
  destruct u; cbn; try reflexivity; unfold update_inputs;
    repeat match goal with |- context [match ?x with _ => _ end] => destruct x end; reflexivity.
Qed.

Lemma case_env_funcs c : e_funcs (case_env c) = builtin_funcs.
Proof.
  unfold case_env.
  assert (G : forall us E, e_funcs E = builtin_funcs -> e_funcs (fold_left apply_upd us E) = builtin_funcs).
  { induction us as [|u us IH]; intros E HE; cbn; [exact HE|]. apply IH. now rewrite apply_upd_funcs. }
  apply G. reflexivity.
Qed.

(* accept_mono for the environments the real checker can be in (built-in function table) *)
Theorem accept_mono_builtin E E' e t :
  e_funcs E = builtin_funcs -> env_looser E E' ->
  check E e = (t, []) -> exists t', check E' e = (t', []) /\ looser t t'.
Proof.
  intros HF EL. apply accept_mono; [exact EL|]. rewrite HF. exact builtin_funcs_coherent.
Qed.

(* ---- the two defects, on the model of the code before the repairs ---------------- *)
Definition P0 : tpos := {| t_off := 0; t_line := 1; t_col := 1 |}.
Definition env_with (m : ty) : env := set_var "matrix" m (base_env None []).

Lemma env_with_looser m m' : looser m m' -> env_looser (env_with m) (env_with m').
Proof.
  intros L. unfold env_with, set_var. constructor; cbn [e_vars e_funcs e_avail e_spavail e_special e_config e_json base_env]; try reflexivity.
  - apply props_looser_upsert; [|exact L].
    induction builtin_vars as [|p ps IH]; constructor; [split; [reflexivity|apply looser_refl]|exact IH].
  - induction builtin_funcs as [|f fs IH]; constructor; [|exact IH]. split; [reflexivity|].
    induction (snd f) as [|s ss IHs]; constructor; [|exact IHs].
    repeat split; try reflexivity. apply looser_refl.
Qed.

(* defect #6: `matrix.*` is accepted when matrix.a is an object and reported when it is any *)
Theorem accept_mono_old_refuted_filter : exists E E' e t,
  env_looser E E' /\ check_old E e = (t, []) /\ snd (check_old E' e) <> [].
Proof.
  exists (env_with (TObj [("a", TObj [("x", TStr)] None)] None)), (env_with (TObj [("a", TAny)] None)),
         (EArrDeref (EVar P0 "matrix")), (TArr TAny true).
  split; [apply env_with_looser; cbn; auto|].
  split; [vm_compute; reflexivity|vm_compute; discriminate].
Qed.

(* second defect: (matrix.x || github.event.* ).foo depends on whether matrix.x is array<number> or array<any> *)
Definition merge_expr : expr :=
  EDeref (ELog LOr (EDeref (EVar P0 "matrix") "x") (EArrDeref (EDeref (EVar P0 "github") "event"))) "foo".

(* the filter repair alone does not remove it *)
Theorem accept_mono_old_refuted_merge : exists E E' e t,
  env_looser E E' /\ chk merge_old true E None e = (t, []) /\ snd (chk merge_old true E' None e) <> [].
Proof.
  exists (env_with (TObj [("x", TArr TNum false)] None)), (env_with (TObj [("x", TArr TAny false)] None)),
         merge_expr, (TArr TAny true).
  split; [apply env_with_looser; cbn; auto|].
  split; [vm_compute; reflexivity|vm_compute; discriminate].
Qed.

(* the hypotheses of accept_mono are satisfiable by a non-trivial value, and the repaired
   model accepts both witnesses above under the loosened environment *)
Example accept_mono_witness :
  let E := env_with (TObj [("x", TArr TNum false)] None) in
  let E' := env_with (TObj [("x", TArr TAny false)] None) in
  env_looser E E' /\ e_funcs E = builtin_funcs /\
  check E merge_expr = (TArr TAny true, []) /\ check E' merge_expr = (TArr TAny true, []).
Proof.
  cbn zeta. split; [apply env_with_looser; cbn; auto|]. split; [reflexivity|].
  split; vm_compute; reflexivity.
Qed.
