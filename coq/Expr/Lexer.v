(* Expr/Lexer.v — model of expr_lexer.go (ExprLexer over text/scanner).

   The scanner state is the not yet consumed suffix of the source, whose head is
   scan.Peek(); `eat` drops the head and looks at the new head.  A token
   function returns the consumed lexeme and the remaining input; positions
   (scan.Pos(), lex.start) are recomputed from what was consumed: offset in
   bytes, line, column in characters (a UTF-8 continuation byte does not
   advance the column; valid UTF-8 without NUL and without a leading BOM is
   assumed, cf. docs/C04.md).

   Every branch of lexNum / lexHexInt / lexString / lexEnd / the operator
   functions / Next is one branch here.  [plus] selects the repaired lexNum
   (a '+' sign is accepted in the exponent; see repo_patches/lexparse);
   [plus = false] is the code before the fix.

   lexErr keeps the first error only.  After an error the lexer hands out an
   End token, and neither LexExpression nor the parser call Next again after
   an End token, so a run of the lexer is: tokens, then `}}` or one error. *)
From AL Require Export Expr.Token.
Local Open Scope string_scope.

Fixpoint span (p : ascii -> bool) (s : string) : string * string :=
  match s with
  | String c r => if p c then let (a, b) := span p r in (String c a, b) else (EmptyString, s)
  | EmptyString => (EmptyString, EmptyString)
  end.

Inductive scan_res :=
| SOk (k : tkind) (lx rest : string)   (* lex.token(k) *)
| SEnd (lx rest : string)              (* lex.token(TokenKindEnd) for `}}` *)
| SErr (cls : N) (consumed : string).  (* lex.unexpected(...) / unexpectedEOF; scan.Pos() is after [consumed] *)

(* classes of lexer diagnostics (the `while lexing ...` part of the message):
   0 unexpected EOF while lexing expression   1 ... expression
   2 integer part of number   3 fraction part   4 exponent part
   5 character following number   6 hex integer   7 character following hex integer
   8 end of string literal   9 end marker }}   10 == operator   11 && operator   12 || operator *)

Definition is_c (n : nat) (c : ascii) : bool := Nat.eqb (ch c) n.

(* `if isAlnum(r) { return lex.unexpected(...) }; return lex.token(k)` *)
Definition follow_num (k : tkind) (cls : N) (lx s : string) : scan_res :=
  match s with
  | String c _ => if is_alnum c then SErr cls lx else SOk k lx s
  | EmptyString => SOk k lx s
  end.

(* lexHexInt; [pfx] = what has been eaten: "0x" or "-0x" *)
Definition lex_hex (pfx s : string) : scan_res :=
  match s with
  | String c s1 =>
      if is_c 48 c then follow_num TInt 7 (pfx ++ "0") s1
      else if is_hexnum c then
        let (ds, s2) := span is_hexnum s1 in follow_num TInt 7 (pfx ++ String c ds) s2
      else SErr 6 pfx
  | EmptyString => SErr 6 pfx
  end.

(* the digits of the exponent: a single '0', or 1..9 followed by digits *)
Definition lex_exp_digits (acc2 s2 : string) : scan_res :=
  match s2 with
  | String d s3 =>
      if is_c 48 d then follow_num TFloat 5 (acc2 ++ "0") s3
      else if is_num d then
        let (ds, s4) := span is_num s3 in follow_num TFloat 5 (acc2 ++ String d ds) s4
      else SErr 4 acc2
  | EmptyString => SErr 4 acc2
  end.

(* the `if r == 'e' || r == 'E'` block and the final follow check of lexNum *)
Definition lex_exp (plus : bool) (k : tkind) (acc s : string) : scan_res :=
  match s with
  | String e s1 =>
      if is_c 101 e || is_c 69 e then
        let acc1 := (acc ++ String e EmptyString)%string in
        let '(acc2, s2) :=
          match s1 with
          | String g s2 =>
              if is_c 45 g || (plus && is_c 43 g) then ((acc1 ++ String g EmptyString)%string, s2)
              else (acc1, s1)
          | EmptyString => (acc1, s1)
          end in
        lex_exp_digits acc2 s2
      else follow_num k 5 acc s
  | EmptyString => follow_num k 5 acc s
  end.

(* the `if r == '.'` block *)
Definition lex_frac (plus : bool) (acc s : string) : scan_res :=
  match s with
  | String c s1 =>
      if is_c 46 c then
        match s1 with
        | String d s2 =>
            if is_num d then
              let (ds, s3) := span is_num s2 in
              lex_exp plus TFloat (acc ++ String c (String d ds)) s3
            else SErr 3 (acc ++ ".")
        | EmptyString => SErr 3 (acc ++ ".")
        end
      else lex_exp plus TInt acc s
  | EmptyString => lex_exp plus TInt acc s
  end.

(* lexNum; precondition: the head is a digit or '-' *)
Definition lex_num (plus : bool) (s : string) : scan_res :=
  let '(sg, s1) :=
    match s with
    | String c r => if is_c 45 c then ("-", r) else (EmptyString, s)
    | EmptyString => (EmptyString, s)
    end in
  match s1 with
  | String c s2 =>
      if is_c 48 c then
        match s2 with
        | String x s3 =>
            if is_c 120 x then lex_hex (sg ++ "0x") s3 else lex_frac plus (sg ++ "0") s2
        | EmptyString => lex_frac plus (sg ++ "0") s2
        end
      else if is_num c then
        let (ds, s3) := span is_num s2 in lex_frac plus (sg ++ String c ds) s3
      else SErr 2 sg
  | EmptyString => SErr 2 sg
  end.

(* the loop of lexString; the argument is what follows the character just
   eaten; result: the rest of the lexeme and the remaining input; None = EOF *)
Fixpoint str_loop (s : string) : option (string * string) :=
  match s with
  | EmptyString => None
  | String r s' =>
      if is_c 39 r then
        match s' with
        | String r2 s'' =>
            if is_c 39 r2 then
              match str_loop s'' with
              | Some (a, b) => Some (String r (String r2 a), b)
              | None => None
              end
            else Some (String r EmptyString, s')
        | EmptyString => Some (String r EmptyString, s')
        end
      else
        match str_loop s' with
        | Some (a, b) => Some (String r a, b)
        | None => None
        end
  end.

Definition lex_string (s : string) : scan_res :=
  match s with
  | String q s1 =>
      match str_loop s1 with
      | Some (a, rest) => SOk TString (String q a) rest
      | None => SErr 8 s
      end
  | EmptyString => SErr 8 s
  end.

(* lexLess / lexGreater / lexBang: one char, or two when '=' follows *)
Definition lex_opt_eq (c : ascii) (k1 k2 : tkind) (r : string) : scan_res :=
  match r with
  | String c2 r2 =>
      if is_c 61 c2 then SOk k2 (String c (String c2 EmptyString)) r2
      else SOk k1 (String c EmptyString) r
  | EmptyString => SOk k1 (String c EmptyString) r
  end.

(* lexEq / lexAnd / lexOr: the same character must follow *)
Definition lex_double (c : ascii) (k : tkind) (cls : N) (r : string) : scan_res :=
  match r with
  | String c2 r2 =>
      if Ascii.eqb c2 c then SOk k (String c (String c2 EmptyString)) r2
      else SErr cls (String c EmptyString)
  | EmptyString => SErr cls (String c EmptyString)
  end.

Definition lex_char (c : ascii) (k : tkind) (r : string) : scan_res := SOk k (String c EmptyString) r.

(* Next() after skipWhite *)
Definition scan_tok (plus : bool) (s : string) : scan_res :=
  match s with
  | EmptyString => SErr 0 EmptyString
  | String c r =>
      if is_ident_start c then
        let (a, b) := span is_ident_char r in SOk TIdent (String c a) b
      else if is_num c || is_c 45 c then lex_num plus s
      else if is_c 39 c then lex_string s
      else if is_c 125 c then
        match r with
        | String c2 r2 => if is_c 125 c2 then SEnd "}}" r2 else SErr 9 "}"
        | EmptyString => SErr 9 "}"
        end
      else if is_c 33 c then lex_opt_eq c TNot TNotEq r
      else if is_c 60 c then lex_opt_eq c TLess TLessEq r
      else if is_c 62 c then lex_opt_eq c TGreater TGreaterEq r
      else if is_c 61 c then lex_double c TEq 10 r
      else if is_c 38 c then lex_double c TAnd 11 r
      else if is_c 124 c then lex_double c TOr 12 r
      else if is_c 40 c then lex_char c TLParen r
      else if is_c 41 c then lex_char c TRParen r
      else if is_c 91 c then lex_char c TLBracket r
      else if is_c 93 c then lex_char c TRBracket r
      else if is_c 46 c then lex_char c TDot r
      else if is_c 42 c then lex_char c TStar r
      else if is_c 44 c then lex_char c TComma r
      else SErr 1 EmptyString
  end.

(* ------------------------------------------------------------------ positions *)
Definition is_cont_byte (c : ascii) : bool := Nat.leb 128 (ch c) && Nat.leb (ch c) 191.

Definition adv (p : tpos) (c : ascii) : tpos :=
  if is_c 10 c then {| t_off := t_off p + 1; t_line := t_line p + 1; t_col := 1 |}%N
  else if is_cont_byte c then {| t_off := t_off p + 1; t_line := t_line p; t_col := t_col p |}%N
  else {| t_off := t_off p + 1; t_line := t_line p; t_col := t_col p + 1 |}%N.

Fixpoint adv_str (p : tpos) (s : string) : tpos :=
  match s with
  | EmptyString => p
  | String c r => adv_str (adv p c) r
  end.

Definition pos0 : tpos := {| t_off := 0; t_line := 1; t_col := 1 |}%N.

Record lstate := mkLS { ls_rest : string; ls_pos : tpos }.

Record lexerr := mkLErr { le_class : N; le_pos : tpos }.

Inductive lres :=
| LTok (t : token)
| LEnd (p : tpos)                    (* the End token of `}}`, at p *)
| LErr (e : lexerr) (endp : tpos).   (* lexErr set; the End token handed out sits at lex.start = endp *)

(* ExprLexer.Next *)
Definition lex_next (plus : bool) (st : lstate) : lres * lstate :=
  let (w, s1) := span is_ws (ls_rest st) in
  let start := adv_str (ls_pos st) w in
  match scan_tok plus s1 with
  | SOk k lx rest => (LTok (mkTok k lx start), mkLS rest (adv_str start lx))
  | SEnd lx rest => (LEnd start, mkLS rest (adv_str start lx))
  | SErr c consumed => (LErr (mkLErr c (adv_str start consumed)) start, mkLS s1 start)
  end.

Inductive lex_fin :=
| FEnd (p : tpos) (after : tpos)     (* `}}` at p; the scanner stands at [after] (LexExpression's offset) *)
| FErr (e : lexerr) (endp : tpos)
| FFuel.

(* the token stream of one lexer run (LexExpression's loop; the parser pulls
   the same stream one token at a time) *)
Fixpoint lex_run (plus : bool) (fuel : nat) (st : lstate) : list token * lex_fin :=
  match fuel with
  | 0 => ([], FFuel)
  | S fuel =>
      match lex_next plus st with
      | (LTok t, st') => let (ts, f) := lex_run plus fuel st' in (t :: ts, f)
      | (LEnd p, st') => ([], FEnd p (ls_pos st'))
      | (LErr e endp, _) => ([], FErr e endp)
      end
  end.

Definition lex_all (plus : bool) (src : string) : list token * lex_fin :=
  lex_run plus (S (String.length src)) (mkLS src pos0).
