(* Expr/SemaProofs.v — monotonicity of the semantic checker model under
   loosening of the typing environment (property C06). *)
From AL Require Import Expr.Types Expr.TypesProofs Expr.Sema.

(* ---- comparison operands ------------------------------------------------------- *)
Definition ord_rhs_ok (r : ty) : bool := match r with TNull | TBool | TObj _ _ | TArr _ _ => false | _ => true end.
Definition scalar_rhs_ok (r : ty) : bool := match r with TObj _ _ | TArr _ _ => false | _ => true end.
Definition obj_rhs_ok (r : ty) : bool := match r with TObj _ _ | TNull | TAny => true | _ => false end.

Ltac rhs_mono :=
  let L := fresh in let H := fresh in
  intros ? ? L H;
  match type of L with looser ?r ?r' =>
    destruct (looser_inv _ _ L) as [->|L']; [reflexivity|];
    destruct r; cbn in L', H; try contradiction; try discriminate; subst; try reflexivity;
    destruct L' as (? & ? & -> & _); reflexivity
  end.

Lemma ord_rhs_mono : forall r r', looser r r' -> ord_rhs_ok r = true -> ord_rhs_ok r' = true.
Proof. rhs_mono. Qed.
Lemma scalar_rhs_mono : forall r r', looser r r' -> scalar_rhs_ok r = true -> scalar_rhs_ok r' = true.
Proof. rhs_mono. Qed.
Lemma obj_rhs_mono : forall r r', looser r r' -> obj_rhs_ok r = true -> obj_rhs_ok r' = true.
Proof. rhs_mono. Qed.

Lemma compare_ok_any_l op r : compare_ok op TAny r = if is_eq_op op then true else ord_rhs_ok r.
Proof. cbn. destruct (is_eq_op op); destruct r; reflexivity. Qed.

Lemma compare_ok_mono op l : forall l' r r', looser l l' -> looser r r' ->
  compare_ok op l r = true -> compare_ok op l' r' = true.
Proof.
  induction l as [| | | | |ps m _ _|e d IH] using ty_ind'; intros l' r r' Ll Lr H;
    (destruct (looser_inv _ _ Ll) as [->|Ll'];
     [rewrite compare_ok_any_l; cbn in H; destruct (is_eq_op op); [reflexivity|];
      first [discriminate | eapply ord_rhs_mono; [exact Lr|exact H]]
     |cbn in Ll'; try contradiction; subst]).
  - (* null *) cbn in *. destruct (is_eq_op op); [reflexivity|discriminate].
  - (* number *) cbn in *. destruct (is_eq_op op).
    + change (scalar_rhs_ok r' = true). eapply scalar_rhs_mono; [exact Lr|]. destruct r; cbn; congruence.
    + change (ord_rhs_ok r' = true). eapply ord_rhs_mono; [exact Lr|]. destruct r; cbn; congruence.
  - (* bool *) cbn in *. destruct (is_eq_op op); [|discriminate].
    change (scalar_rhs_ok r' = true). eapply scalar_rhs_mono; [exact Lr|]. destruct r; cbn; congruence.
  - (* string *) cbn in *. destruct (is_eq_op op).
    + change (scalar_rhs_ok r' = true). eapply scalar_rhs_mono; [exact Lr|]. destruct r; cbn; congruence.
    + change (ord_rhs_ok r' = true). eapply ord_rhs_mono; [exact Lr|]. destruct r; cbn; congruence.
  - (* object *) destruct Ll' as (qs & n & -> & _). cbn in *. destruct (is_eq_op op); [|discriminate].
    change (obj_rhs_ok r' = true). eapply obj_rhs_mono; [exact Lr|]. destruct r; cbn; congruence.
  - (* array *) destruct Ll' as (f & d' & -> & Le & _). cbn in H |- *. destruct (is_eq_op op) eqn:Eop; [|discriminate].
    destruct (looser_inv _ _ Lr) as [->|Lr']; [reflexivity|].
    destruct r; cbn in Lr'; try contradiction; try discriminate; subst; try reflexivity.
    destruct Lr' as (g & d'' & -> & Lg & _). eapply IH; eauto.
Qed.
