(* Expr/SemaProofs.v — monotonicity of the semantic checker model under
   loosening of the typing environment (property C06). *)
From AL Require Import Expr.Types Expr.TypesProofs Expr.Sema.

(* ---- comparison operands ------------------------------------------------------- *)
Definition ord_rhs_ok (r : ty) : bool := match r with TNull | TBool | TObj _ _ | TArr _ _ => false | _ => true end.
Definition scalar_rhs_ok (r : ty) : bool := match r with TObj _ _ | TArr _ _ => false | _ => true end.
Definition obj_rhs_ok (r : ty) : bool := match r with TObj _ _ | TNull | TAny => true | _ => false end.

Ltac rhs_mono :=
  let L := fresh in let H := fresh in
  intros ? ? L H;
  match type of L with looser ?r ?r' =>
    destruct (looser_inv _ _ L) as [->|L']; [reflexivity|];
    destruct r; cbn in L', H; try contradiction; try discriminate; subst; try reflexivity;
    destruct L' as (? & ? & -> & _); reflexivity
  end.

Lemma ord_rhs_mono : forall r r', looser r r' -> ord_rhs_ok r = true -> ord_rhs_ok r' = true.
Proof. rhs_mono. Qed.
Lemma scalar_rhs_mono : forall r r', looser r r' -> scalar_rhs_ok r = true -> scalar_rhs_ok r' = true.
Proof. rhs_mono. Qed.
Lemma obj_rhs_mono : forall r r', looser r r' -> obj_rhs_ok r = true -> obj_rhs_ok r' = true.
Proof. rhs_mono. Qed.

Lemma compare_ok_any_l op r : compare_ok op TAny r = if is_eq_op op then true else ord_rhs_ok r.
Proof. cbn. destruct (is_eq_op op); destruct r; reflexivity. Qed.

Lemma compare_ok_mono op l : forall l' r r', looser l l' -> looser r r' ->
  compare_ok op l r = true -> compare_ok op l' r' = true.
Proof.
  induction l as [| | | | |ps m _ _|e d IH] using ty_ind'; intros l' r r' Ll Lr H;
    (destruct (looser_inv _ _ Ll) as [->|Ll'];
     [rewrite compare_ok_any_l; cbn in H; destruct (is_eq_op op); [reflexivity|];
      first [discriminate | eapply ord_rhs_mono; [exact Lr|exact H]]
     |cbn in Ll'; try contradiction; subst]).
  - (* null *) cbn in *. destruct (is_eq_op op); [reflexivity|discriminate].
  - (* number *) cbn in *. destruct (is_eq_op op).
    + change (scalar_rhs_ok r' = true). eapply scalar_rhs_mono; [exact Lr|]. destruct r; cbn; congruence.
    + change (ord_rhs_ok r' = true). eapply ord_rhs_mono; [exact Lr|]. destruct r; cbn; congruence.
  - (* bool *) cbn in *. destruct (is_eq_op op); [|discriminate].
    change (scalar_rhs_ok r' = true). eapply scalar_rhs_mono; [exact Lr|]. destruct r; cbn; congruence.
  - (* string *) cbn in *. destruct (is_eq_op op).
    + change (scalar_rhs_ok r' = true). eapply scalar_rhs_mono; [exact Lr|]. destruct r; cbn; congruence.
    + change (ord_rhs_ok r' = true). eapply ord_rhs_mono; [exact Lr|]. destruct r; cbn; congruence.
  - (* object *) destruct Ll' as (qs & n & -> & _). cbn in *. destruct (is_eq_op op); [|discriminate].
    change (obj_rhs_ok r' = true). eapply obj_rhs_mono; [exact Lr|]. destruct r; cbn; congruence.
  - (* array *) destruct Ll' as (f & d' & -> & Le & _). cbn in H |- *. destruct (is_eq_op op) eqn:Eop; [|discriminate].
    destruct (looser_inv _ _ Lr) as [->|Lr']; [reflexivity|].
    destruct r; cbn in Lr'; try contradiction; try discriminate; subst; try reflexivity.
    destruct Lr' as (g & d'' & -> & Lg & _). eapply IH; eauto.
Qed.

(* ---- environments ---------------------------------------------------------------- *)
Definition sigs_looser : list fsig -> list fsig -> Prop := Forall2 sig_looser.

Record env_looser (E E' : env) : Prop := {
  el_vars : props_looser (e_vars E) (e_vars E');
  el_funcs : Forall2 (fun f f' : string * list fsig => fst f = fst f' /\ sigs_looser (snd f) (snd f'))
                     (e_funcs E) (e_funcs E');
  el_avail : e_avail E = e_avail E';
  el_spavail : e_spavail E = e_spavail E';
  el_special : e_special E = e_special E';
  el_config : e_config E = e_config E';
  el_json : e_json E = e_json E'
}.

(* all overloads of a function return the same type (true of the built-in table: GenFuncsFacts) *)
Definition funcs_coherent (fs : list (string * list fsig)) : Prop :=
  forall k sigs, lookup k fs = Some sigs ->
  forall s1 s2, In s1 sigs -> In s2 sigs -> fs_ret s1 = fs_ret s2.

Lemma lookup_rel {V W} (R : V -> W -> Prop) (l : list (string * V)) (l' : list (string * W)) k :
  Forall2 (fun p q => fst p = fst q /\ R (snd p) (snd q)) l l' ->
  match lookup k l, lookup k l' with
  | Some a, Some b => R a b
  | None, None => True
  | _, _ => False
  end.
Proof.
  induction 1 as [|[k1 a] [k2 b] l l' [K H] _ IH]; cbn in *; [exact I|].
  subst k2. destruct (String.eqb k k1); [exact H|exact IH].
Qed.

(* ---- overload resolution ------------------------------------------------------------ *)
Definition arg_looser (a a' : ty * tpos) : Prop := looser (fst a) (fst a') /\ snd a = snd a'.
Definition args_looser : list (ty * tpos) -> list (ty * tpos) -> Prop := Forall2 arg_looser.

Lemma args_looser_length a a' : args_looser a a' -> length a = length a'.
Proof. induction 1; cbn; congruence. Qed.

Lemma args_looser_skipn n : forall a a', args_looser a a' -> args_looser (skipn n a) (skipn n a').
Proof.
  induction n as [|n IH]; intros a a' H; [exact H|].
  destruct H; cbn; [constructor|apply IH; assumption].
Qed.

Lemma sig_loop_mono ps : forall i args args', args_looser args args' ->
  sig_loop i ps args = None -> sig_loop i ps args' = None.
Proof.
  induction ps as [|p ps IH]; intros i args args' L H; [reflexivity|].
  destruct L as [|a a' args args' [La _] L]; [reflexivity|]. cbn in *.
  destruct (assignable p (fst a)) eqn:A; [|discriminate].
  rewrite (assignable_mono _ _ _ La A). eapply IH; eauto.
Qed.

Lemma rest_loop_mono p : forall i args args', args_looser args args' ->
  rest_loop i p args = None -> rest_loop i p args' = None.
Proof.
  intros i args args' L. revert i.
  induction L as [|a a' args args' [La _] L IH]; intros i H; [reflexivity|]. cbn in *.
  destruct (assignable p (fst a)) eqn:A; [|discriminate].
  rewrite (assignable_mono _ _ _ La A). apply IH; assumption.
Qed.

(* with looser arguments a signature that accepted still accepts (funcall_mono, part 1) *)
Lemma check_sig_mono cpos s s' args args' : sig_looser s s' -> args_looser args args' ->
  check_sig cpos s args = None -> check_sig cpos s' args' = None.
Proof.
  intros (_ & _ & Hp & Hv) L. unfold check_sig. rewrite <- Hp, <- Hv, <- (args_looser_length _ _ L).
  destruct (_ || _); [discriminate|].
  destruct (sig_loop 0 (fs_params s) args) eqn:S; [discriminate|].
  rewrite (sig_loop_mono _ _ _ _ L S).
  destruct (fs_varlen s); [|reflexivity].
  apply rest_loop_mono. apply args_looser_skipn. exact L.
Qed.

(* overload resolution (funcall_mono, part 2): with looser arguments fewer candidates fail, so
   some candidate is still chosen — possibly an earlier one *)
Lemma resolve_mono cpos sigs sigs' : sigs_looser sigs sigs' -> forall args args' s,
  args_looser args args' -> resolve cpos sigs args = inl s ->
  In s sigs /\ exists s0 s', In s0 sigs /\ sig_looser s0 s' /\ resolve cpos sigs' args' = inl s'.
Proof.
  induction 1 as [|s1 s1' sigs sigs' Hs _ IH]; intros args args' s L H; cbn in *; [discriminate|].
  destruct (check_sig cpos s1 args) eqn:C1.
  - destruct (resolve cpos sigs args) as [s2|] eqn:R; [|discriminate]. inversion H; subst s2.
    destruct (IH _ _ _ L R) as (I1 & s0 & s' & I0 & Hs0 & R').
    split; [now right|].
    destruct (check_sig cpos s1' args') eqn:C1'.
    + rewrite R'. exists s0, s'. auto.
    + exists s1, s1'. auto.
  - inversion H; subst s1. split; [now left|].
    rewrite (check_sig_mono _ _ _ _ _ Hs L C1). exists s, s1'. auto.
Qed.

Section Mono.
Variables E E' : env.
Hypothesis EL : env_looser E E'.
Hypothesis COH : funcs_coherent (e_funcs E).

Notation chkE := (chk merge true E).
Notation chkE' := (chk merge true E').

(* ---- per-node local monotonicity: the node is accepted under the precise child types =>
   it is accepted under looser child types, with a looser result ---------------------- *)
Lemma var_local_mono p name t :
  var_node E p name = (t, []) -> exists t', var_node E' p name = (t', []) /\ looser t t'.
Proof.
  unfold var_node. rewrite <- (el_avail _ _ EL).
  pose proof (props_looser_lookup _ _ name (el_vars _ _ EL)) as LK.
  destruct (lookup name (e_vars E)) as [u|], (lookup name (e_vars E')) as [u'|]; try contradiction; [|discriminate].
  destruct (mem (lower name) (e_avail E)); [|discriminate].
  intros H. inversion H; subst. eauto.
Qed.

Ltac inv_pair H := inversion H; subst; clear H.
Ltac done_with t := eexists; split; [reflexivity|]; try exact t; try apply looser_any_r; try apply looser_refl.

Ltac fin := eexists; split; [reflexivity|];
  first [exact I | apply looser_any_r | apply looser_refl
        | (apply looser_arr_iff; split; [first [assumption | apply looser_any_r | apply looser_refl] | auto])].

Ltac fin2 := eexists; split; [reflexivity|]; first [assumption | exact I | apply looser_any_r | apply looser_refl].

(* deref_mono *)
Lemma deref_local_mono recv prop t t' u :
  looser t t' -> deref_node E recv prop t = (u, []) ->
  exists u', deref_node E' recv prop t' = (u', []) /\ looser u u'.
Proof.
  intros L H. destruct (looser_inv _ _ L) as [->|L']; [cbn; done_with I|].
  destruct t as [| | | | |ps m|el d]; cbn in L'; try contradiction; try (cbn in H; discriminate).
  - destruct L' as (qs & n & -> & Lps & Lm). cbn in H |- *.
    pose proof (props_looser_lookup _ _ prop Lps) as LK.
    destruct (lookup prop ps) as [pt|], (lookup prop qs) as [pt'|]; try contradiction.
    + inv_pair H. done_with LK.
    + destruct m as [mt|]; [|discriminate]. destruct n as [nt|]; cbn in Lm; [|contradiction].
      rewrite <- (el_config _ _ EL).
      match type of H with (_, ?d) = _ => destruct d eqn:Ed end; [|discriminate].
      inv_pair H. done_with Lm.
  - destruct L' as (f & d' & -> & Le & Ld). cbn in H |- *.
    destruct d; cbn in H; [|discriminate]. rewrite (Ld eq_refl). cbn.
    destruct (looser_inv _ _ Le) as [->|Le'].
    { destruct el; try discriminate.
      - inv_pair H. done_with I.
      - destruct (lookup prop props) as [pt|]; [|destruct mapped; [|discriminate]]; inv_pair H;
          eexists; (split; [reflexivity|]); apply looser_arr_iff; split; auto; apply looser_any_r. }
    destruct el as [| | | | |ps m|]; cbn in Le'; try contradiction; try discriminate.
    destruct Le' as (qs & n & -> & Lps & Lm).
    pose proof (props_looser_lookup _ _ prop Lps) as LK.
    destruct (lookup prop ps) as [pt|], (lookup prop qs) as [pt'|]; try contradiction.
    + inv_pair H. eexists; split; [reflexivity|]. apply looser_arr_iff. auto.
    + destruct m as [mt|]; [|discriminate]. destruct n as [nt|]; cbn in Lm; [|contradiction].
      inv_pair H. eexists; split; [reflexivity|]. apply looser_arr_iff. auto.
Qed.

(* filter_mono: object filtering `.*` (on the repaired code: members typed any count) *)
Lemma has_obj_member_mono ps qs : props_looser ps qs ->
  has_obj_member true ps = true -> has_obj_member true qs = true.
Proof.
  unfold has_obj_member. induction 1 as [|p q ps qs [_ L] _ IH]; [discriminate|]. cbn [existsb].
  intros H. apply orb_prop in H. destruct H as [H|H]; [|rewrite (IH H); apply orb_true_r].
  apply orb_true_iff. left.
  destruct (looser_inv _ _ L) as [Hq|L']; [rewrite Hq; reflexivity|].
  destruct (snd p); cbn in H, L'; try discriminate; try contradiction.
  destruct L' as (? & ? & Hq & _). rewrite Hq. reflexivity.
Qed.

Lemma arrderef_local_mono pos t t' u :
  looser t t' -> arrderef_node true pos t = (u, []) ->
  exists u', arrderef_node true pos t' = (u', []) /\ looser u u'.
Proof.
  intros L H. destruct (looser_inv _ _ L) as [->|L'].
  { cbn. destruct t as [| | | | |ps m|el d]; try (cbn in H; discriminate).
    - inv_pair H. fin.
    - cbn in H. destruct m as [[| | | | |qs n|]|]; try discriminate; try (inv_pair H; fin).
      destruct (has_obj_member true ps); [|discriminate]. inv_pair H. fin.
    - inv_pair H. fin. }
  destruct t as [| | | | |ps m|el d]; cbn in L'; try contradiction; try (cbn in H; discriminate).
  - destruct L' as (qs & n & -> & Lps & Lm). cbn in H |- *.
    destruct m as [mt|].
    + destruct n as [nt|]; cbn in Lm; [|contradiction].
      destruct (looser_inv _ _ Lm) as [->|Lm'].
      { destruct mt; try discriminate; inv_pair H; done_with I. apply looser_arr_iff. split; [exact I|auto]. }
      destruct mt as [| | | | |rs o|]; cbn in Lm'; try contradiction; try discriminate.
      destruct Lm' as (rs' & o' & -> & _). inv_pair H. eexists; split; [reflexivity|]. apply looser_arr_iff. auto.
    + destruct (has_obj_member true ps) eqn:Hm; [|discriminate]. inv_pair H.
      destruct n as [nt|]; cbn in Lm.
      * subst. done_with I.
      * rewrite (has_obj_member_mono _ _ Lps Hm). done_with I.
  - destruct L' as (f & d' & -> & Le & _). cbn in H |- *. inv_pair H.
    eexists; split; [reflexivity|]. apply looser_arr_iff. auto.
Qed.

(* the defect that was repaired: with members typed any the unrepaired rule reports *)
Lemma filter_mono_old_refuted : exists t t' pos u,
  looser t t' /\ arrderef_node false pos t = (u, []) /\ snd (arrderef_node false pos t') <> [].
Proof.
  exists (TObj [("a", TObj [] None)] None), (TObj [("a", TAny)] None), {| t_off := 0; t_line := 1; t_col := 1 |}, (TArr TAny true).
  split; [cbn; auto|]. split; [reflexivity|]. cbn. discriminate.
Qed.

(* index_mono *)
Lemma index_local_mono operand index ti ti' t t' u :
  looser ti ti' -> looser t t' -> index_node operand index ti t = (u, []) ->
  exists u', index_node operand index ti' t' = (u', []) /\ looser u u'.
Proof.
  intros Li L H. destruct (looser_inv _ _ L) as [->|L']; [cbn; done_with I|].
  destruct t as [| | | | |ps m|el d]; cbn in L'; try contradiction; try (cbn in H; discriminate).
  - destruct L' as (qs & n & -> & Lps & Lm). cbn in H |- *.
    destruct (looser_inv _ _ Li) as [->|Li']; [done_with I|].
    destruct ti; cbn in Li'; try contradiction; try discriminate; subst.
    destruct index as [? ?|?|? ?|? ?|? ?|ip s|? ?|?|? ?|? ?|? ? ?|? ? ?|? ? ?]; try (inv_pair H; destruct m as [mt|], n as [nt|]; cbn in Lm; try contradiction; subst; fin2).
    pose proof (props_looser_lookup _ _ (lower s) Lps) as LK.
    destruct (lookup (lower s) ps) as [pt|], (lookup (lower s) qs) as [pt'|]; try contradiction.
    + inv_pair H. done_with LK.
    + destruct m as [mt|]; [|discriminate]. destruct n as [nt|]; cbn in Lm; [|contradiction].
      inv_pair H. done_with Lm.
  - destruct L' as (f & d' & -> & Le & _). cbn in H |- *.
    destruct (looser_inv _ _ Li) as [->|Li']; [destruct ti; try discriminate; inv_pair H; done_with Le|].
    destruct ti; cbn in Li'; try contradiction; try discriminate; subst. inv_pair H. done_with Le.
Qed.

Lemma not_local_mono p t t' u : not_node p t = (u, []) -> exists u', not_node p t' = (u', []) /\ looser u u'.
Proof. unfold not_node. cbn. intros H. inv_pair H. done_with I. Qed.

(* compare_operands_mono *)
Lemma cmp_local_mono op pos tl tl' tr tr' u : looser tl tl' -> looser tr tr' ->
  cmp_node op pos tl tr = (u, []) -> exists u', cmp_node op pos tl' tr' = (u', []) /\ looser u u'.
Proof.
  unfold cmp_node. intros Ll Lr H. destruct (compare_ok op tl tr) eqn:C; [|discriminate].
  rewrite (compare_ok_mono _ _ _ _ _ Ll Lr C). inv_pair H. done_with I.
Qed.

(* checkBuiltinFuncCall: its diagnostics depend on the call's syntax only *)
Lemma builtin_call_mono p callee args s s' t :
  looser (fs_ret s) (fs_ret s') -> builtin_call merge E p callee args s = (t, []) ->
  exists t', builtin_call merge E' p callee args s' = (t', []) /\ looser t t'.
Proof.
  intros Lr. unfold builtin_call.
  rewrite <- (el_special _ _ EL), <- (el_spavail _ _ EL), <- (el_json _ _ EL).
  destruct (mem (lower callee) (e_special E) && negb (mem (lower callee) (e_spavail E))); cbn [app].
  { repeat match goal with |- context [match ?x with _ => _ end] => destruct x end; discriminate. }
  repeat match goal with |- context [match ?x with _ => _ end] => destruct x end;
    intros H; try discriminate; inv_pair H;
    try match goal with H : ?l = [] |- _ => rewrite H end;
    eexists; (split; [reflexivity|]); first [exact Lr | apply looser_refl].
Qed.

(* funcall_mono *)
Lemma call_local_mono p callee args sigs sigs' tys tys' t :
  sigs_looser sigs sigs' -> (forall s1 s2, In s1 sigs -> In s2 sigs -> fs_ret s1 = fs_ret s2) ->
  args_looser tys tys' ->
  call_node merge E p callee args sigs tys = (t, []) ->
  exists t', call_node merge E' p callee args sigs' tys' = (t', []) /\ looser t t'.
Proof.
  intros Ls Coh La. unfold call_node.
  destruct (resolve p sigs tys) as [s|errs] eqn:R.
  - destruct (resolve_mono _ _ _ Ls _ _ _ La R) as (I1 & s0 & s' & I0 & (_ & Lr & _) & R').
    rewrite R'. intros H. eapply builtin_call_mono; [|exact H].
    rewrite (Coh s s0 I1 I0). exact Lr.
  - intros H. injection H as Ht Hd. apply app_eq_nil in Hd. destruct Hd as [Ha He]. subst t errs.
    (* no candidate and no error: the overload list is empty on both sides *)
    destruct Ls as [|s1 s1' sigs sigs' Hs Ls].
    + cbn [resolve]. rewrite <- (el_spavail _ _ EL), <- (el_special _ _ EL), Ha. cbn. done_with I.
    + cbn in R. destruct (check_sig p s1 tys); [|discriminate]. destruct (resolve p sigs tys); discriminate.
Qed.
End Mono.

(* ---- equations of the checker --------------------------------------------------- *)
Section ChkEq.
Variables (mg : ty -> ty -> ty) (fa : bool) (E : env).
Notation chk' := (chk mg fa E).

Definition logical_of (op : logop) (l r : expr) : ty * list diag :=
  let '(tl, dl) := chk' (Some (match op with LAnd => false | LOr => true end)) l in
  let '(tr, dr) := chk' None r in (mg tl tr, dl ++ dr).
Definition seq2_of (l r : expr) : ty * list diag :=
  let '(_, dl) := chk' None l in let '(tr, dr) := chk' None r in (tr, dl ++ dr).
Fixpoint chk_args (l : list expr) : list (ty * tpos) * list diag :=
  match l with
  | [] => ([], [])
  | a :: l' =>
      let '(t, d) := chk' None a in
      let '(ts, ds) := chk_args l' in
      ((t, etok a) :: ts, d ++ ds)
  end.

Lemma chk_var nw p n : chk' nw (EVar p n) = var_node E p n.
Proof. destruct nw; reflexivity. Qed.
Lemma chk_deref nw r p : chk' nw (EDeref r p) =
  let '(t, ds) := chk' None r in let '(u, own) := deref_node E r p t in (u, ds ++ own).
Proof. destruct nw; reflexivity. Qed.
Lemma chk_arrderef nw r : chk' nw (EArrDeref r) =
  let '(t, ds) := chk' None r in let '(u, own) := arrderef_node fa (etok r) t in (u, ds ++ own).
Proof. destruct nw; reflexivity. Qed.
Lemma chk_index nw o i : chk' nw (EIndex o i) =
  let '(ti, di) := chk' None i in let '(t, dop) := chk' None o in
  let '(u, own) := index_node o i ti t in (u, (di ++ dop) ++ own).
Proof. destruct nw; reflexivity. Qed.
Lemma chk_not_none p x : chk' None (ENot p x) =
  let '(t, ds) := chk' None x in let '(u, own) := not_node p t in (u, ds ++ own).
Proof. reflexivity. Qed.
Lemma chk_not_some tr p x : chk' (Some tr) (ENot p x) = chk' (Some (negb tr)) x.
Proof. reflexivity. Qed.
Lemma chk_cmp nw op l r : chk' nw (ECmp op l r) =
  let '(tl, dl) := chk' None l in let '(tr, dr) := chk' None r in
  let '(u, own) := cmp_node op (etok l) tl tr in (u, (dl ++ dr) ++ own).
Proof. destruct nw; reflexivity. Qed.
Lemma chk_log_none op l r : chk' None (ELog op l r) = logical_of op l r.
Proof. reflexivity. Qed.
Lemma chk_log_some tr op l r : chk' (Some tr) (ELog op l r) =
  if (match op with LAnd => tr | LOr => negb tr end) then seq2_of l r else logical_of op l r.
Proof. destruct op; reflexivity. Qed.
Lemma chk_call nw p c args : chk' nw (ECall p c args) =
  match lookup (lower c) (e_funcs E) with
  | None => (TAny, [mkdiag p DUndefFunc])
  | Some sigs =>
      let '(tys, ds) := chk_args args in
      let '(u, own) := call_node mg E p c args sigs tys in (u, ds ++ own)
  end.
Proof. destruct nw; reflexivity. Qed.
End ChkEq.

Lemma app_nil_inv {A} (l l' : list A) : l ++ l' = [] -> l = [] /\ l' = [].
Proof. destruct l; cbn; [auto|discriminate]. Qed.

(* ---- accept_mono ------------------------------------------------------------------ *)
Section Accept.
Variables E E' : env.
Hypothesis EL : env_looser E E'.
Hypothesis COH : funcs_coherent (e_funcs E).

Notation chkE := (chk merge true E).
Notation chkE' := (chk merge true E').

(* split an accepted two-stage node *)
Ltac split_node H :=
  repeat match type of H with
  | (let '(_, _) := ?x in _) = _ => let t := fresh "t" in let d := fresh "d" in destruct x as [t d] eqn:?
  end;
  inversion H; subst; clear H.

Lemma chk_mono e : forall nw t, chkE nw e = (t, []) -> exists t', chkE' nw e = (t', []) /\ looser t t'.
Proof.
  induction e as [p n|p|p b|p z|p r|p s|r n IHr|r IHr|o i IHo IHi|p x IHx|op l r IHl IHr|op l r IHl IHr|p c args IHargs]
    using expr_ind'; intros nw t H.
  - rewrite chk_var in *. eapply var_local_mono; eauto.
  - destruct nw; inversion H; subst; eexists; split; reflexivity.
  - destruct nw; inversion H; subst; eexists; split; reflexivity.
  - destruct nw; inversion H; subst; eexists; split; reflexivity.
  - destruct nw; inversion H; subst; eexists; split; reflexivity.
  - destruct nw; inversion H; subst; eexists; split; reflexivity.
  - (* object dereference *)
    rewrite chk_deref in *. destruct (chkE None r) as [t0 d0] eqn:Er. destruct (deref_node E r n t0) as [u own] eqn:En.
    inversion H; subst. match goal with H : _ ++ _ = [] |- _ => apply app_nil_inv in H; destruct H as [-> ->] end.
    destruct (IHr _ _ Er) as (t0' & Er' & L0). rewrite Er'.
    destruct (deref_local_mono _ _ EL _ _ _ _ _ L0 En) as (u' & En' & Lu). rewrite En'. eauto.
  - (* object filtering *)
    rewrite chk_arrderef in *. destruct (chkE None r) as [t0 d0] eqn:Er. destruct (arrderef_node true (etok r) t0) as [u own] eqn:En.
    inversion H; subst. match goal with H : _ ++ _ = [] |- _ => apply app_nil_inv in H; destruct H as [-> ->] end.
    destruct (IHr _ _ Er) as (t0' & Er' & L0). rewrite Er'.
    destruct (arrderef_local_mono _ _ _ _ L0 En) as (u' & En' & Lu). rewrite En'. eauto.
  - (* index access *)
    rewrite chk_index in *. destruct (chkE None i) as [ti di] eqn:Ei. destruct (chkE None o) as [to do] eqn:Eo.
    destruct (index_node o i ti to) as [u own] eqn:En.
    inversion H; subst. match goal with H : _ ++ _ = [] |- _ => apply app_nil_inv in H; destruct H as [H ->]; apply app_nil_inv in H; destruct H as [-> ->] end.
    destruct (IHi _ _ Ei) as (ti' & Ei' & Li). destruct (IHo _ _ Eo) as (to' & Eo' & Lo). rewrite Ei', Eo'.
    destruct (index_local_mono _ _ _ _ _ _ _ Li Lo En) as (u' & En' & Lu). rewrite En'. eauto.
  - (* ! *)
    destruct nw as [tr|].
    + rewrite chk_not_some in *. apply IHx. exact H.
    + rewrite chk_not_none in *. destruct (chkE None x) as [t0 d0] eqn:Ex. destruct (not_node p t0) as [u own] eqn:En.
      inversion H; subst. match goal with H : _ ++ _ = [] |- _ => apply app_nil_inv in H; destruct H as [-> ->] end.
      destruct (IHx _ _ Ex) as (t0' & Ex' & L0). rewrite Ex'.
      destruct (not_local_mono p t0 t0' _ En) as (u' & En' & Lu). rewrite En'. eauto.
  - (* comparison *)
    rewrite chk_cmp in *. destruct (chkE None l) as [tl dl] eqn:El. destruct (chkE None r) as [tr dr] eqn:Er.
    destruct (cmp_node op (etok l) tl tr) as [u own] eqn:En.
    inversion H; subst. match goal with H : _ ++ _ = [] |- _ => apply app_nil_inv in H; destruct H as [H ->]; apply app_nil_inv in H; destruct H as [-> ->] end.
    destruct (IHl _ _ El) as (tl' & El' & Ll). destruct (IHr _ _ Er) as (tr' & Er' & Lr). rewrite El', Er'.
    destruct (cmp_local_mono _ _ _ _ _ _ _ Ll Lr En) as (u' & En' & Lu). rewrite En'. eauto.
  - (* && || with narrowing *)
    assert (LOGICAL : forall t, logical_of merge true E op l r = (t, []) ->
                      exists t', logical_of merge true E' op l r = (t', []) /\ looser t t').
    { unfold logical_of. intros t1 H1.
      destruct (chkE (Some match op with LAnd => false | LOr => true end) l) as [tl dl] eqn:El.
      destruct (chkE None r) as [tr dr] eqn:Er. inversion H1; subst.
      match goal with H : _ ++ _ = [] |- _ => apply app_nil_inv in H; destruct H as [-> ->] end.
      destruct (IHl _ _ El) as (tl' & El' & Ll). destruct (IHr _ _ Er) as (tr' & Er' & Lr). rewrite El', Er'.
      eexists; split; [reflexivity|]. apply merge_mono; assumption. }
    destruct nw as [tr|]; [|rewrite chk_log_none in *; auto].
    rewrite chk_log_some in *. destruct (match op with LAnd => tr | LOr => negb tr end); [|auto].
    unfold seq2_of in *. destruct (chkE None l) as [tl dl] eqn:El. destruct (chkE None r) as [tr' dr] eqn:Er.
    inversion H; subst. match goal with H : _ ++ _ = [] |- _ => apply app_nil_inv in H; destruct H as [-> ->] end.
    destruct (IHl _ _ El) as (tl' & El' & Ll). destruct (IHr _ _ Er) as (tr'' & Er' & Lr). rewrite El', Er'. eauto.
  - (* function call *)
    rewrite chk_call in *.
    pose proof (lookup_rel _ _ _ (lower c) (el_funcs _ _ EL)) as LK.
    destruct (lookup (lower c) (e_funcs E)) as [sigs|] eqn:Ef; [|discriminate].
    destruct (lookup (lower c) (e_funcs E')) as [sigs'|]; [|contradiction].
    destruct (chk_args merge true E args) as [tys ds] eqn:Ea.
    destruct (call_node merge E p c args sigs tys) as [u own] eqn:En.
    inversion H; subst. match goal with H : _ ++ _ = [] |- _ => apply app_nil_inv in H; destruct H as [-> ->] end.
    assert (ARGS : exists tys', chk_args merge true E' args = (tys', []) /\ args_looser tys tys').
    { clear En H. revert tys Ea. induction IHargs as [|a args Ha _ IHa]; intros tys Ea; cbn in *.
      - inversion Ea; subst. eexists; split; [reflexivity|constructor].
      - destruct (chkE None a) as [ta da] eqn:Eh. destruct (chk_args merge true E args) as [ts ds] eqn:Et.
        inversion Ea; subst. match goal with H : _ ++ _ = [] |- _ => apply app_nil_inv in H; destruct H as [-> ->] end.
        destruct (Ha _ _ Eh) as (ta' & Eh' & La). destruct (IHa _ eq_refl) as (ts' & Et' & Ls). rewrite Eh', Et'.
        eexists; split; [reflexivity|]. constructor; [split; [exact La|reflexivity]|exact Ls]. }
    destruct ARGS as (tys' & Ea' & La). rewrite Ea'.
    destruct (call_local_mono _ _ EL p c args sigs sigs' tys tys' _ LK (COH _ _ Ef) La En) as (u' & En' & Lu).
    rewrite En'. eauto.
Qed.

Theorem accept_mono e t : check E e = (t, []) -> exists t', check E' e = (t', []) /\ looser t t'.
Proof. apply chk_mono. Qed.
End Accept.

(* ---- any_never_blamed ---------------------------------------------------------------
   [blamed k]: the operand types a diagnostic names as the reason of the error.  For a
   comparison both operand types are printed; when one of them is any the other one is the
   reason (any is comparable with every type that is comparable at all). *)
Definition blamed (k : dkind) : list ty :=
  match k with
  | DDerefRecv t | DFilterElem t | DFilterRecv t | DIndexArr t | DIndexObj t | DIndexOperand t | DNotOp t => [t]
  | DFilterMapElem m _ => [m]
  | DNotAssignable _ a _ => [a]
  | DCompare l r => if is_any l then [r] else if is_any r then [l] else [l; r]
  | _ => []
  end.
Definition clean (d : diag) : Prop := ~ In TAny (blamed (d_kind d)).

Ltac clean_tac :=
  repeat match goal with |- context [match ?x with _ => _ end] => destruct x end;
  cbn [snd];
  first [apply Forall_nil
        | (apply Forall_cons; [unfold clean; cbn; intuition discriminate | apply Forall_nil])].

Section Blame.
Variables (mg : ty -> ty -> ty) (fa : bool) (E : env).

Lemma var_node_clean p n : Forall clean (snd (var_node E p n)).
Proof. unfold var_node. clean_tac. Qed.
Lemma check_config_blamed cfg prop k : check_config cfg prop = Some k -> blamed k = [].
Proof.
  unfold check_config.
  repeat match goal with |- context [match ?x with _ => _ end] => destruct x end;
    intros H; inversion H; reflexivity.
Qed.
Lemma deref_node_clean r p t : Forall clean (snd (deref_node E r p t)).
Proof.
  unfold deref_node. pose proof (check_config_blamed (e_config E) p) as CB.
  destruct (check_config (e_config E) p) as [k|];
  repeat match goal with |- context [match ?x with _ => _ end] => destruct x end;
  cbn [snd];
  first [apply Forall_nil
        | (apply Forall_cons; [unfold clean; cbn [d_kind]; try rewrite (CB _ eq_refl); cbn; intuition discriminate | apply Forall_nil])].
Qed.
Lemma arrderef_node_clean pos t : Forall clean (snd (arrderef_node fa pos t)).
Proof. unfold arrderef_node. clean_tac. Qed.
Lemma index_node_clean o i ti t : Forall clean (snd (index_node o i ti t)).
Proof. unfold index_node, index_node_gen. clean_tac. Qed.
Lemma not_node_clean p t : Forall clean (snd (not_node p t)).
Proof. unfold not_node. cbn. constructor. Qed.
Lemma cmp_node_clean op pos tl tr : Forall clean (snd (cmp_node op pos tl tr)).
Proof.
  unfold cmp_node. destruct (compare_ok op tl tr) eqn:C; cbn; [constructor|].
  constructor; [|constructor]. unfold clean. cbn.
  destruct tl; destruct tr; cbn; try (intuition discriminate).
  cbn in C. destruct (is_eq_op op); discriminate.
Qed.

Lemma sig_loop_clean ps : forall i args d, sig_loop i ps args = Some d -> clean d.
Proof.
  induction ps as [|p ps IH]; intros i [|a args] d H; cbn in H; try discriminate.
  destruct (assignable p (fst a)) eqn:A; [eapply IH; eauto|].
  inversion H; subst. unfold clean. cbn. intros [Ha|[]]. rewrite Ha, assignable_any_r in A. discriminate.
Qed.
Lemma rest_loop_clean p : forall args i d, rest_loop i p args = Some d -> clean d.
Proof.
  induction args as [|a args IH]; intros i d H; cbn in H; [discriminate|].
  destruct (assignable p (fst a)) eqn:A; [eapply IH; eauto|].
  inversion H; subst. unfold clean. cbn. intros [Ha|[]]. rewrite Ha, assignable_any_r in A. discriminate.
Qed.
Lemma check_sig_clean cpos s args d : check_sig cpos s args = Some d -> clean d.
Proof.
  unfold check_sig. destruct (_ || _); [intros H; inversion H; subst; unfold clean; cbn; tauto|].
  destruct (sig_loop 0 (fs_params s) args) eqn:S; [intros H; inversion H; subst; eapply sig_loop_clean; eauto|].
  destruct (fs_varlen s); [apply rest_loop_clean|discriminate].
Qed.
Lemma resolve_clean cpos sigs args : forall errs, resolve cpos sigs args = inr errs -> Forall clean errs.
Proof.
  induction sigs as [|s sigs IH]; intros errs H; cbn in H; [inversion H; constructor|].
  destruct (check_sig cpos s args) eqn:C; [|discriminate].
  destruct (resolve cpos sigs args); [discriminate|]. inversion H; subst.
  constructor; [eapply check_sig_clean; eauto|apply IH; reflexivity].
Qed.

Lemma format_diags_clean pos f l : Forall clean (format_diags pos f l).
Proof.
  apply Forall_forall. intros d Hin. unfold format_diags in Hin. apply in_app_or in Hin.
  destruct Hin as [Hin|Hin]; apply in_map_iff in Hin; destruct Hin as (x & <- & _); unfold clean; cbn; tauto.
Qed.

Lemma builtin_call_clean p c args s : Forall clean (snd (builtin_call mg E p c args s)).
Proof.
  unfold builtin_call.
  assert (A : Forall clean (if mem (lower c) (e_special E) && negb (mem (lower c) (e_spavail E)) then [mkdiag p DFuncNotAllowed] else [])).
  { destruct (_ && _); repeat constructor. unfold clean; cbn; tauto. }
  repeat match goal with |- context [match ?x with _ => _ end] => destruct x end; cbn [snd];
    try exact A; apply Forall_app; (split; [exact A|]); try apply format_diags_clean.
  all: apply Forall_cons; [unfold clean; cbn; tauto|apply Forall_nil].
Qed.

Lemma call_node_clean p c args sigs tys : Forall clean (snd (call_node mg E p c args sigs tys)).
Proof.
  unfold call_node. destruct (resolve p sigs tys) eqn:R; [apply builtin_call_clean|].
  cbn [snd]. apply Forall_app. split; [|eapply resolve_clean; eauto].
  destruct (_ && _); repeat constructor. unfold clean; cbn; tauto.
Qed.

Lemma chk_clean e : forall nw, Forall clean (snd (chk mg fa E nw e)).
Proof.
  induction e as [p n|p|p b|p z|p r|p s|r n IHr|r IHr|o i IHo IHi|p x IHx|op l r IHl IHr|op l r IHl IHr|p c args IHargs]
    using expr_ind'; intros nw.
  - rewrite chk_var. apply var_node_clean.
  - destruct nw; constructor.
  - destruct nw; constructor.
  - destruct nw; constructor.
  - destruct nw; constructor.
  - destruct nw; constructor.
  - rewrite chk_deref. specialize (IHr None). destruct (chk mg fa E None r) as [t ds].
    pose proof (deref_node_clean r n t) as C. destruct (deref_node E r n t). cbn in *. apply Forall_app; auto.
  - rewrite chk_arrderef. specialize (IHr None). destruct (chk mg fa E None r) as [t ds].
    pose proof (arrderef_node_clean (etok r) t) as C. destruct (arrderef_node fa (etok r) t). cbn in *. apply Forall_app; auto.
  - rewrite chk_index. specialize (IHo None). specialize (IHi None).
    destruct (chk mg fa E None i) as [ti di]. destruct (chk mg fa E None o) as [t dop].
    pose proof (index_node_clean o i ti t) as C. destruct (index_node o i ti t). cbn in *.
    apply Forall_app; split; [apply Forall_app; auto|auto].
  - destruct nw as [tr|]; [rewrite chk_not_some; apply IHx|]. rewrite chk_not_none.
    specialize (IHx None). destruct (chk mg fa E None x) as [t ds]. cbn in *. rewrite app_nil_r. exact IHx.
  - rewrite chk_cmp. specialize (IHl None). specialize (IHr None).
    destruct (chk mg fa E None l) as [tl dl]. destruct (chk mg fa E None r) as [tr dr].
    pose proof (cmp_node_clean op (etok l) tl tr) as C. destruct (cmp_node op (etok l) tl tr). cbn in *.
    apply Forall_app; split; [apply Forall_app; auto|auto].
  - assert (L : Forall clean (snd (logical_of mg fa E op l r))).
    { unfold logical_of. specialize (IHl (Some match op with LAnd => false | LOr => true end)). specialize (IHr None).
      destruct (chk mg fa E (Some _) l). destruct (chk mg fa E None r). cbn in *. apply Forall_app; auto. }
    destruct nw as [tr|]; [|rewrite chk_log_none; exact L].
    rewrite chk_log_some. destruct (match op with LAnd => tr | LOr => negb tr end); [|exact L].
    unfold seq2_of. specialize (IHl None). specialize (IHr None).
    destruct (chk mg fa E None l). destruct (chk mg fa E None r). cbn in *. apply Forall_app; auto.
  - rewrite chk_call. destruct (lookup (lower c) (e_funcs E)) as [sigs|].
    + assert (A : Forall clean (snd (chk_args mg fa E args))).
      { induction IHargs as [|a args Ha _ IHa]; cbn; [constructor|].
        specialize (Ha None). destruct (chk mg fa E None a). destruct (chk_args mg fa E args). cbn in *. apply Forall_app; auto. }
      destruct (chk_args mg fa E args) as [tys ds].
      pose proof (call_node_clean p c args sigs tys) as C. destruct (call_node mg E p c args sigs tys). cbn in *. apply Forall_app; auto.
    + cbn. repeat constructor. unfold clean; cbn; tauto.
Qed.
End Blame.

(* a value whose type cannot be known is never itself named as the reason of a type error *)
Theorem any_never_blamed E e d : In d (snd (check E e)) -> ~ In TAny (blamed (d_kind d)).
Proof. intros H. pose proof (chk_clean merge true E e None) as C. rewrite Forall_forall in C. exact (C d H). Qed.

(* ---- checks of rule_expression.go on the result type ------------------------------- *)
Lemma template_type_check_mono t t' : looser t t' -> template_ok t = true -> template_ok t' = true.
Proof.
  intros L H. destruct (looser_inv _ _ L) as [->|L']; [reflexivity|].
  destruct t; cbn in L', H; try contradiction; try discriminate; subst; reflexivity.
Qed.
Lemma if_type_check_mono t t' : looser t t' -> if_cond_ok t = true -> if_cond_ok t' = true.
Proof. reflexivity. Qed.
Lemma typed_input_check_mono d t t' : looser t t' -> typed_input_ok d t = true -> typed_input_ok d t' = true.
Proof. apply assignable_mono. Qed.
