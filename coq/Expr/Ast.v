(* Expr/Ast.v — the expression syntax tree of expr_ast.go, shared by the
   parser, semantic-checker and untrusted-input models.  A node's position is
   the position of its Token(): own token for leaves, `!` and calls, the
   left-most descendant's token for dereference, index and binary nodes. *)
From AL Require Export Base.Str.
From Coq Require Export ZArith.

(* Token position: byte offset, line, column (1-based, in characters) *)
Record tpos := { t_off : N; t_line : N; t_col : N }.

Inductive cmpop := CLess | CLessEq | CGreater | CGreaterEq | CEq | CNotEq.
Inductive logop := LAnd | LOr.

Inductive expr : Type :=
| EVar (p : tpos) (name : string)          (* VariableNode.Name: as written (parser does not fold case) *)
| ENull (p : tpos)
| EBool (p : tpos) (b : bool)
| EInt (p : tpos) (z : Z)
| EFloat (p : tpos) (raw : string)         (* literal text; the float64 value is never inspected by the models *)
| EStr (p : tpos) (s : string)             (* StringNode.Value: unquoted, '' unescaped *)
| EDeref (recv : expr) (prop : string)     (* ObjectDerefNode *)
| EArrDeref (recv : expr)                  (* ArrayDerefNode  recv.*  *)
| EIndex (operand index : expr)            (* IndexAccessNode operand[index] *)
| ENot (p : tpos) (e : expr)
| ECmp (op : cmpop) (l r : expr)
| ELog (op : logop) (l r : expr)
| ECall (p : tpos) (callee : string) (args : list expr).

Fixpoint etok (e : expr) : tpos :=
  match e with
  | EVar p _ | ENull p | EBool p _ | EInt p _ | EFloat p _ | EStr p _ | ENot p _ | ECall p _ _ => p
  | EDeref r _ | EArrDeref r => etok r
  | EIndex o _ => etok o
  | ECmp _ l _ | ELog _ l _ => etok l
  end.

(* induction principle reaching into call arguments *)
Section ExprInd.
Variable P : expr -> Prop.
Hypothesis Hvar : forall p n, P (EVar p n).
Hypothesis Hnull : forall p, P (ENull p).
Hypothesis Hbool : forall p b, P (EBool p b).
Hypothesis Hint : forall p z, P (EInt p z).
Hypothesis Hfloat : forall p r, P (EFloat p r).
Hypothesis Hstr : forall p s, P (EStr p s).
Hypothesis Hderef : forall r n, P r -> P (EDeref r n).
Hypothesis Harr : forall r, P r -> P (EArrDeref r).
Hypothesis Hidx : forall o i, P o -> P i -> P (EIndex o i).
Hypothesis Hnot : forall p e, P e -> P (ENot p e).
Hypothesis Hcmp : forall op l r, P l -> P r -> P (ECmp op l r).
Hypothesis Hlog : forall op l r, P l -> P r -> P (ELog op l r).
Hypothesis Hcall : forall p c args, Forall P args -> P (ECall p c args).

Fixpoint expr_ind' (e : expr) : P e :=
  match e with
  | EVar p n => Hvar p n
  | ENull p => Hnull p
  | EBool p b => Hbool p b
  | EInt p z => Hint p z
  | EFloat p r => Hfloat p r
  | EStr p s => Hstr p s
  | EDeref r n => Hderef r n (expr_ind' r)
  | EArrDeref r => Harr r (expr_ind' r)
  | EIndex o i => Hidx o i (expr_ind' o) (expr_ind' i)
  | ENot p e => Hnot p e (expr_ind' e)
  | ECmp op l r => Hcmp op l r (expr_ind' l) (expr_ind' r)
  | ELog op l r => Hlog op l r (expr_ind' l) (expr_ind' r)
  | ECall p c args =>
      Hcall p c args ((fix go (l : list expr) : Forall P l :=
                         match l with
                         | [] => Forall_nil _
                         | x :: l' => Forall_cons _ (expr_ind' x) (go l')
                         end) args)
  end.
End ExprInd.
