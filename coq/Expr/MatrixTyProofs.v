(* Expr/MatrixTyProofs.v — C06 at the level of the `matrix` context: making
   the type of any matrix value less precise (in particular `any`, what an
   expression of unknown type gets) yields a looser type of the `matrix`
   context; with [accept_mono] (Expr/SemaProofs.v) every expression accepted
   before is still accepted. *)
From AL Require Import Expr.Types Expr.TypesProofs Expr.MatrixTy.

Lemma fold_merge_mono (f : rawv -> ty) es : forall es' a a',
  looser a a' -> Forall2 (fun x x' => looser (f x) (f x')) es es' ->
  looser (fold_left (fun acc x => merge acc (f x)) es a) (fold_left (fun acc x => merge acc (f x)) es' a').
Proof.
  induction es as [|e es IH]; intros es' a a' La F; inversion F; subst; cbn; [exact La|].
  apply IH; [apply merge_mono; assumption|assumption].
Qed.

Lemma raw_obj_props ps :
  (fix go (l : list (string * rawv)) : list (string * ty) :=
     match l with [] => [] | kv :: l' => (fst kv, raw_ty (snd kv)) :: go l' end) ps
  = map (fun kv => (fst kv, raw_ty (snd kv))) ps.
Proof. induction ps as [|kv ps IH]; cbn; [reflexivity|now rewrite IH]. Qed.

Theorem raw_ty_mono v : forall v', rawv_looser v v' -> looser (raw_ty v) (raw_ty v').
Proof.
  induction v as [t|es IH|ps IH] using rawv_ind'; intros v' H.
  - inversion H as [t0 t' L| |]; subst. exact L.
  - inversion H as [|es0 es' F2|]; subst.
    assert (F3 : Forall2 (fun x x' => looser (raw_ty x) (raw_ty x')) es es').
    { clear H. revert IH. induction F2 as [|x x' l l' Hx F2' IHF]; intros IH; [constructor|].
      inversion IH as [|? ? Px Pl]; subst. constructor; [apply Px; exact Hx|apply IHF; exact Pl]. }
    inversion F3 as [|x x' l l' Hx F3']; subst; cbn [raw_ty].
    + apply looser_refl.
    + apply looser_arr_iff. split; [|intros D; discriminate D].
      apply fold_merge_mono; assumption.
  - inversion H as [| |ps0 ps' F2]; subst.
    cbn [raw_ty]. rewrite !raw_obj_props. apply looser_obj_iff. split; [|exact I].
    clear H. revert IH. induction F2 as [|p p' l l' [Hk Hv] F2' IHF]; intros IH; cbn; [constructor|].
    inversion IH as [|? ? Px Pl]; subst. constructor; [split; [exact Hk|apply Px; exact Hv]|apply IHF; exact Pl].
Qed.

Lemma row_ty_mono r r' : mrow_looser r r' -> looser (row_ty r) (row_ty r').
Proof.
  intros H; inversion H as [vs vs' F|t t' O]; subst.
  - destruct F as [|v v' l l' Hv F']; cbn [row_ty]; [exact I|].
    assert (F3 : Forall2 (fun x x' => looser (raw_ty x) (raw_ty x')) l l').
    { clear Hv H. induction F' as [|x x' k k' Hx _ IHF]; [constructor|constructor; [now apply raw_ty_mono|exact IHF]]. }
    apply fold_merge_mono; [now apply raw_ty_mono|exact F3].
  - destruct t as [t|], t' as [t'|]; cbn in O; try contradiction; [|exact I].
    cbn [row_ty].
    destruct (looser_inv _ _ O) as [->|Hi]; [destruct t; try exact I; apply looser_any_r|].
    destruct t; try contradiction; try (subst t'; exact I).
    + destruct Hi as [qs [n [-> _]]]. exact I.
    + destruct Hi as [f [d' [-> [Le _]]]]. exact Le.
Qed.

Lemma rows_props_mono rows : forall rows' ps qs,
  Forall2 (fun r r' => fst r = fst r' /\ mrow_looser (snd r) (snd r')) rows rows' ->
  props_looser ps qs ->
  props_looser (fold_left (fun ps nr => upsert (fst nr) (row_ty (snd nr)) ps) rows ps)
               (fold_left (fun ps nr => upsert (fst nr) (row_ty (snd nr)) ps) rows' qs).
Proof.
  induction rows as [|r rows IH]; intros rows' ps qs F P; inversion F as [|? r' ? ? [Hk Hr] F']; subst; cbn; [exact P|].
  apply IH; [exact F'|]. rewrite Hk. apply props_looser_upsert; [exact P|now apply row_ty_mono].
Qed.

Lemma assign_prop_mono ps qs na na' :
  props_looser ps qs -> fst na = fst na' -> rawv_looser (snd na) (snd na') ->
  props_looser (assign_prop ps na) (assign_prop qs na').
Proof.
  destruct na as [n v], na' as [n' v']; cbn [fst snd]. intros P <- Hv. unfold assign_prop.
  pose proof (props_looser_lookup ps qs n P) as L.
  destruct (lookup n ps) as [t|], (lookup n qs) as [t'|]; try contradiction.
  - apply props_looser_upsert; [exact P|]. apply merge_mono; [exact L|now apply raw_ty_mono].
  - apply props_looser_upsert; [exact P|now apply raw_ty_mono].
Qed.

Lemma fold_assign_mono l : forall l' ps qs,
  Forall2 (fun p p' => fst p = fst p' /\ rawv_looser (snd p) (snd p')) l l' -> props_looser ps qs ->
  props_looser (fold_left assign_prop l ps) (fold_left assign_prop l' qs).
Proof.
  induction l as [|a l IH]; intros l' ps qs F P; inversion F as [|? a' ? ? [Hk Hv] F']; subst; cbn; [exact P|].
  apply IH; [exact F'|now apply assign_prop_mono].
Qed.

(* merge of an object with t is an object exactly when t is an object *)
Lemma merge_obj_obj ps m t : is_obj t = true -> exists a b, merge (TObj ps m) t = TObj a b.
Proof.
  destruct t; try discriminate. intros _. unfold merge. cbn [merge_gen].
  destruct (is_nil ps && is_loose mapped); [eauto|].
  destruct (is_nil props && is_loose m); eauto.
Qed.

Lemma merge_obj_nonobj ps m t : is_obj t = false -> merge (TObj ps m) t = TAny.
Proof. destruct t; try discriminate; reflexivity. Qed.

Definition st_looser (o o' : list (string * ty) * option ty) : Prop :=
  props_looser (fst o) (fst o') /\ olooser (snd o) (snd o').

Lemma comb_step_mono o o' c c' : st_looser o o' -> mcomb_looser c c' -> st_looser (comb_step o c) (comb_step o' c').
Proof.
  intros [P O] H. inversion H as [ps ps' F|t t' OT KO]; subst; cbn [comb_step].
  - split; [now apply fold_assign_mono|exact O].
  - destruct t as [t|], t' as [t'|]; cbn in OT; try contradiction; [|split; assumption].
    cbn in KO.
    destruct (is_obj t) eqn:It.
    + specialize (KO eq_refl).
      destruct (merge_obj_obj (fst o) (snd o) t It) as [a [b E1]].
      destruct (merge_obj_obj (fst o') (snd o') t' KO) as [a' [b' E2]].
      assert (L : looser (merge (TObj (fst o) (snd o)) t) (merge (TObj (fst o') (snd o')) t')).
      { apply merge_mono; [apply looser_obj_iff; split; assumption|exact OT]. }
      rewrite E1, E2 in *. apply looser_obj_iff in L. exact L.
    + rewrite (merge_obj_nonobj _ _ t It).
      destruct (merge (TObj (fst o') (snd o')) t') as [| | | | |a' b'|] eqn:E2;
        try (split; [exact P|apply olooser_any_r]).
      (* right side an object although the left operand was not: t' is an object
         above a non-object t: impossible *)
      exfalso. destruct t'; try (cbn in E2; discriminate E2).
      destruct (looser_inv _ _ OT) as [Hx|Hx]; [discriminate Hx|].
      destruct t; try contradiction; try discriminate Hx; try discriminate It.
Qed.

Lemma fold_comb_mono cs : forall cs' o o', Forall2 mcomb_looser cs cs' -> st_looser o o' ->
  st_looser (fold_left comb_step cs o) (fold_left comb_step cs' o').
Proof.
  induction cs as [|c cs IH]; intros cs' o o' F S; inversion F; subst; cbn; [exact S|].
  apply IH; [assumption|now apply comb_step_mono].
Qed.

Lemma comb_unknown_looser c c' : mcomb_looser c c' -> comb_unknown c = comb_unknown c'.
Proof.
  intros H. inversion H as [ps ps' F|t t' OT KO]; subst; [reflexivity|].
  destruct t as [t|], t' as [t'|]; cbn in OT; try contradiction; [|reflexivity].
  cbn [comb_unknown]. f_equal. cbn in KO.
  destruct (is_obj t) eqn:It.
  - now rewrite (KO eq_refl).
  - destruct (is_obj t') eqn:It'; [|reflexivity]. exfalso.
    destruct t' as [| | | | |qs n|]; try discriminate It'.
    destruct (looser_inv _ _ OT) as [Hx|Hx]; [discriminate Hx|].
    destruct t; try contradiction; try discriminate Hx; discriminate It.
Qed.

Lemma existsb_unknown_looser cs : forall cs', Forall2 mcomb_looser cs cs' ->
  existsb comb_unknown cs = existsb comb_unknown cs'.
Proof.
  induction cs as [|c cs IH]; intros cs' F; inversion F; subst; cbn; [reflexivity|].
  now rewrite (comb_unknown_looser c y), (IH l').
Qed.

(* C06 for the matrix context: a matrix whose values / rows / include entries
   are typed less precisely (any instead of a specific type, an open object
   instead of a closed one ...) gets a looser type *)
Theorem matrix_ty_mono m m' : mtx_looser m m' -> looser (matrix_ty m) (matrix_ty m').
Proof.
  intros [FR FI]. unfold matrix_ty.
  assert (PR : props_looser (rows_props (mt_rows m)) (rows_props (mt_rows m'))).
  { unfold rows_props. apply rows_props_mono; [exact FR|constructor]. }
  inversion FI as [|t t' OT KO|cs cs' FC]; subst.
  - apply looser_obj_iff. split; [exact PR|exact I].
  - assert (Loose : forall x, looser x (TObj [] (Some TAny)) -> True) by auto.
    destruct t as [t|], t' as [t'|]; cbn in OT; try contradiction.
    2:{ apply looser_obj_iff. split; [constructor|exact I]. }
    destruct t as [| | | | |ps0 m0|e d].
    1-6: (apply looser_any_l in OT || (destruct (looser_inv _ _ OT) as [Hx|Hx]; [|try subst t'; try (destruct Hx as [? [? [Hx _]]]; subst t')]);
          try subst t'; try (apply looser_obj_iff; split; [constructor|exact I])).
    + (* t = array e *)
      cbn in KO.
      destruct (is_obj e) eqn:Ie.
      * destruct (KO eq_refl) as [e' [d' [Et Ie']]]. inversion Et; subst t'.
        apply looser_arr_iff in OT. destruct OT as [Le _].
        destruct (merge_obj_obj (rows_props (mt_rows m)) None e Ie) as [a [b E1]].
        destruct (merge_obj_obj (rows_props (mt_rows m')) None e' Ie') as [a' [b' E2]].
        assert (L : looser (merge (TObj (rows_props (mt_rows m)) None) e) (merge (TObj (rows_props (mt_rows m')) None) e')).
        { apply merge_mono; [apply looser_obj_iff; split; [exact PR|exact I]|exact Le]. }
        rewrite E1, E2 in *. exact L.
      * rewrite (merge_obj_nonobj _ _ e Ie).
        destruct (looser_inv _ _ OT) as [->|[f [d' [-> [Le _]]]]].
        -- apply looser_obj_iff. split; [constructor|exact I].
        -- destruct (is_obj f) eqn:If.
           ++ exfalso. destruct f; try discriminate If.
              destruct (looser_inv _ _ Le) as [Hx|Hx]; [discriminate Hx|].
              destruct e; try contradiction; try discriminate Hx; try discriminate Ie.
           ++ rewrite (merge_obj_nonobj _ _ f If). apply looser_obj_iff. split; [constructor|exact I].
  - rewrite (existsb_unknown_looser cs cs' FC). destruct (existsb comb_unknown cs').
    { apply looser_obj_iff. split; [constructor|exact I]. }
    pose proof (fold_comb_mono cs cs' (rows_props (mt_rows m), None) (rows_props (mt_rows m'), None) FC (conj PR I)) as [P O].
    destruct (fold_left comb_step cs _) as [ps mp], (fold_left comb_step cs' _) as [ps' mp']. cbn in P, O.
    apply looser_obj_iff. split; assumption.
Qed.

(* non-vacuity: a literal row value replaced by an expression of unknown type *)
Example matrix_ty_mono_example :
  let m  := {| mt_rows := [("cfg", MRowVals [RObj [("name", RScalar TStr)]; RObj [("name", RScalar TStr)]])]; mt_incl := MInclNone |} in
  let m' := {| mt_rows := [("cfg", MRowVals [RObj [("name", RScalar TStr)]; RObj [("name", RScalar TAny)]])]; mt_incl := MInclNone |} in
  mtx_looser m m' /\ matrix_ty m = TObj [("cfg", TObj [("name", TStr)] None)] None /\
  matrix_ty m' = TObj [("cfg", TObj [("name", TAny)] None)] None.
Proof.
  cbn. repeat split.
  - repeat constructor.
  - constructor.
Qed.

(* ---- an include element of unknown type ------------------------------------ *)
(* from the repair on: the matrix is the open object without known keys - every
   `matrix.<key>...` chain is typed any and accepted *)
Theorem matrix_ty_unknown_element rows cs :
  existsb comb_unknown cs = true ->
  matrix_ty {| mt_rows := rows; mt_incl := MInclList cs |} = TObj [] (Some TAny).
Proof. intros H. unfold matrix_ty. cbn [mt_incl]. now rewrite H. Qed.

(* before it: `os: [ubuntu]` with `include: [<object {os: {x: number}}>]` types matrix.os as any
   (string merged with an object), with `include: [<any>]` as string - so `matrix.os.x`, accepted
   with the precise element, was reported once the element's type was unknown *)
Lemma matrix_ty_old_unknown_element_refuted :
  exists rows t,
    matrix_ty_old {| mt_rows := rows; mt_incl := MInclList [MCombExpr (Some t)] |}
      = TObj [("os"%string, TAny)] None /\
    matrix_ty_old {| mt_rows := rows; mt_incl := MInclList [MCombExpr (Some TAny)] |}
      = TObj [("os"%string, TStr)] (Some TAny) /\
    matrix_ty {| mt_rows := rows; mt_incl := MInclList [MCombExpr (Some TAny)] |} = TObj [] (Some TAny).
Proof.
  exists [("os"%string, MRowVals [RScalar TStr])], (TObj [("os"%string, TObj [("x"%string, TNum)] None)] None).
  repeat split; vm_compute; reflexivity.
Qed.

