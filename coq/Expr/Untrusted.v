(* Expr/Untrusted.v — model of expr_insecure.go (UntrustedInputChecker) and of
   the order in which expr_sema.go drives it.

   Go                                    here
   ------------------------------------  ------------------------------------
   UntrustedInputMap (Name, Children)    utree  (children = [] <-> Children == nil)
   UntrustedInputSearchRoots             list utree, looked up by name
   *UntrustedInputMap in u.cur           cand = (path from the root, subtree); the
                                         path is what buildPath reconstructs
                                         through the Parent pointers
   u.cur / filteringObject / start       c_cur / c_filt / c_start  (chain state)
   u.safeCalls / u.errs                  s_safe / s_errs
   OnVisitNodeEnter / OnVisitNodeLeave   on_enter / on_leave  (argument: the
                                         shallow view [node] of the ExprNode)
   ExprSemanticsChecker.check & friends  events / narrow_events: the enter/leave
                                         sequence of the traversal (index before
                                         operand; arguments of undefined
                                         functions are not visited; the `!`,
                                         `&&`, `||` nodes handled by
                                         checkWithNarrowing get no callbacks)

   Map iteration (`for _, c := range cur.Children` in onObjectFilter) is
   iteration over the children list in the given order; everything proved
   about reports is up to a permutation of the paths inside one report
   (end() sorts them with sortedQuotes when there are several).

   Two variants of the automaton are defined: [fixed := true] is the code after
   repo_patches/untrusted (index literal lower-cased, the literal '*' is not the
   array-element marker, leaving the outermost sanitising call flushes);
   [fixed := false] is the code as it was, kept for the *_old_refuted lemmas. *)
From AL Require Export Expr.Ast Expr.UntrustedTree.

Definition cand : Type := path * utree.

Definition cand_children (c : cand) : list cand :=
  map (fun t => (fst c ++ [ut_name t], t)) (ut_children (snd c)).

(* findObjectProp *)
Definition find_object_prop (name : string) (c : cand) : option cand :=
  match find_named name (ut_children (snd c)) with
  | Some t => Some (fst c ++ [name], t)
  | None => None
  end.

(* findArrayElem *)
Definition find_array_elem (c : cand) : option cand := find_object_prop "*" c.

(* ---- state ------------------------------------------------------------ *)

Record chain_st := { c_cur : list cand; c_filt : bool; c_start : option tpos }.

Definition report : Type := option tpos * list path.

Record st := { s_chain : chain_st; s_safe : nat; s_errs : list report }.

(* reset() *)
Definition chain_reset : chain_st := {| c_cur := []; c_filt := false; c_start := None |}.

(* Init() *)
Definition st_init : st := {| s_chain := chain_reset; s_safe := 0; s_errs := [] |}.

(* the loop "replace by the found child or set nil, then compact()" *)
Fixpoint filter_map_cand (f : cand -> option cand) (l : list cand) : list cand :=
  match l with
  | [] => []
  | c :: l' => match f c with Some c' => c' :: filter_map_cand f l' | None => filter_map_cand f l' end
  end.

(* onPropAccess *)
Definition on_prop_access (name : string) (c : chain_st) : chain_st :=
  {| c_cur := filter_map_cand (find_object_prop name) (c_cur c); c_filt := c_filt c; c_start := c_start c |}.

(* onIndexAccess *)
Definition on_index_access (c : chain_st) : chain_st :=
  if c_filt c then {| c_cur := c_cur c; c_filt := false; c_start := c_start c |}
  else {| c_cur := filter_map_cand find_array_elem (c_cur c); c_filt := false; c_start := c_start c |}.

(* onObjectFilter: slot i keeps the array element, or the first child (the
   other children are appended to the slice), or becomes nil *)
Definition filter_slot (c : cand) : option cand * list cand :=
  match find_array_elem c with
  | Some a => (Some a, [])
  | None => match cand_children c with
            | [] => (None, [])
            | k :: ks => (Some k, ks)
            end
  end.

Fixpoint filter_slots (l : list cand) : list cand * list cand :=
  match l with
  | [] => ([], [])
  | c :: l' =>
      let '(heads, tails) := filter_slots l' in
      let '(h, t) := filter_slot c in
      (match h with Some x => x :: heads | None => heads end, t ++ tails)
  end.

Definition on_object_filter (c : chain_st) : chain_st :=
  let '(heads, tails) := filter_slots (c_cur c) in
  {| c_cur := heads ++ tails; c_filt := true; c_start := c_start c |}.

(* onVar, applied to the state end() leaves behind *)
Definition on_var (roots : list utree) (p : tpos) (name : string) (c : chain_st) : chain_st :=
  match find_named name roots with
  | Some t => {| c_cur := c_cur c ++ [([name], t)]; c_filt := c_filt c; c_start := Some p |}
  | None => c
  end.

(* the `inputs` of end(): paths of the candidates that are leaves *)
Fixpoint leaf_paths (l : list cand) : list path :=
  match l with
  | [] => []
  | c :: l' => match ut_children (snd c) with
               | [] => fst c :: leaf_paths l'
               | _ :: _ => leaf_paths l'
               end
  end.

(* the error end() appends: none, the one-path message, or the object-filter
   message (told apart by the number of paths) *)
Definition flush (c : chain_st) : list report :=
  match leaf_paths (c_cur c) with
  | [] => []
  | ps => [(c_start c, ps)]
  end.

(* end() *)
Definition do_end (s : st) : st :=
  {| s_chain := chain_reset; s_safe := s_safe s; s_errs := s_errs s ++ flush (s_chain s) |}.

(* ---- callbacks -------------------------------------------------------- *)

(* what OnVisitNodeEnter/Leave look at in a node *)
Inductive node :=
| NVar (p : tpos) (name : string)
| NDeref (prop : string)
| NArrDeref
| NIndex (lit : option string)     (* Some v: n.Index is a *StringNode with Value v *)
| NCall (callee : string)
| NOther.                          (* literals, !, comparison, && || *)

(* isSafeFuncCall *)
Definition is_safe_call (callee : string) : bool :=
  let c := lower callee in
  String.eqb c "contains" || String.eqb c "startswith" || String.eqb c "endswith".

Definition with_chain (s : st) (c : chain_st) : st :=
  {| s_chain := c; s_safe := s_safe s; s_errs := s_errs s |}.

Section Automaton.
Variable fixed : bool.
Variable roots : list utree.

Definition on_enter (n : node) (s : st) : st :=
  match n with
  | NCall c => if is_safe_call c
               then {| s_chain := s_chain s; s_safe := S (s_safe s); s_errs := s_errs s |}
               else s
  | _ => s
  end.

Definition on_index_lit (v : string) (c : chain_st) : chain_st :=
  if fixed then
    if String.eqb v "*"
    then {| c_cur := []; c_filt := c_filt c; c_start := c_start c |}    (* u.cur = u.cur[:0] *)
    else on_prop_access (lower v) c
  else on_prop_access v c.

Definition on_leave (n : node) (s : st) : st :=
  match s_safe s with
  | S k =>
      match n with
      | NCall c =>
          if is_safe_call c then
            let s' := {| s_chain := s_chain s; s_safe := k; s_errs := s_errs s |} in
            if fixed then match k with 0 => do_end s' | S _ => s' end else s'
          else s
      | _ => s
      end
  | 0 =>
      match n with
      | NVar p name => let s' := do_end s in with_chain s' (on_var roots p name (s_chain s'))
      | NDeref prop => with_chain s (on_prop_access prop (s_chain s))
      | NIndex (Some v) => with_chain s (on_index_lit v (s_chain s))
      | NIndex None => with_chain s (on_index_access (s_chain s))
      | NArrDeref => with_chain s (on_object_filter (s_chain s))
      | NCall _ | NOther => do_end s
      end
  end.

Inductive event := Enter (n : node) | Leave (n : node).

Definition step (s : st) (e : event) : st :=
  match e with Enter n => on_enter n s | Leave n => on_leave n s end.

Definition run (evs : list event) (s : st) : st := fold_left step evs s.

(* Check(): Init(); check(expr); OnVisitEnd(); Errs() *)
Definition reported (evs : list event) : list report :=
  s_errs (do_end (run evs st_init)).

End Automaton.

(* ---- the traversal of expr_sema.go ------------------------------------ *)

Definition node_of (e : expr) : node :=
  match e with
  | EVar p n => NVar p n
  | EDeref _ prop => NDeref prop
  | EArrDeref _ => NArrDeref
  | EIndex _ (EStr _ v) => NIndex (Some v)
  | EIndex _ _ => NIndex None
  | ECall _ c _ => NCall c
  | _ => NOther
  end.

(* sema.funcs[strings.ToLower(n.Callee)] is defined *)
Definition known (funcs : list string) (callee : string) : bool :=
  existsb (String.eqb (lower callee)) funcs.

Definition lhs_truthy (op : logop) : bool := match op with LAnd => false | LOr => true end.

(* The two traversals of the Go code that drive the checker are instances of
   one function:
     defd c      the arguments of a call of c are visited
                 (expr_sema.go: checkFuncCall returns early for an undefined function;
                  expr_ast.go visitExprNode: always)
     narrowing   the left operand of && / || goes through checkWithNarrowing
                 (expr_sema.go: true; visitExprNode: false)
   gev None e      callbacks issued by sema.check(e)
   gev (Some t) e  callbacks issued by sema.checkWithNarrowing(e, t): the
                   `!`, `&&`, `||` node handled there gets no callbacks because
                   check() is not entered for it. *)
Section Traversal.
Variable defd : string -> bool.
Variable narrowing : bool.

Fixpoint gev (m : option bool) (e : expr) {struct e} : list event :=
  let std :=
    match e with
    | EVar _ _ | ENull _ | EBool _ _ | EInt _ _ | EFloat _ _ | EStr _ _ =>
        [Enter (node_of e); Leave (node_of e)]
    | EDeref r _ => Enter (node_of e) :: gev None r ++ [Leave (node_of e)]
    | EArrDeref r => Enter (node_of e) :: gev None r ++ [Leave (node_of e)]
    | EIndex o i => Enter (node_of e) :: gev None i ++ gev None o ++ [Leave (node_of e)]
    | ENot _ a => Enter NOther :: gev None a ++ [Leave NOther]
    | ECmp _ l r => Enter NOther :: gev None l ++ gev None r ++ [Leave NOther]
    | ELog op l r =>
        (* checkLogicalOp: checkWithNarrowing(Left, …) then check(Right) *)
        Enter NOther :: gev (if narrowing then Some (lhs_truthy op) else None) l
                     ++ gev None r ++ [Leave NOther]
    | ECall _ c args =>
        Enter (NCall c) :: (if defd c then flat_map (gev None) args else []) ++ [Leave (NCall c)]
    end in
  match m, e with
  | Some t, ELog LAnd l r =>
      if t then gev None l ++ gev None r                     (* sema.check(Left); sema.check(Right) *)
      else gev (Some false) l ++ gev None r                  (* sema.checkLogicalOp(n) *)
  | Some t, ELog LOr l r =>
      if t then gev (Some true) l ++ gev None r
      else gev None l ++ gev None r
  | Some t, ENot _ a => gev (Some (negb t)) a
  | _, _ => std
  end.

End Traversal.

(* expr_sema.go *)
Definition ev (funcs : list string) : option bool -> expr -> list event := gev (known funcs) true.
Definition events (funcs : list string) (e : expr) : list event := ev funcs None e.
Definition narrow_events (funcs : list string) (e : expr) (truthy : bool) : list event := ev funcs (Some truthy) e.


(* VisitExprNode of expr_ast.go (the generic visitor, used by actionlint's own
   tests to drive the checker): every node gets both callbacks, index before
   operand, all arguments. *)
Fixpoint visit_events (e : expr) : list event :=
  match e with
  | EVar _ _ | ENull _ | EBool _ _ | EInt _ _ | EFloat _ _ | EStr _ _ =>
      [Enter (node_of e); Leave (node_of e)]
  | EDeref r _ => Enter (node_of e) :: visit_events r ++ [Leave (node_of e)]
  | EArrDeref r => Enter (node_of e) :: visit_events r ++ [Leave (node_of e)]
  | EIndex o i => Enter (node_of e) :: visit_events i ++ visit_events o ++ [Leave (node_of e)]
  | ENot _ a => Enter NOther :: visit_events a ++ [Leave NOther]
  | ECmp _ l r => Enter NOther :: visit_events l ++ visit_events r ++ [Leave NOther]
  | ELog _ l r => Enter NOther :: visit_events l ++ visit_events r ++ [Leave NOther]
  | ECall _ c args => Enter (NCall c) :: flat_map visit_events args ++ [Leave (NCall c)]
  end.

(* NewExprSemanticsChecker(checkUntrusted, …).Check: the untrusted errors of one
   expression.  [script] is the checkUntrusted flag (checkScriptString passes
   true, checkString false). *)
Definition check_untrusted (fixed : bool) (roots : list utree) (known_funcs : list string)
    (script : bool) (e : expr) : list report :=
  if script then reported fixed roots (events known_funcs e) else [].
