(* Expr/Template.v — how rule_expression.go turns the lexer's
   (line, column, offset) inside a ${{ }} placeholder into a file position:
   checkExprsIn (the loop over the placeholders of one scalar),
   convertExprLineColToPos / exprError, checkString / checkScriptString /
   checkOneExpression / checkIfCondition / checkRawYAMLString, errorAtExpr;
   rule_glob.go globErrors; parse.go posAt / error.go errorAt.

   The lexer + parser + semantic checker behind checkSemantics are abstracted
   into a function [sem] returning the tokens at which diagnostics are raised
   (lexer-relative positions), the class of the resulting type and
   l.Offset(); Expr/PosModel.v supplies the position-faithful instance. *)
From AL Require Import Base.Str Expr.Ast Expr.PosModel.

(* what checkTemplateEvaluatedType looks at *)
Inductive tyclass := TyPlain | TyTmplBad (* *ObjectType, *ArrayType, NullType *).

(* result of checkSemantics(src, ...) / of Parse + checkSemanticsOfExprNode:
   positions of the ExprErrors (all of them are positions of a token or of
   the lexer's look-ahead), the type (None = nil), l.Offset().
   ok = "no error". *)
Record sem_res := mkSem { sr_errs : list spos; sr_ty : option tyclass; sr_after : nat }.
Definition sr_ok (r : sem_res) : bool := match sr_errs r with [] => true | _ => false end.

(* func convertExprLineColToPos(line, col, lineBase, colBase int) *Pos
   { Line: line - 1 + lineBase, Col: col - 1 + colBase }
   (lexer lines/columns are >= 1 — [reach_ge1] — so natural-number
   subtraction agrees with Go's int arithmetic) *)
Definition template_conv (e : spos) (lineBase colBase : nat) : fpos :=
  (sp_line e - 1 + lineBase, sp_col e - 1 + colBase).

Definition tyd := (tyclass * fpos)%type.   (* typedExpr{ty, pos} *)

Record loop_out := mkOut {
  (* diagnostics raised through exprError, in order: (ghost: byte offset of the
     token relative to the scalar text, reported position) *)
  lo_diags : list (nat * fpos);
  (* the []typedExpr result; None when ok = false *)
  lo_ts : option (list tyd);
  (* ghost: the (accumulated offset, remaining string) of every checkSemantics call *)
  lo_calls : list (nat * string);
  lo_fuel : bool                     (* true = the fuel ran out (never: [template_loop_fuel]) *)
}.

Section Loop.
(* first argument: the accumulated offset (the real checkSemantics does not
   receive it; it lets an instance select planted tokens by scalar offset) *)
Variable sem : nat -> string -> sem_res.

(* the for-loop of checkExprsIn; [col] already includes the +1 for quoted scalars *)
Fixpoint template_loop (fuel : nat) (s : string) (offset line col : nat) (ts : list tyd) : loop_out :=
  match fuel with
  | O => mkOut [] None [] true
  | S f =>
      match str_index "${{" s with
      | None => mkOut [] (Some ts) [] false                      (* idx == -1: break *)
      | Some idx =>
          let start := idx + 3 in                                  (* 3 means removing "${{" *)
          let s1 := pos_skip start s in                            (* s = s[start:] *)
          let offset1 := offset + start in                         (* offset += start *)
          let col1 := col + offset1 in                             (* col := col + offset *)
          let r := sem offset1 s1 in
          let diags := map (fun e => (offset1 + sp_off e, template_conv e line col1)) (sr_errs r) in
          if negb (sr_ok r) then mkOut diags None [(offset1, s1)] false      (* return nil, false *)
          else
            match sr_ty r with
            | None => mkOut [] (Some []) [(offset1, s1)] false               (* return nil, true *)
            | Some ty =>
                if sr_after r =? 0 then mkOut [] (Some []) [(offset1, s1)] false
                else
                  let o := template_loop f (pos_skip (sr_after r) s1) (offset1 + sr_after r) line col
                                         (ts ++ [(ty, (line, col1 - 3))]) in
                  mkOut (lo_diags o) (lo_ts o) ((offset1, s1) :: lo_calls o) (lo_fuel o)
            end
      end
  end.

(* func (rule *RuleExpression) checkExprsIn(s string, pos *Pos, quoted, ...) *)
Definition check_exprs_in (s : string) (line col : nat) (quoted : bool) : loop_out :=
  let col := if quoted then S col else col in
  template_loop (S (String.length s)) s 0 line col [].

(* ast.String *)
Record ystr := mkYstr { ys_val : string; ys_quoted : bool; ys_line : nat; ys_col : nat }.

(* checkTemplateEvaluatedType: rule.Errorf(&t.pos, ...) for object/array/null *)
Definition template_type_diags (ts : list tyd) : list fpos :=
  map snd (filter (fun t => match fst t with TyTmplBad => true | TyPlain => false end) ts).

(* checkString / checkScriptString (they differ in checkUntrusted only, which
   lives inside [sem]) *)
Definition check_string (y : ystr) : list fpos :=
  let o := check_exprs_in (ys_val y) (ys_line y) (ys_col y) (ys_quoted y) in
  map snd (lo_diags o) ++
  match lo_ts o with Some ts => template_type_diags ts | None => [] end.

(* checkOneExpression *)
Definition check_one_expression (y : ystr) : list fpos :=
  let o := check_exprs_in (ys_val y) (ys_line y) (ys_col y) (ys_quoted y) in
  map snd (lo_diags o) ++
  match lo_ts o with
  | Some ts => if List.length ts =? 1 then [] else [(ys_line y, ys_col y)]
  | None => []
  end.

(* checkIfCondition, expression diagnostics only (the "if condition should be
   bool" diagnostic is a value diagnostic at str.Pos).
   [fixed] = with repo_patches/pos/01 (col++ when quoted). *)
Definition check_if_condition_gen (fixed : bool) (y : ystr) : list fpos :=
  if contains_expr (ys_val y) then check_string y
  else
    let src := (ys_val y ++ "}}")%string in
    let col := if andb fixed (ys_quoted y) then S (ys_col y) else ys_col y in
    map (fun e => template_conv e (ys_line y) col) (sr_errs (sem 0 src)).

Definition check_if_condition := check_if_condition_gen true.
Definition check_if_condition_old := check_if_condition_gen false.

(* checkRawYAMLString (matrix values).  [fixed] = with repo_patches/pos/02
   (RawYAMLString carries Quoted); without it false is passed. *)
Definition check_raw_yaml_string_gen (fixed : bool) (y : ystr) : list fpos :=
  let o := check_exprs_in (ys_val y) (ys_line y) (ys_col y) (andb fixed (ys_quoted y)) in
  map snd (lo_diags o).

(* The code as it is passes quoted = false (RawYAMLString has no Quoted flag).
   The repair (repo_patches/pos/02) adds a struct field, which breaks an
   unkeyed composite literal in the project's own test-suite, so it is NOT
   applied: recorded finding, see known_findings.d/C07.json. *)
Definition check_raw_yaml_string := check_raw_yaml_string_gen false.
Definition check_raw_yaml_string_repaired := check_raw_yaml_string_gen true.

End Loop.

(* ------------------------------------------------------------------ *)
(* errorAtToken (parser) and errorAtExpr (semantic checker): the ExprError
   carries Offset/Line/Column of a token unchanged; for an expression node it
   is the node's Token(), Ast.etok. *)
Definition spos_of_tpos (t : tpos) : spos :=
  mkSpos (N.to_nat (t_off t)) (N.to_nat (t_line t)) (N.to_nat (t_col t)).

Definition error_at_token (t : spos) : spos := t.
Definition error_at_expr (e : expr) : spos := spos_of_tpos (etok e).

(* every token position stored in a tree *)
Fixpoint expr_toks (e : expr) : list tpos :=
  match e with
  | EVar p _ | ENull p | EBool p _ | EInt p _ | EFloat p _ | EStr p _ => [p]
  | EDeref r _ | EArrDeref r => expr_toks r
  | EIndex o i => expr_toks o ++ expr_toks i
  | ENot p e => p :: expr_toks e
  | ECmp _ l r | ELog _ l r => expr_toks l ++ expr_toks r
  | ECall p _ args => p :: flat_map expr_toks args
  end.

(* ------------------------------------------------------------------ *)
(* The position-faithful instance of [sem]: PosLex finds token starts, the end
   marker and the first lexing error; which tokens carry a parser/semantic
   diagnostic ([os], scalar-relative byte offsets) and which placeholders
   evaluate to object/array/null ([tb], offsets of their "${{") is given. *)
Definition pos_sem (os tb : list nat) (off : nat) (src : string) : sem_res :=
  match pos_lex_all src with
  | LAErr _ e => mkSem [e] None 0
  | LAFuel => mkSem [] None 0
  | LAOk toks after =>
      mkSem (filter (fun t => existsb (Nat.eqb (off + sp_off t)) os) (map fst toks))
            (Some (if existsb (Nat.eqb (off - 3)) tb then TyTmplBad else TyPlain))
            after
  end.

(* ------------------------------------------------------------------ *)
(* rule_glob.go globErrors: p := *pos; if quoted { p.Col++ };
   if err.Column != 0 { p.Col += err.Column - 1 } *)
Definition glob_errors (cols : list nat) (line col : nat) (quoted : bool) : list fpos :=
  map (fun c =>
         let col1 := if quoted then S col else col in
         (line, if c =? 0 then col1 else col1 + (c - 1))) cols.

(* parse.go posAt(n) = &Pos{n.Line, n.Column};
   p.errorf(n, ...) = &Error{m, "", n.Line, n.Column, ...};
   error.go errorAt/errorfAt: Line: pos.Line, Column: pos.Col *)
Definition pos_at_node (n : fpos) : fpos := (fst n, snd n).
Definition error_at (p : fpos) : fpos := (fst p, snd p).
Definition key_diag (key_node : fpos) : fpos := error_at (pos_at_node key_node).
Definition value_diag (val_node : fpos) : fpos := error_at (pos_at_node val_node).
