(* Expr/LexerSpec.v — declarative token specification of the expression
   language (written from the documentation, not from expr_lexer.go):

     whitespace   ' ' '\t' '\r' '\n' between tokens
     IDENT        [A-Za-z_][A-Za-z0-9_-]*
     STRING       ' body '      body ::= ( any char but ' | '' )*       ('' is the only escape)
     INT / FLOAT  JSON number  -?(0|[1-9][0-9]* )(\.[0-9]+)?([eE][+-]?[0-9]+)?   (FLOAT iff a
                  fraction or an exponent is present), or  -?0x[0-9a-fA-F]+  (INT)
     operators    ( ) [ ] . * , ! != < <= > >= == && ||
     `}}`         ends the token sequence

   and the follow conditions that make the tokenisation unique (longest match,
   numbers and identifiers are delimited).

   Two parameters describe the dialects: [strict] = digit sequences of the
   exponent and of a hex literal must not have a leading zero (what
   expr_lexer.go implements and its test-suite pins; the documented language
   is [strict = false]); [plus] = a '+' sign is allowed in the exponent (false:
   the code before repo_patches/lexparse/01-fix). *)
From AL Require Export Expr.Lexer.
Local Open Scope string_scope.

Fixpoint str_forall (p : ascii -> bool) (s : string) : bool :=
  match s with
  | EmptyString => true
  | String c r => p c && str_forall p r
  end.

Definition fnot (p : ascii -> bool) : ascii -> bool := fun c => negb (p c).

(* the string is empty or its first character satisfies q *)
Definition hd_ok (q : ascii -> bool) (s : string) : Prop :=
  match s with
  | EmptyString => True
  | String c _ => q c = true
  end.

Definition ident_lexeme (s : string) : Prop :=
  exists c r, s = String c r /\ is_ident_start c = true /\ str_forall is_ident_char r = true.

Inductive str_body : string -> Prop :=
| SB_nil : str_body EmptyString
| SB_char c r : c <> "'"%char -> str_body r -> str_body (String c r)
| SB_esc r : str_body r -> str_body (String "'" (String "'" r)).

Definition string_lexeme (s : string) : Prop :=
  exists body, s = String "'" (body ++ "'") /\ str_body body.

Definition sign (s : string) : Prop := s = "" \/ s = "-".
Definition digits1 (isd : ascii -> bool) (s : string) : Prop := s <> "" /\ str_forall isd s = true.
Definition nolead (isd : ascii -> bool) (s : string) : Prop :=
  s = "0" \/ exists c r, s = String c r /\ isd c = true /\ c <> "0"%char /\ str_forall isd r = true.
Definition dseq (strict : bool) (isd : ascii -> bool) (s : string) : Prop :=
  if strict then nolead isd s else digits1 isd s.
Definition frac (s : string) : Prop := s = "" \/ exists ds, s = String "." ds /\ digits1 is_num ds.
Definition esign (plus : bool) (s : string) : Prop := s = "" \/ s = "-" \/ (plus = true /\ s = "+").
Definition expo (strict plus : bool) (s : string) : Prop :=
  s = "" \/ exists e sg ds, s = String e (sg ++ ds) /\ (e = "e"%char \/ e = "E"%char) /\
                            esign plus sg /\ dseq strict is_num ds.

Inductive num_lexeme (strict plus : bool) : tkind -> string -> Prop :=
| NL_hex sg ds : sign sg -> dseq strict is_hexnum ds -> num_lexeme strict plus TInt (sg ++ "0x" ++ ds)
| NL_dec sg ip fr ex : sign sg -> nolead is_num ip -> frac fr -> expo strict plus ex ->
    num_lexeme strict plus (match fr, ex with EmptyString, EmptyString => TInt | _, _ => TFloat end)
               (sg ++ ip ++ fr ++ ex).

Definition op_lexeme (k : tkind) (s : string) : Prop :=
  match k with
  | TLParen => s = "(" | TRParen => s = ")" | TLBracket => s = "[" | TRBracket => s = "]"
  | TDot => s = "." | TStar => s = "*" | TComma => s = ","
  | TNot => s = "!" | TNotEq => s = "!=" | TLess => s = "<" | TLessEq => s = "<="
  | TGreater => s = ">" | TGreaterEq => s = ">=" | TEq => s = "==" | TAnd => s = "&&" | TOr => s = "||"
  | _ => False
  end.

Definition lexeme (strict plus : bool) (k : tkind) (s : string) : Prop :=
  match k with
  | TIdent => ident_lexeme s
  | TString => string_lexeme s
  | TInt | TFloat => num_lexeme strict plus k s
  | _ => op_lexeme k s
  end.

(* what may follow a lexeme (longest match; numbers must be delimited; a plain
   decimal integer followed by '.' is the beginning of a fraction) *)
Definition follow_ok (k : tkind) (lx rest : string) : Prop :=
  match k with
  | TIdent => hd_ok (fnot is_ident_char) rest
  | TInt => hd_ok (fnot is_alnum) rest /\
            (str_forall (fnot (is_c 120)) lx = true -> hd_ok (fnot (is_c 46)) rest)
  | TFloat => hd_ok (fnot is_alnum) rest
  | TString => hd_ok (fnot (is_c 39)) rest
  | TNot | TLess | TGreater => hd_ok (fnot (is_c 61)) rest
  | _ => True
  end.

(* tokenises p src ts e a: starting at position p, src consists of the tokens
   ts (with their positions), then `}}` at position e; a is the position after
   the end marker; whatever follows it is not looked at *)
Inductive tokenises (strict plus : bool) : tpos -> string -> list token -> tpos -> tpos -> Prop :=
| TK_end p ws tail :
    str_forall is_ws ws = true ->
    tokenises strict plus p (ws ++ "}}" ++ tail) [] (adv_str p ws) (adv_str p (ws ++ "}}"))
| TK_tok p ws k lx rest ts e a :
    str_forall is_ws ws = true -> lexeme strict plus k lx -> follow_ok k lx rest ->
    tokenises strict plus (adv_str p (ws ++ lx)) rest ts e a ->
    tokenises strict plus p (ws ++ lx ++ rest) (mkTok k lx (adv_str p ws) :: ts) e a.

(* the token's text is the slice of the source at its offset *)
Definition tok_at (src : string) (t : token) : Prop :=
  substring (N.to_nat (tk_off t)) (String.length (tk_val t)) src = tk_val t.
