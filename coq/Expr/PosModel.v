(* Expr/PosModel.v — position bookkeeping of the expression lexer
   (expr_lexer.go on top of text/scanner): byte offset, line, column counted
   in characters.  A minimal, position-only model of the lexer ("PosLex"):
   it mirrors which bytes every lexing function consumes and where it reads
   [scan.Pos()], i.e. token starts, the end marker, and the position of the
   first lexing error.  Token kinds/values are not modelled (that is C04's
   Expr/Lexer.v; this file does not depend on it). *)
From AL Require Import Base.Str.

(* A position in the file: (line, column), both 1-based. *)
Definition fpos := (nat * nat)%type.

(* text/scanner.Position of the look-ahead character: Offset (bytes), Line,
   Column (characters, 1-based). *)
Record spos := mkSpos { sp_off : nat; sp_line : nat; sp_col : nat }.

(* NewExprLexer: start: scanner.Position{Offset: 0, Line: 1, Column: 1} *)
Definition sp_start : spos := mkSpos 0 1 1.

Definition pos_nl : ascii := "010"%char.

(* UTF-8 continuation byte 10xxxxxx: belongs to the character that started
   before it, does not advance the column. *)
Definition pos_is_cont (c : ascii) : bool :=
  let n := nat_of_ascii c in andb (128 <=? n) (n <? 192).

(* scanner.next(): srcPos += width; column++; on '\n': line++, column = 0
   (then Pos() reports the character after it at column 1 of the next line).
   The model steps byte-wise; positions are only read at character
   boundaries, where byte-wise and rune-wise stepping agree. *)
Definition sp_step (p : spos) (c : ascii) : spos :=
  if Ascii.eqb c pos_nl then mkSpos (S (sp_off p)) (S (sp_line p)) 1
  else if pos_is_cont c then mkSpos (S (sp_off p)) (sp_line p) (sp_col p)
  else mkSpos (S (sp_off p)) (sp_line p) (S (sp_col p)).

(* Pos() after the bytes of [pre] have been consumed, starting from [p]. *)
Fixpoint sp_fold (p : spos) (pre : string) : spos :=
  match pre with
  | EmptyString => p
  | String c r => sp_fold (sp_step p c) r
  end.

(* Pos() after the first [n] bytes of [s] *)
Fixpoint sp_run (p : spos) (n : nat) (s : string) : spos :=
  match n, s with
  | S n', String c s' => sp_run (sp_step p c) n' s'
  | _, _ => p
  end.

(* position (relative to the start of [s]) of the byte at offset [o] *)
Definition pos_at (s : string) (o : nat) : spos := sp_run sp_start o s.

(* s[n:] *)
Fixpoint pos_skip (n : nat) (s : string) : string :=
  match n, s with
  | S n', String _ s' => pos_skip n' s'
  | _, _ => s
  end.

(* ------------------------------------------------------------------ *)
(* character classes of expr_lexer.go *)

Definition pos_in (lo hi : nat) (c : ascii) : bool :=
  let n := nat_of_ascii c in andb (lo <=? n) (n <=? hi).

Definition pos_is_white (c : ascii) : bool :=
  let n := nat_of_ascii c in
  orb (orb (n =? 32) (n =? 10)) (orb (n =? 13) (n =? 9)).
Definition pos_is_alpha (c : ascii) : bool := orb (pos_in 97 122 c) (pos_in 65 90 c).
Definition pos_is_num (c : ascii) : bool := pos_in 48 57 c.
Definition pos_is_hex (c : ascii) : bool :=
  orb (pos_is_num c) (orb (pos_in 97 102 c) (pos_in 65 70 c)).
Definition pos_is_alnum (c : ascii) : bool := orb (pos_is_alpha c) (pos_is_num c).
(* lexIdent continues over a-z A-Z 0-9 _ - *)
Definition pos_is_identc (c : ascii) : bool :=
  orb (pos_is_alnum c) (orb (Ascii.eqb c "_"%char) (Ascii.eqb c "-"%char)).

(* ------------------------------------------------------------------ *)
(* the lexer; a state is (unread input, Pos()) *)

Inductive lexres :=
| LTok (start : spos) (is_end : bool) (rest : string) (p : spos)
| LErr (at_ : spos).

(* for { r = eat(); if !f(r) break } *)
Fixpoint pos_eat_while (f : ascii -> bool) (s : string) (p : spos) : string * spos :=
  match s with
  | String c s' => if f c then pos_eat_while f s' (sp_step p c) else (s, p)
  | EmptyString => (s, p)
  end.

(* tail of lexNum / lexHexInt: if isAlnum(r) { unexpected } else token *)
Definition pos_num_end (s : string) (p start : spos) : lexres :=
  match s with
  | String c _ => if pos_is_alnum c then LErr p else LTok start false s p
  | EmptyString => LTok start false s p
  end.

(* exponent part *)
Definition pos_num_exp (s : string) (p start : spos) : lexres :=
  match s with
  | String c r =>
      if orb (Ascii.eqb c "e"%char) (Ascii.eqb c "E"%char) then
        let p1 := sp_step p c in
        let '(s1, p1) :=
          match r with
          | String "-"%char r' => (r', sp_step p1 "-"%char)
          | _ => (r, p1)
          end in
        match s1 with
        | String "0"%char r0 => pos_num_end r0 (sp_step p1 "0"%char) start
        | String d _ =>
            if pos_is_num d then
              let '(s2, p2) := pos_eat_while pos_is_num s1 p1 in pos_num_end s2 p2 start
            else LErr p1
        | EmptyString => LErr p1
        end
      else pos_num_end s p start
  | EmptyString => pos_num_end s p start
  end.

(* fraction part *)
Definition pos_num_frac (s : string) (p start : spos) : lexres :=
  match s with
  | String "."%char r =>
      let p1 := sp_step p "."%char in
      match r with
      | String d _ =>
          if pos_is_num d then
            let '(s2, p2) := pos_eat_while pos_is_num r p1 in pos_num_exp s2 p2 start
          else LErr p1
      | EmptyString => LErr p1
      end
  | _ => pos_num_exp s p start
  end.

(* lexHexInt, entered after "0x" has been consumed *)
Definition pos_lex_hex (s : string) (p start : spos) : lexres :=
  match s with
  | String "0"%char r => pos_num_end r (sp_step p "0"%char) start
  | String c _ =>
      if pos_is_hex c then
        let '(s1, p1) := pos_eat_while pos_is_hex s p in pos_num_end s1 p1 start
      else LErr p
  | EmptyString => LErr p
  end.

(* lexNum; precondition: the look-ahead is a digit or '-' *)
Definition pos_lex_num (s : string) (p start : spos) : lexres :=
  let '(s, p) :=
    match s with
    | String "-"%char r => (r, sp_step p "-"%char)
    | _ => (s, p)
    end in
  match s with
  | String "0"%char r0 =>
      let p0 := sp_step p "0"%char in
      match r0 with
      | String "x"%char rx => pos_lex_hex rx (sp_step p0 "x"%char) start
      | _ => pos_num_frac r0 p0 start
      end
  | String c _ =>
      if pos_is_num c then
        let '(s1, p1) := pos_eat_while pos_is_num s p in pos_num_frac s1 p1 start
      else LErr p
  | EmptyString => LErr p
  end.

(* lexString; [s] is the input after the opening quote *)
Fixpoint pos_lex_str (s : string) (p start : spos) : lexres :=
  match s with
  | EmptyString => LErr p
  | String c r =>
      if Ascii.eqb c "'"%char then
        match r with
        | String c2 r' =>
            if Ascii.eqb c2 "'"%char
            then pos_lex_str r' (sp_step (sp_step p c) c2) start      (* '' escape *)
            else LTok start false r (sp_step p c)
        | EmptyString => LTok start false r (sp_step p c)
        end
      else pos_lex_str r (sp_step p c) start
  end.

(* one- or two-character operator: the second character is optional
   (lexLess, lexGreater, lexBang) *)
Definition pos_lex_opt (second : ascii) (r : string) (p1 start : spos) : lexres :=
  match r with
  | String c r' =>
      if Ascii.eqb c second then LTok start false r' (sp_step p1 c) else LTok start false r p1
  | EmptyString => LTok start false r p1
  end.

(* the second character is required (lexEq, lexAnd, lexOr, lexEnd) *)
Definition pos_lex_req (second : ascii) (is_end : bool) (r : string) (p1 start : spos) : lexres :=
  match r with
  | String c r' =>
      if Ascii.eqb c second then LTok start is_end r' (sp_step p1 c) else LErr p1
  | EmptyString => LErr p1
  end.

Definition pos_single (c : ascii) : bool :=
  existsb (Ascii.eqb c) ["("; ")"; "["; "]"; "."; "*"; ","]%char.

(* ExprLexer.Next *)
Definition pos_lex_next (s : string) (p : spos) : lexres :=
  let '(s1, p1) := pos_eat_while pos_is_white s p in       (* skipWhite; lex.start = Pos() *)
  match s1 with
  | EmptyString => LErr p1                                  (* unexpectedEOF *)
  | String c r =>
      let p2 := sp_step p1 c in
      if orb (pos_is_alpha c) (Ascii.eqb c "_"%char) then
        let '(s2, p3) := pos_eat_while pos_is_identc r p2 in LTok p1 false s2 p3
      else if orb (pos_is_num c) (Ascii.eqb c "-"%char) then pos_lex_num s1 p1 p1
      else if Ascii.eqb c "'"%char then pos_lex_str r p2 p1
      else if Ascii.eqb c "}"%char then pos_lex_req "}"%char true r p2 p1
      else if Ascii.eqb c "!"%char then pos_lex_opt "="%char r p2 p1
      else if Ascii.eqb c "<"%char then pos_lex_opt "="%char r p2 p1
      else if Ascii.eqb c ">"%char then pos_lex_opt "="%char r p2 p1
      else if Ascii.eqb c "="%char then pos_lex_req "="%char false r p2 p1
      else if Ascii.eqb c "&"%char then pos_lex_req "&"%char false r p2 p1
      else if Ascii.eqb c "|"%char then pos_lex_req "|"%char false r p2 p1
      else if pos_single c then LTok p1 false r p2
      else LErr p1
  end.

(* LexExpression: all tokens up to and including the end marker, or the
   first error.  Result: token starts (with the is-end flag), then either the
   offset after the end marker (Offset()) or the error position. *)
Inductive lexall :=
| LAOk (toks : list (spos * bool)) (after : nat)
| LAErr (toks : list (spos * bool)) (at_ : spos)
| LAFuel.

Fixpoint pos_lex_loop (fuel : nat) (s : string) (p : spos) (acc : list (spos * bool)) : lexall :=
  match fuel with
  | O => LAFuel
  | S f =>
      match pos_lex_next s p with
      | LErr e => LAErr (rev acc) e
      | LTok st true _ p' => LAOk (rev ((st, true) :: acc)) (sp_off p')
      | LTok st false s' p' => pos_lex_loop f s' p' ((st, false) :: acc)
      end
  end.

Definition pos_lex_all (src : string) : lexall :=
  pos_lex_loop (S (String.length src)) src sp_start [].
