(* Expr/PosModel.v — position bookkeeping of the expression lexer
   (expr_lexer.go on top of text/scanner): byte offset, line, column counted
   in characters.  A minimal, position-only model of the lexer ("PosLex"):
   it mirrors which bytes every lexing function consumes and where it reads
   [scan.Pos()], i.e. token starts, the end marker, and the position of the
   first lexing error.  Token kinds/values are not modelled (that is C04's
   Expr/Lexer.v; this file does not depend on it). *)
From AL Require Import Base.Str.

(* A position in the file: (line, column), both 1-based. *)
Definition fpos := (nat * nat)%type.

(* text/scanner.Position of the look-ahead character: Offset (bytes), Line,
   Column (characters, 1-based). *)
Record spos := mkSpos { sp_off : nat; sp_line : nat; sp_col : nat }.

(* NewExprLexer: start: scanner.Position{Offset: 0, Line: 1, Column: 1} *)
Definition sp_start : spos := mkSpos 0 1 1.

Definition pos_nl : ascii := "010"%char.

(* UTF-8 continuation byte 10xxxxxx: belongs to the character that started
   before it, does not advance the column. *)
Definition pos_is_cont (c : ascii) : bool :=
  let n := nat_of_ascii c in andb (128 <=? n) (n <? 192).

(* scanner.next(): srcPos += width; column++; on '\n': line++, column = 0
   (then Pos() reports the character after it at column 1 of the next line).
   The model steps byte-wise; positions are only read at character
   boundaries, where byte-wise and rune-wise stepping agree. *)
Definition sp_step (p : spos) (c : ascii) : spos :=
  if Ascii.eqb c pos_nl then mkSpos (S (sp_off p)) (S (sp_line p)) 1
  else if pos_is_cont c then mkSpos (S (sp_off p)) (sp_line p) (sp_col p)
  else mkSpos (S (sp_off p)) (sp_line p) (S (sp_col p)).

(* Pos() after the bytes of [pre] have been consumed, starting from [p]. *)
Fixpoint sp_fold (p : spos) (pre : string) : spos :=
  match pre with
  | EmptyString => p
  | String c r => sp_fold (sp_step p c) r
  end.

(* Pos() after the first [n] bytes of [s] *)
Fixpoint sp_run (p : spos) (n : nat) (s : string) : spos :=
  match n, s with
  | S n', String c s' => sp_run (sp_step p c) n' s'
  | _, _ => p
  end.

(* position (relative to the start of [s]) of the byte at offset [o] *)
Definition pos_at (s : string) (o : nat) : spos := sp_run sp_start o s.

(* s[n:] *)
Fixpoint pos_skip (n : nat) (s : string) : string :=
  match n, s with
  | S n', String _ s' => pos_skip n' s'
  | _, _ => s
  end.

(* ------------------------------------------------------------------ *)
(* character classes of expr_lexer.go *)

Definition pos_in (lo hi : nat) (c : ascii) : bool :=
  let n := nat_of_ascii c in andb (lo <=? n) (n <=? hi).

Definition pos_is_white (c : ascii) : bool :=
  let n := nat_of_ascii c in
  orb (orb (n =? 32) (n =? 10)) (orb (n =? 13) (n =? 9)).
Definition pos_is_alpha (c : ascii) : bool := orb (pos_in 97 122 c) (pos_in 65 90 c).
Definition pos_is_num (c : ascii) : bool := pos_in 48 57 c.
Definition pos_is_hex (c : ascii) : bool :=
  orb (pos_is_num c) (orb (pos_in 97 102 c) (pos_in 65 70 c)).
Definition pos_is_alnum (c : ascii) : bool := orb (pos_is_alpha c) (pos_is_num c).
(* lexIdent continues over a-z A-Z 0-9 _ - *)
Definition pos_is_identc (c : ascii) : bool :=
  orb (pos_is_alnum c) (orb (Ascii.eqb c "_"%char) (Ascii.eqb c "-"%char)).

(* ------------------------------------------------------------------ *)
(* the lexer; a scanner state is (unread input, Pos()) *)

Definition lx := (string * spos)%type.

Inductive lexres :=
| LTok (start : spos) (is_end : bool) (st : lx)
| LErr (at_ : spos).

(* scan.Next() *)
Definition pos_eat1 (st : lx) : lx :=
  match fst st with
  | String c r => (r, sp_step (snd st) c)
  | EmptyString => st
  end.

(* scan.Peek() == c *)
Definition pos_peek_is (c : ascii) (st : lx) : bool :=
  match fst st with String c' _ => Ascii.eqb c' c | EmptyString => false end.

(* f(scan.Peek()), false at EOF *)
Definition pos_peek_in (f : ascii -> bool) (st : lx) : bool :=
  match fst st with String c' _ => f c' | EmptyString => false end.

(* if r == c { r = lex.eat() } *)
Definition pos_eat_if (c : ascii) (st : lx) : lx :=
  if pos_peek_is c st then pos_eat1 st else st.

(* for { r = eat(); if !f(r) break } *)
Fixpoint pos_eat_while_s (f : ascii -> bool) (s : string) (p : spos) : lx :=
  match s with
  | String c s' => if f c then pos_eat_while_s f s' (sp_step p c) else (s, p)
  | EmptyString => (s, p)
  end.
Definition pos_eat_while (f : ascii -> bool) (st : lx) : lx := pos_eat_while_s f (fst st) (snd st).

(* tail of lexNum / lexHexInt: if isAlnum(r) { unexpected } else token *)
Definition pos_num_end (st : lx) (start : spos) : lexres :=
  if pos_peek_in pos_is_alnum st then LErr (snd st) else LTok start false st.

(* exponent part *)
Definition pos_num_exp (st : lx) (start : spos) : lexres :=
  if orb (pos_peek_is "e"%char st) (pos_peek_is "E"%char st) then
    let st1 := pos_eat_if "-"%char (pos_eat1 st) in
    if pos_peek_is "0"%char st1 then pos_num_end (pos_eat1 st1) start
    else if pos_peek_in pos_is_num st1 then pos_num_end (pos_eat_while pos_is_num st1) start
    else LErr (snd st1)
  else pos_num_end st start.

(* fraction part *)
Definition pos_num_frac (st : lx) (start : spos) : lexres :=
  if pos_peek_is "."%char st then
    let st1 := pos_eat1 st in
    if pos_peek_in pos_is_num st1 then pos_num_exp (pos_eat_while pos_is_num st1) start
    else LErr (snd st1)
  else pos_num_exp st start.

(* lexHexInt, entered after "0x" has been consumed *)
Definition pos_lex_hex (st : lx) (start : spos) : lexres :=
  if pos_peek_is "0"%char st then pos_num_end (pos_eat1 st) start
  else if pos_peek_in pos_is_hex st then pos_num_end (pos_eat_while pos_is_hex st) start
  else LErr (snd st).

(* lexNum; precondition: the look-ahead is a digit or '-' *)
Definition pos_lex_num (st : lx) (start : spos) : lexres :=
  let st0 := pos_eat_if "-"%char st in
  if pos_peek_is "0"%char st0 then
    let st1 := pos_eat1 st0 in
    if pos_peek_is "x"%char st1 then pos_lex_hex (pos_eat1 st1) start
    else pos_num_frac st1 start
  else if pos_peek_in pos_is_num st0 then pos_num_frac (pos_eat_while pos_is_num st0) start
  else LErr (snd st0).

(* lexString; [s] is the input after the opening quote *)
Fixpoint pos_lex_str (s : string) (p start : spos) : lexres :=
  match s with
  | EmptyString => LErr p
  | String c r =>
      if Ascii.eqb c "'"%char then
        match r with
        | String c2 r' =>
            if Ascii.eqb c2 "'"%char
            then pos_lex_str r' (sp_step (sp_step p c) c2) start      (* '' escape *)
            else LTok start false (r, sp_step p c)
        | EmptyString => LTok start false (r, sp_step p c)
        end
      else pos_lex_str r (sp_step p c) start
  end.

(* one- or two-character operator: the second character is optional
   (lexLess, lexGreater, lexBang) *)
Definition pos_lex_opt (second : ascii) (st1 : lx) (start : spos) : lexres :=
  LTok start false (pos_eat_if second st1).

(* the second character is required (lexEq, lexAnd, lexOr, lexEnd) *)
Definition pos_lex_req (second : ascii) (is_end : bool) (st1 : lx) (start : spos) : lexres :=
  if pos_peek_is second st1 then LTok start is_end (pos_eat1 st1) else LErr (snd st1).

Definition pos_single (c : ascii) : bool :=
  existsb (Ascii.eqb c) ["("; ")"; "["; "]"; "."; "*"; ","]%char.

(* ExprLexer.Next *)
Definition pos_lex_next (st : lx) : lexres :=
  let st1 := pos_eat_while pos_is_white st in       (* skipWhite; lex.start = Pos() *)
  let start := snd st1 in
  match fst st1 with
  | EmptyString => LErr start                        (* unexpectedEOF *)
  | String c _ =>
      let st2 := pos_eat1 st1 in
      if orb (pos_is_alpha c) (Ascii.eqb c "_"%char) then LTok start false (pos_eat_while pos_is_identc st2)
      else if orb (pos_is_num c) (Ascii.eqb c "-"%char) then pos_lex_num st1 start
      else if Ascii.eqb c "'"%char then pos_lex_str (fst st2) (snd st2) start
      else if Ascii.eqb c "}"%char then pos_lex_req "}"%char true st2 start
      else if Ascii.eqb c "!"%char then pos_lex_opt "="%char st2 start
      else if Ascii.eqb c "<"%char then pos_lex_opt "="%char st2 start
      else if Ascii.eqb c ">"%char then pos_lex_opt "="%char st2 start
      else if Ascii.eqb c "="%char then pos_lex_req "="%char false st2 start
      else if Ascii.eqb c "&"%char then pos_lex_req "&"%char false st2 start
      else if Ascii.eqb c "|"%char then pos_lex_req "|"%char false st2 start
      else if pos_single c then LTok start false st2
      else LErr start
  end.

(* LexExpression: all tokens up to and including the end marker, or the
   first error.  Result: token starts (with the is-end flag), then either the
   offset after the end marker (Offset()) or the error position. *)
Inductive lexall :=
| LAOk (toks : list (spos * bool)) (after : nat)
| LAErr (toks : list (spos * bool)) (at_ : spos)
| LAFuel.

Fixpoint pos_lex_loop (fuel : nat) (st : lx) (acc : list (spos * bool)) : lexall :=
  match fuel with
  | O => LAFuel
  | S f =>
      match pos_lex_next st with
      | LErr e => LAErr (rev acc) e
      | LTok t true st' => LAOk (rev ((t, true) :: acc)) (sp_off (snd st'))
      | LTok t false st' => pos_lex_loop f st' ((t, false) :: acc)
      end
  end.

Definition pos_lex_all (src : string) : lexall :=
  pos_lex_loop (S (String.length src)) (src, sp_start) [].
