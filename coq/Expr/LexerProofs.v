(* Expr/LexerProofs.v — the lexer model is sound and complete for the token
   specification of LexerSpec.v (dialect strict = true), token offsets are
   byte indices into the source, the fuel of lex_all suffices, STRING tokens
   are never shorter than two bytes (so parseString cannot panic). *)
From AL Require Import Expr.LexerSpec.
From Coq Require Import Lia.
Local Open Scope string_scope.

Ltac inv H := inversion H; subst; clear H.

(* ------------------------------------------------------------ strings *)
Lemma sapp_nil_r s : s ++ "" = s.
Proof. induction s; cbn; congruence. Qed.
Lemma sapp_assoc a b c : (a ++ b) ++ c = a ++ (b ++ c).
Proof. induction a; cbn; congruence. Qed.
Ltac sa := cbn; rewrite ?sapp_assoc; cbn; rewrite ?sapp_assoc; reflexivity.
Lemma slen_app a b : String.length (a ++ b) = String.length a + String.length b.
Proof. induction a; cbn; congruence. Qed.
Lemma str_forall_app p a b : str_forall p (a ++ b) = str_forall p a && str_forall p b.
Proof. induction a; cbn; [reflexivity|]. rewrite IHa. now rewrite andb_assoc. Qed.

Lemma span_sound p s a b : span p s = (a, b) -> s = a ++ b /\ str_forall p a = true /\ hd_ok (fnot p) b.
Proof.
  revert a b. induction s as [|c r IH]; intros a b H; cbn in H.
  - inv H. cbn. auto.
  - destruct (p c) eqn:E.
    + destruct (span p r) as [a' b'] eqn:S. inv H.
      destruct (IH _ _ eq_refl) as (-> & F & Hd). cbn. rewrite E, F. auto.
    + inv H. cbn. unfold fnot. rewrite E. auto.
Qed.

Lemma span_complete p a b : str_forall p a = true -> hd_ok (fnot p) b -> span p (a ++ b) = (a, b).
Proof.
  induction a as [|c r IH]; cbn; intros F Hd.
  - destruct b as [|c b']; cbn; [reflexivity|]. cbn in Hd. unfold fnot in Hd.
    destruct (p c); [discriminate|reflexivity].
  - apply andb_prop in F. destruct F as (F1 & F2). rewrite F1, (IH F2 Hd). reflexivity.
Qed.

(* ------------------------------------------------------------ characters *)
Lemma is_c_true n c : is_c n c = true -> c = ascii_of_nat n.
Proof.
  unfold is_c, ch. intros H. apply Nat.eqb_eq in H. rewrite <- H. now rewrite ascii_nat_embedding.
Qed.

Ltac ascii_cases c :=
  destruct c as [[] [] [] [] [] [] [] []]; vm_compute; try reflexivity; try discriminate; auto.

Definition is_e (c : ascii) : bool := is_c 101 c || is_c 69 c.

Lemma e_alnum c : is_e c = true -> is_alnum c = true.
Proof. ascii_cases c. Qed.
Lemma num_alnum c : is_num c = true -> is_alnum c = true.
Proof. ascii_cases c. Qed.
Lemma hex_alnum c : is_hexnum c = true -> is_alnum c = true.
Proof. ascii_cases c. Qed.
Lemma num_hex c : is_num c = true -> is_hexnum c = true.
Proof. ascii_cases c. Qed.
Lemma num_not_minus c : is_num c = true -> is_c 45 c = false.
Proof. ascii_cases c. Qed.
Lemma num_not_plus c : is_num c = true -> is_c 43 c = false.
Proof. ascii_cases c. Qed.
Lemma num_not_dot c : is_num c = true -> is_c 46 c = false.
Proof. ascii_cases c. Qed.
Lemma num_not_e c : is_num c = true -> is_e c = false.
Proof. ascii_cases c. Qed.
Lemma num_not_x c : is_num c = true -> is_c 120 c = false.
Proof. ascii_cases c. Qed.
Lemma num_not_start c : is_num c = true -> is_ident_start c = false.
Proof. ascii_cases c. Qed.
Lemma start_char c : is_ident_start c = true -> is_ident_char c = true.
Proof. ascii_cases c. Qed.
Lemma x_alnum c : is_c 120 c = true -> is_alnum c = true.
Proof. ascii_cases c. Qed.
Lemma ws_not_start c : is_ws c = true -> is_ident_start c = false /\ is_num c = false /\ is_c 45 c = false.
Proof. ascii_cases c. Qed.
Lemma zero_is c : is_c 48 c = true <-> c = "0"%char.
Proof.
  split; [intros H; apply is_c_true in H; subst; reflexivity | intros ->; reflexivity].
Qed.
Lemma zero_not c : c <> "0"%char -> is_c 48 c = false.
Proof. intros N. destruct (is_c 48 c) eqn:E; [|reflexivity]. apply zero_is in E. contradiction. Qed.

Lemma hd_ok_weaken (p q : ascii -> bool) s : (forall c, p c = true -> q c = true) -> hd_ok p s -> hd_ok q s.
Proof. destruct s; cbn; auto. Qed.

Lemma not_alnum_not_num s : hd_ok (fnot is_alnum) s -> hd_ok (fnot is_num) s.
Proof.
  apply hd_ok_weaken. unfold fnot. intros c H. destruct (is_num c) eqn:E; [|reflexivity].
  apply num_alnum in E. rewrite E in H. discriminate.
Qed.
Lemma not_alnum_not_hex s : hd_ok (fnot is_alnum) s -> hd_ok (fnot is_hexnum) s.
Proof.
  apply hd_ok_weaken. unfold fnot. intros c H. destruct (is_hexnum c) eqn:E; [|reflexivity].
  apply hex_alnum in E. rewrite E in H. discriminate.
Qed.

(* ------------------------------------------------------------ numbers: soundness *)
Lemma follow_num_ok k cls lx s k' lx' rest :
  follow_num k cls lx s = SOk k' lx' rest -> k' = k /\ lx' = lx /\ rest = s /\ hd_ok (fnot is_alnum) s.
Proof.
  unfold follow_num. destruct s as [|c r].
  - intros H. inv H. cbn. auto.
  - destruct (is_alnum c) eqn:E; intros H; [discriminate|]. inv H. cbn. unfold fnot. rewrite E. auto.
Qed.

Lemma follow_num_complete k cls lx s : hd_ok (fnot is_alnum) s -> follow_num k cls lx s = SOk k lx s.
Proof.
  unfold follow_num. destruct s as [|c r]; [reflexivity|]. cbn. unfold fnot.
  destruct (is_alnum c); [discriminate|reflexivity].
Qed.

Lemma nolead_zero isd : nolead isd "0".
Proof. now left. Qed.

Lemma lex_hex_sound pfx s k lx rest :
  lex_hex pfx s = SOk k lx rest ->
  exists ds, k = TInt /\ lx = pfx ++ ds /\ s = ds ++ rest /\ nolead is_hexnum ds /\ hd_ok (fnot is_alnum) rest.
Proof.
  unfold lex_hex. destruct s as [|c s1]; [discriminate|].
  destruct (is_c 48 c) eqn:Z.
  - intros H. apply follow_num_ok in H. destruct H as (-> & -> & -> & Hd).
    apply zero_is in Z. subst c. exists "0". repeat split; auto. apply nolead_zero.
  - destruct (is_hexnum c) eqn:Hx; [|discriminate].
    destruct (span is_hexnum s1) as [ds s2] eqn:S. intros H.
    apply follow_num_ok in H. destruct H as (-> & -> & -> & Hd).
    apply span_sound in S. destruct S as (-> & F & _).
    exists (String c ds). repeat split; auto.
    right. exists c, ds. repeat split; auto. intros ->. discriminate.
Qed.

Lemma lex_exp_sound plus k acc s k' lx rest :
  lex_exp plus k acc s = SOk k' lx rest ->
  exists ex, lx = acc ++ ex /\ s = ex ++ rest /\ expo true plus ex /\
             k' = (match ex with EmptyString => k | _ => TFloat end) /\ hd_ok (fnot is_alnum) rest.
Proof.
  unfold lex_exp.
  assert (Hnone : forall s0, follow_num k 5 acc s0 = SOk k' lx rest ->
            exists ex, lx = acc ++ ex /\ s0 = ex ++ rest /\ expo true plus ex /\
                       k' = (match ex with EmptyString => k | _ => TFloat end) /\ hd_ok (fnot is_alnum) rest).
  { intros s0 H. apply follow_num_ok in H. destruct H as (-> & -> & -> & Hd).
    exists "". rewrite sapp_nil_r. repeat split; auto. now left. }
  destruct s as [|e s1]; [apply Hnone|].
  destruct (is_c 101 e || is_c 69 e) eqn:E; [|apply Hnone].
  assert (He : e = "e"%char \/ e = "E"%char).
  { apply orb_prop in E. destruct E as [E|E]; apply is_c_true in E; subst; auto. }
  clear Hnone.
  (* the sign *)
  assert (Hdigits : forall acc2 sg s2, acc2 = (acc ++ String e "") ++ sg -> esign plus sg -> s1 = sg ++ s2 ->
            match s2 with
            | String d s3 =>
                if is_c 48 d then follow_num TFloat 5 (acc2 ++ "0") s3
                else if is_num d then
                       let (ds, s4) := span is_num s3 in follow_num TFloat 5 (acc2 ++ String d ds) s4
                     else SErr 4 acc2
            | EmptyString => SErr 4 acc2
            end = SOk k' lx rest ->
            exists ex, lx = acc ++ ex /\ String e s1 = ex ++ rest /\ expo true plus ex /\
                       k' = (match ex with EmptyString => k | _ => TFloat end) /\ hd_ok (fnot is_alnum) rest).
  { intros acc2 sg s2 -> Hsg -> H. destruct s2 as [|d s3]; [discriminate|].
    destruct (is_c 48 d) eqn:Z.
    - apply follow_num_ok in H. destruct H as (-> & -> & -> & Hd). apply zero_is in Z. subst d.
      exists (String e (sg ++ "0")). split.
      { rewrite !sapp_assoc. reflexivity. }
      split. { cbn. rewrite sapp_assoc. reflexivity. }
      split. { right. exists e, sg, "0". repeat split; auto. cbn. apply nolead_zero. }
      auto.
    - destruct (is_num d) eqn:Nd; [|discriminate].
      destruct (span is_num s3) as [ds s4] eqn:S.
      apply follow_num_ok in H. destruct H as (-> & -> & -> & Hd).
      apply span_sound in S. destruct S as (-> & F & _).
      exists (String e (sg ++ String d ds)). split.
      { rewrite !sapp_assoc. reflexivity. }
      split. { cbn. rewrite sapp_assoc. reflexivity. }
      split.
      { right. exists e, sg, (String d ds). repeat split; auto. cbn.
        right. exists d, ds. repeat split; auto. intros ->. discriminate. }
      auto. }
  destruct s1 as [|g s2].
  - intros H. cbn in H. discriminate.
  - destruct (is_c 45 g || plus && is_c 43 g) eqn:G.
    + intros H. apply (Hdigits (acc ++ String e "" ++ String g "") (String g "") s2).
      * now rewrite sapp_assoc.
      * apply orb_prop in G. destruct G as [G|G].
        { apply is_c_true in G. subst g. right. now left. }
        { apply andb_prop in G. destruct G as (P & G). apply is_c_true in G. subst g. right. right. auto. }
      * reflexivity.
      * rewrite sapp_assoc in H. exact H.
    + intros H. apply (Hdigits (acc ++ String e "") "" (String g s2)).
      * now rewrite sapp_nil_r.
      * now left.
      * reflexivity.
      * exact H.
Qed.

Lemma lex_frac_sound plus acc s k lx rest :
  lex_frac plus acc s = SOk k lx rest ->
  exists fr ex, lx = acc ++ fr ++ ex /\ s = fr ++ ex ++ rest /\ frac fr /\ expo true plus ex /\
                k = (match fr, ex with EmptyString, EmptyString => TInt | _, _ => TFloat end) /\
                hd_ok (fnot is_alnum) rest /\
                (fr = "" -> ex = "" -> hd_ok (fnot (is_c 46)) rest).
Proof.
  unfold lex_frac.
  assert (Hnone : forall s0, hd_ok (fnot (is_c 46)) s0 -> lex_exp plus TInt acc s0 = SOk k lx rest ->
    exists fr ex, lx = acc ++ fr ++ ex /\ s0 = fr ++ ex ++ rest /\ frac fr /\ expo true plus ex /\
                k = (match fr, ex with EmptyString, EmptyString => TInt | _, _ => TFloat end) /\
                hd_ok (fnot is_alnum) rest /\ (fr = "" -> ex = "" -> hd_ok (fnot (is_c 46)) rest)).
  { intros s0 Hdot H. apply lex_exp_sound in H. destruct H as (ex & -> & -> & He & -> & Hd).
    exists "", ex. repeat split; auto. { now left. }
    intros _ ->. exact Hdot. }
  destruct s as [|c s1]; [apply Hnone; exact I|].
  destruct (is_c 46 c) eqn:D.
  2:{ apply Hnone. cbn. unfold fnot. now rewrite D. }
  apply is_c_true in D. subst c. clear Hnone.
  destruct s1 as [|d s2]; [discriminate|].
  destruct (is_num d) eqn:Nd; [|discriminate].
  destruct (span is_num s2) as [ds s3] eqn:S. intros H.
  apply span_sound in S. destruct S as (-> & F & _).
  apply lex_exp_sound in H. destruct H as (ex & -> & -> & He & -> & Hd).
  exists (String "." (String d ds)), ex. split.
  { sa. }
  split. { sa. }
  split.
  { right. exists (String d ds). split; [reflexivity|]. split; [discriminate|]. cbn. now rewrite Nd, F. }
  split; [exact He|]. split; [destruct ex; reflexivity|]. split; [exact Hd|]. discriminate.
Qed.

Lemma sign_no_x sg : sign sg -> str_forall (fnot (is_c 120)) sg = true.
Proof. intros [->| ->]; reflexivity. Qed.

Lemma lex_frac_num plus sg ip s2 k lx rest :
  sign sg -> nolead is_num ip -> lex_frac plus (sg ++ ip) s2 = SOk k lx rest ->
  sg ++ ip ++ s2 = lx ++ rest /\ num_lexeme true plus k lx /\ follow_ok k lx rest.
Proof.
  intros Hsg Hip H. apply lex_frac_sound in H.
  destruct H as (fr & ex & -> & -> & Hfr & Hex & -> & Hd & Hdot).
  split. { sa. }
  split. { rewrite sapp_assoc. apply NL_dec; auto. }
  destruct fr; destruct ex; cbn; auto.
Qed.

Lemma lex_num_sound plus s k lx rest :
  lex_num plus s = SOk k lx rest ->
  s = lx ++ rest /\ num_lexeme true plus k lx /\ follow_ok k lx rest.
Proof.
  unfold lex_num.
  assert (Hbody : forall sg s1, sign sg -> s = sg ++ s1 ->
    match s1 with
    | String c s2 =>
        if is_c 48 c then
          match s2 with
          | String x s3 => if is_c 120 x then lex_hex (sg ++ "0x") s3 else lex_frac plus (sg ++ "0") s2
          | EmptyString => lex_frac plus (sg ++ "0") s2
          end
        else if is_num c then let (ds, s3) := span is_num s2 in lex_frac plus (sg ++ String c ds) s3
        else SErr 2 sg
    | EmptyString => SErr 2 sg
    end = SOk k lx rest ->
    s = lx ++ rest /\ num_lexeme true plus k lx /\ follow_ok k lx rest).
  { intros sg s1 Hsg -> H. destruct s1 as [|c s2]; [discriminate|].
    destruct (is_c 48 c) eqn:Z.
    - apply zero_is in Z. subst c.
      assert (Hf : forall s2', lex_frac plus (sg ++ "0") s2' = SOk k lx rest ->
                sg ++ String "0" s2' = lx ++ rest /\ num_lexeme true plus k lx /\ follow_ok k lx rest).
      { intros s2' H'. exact (lex_frac_num plus sg "0" s2' k lx rest Hsg (nolead_zero _) H'). }
      destruct s2 as [|x s3]; [now apply Hf|].
      destruct (is_c 120 x) eqn:X; [|now apply Hf].
      apply is_c_true in X. subst x.
      apply lex_hex_sound in H. destruct H as (ds & -> & -> & -> & Hds & Hd).
      split. { sa. }
      split. { rewrite sapp_assoc. apply NL_hex; auto. }
      cbn. split; [exact Hd|]. intros Hx. exfalso.
      rewrite !str_forall_app in Hx. cbn in Hx. rewrite andb_false_r in Hx. discriminate.
    - destruct (is_num c) eqn:Nc; [|discriminate].
      destruct (span is_num s2) as [ds s3] eqn:S.
      apply span_sound in S. destruct S as (-> & F & _).
      assert (Hip : nolead is_num (String c ds)).
      { right. exists c, ds. repeat split; auto. intros ->. discriminate. }
      destruct (lex_frac_num plus sg (String c ds) s3 k lx rest Hsg Hip H) as (E & L & Fo).
      split; [|auto]. rewrite <- E. cbn. reflexivity. }
  destruct s as [|c0 r0].
  - intros H. apply (Hbody "" ""); auto. now left.
  - destruct (is_c 45 c0) eqn:M.
    + apply is_c_true in M. subst c0. intros H. apply (Hbody "-" r0); auto. now right.
    + intros H. apply (Hbody "" (String c0 r0)); auto. now left.
Qed.

(* ------------------------------------------------------------ numbers: completeness *)
Local Arguments lex_hex : simpl never.
Local Arguments lex_frac : simpl never.
Local Arguments lex_exp : simpl never.
Local Arguments lex_exp_digits : simpl never.
Local Arguments follow_num : simpl never.
Local Arguments span : simpl never.
Local Arguments is_c : simpl never.
Local Arguments is_num : simpl never.
Local Arguments is_alnum : simpl never.
Local Arguments is_hexnum : simpl never.
Local Arguments is_ident_start : simpl never.
Local Arguments is_ident_char : simpl never.
Local Arguments is_ws : simpl never.

(* evaluate character tests on literal characters *)
Ltac cchar := repeat match goal with
  | |- context [is_c ?n (Ascii ?a ?b ?c ?d ?e ?f ?g ?h)] =>
      let t := constr:(is_c n (Ascii a b c d e f g h)) in
      let v := eval vm_compute in t in change t with v
  | |- context [?p (Ascii ?a ?b ?c ?d ?e ?f ?g ?h)] =>
      match p with
      | is_num => idtac | is_alnum => idtac | is_hexnum => idtac
      | is_ident_start => idtac | is_ident_char => idtac | is_ws => idtac
      end;
      let t := constr:(p (Ascii a b c d e f g h)) in
      let v := eval vm_compute in t in change t with v
  end.
Ltac crunch := repeat (progress (cbn; cchar)).

Lemma lex_hex_complete pfx ds rest :
  nolead is_hexnum ds -> hd_ok (fnot is_alnum) rest -> lex_hex pfx (ds ++ rest) = SOk TInt (pfx ++ ds) rest.
Proof.
  intros [->|(c & r & -> & Hc & Nz & F)] Hd; unfold lex_hex; cbn.
  - now apply follow_num_complete.
  - rewrite (zero_not _ Nz), Hc. rewrite (span_complete _ _ _ F (not_alnum_not_hex _ Hd)).
    now apply follow_num_complete.
Qed.

Lemma exp_digits_complete acc2 ds rest :
  nolead is_num ds -> hd_ok (fnot is_alnum) rest ->
  lex_exp_digits acc2 (ds ++ rest) = SOk TFloat (acc2 ++ ds) rest.
Proof.
  intros [->|(c & r & -> & Hc & Nz & F)] Hd; unfold lex_exp_digits; cbn.
  - now apply follow_num_complete.
  - rewrite (zero_not _ Nz), Hc. rewrite (span_complete _ _ _ F (not_alnum_not_num _ Hd)).
    now apply follow_num_complete.
Qed.

Lemma nolead_head_num ds : nolead is_num ds -> exists d r, ds = String d r /\ is_num d = true.
Proof. intros [->|(c & r & -> & Hc & _)]; eexists; eexists; split; eauto. Qed.

Lemma lex_exp_complete plus k acc ex rest :
  expo true plus ex -> hd_ok (fnot is_alnum) rest ->
  lex_exp plus k acc (ex ++ rest) = SOk (match ex with EmptyString => k | _ => TFloat end) (acc ++ ex) rest.
Proof.
  intros [->|(e & sg & ds & -> & He & Hsg & Hds)] Hd.
  - cbn. rewrite sapp_nil_r. unfold lex_exp. destruct rest as [|c r]; [now apply follow_num_complete|].
    change (is_c 101 c || is_c 69 c) with (is_e c).
    destruct (is_e c) eqn:E.
    + apply e_alnum in E. cbn in Hd. unfold fnot in Hd. rewrite E in Hd. discriminate.
    + now apply follow_num_complete.
  - cbn in Hds. unfold lex_exp. cbn [append].
    replace (is_c 101 e || is_c 69 e) with true by (destruct He as [->| ->]; reflexivity).
    rewrite sapp_assoc.
    destruct Hsg as [->|[->|(-> & ->)]].
    + cbn [append]. destruct (nolead_head_num _ Hds) as (d & r & -> & Nd). cbn [append].
      rewrite (num_not_minus _ Nd), (num_not_plus _ Nd), andb_false_r. cbn [orb].
      change (String d (r ++ rest)) with (String d r ++ rest).
      rewrite exp_digits_complete; auto. f_equal. sa.
    + cbn [append]. change (is_c 45 "-") with true. cbn [orb].
      rewrite exp_digits_complete; auto. f_equal. sa.
    + cbn [append]. change (is_c 45 "+") with false. change (is_c 43 "+") with true. cbn [orb andb].
      rewrite exp_digits_complete; auto. f_equal. sa.
Qed.

Lemma expo_head ex (q : ascii -> bool) : (q "e"%char = true) -> (q "E"%char = true) ->
  forall strict plus e r, expo strict plus ex -> ex = String e r -> q e = true.
Proof.
  intros Q1 Q2 strict plus e r [->|(e' & sg & ds & -> & He & _)] E; [discriminate|].
  inv E. destruct He as [->| ->]; auto.
Qed.

(* what follows the integer part: a fraction, an exponent, or a delimiter *)
Lemma tail_head (q : ascii -> bool) fr ex rest strict plus :
  q "."%char = true -> q "e"%char = true -> q "E"%char = true ->
  frac fr -> expo strict plus ex -> hd_ok q rest -> hd_ok q (fr ++ ex ++ rest).
Proof.
  intros Q0 Q1 Q2 [->|(ds & -> & _)] Hex Hr; [|exact Q0].
  cbn. destruct ex as [|e r]; [exact Hr|]. cbn. eapply expo_head; eauto.
Qed.

Lemma hd_ok_and (p q : ascii -> bool) s : hd_ok p s -> hd_ok q s -> hd_ok (fun c => p c && q c) s.
Proof. destruct s; cbn; auto. intros -> ->. reflexivity. Qed.

Lemma lex_frac_complete plus acc fr ex rest :
  frac fr -> expo true plus ex -> hd_ok (fnot is_alnum) rest ->
  (fr = "" -> ex = "" -> hd_ok (fnot (is_c 46)) rest) ->
  lex_frac plus acc (fr ++ ex ++ rest) =
  SOk (match fr, ex with EmptyString, EmptyString => TInt | _, _ => TFloat end) (acc ++ fr ++ ex) rest.
Proof.
  intros [->|(ds & -> & (Nn & F))] Hex Hd Hdot.
  - cbn [append]. unfold lex_frac.
    assert (G : lex_exp plus TInt acc (ex ++ rest) =
                SOk (match ex with EmptyString => TInt | _ => TFloat end) (acc ++ ex) rest)
      by now apply lex_exp_complete.
    destruct ex as [|e r].
    + cbn [append] in *. destruct rest as [|c r']; [exact G|].
      specialize (Hdot eq_refl eq_refl). cbn in Hdot. unfold fnot in Hdot.
      destruct (is_c 46 c); [discriminate|exact G].
    + cbn [append] in *.
      assert (Q : fnot (is_c 46) e = true) by (eapply (expo_head _ (fnot (is_c 46))); eauto).
      unfold fnot in Q. apply negb_true_iff in Q. rewrite Q. exact G.
  - destruct ds as [|d r]; [congruence|]. cbn in F. apply andb_prop in F. destruct F as (Nd & F).
    unfold lex_frac. cbn [append]. replace (is_c 46 ".") with true by reflexivity. rewrite Nd.
    assert (Hn : hd_ok (fnot is_num) (ex ++ rest)).
    { destruct ex as [|e r']; [now apply not_alnum_not_num|]. cbn.
      eapply (expo_head _ (fnot is_num)); eauto. }
    rewrite (span_complete _ _ _ F Hn).
    rewrite lex_exp_complete; auto. f_equal; [destruct ex; reflexivity|sa].
Qed.

Lemma nolead_no_x ip : nolead is_num ip -> str_forall (fnot (is_c 120)) ip = true.
Proof.
  intros [->|(c & r & -> & Hc & _ & F)]; [reflexivity|]. cbn. unfold fnot at 1.
  rewrite (num_not_x _ Hc). cbn. clear Hc. induction r as [|c' r IH]; [reflexivity|].
  cbn in *. apply andb_prop in F. destruct F as (F1 & F2). unfold fnot at 1.
  rewrite (num_not_x _ F1). cbn. auto.
Qed.

Lemma lex_num_complete plus k lx rest :
  num_lexeme true plus k lx -> follow_ok k lx rest -> lex_num plus (lx ++ rest) = SOk k lx rest.
Proof.
  intros L Fo. destruct L as [sg ds Hsg Hds | sg ip fr ex Hsg Hip Hfr Hex].
  - cbn in Hds, Fo. destruct Fo as (Hd & _). rewrite !sapp_assoc. unfold lex_num.
    destruct Hsg as [->| ->]; crunch; rewrite lex_hex_complete; auto.
  - assert (Hd : hd_ok (fnot is_alnum) rest) by (destruct fr; destruct ex; cbn in Fo; tauto).
    assert (Hdot : fr = "" -> ex = "" -> hd_ok (fnot (is_c 46)) rest).
    { intros -> ->. cbn in Fo. destruct Fo as (_ & Fo). apply Fo.
      rewrite !sapp_nil_r, str_forall_app, (sign_no_x _ Hsg), (nolead_no_x _ Hip). reflexivity. }
    pose proof (lex_frac_complete plus) as LF.
    assert (Hx : hd_ok (fnot (is_c 120)) (fr ++ ex ++ rest)).
    { eapply tail_head; eauto; try reflexivity. revert Hd. apply hd_ok_weaken.
      unfold fnot. intros c H. destruct (is_c 120 c) eqn:X; [|reflexivity].
      apply x_alnum in X. rewrite X in H. discriminate. }
    assert (Hn : hd_ok (fnot is_num) (fr ++ ex ++ rest)).
    { eapply tail_head; eauto; try reflexivity. now apply not_alnum_not_num. }
    replace ((sg ++ ip ++ fr ++ ex) ++ rest) with (sg ++ ip ++ (fr ++ ex ++ rest)) by sa.
    unfold lex_num.
    destruct Hip as [->|(c & r & -> & Hc & Nz & F)].
    + assert (G : forall sg', lex_frac plus (sg' ++ "0") (fr ++ ex ++ rest) =
                 SOk (match fr, ex with EmptyString, EmptyString => TInt | _, _ => TFloat end)
                     (sg' ++ "0" ++ fr ++ ex) rest).
      { intros sg'. rewrite LF; auto. f_equal. sa. }
      destruct Hsg as [->| ->]; crunch.
      * destruct (fr ++ ex ++ rest) as [|x s3] eqn:T; [apply (G "")|].
        cbn in Hx. unfold fnot in Hx. destruct (is_c 120 x); [discriminate|apply (G "")].
      * destruct (fr ++ ex ++ rest) as [|x s3] eqn:T; [apply (G "-")|].
        cbn in Hx. unfold fnot in Hx. destruct (is_c 120 x); [discriminate|apply (G "-")].
    + assert (G : forall sg', lex_frac plus (sg' ++ String c r) (fr ++ ex ++ rest) =
                 SOk (match fr, ex with EmptyString, EmptyString => TInt | _, _ => TFloat end)
                     (sg' ++ String c r ++ fr ++ ex) rest).
      { intros sg'. rewrite LF; auto. f_equal. sa. }
      destruct Hsg as [->| ->]; cbn [append].
      * crunch. rewrite (num_not_minus _ Hc). crunch. rewrite (zero_not _ Nz), Hc.
        rewrite (span_complete _ _ _ F Hn). apply (G "").
      * crunch. rewrite (zero_not _ Nz), Hc. rewrite (span_complete _ _ _ F Hn). apply (G "-").
Qed.

(* ------------------------------------------------------------ strings *)
Lemma quote_is c : is_c 39 c = true <-> c = "'"%char.
Proof. split; [intros H; apply is_c_true in H; subst; reflexivity | intros ->; reflexivity]. Qed.
Lemma quote_not c : c <> "'"%char -> is_c 39 c = false.
Proof. intros N. destruct (is_c 39 c) eqn:E; [|reflexivity]. apply quote_is in E. contradiction. Qed.

Lemma str_loop_sound n : forall s a b, String.length s <= n -> str_loop s = Some (a, b) ->
  s = a ++ b /\ hd_ok (fnot (is_c 39)) b /\ exists body, a = body ++ "'" /\ str_body body.
Proof.
  induction n as [|n IH]; intros s a b L H.
  { destruct s; [discriminate|cbn in L; lia]. }
  destruct s as [|r s']; [discriminate|]. cbn [str_loop] in H. cbn in L.
  destruct (is_c 39 r) eqn:Q.
  - apply quote_is in Q. subst r.
    destruct s' as [|r2 s''].
    + inv H. repeat split; auto. exists "". split; [reflexivity|constructor].
    + destruct (is_c 39 r2) eqn:Q2.
      * apply quote_is in Q2. subst r2.
        destruct (str_loop s'') as [[a' b']|] eqn:E; [|discriminate]. inv H.
        cbn in L. apply IH in E; [|lia]. destruct E as (-> & Hd & body & -> & Hb).
        repeat split; auto. exists (String "'" (String "'" body)). split; [reflexivity|now constructor].
      * inv H. repeat split; auto.
        { cbn. unfold fnot. now rewrite Q2. }
        exists "". split; [reflexivity|constructor].
  - destruct (str_loop s') as [[a' b']|] eqn:E; [|discriminate]. inv H.
    apply IH in E; [|lia]. destruct E as (-> & Hd & body & -> & Hb).
    repeat split; auto. exists (String r body). split; [reflexivity|].
    constructor; auto. intros ->. discriminate.
Qed.

Lemma str_loop_complete body rest : str_body body -> hd_ok (fnot (is_c 39)) rest ->
  str_loop (body ++ "'" ++ rest) = Some (body ++ "'", rest).
Proof.
  intros B Hd. induction B as [|c r Nq B IH|r B IH].
  - cbn [append str_loop]. change (is_c 39 "'") with true. cbn iota.
    destruct rest as [|r2 s'']; [reflexivity|]. cbn in Hd. unfold fnot in Hd.
    destruct (is_c 39 r2); [discriminate|reflexivity].
  - cbn [append str_loop]. rewrite (quote_not _ Nq). cbn [append] in IH. now rewrite IH.
  - cbn [append str_loop]. change (is_c 39 "'") with true. cbn iota.
    cbn [append] in IH. now rewrite IH.
Qed.

Lemma drop_last_app x c : drop_last (x ++ String c "") = Some x.
Proof.
  induction x as [|d x IH]; [reflexivity|]. destruct x as [|d' x']; [reflexivity|].
  cbn [append] in *.
  change (drop_last (String d (String d' (x' ++ String c ""))))
    with (option_map (String d) (drop_last (String d' (x' ++ String c "")))).
  rewrite IH. reflexivity.
Qed.

Lemma string_lexeme_unquote s : string_lexeme s -> unquote s <> None.
Proof. intros (body & -> & _). cbn. rewrite drop_last_app. discriminate. Qed.

(* ------------------------------------------------------------ one token *)
Lemma num_lexeme_kind strict plus k lx : num_lexeme strict plus k lx -> k = TInt \/ k = TFloat.
Proof. destruct 1 as [|sg ip fr ex]; auto. destruct fr; destruct ex; auto. Qed.

Lemma num_lexeme_lexeme strict plus k lx : num_lexeme strict plus k lx -> lexeme strict plus k lx.
Proof. intros H. destruct (num_lexeme_kind _ _ _ _ H) as [->| ->]; exact H. Qed.

Local Arguments lex_num : simpl never.
Local Arguments lex_string : simpl never.
Local Arguments str_loop : simpl never.

Lemma scan_tok_sound plus s k lx rest :
  scan_tok plus s = SOk k lx rest -> s = lx ++ rest /\ lexeme true plus k lx /\ follow_ok k lx rest.
Proof.
  destruct s as [|c r]; [discriminate|]. unfold scan_tok.
  destruct (is_ident_start c) eqn:E0.
  { destruct (span is_ident_char r) as [a b] eqn:S. intros H. inv H.
    apply span_sound in S. destruct S as (-> & F & Hd).
    repeat split; auto. exists c, a. auto. }
  destruct (is_num c || is_c 45 c) eqn:E1.
  { intros H. apply lex_num_sound in H. destruct H as (-> & L & Fo).
    repeat split; auto. now apply num_lexeme_lexeme. }
  destruct (is_c 39 c) eqn:E2.
  { apply quote_is in E2. subst c. unfold lex_string.
    destruct (str_loop r) as [[a b]|] eqn:S; [|discriminate]. intros H. inv H.
    apply (str_loop_sound _ _ _ _ (le_n _)) in S. destruct S as (-> & Hd & body & -> & Hb).
    repeat split; auto. exists body. auto. }
  destruct (is_c 125 c) eqn:E3.
  { destruct r as [|c2 r2]; [discriminate|]. destruct (is_c 125 c2); discriminate. }
  assert (Hopt : forall k1 k2, c = "!"%char \/ c = "<"%char \/ c = ">"%char ->
            op_lexeme k1 (String c "") -> op_lexeme k2 (String c "=") ->
            (k1 = TNot \/ k1 = TLess \/ k1 = TGreater) ->
            (k2 = TNotEq \/ k2 = TLessEq \/ k2 = TGreaterEq) ->
            lex_opt_eq c k1 k2 r = SOk k lx rest ->
            String c r = lx ++ rest /\ lexeme true plus k lx /\ follow_ok k lx rest).
  { intros k1 k2 _ O1 O2 K1 K2 H. unfold lex_opt_eq in H. destruct r as [|c2 r2].
    - inv H. repeat split; auto.
      + destruct K1 as [->|[->| ->]]; exact O1.
      + destruct K1 as [->|[->| ->]]; exact I.
    - destruct (is_c 61 c2) eqn:Q.
      + apply is_c_true in Q. subst c2. inv H. repeat split; auto.
        * destruct K2 as [->|[->| ->]]; exact O2.
        * destruct K2 as [->|[->| ->]]; exact I.
      + inv H. repeat split; auto.
        * destruct K1 as [->|[->| ->]]; exact O1.
        * destruct K1 as [->|[->| ->]]; cbn; unfold fnot; now rewrite Q. }
  destruct (is_c 33 c) eqn:E4.
  { apply is_c_true in E4. subst c. apply Hopt; cbn; auto. }
  destruct (is_c 60 c) eqn:E5.
  { apply is_c_true in E5. subst c. apply Hopt; cbn; auto. }
  destruct (is_c 62 c) eqn:E6.
  { apply is_c_true in E6. subst c. apply Hopt; cbn; auto. }
  clear Hopt.
  assert (Hdbl : forall k1 cls, op_lexeme k1 (String c (String c "")) ->
            (k1 = TEq \/ k1 = TAnd \/ k1 = TOr) ->
            lex_double c k1 cls r = SOk k lx rest ->
            String c r = lx ++ rest /\ lexeme true plus k lx /\ follow_ok k lx rest).
  { intros k1 cls O1 K1 H. unfold lex_double in H. destruct r as [|c2 r2]; [discriminate|].
    destruct (Ascii.eqb c2 c) eqn:Q; [|discriminate]. apply Ascii.eqb_eq in Q. subst c2. inv H.
    repeat split; auto.
    - destruct K1 as [->|[->| ->]]; exact O1.
    - destruct K1 as [->|[->| ->]]; exact I. }
  destruct (is_c 61 c) eqn:E7.
  { apply is_c_true in E7. subst c. apply Hdbl; cbn; auto. }
  destruct (is_c 38 c) eqn:E8.
  { apply is_c_true in E8. subst c. apply Hdbl; cbn; auto. }
  destruct (is_c 124 c) eqn:E9.
  { apply is_c_true in E9. subst c. apply Hdbl; cbn; auto. }
  clear Hdbl.
  unfold lex_char.
  repeat match goal with
  | |- (if is_c ?n c then _ else _) = _ -> _ =>
      let E := fresh "E" in destruct (is_c n c) eqn:E;
      [apply is_c_true in E; subst c; intros H; inv H; cbn; repeat split; auto|]
  end.
  discriminate.
Qed.

Lemma scan_tok_end plus s lx rest : scan_tok plus s = SEnd lx rest -> lx = "}}" /\ s = "}}" ++ rest.
Proof.
  destruct s as [|c r]; [discriminate|]. unfold scan_tok.
  destruct (is_ident_start c). { destruct (span is_ident_char r). discriminate. }
  destruct (is_num c || is_c 45 c) eqn:E1.
  { unfold lex_num.
    assert (Hfn : forall k cls l s0, follow_num k cls l s0 <> SEnd lx rest).
    { intros k cls l s0. unfold follow_num. destruct s0; [discriminate|]. destruct (is_alnum a); discriminate. }
    assert (Hex : forall k acc s0, lex_exp plus k acc s0 <> SEnd lx rest).
    { intros k acc s0. unfold lex_exp. destruct s0 as [|e s1]; [apply Hfn|].
      destruct (is_c 101 e || is_c 69 e); [|apply Hfn].
      destruct (match s1 with
                | String g s2 => if is_c 45 g || plus && is_c 43 g then ((acc ++ String e "") ++ String g "", s2) else (acc ++ String e "", s1)
                | EmptyString => (acc ++ String e "", s1) end) as [acc2 s2].
      unfold lex_exp_digits. destruct s2 as [|d s3]; [discriminate|].
      destruct (is_c 48 d); [apply Hfn|]. destruct (is_num d); [|discriminate].
      destruct (span is_num s3). apply Hfn. }
    assert (Hfr : forall acc s0, lex_frac plus acc s0 <> SEnd lx rest).
    { intros acc s0. unfold lex_frac. destruct s0 as [|c0 s1]; [apply Hex|].
      destruct (is_c 46 c0); [|apply Hex]. destruct s1 as [|d s2]; [discriminate|].
      destruct (is_num d); [|discriminate]. destruct (span is_num s2). apply Hex. }
    assert (Hhx : forall pfx s0, lex_hex pfx s0 <> SEnd lx rest).
    { intros pfx s0. unfold lex_hex. destruct s0 as [|c0 s1]; [discriminate|].
      destruct (is_c 48 c0); [apply Hfn|]. destruct (is_hexnum c0); [|discriminate].
      destruct (span is_hexnum s1). apply Hfn. }
    intros H. exfalso. revert H.
    destruct (match String c r with
              | String c0 r0 => if is_c 45 c0 then ("-", r0) else ("", String c r)
              | EmptyString => ("", String c r) end) as [sg s1].
    destruct s1 as [|c1 s2]; [discriminate|].
    destruct (is_c 48 c1).
    - destruct s2 as [|x s3]; [apply Hfr|]. destruct (is_c 120 x); [apply Hhx|apply Hfr].
    - destruct (is_num c1); [|discriminate]. destruct (span is_num s2). apply Hfr. }
  destruct (is_c 39 c). { unfold lex_string. destruct (str_loop r) as [[a b]|]; discriminate. }
  destruct (is_c 125 c) eqn:E3.
  { apply is_c_true in E3. subst c. destruct r as [|c2 r2]; [discriminate|].
    destruct (is_c 125 c2) eqn:E4; [|discriminate]. apply is_c_true in E4. subst c2.
    intros H. inv H. auto. }
  unfold lex_opt_eq, lex_double, lex_char.
  repeat match goal with
  | |- (if is_c ?n c then _ else _) = _ -> _ => destruct (is_c n c)
  | |- match r with _ => _ end = _ -> _ => destruct r as [|c2 r2]
  | |- (if ?b then _ else _) = _ -> _ => destruct b
  end; discriminate.
Qed.

Lemma num_lexeme_head strict plus k lx : num_lexeme strict plus k lx ->
  exists c r, lx = String c r /\ is_ident_start c = false /\ (is_num c || is_c 45 c) = true /\ is_ws c = false.
Proof.
  assert (Hn : forall ip, nolead is_num ip -> exists c r, ip = String c r /\ is_ident_start c = false /\
                 (is_num c || is_c 45 c) = true /\ is_ws c = false).
  { intros ip Hip. destruct (nolead_head_num _ Hip) as (d & r & -> & Nd). exists d, r.
    split; [reflexivity|]. split; [now apply num_not_start|]. rewrite Nd. split; [reflexivity|].
    destruct (is_ws d) eqn:W; [|reflexivity]. apply ws_not_start in W. destruct W as (_ & W & _). congruence. }
  destruct 1 as [sg ds Hsg Hds | sg ip fr ex Hsg Hip Hfr Hex].
  - destruct Hsg as [->| ->]; cbn; eexists; eexists; (split; [reflexivity|]); repeat split; reflexivity.
  - destruct Hsg as [->| ->].
    + destruct (Hn _ Hip) as (c & r & -> & A & B & C). cbn. eauto 10.
    + cbn. eexists; eexists; (split; [reflexivity|]); repeat split; reflexivity.
Qed.

Lemma scan_tok_complete plus k lx rest :
  lexeme true plus k lx -> follow_ok k lx rest -> scan_tok plus (lx ++ rest) = SOk k lx rest.
Proof.
  intros L Fo.
  assert (Hnum : num_lexeme true plus k lx -> scan_tok plus (lx ++ rest) = SOk k lx rest).
  { intros N. destruct (num_lexeme_head _ _ _ _ N) as (c & r & E & A & B & _).
    rewrite <- (lex_num_complete plus k lx rest N Fo). rewrite E. cbn [append]. unfold scan_tok.
    rewrite A, B. reflexivity. }
  destruct k; cbn in L, Fo; try (now apply Hnum); clear Hnum; try (subst lx; crunch; reflexivity).
  - (* ident *)
    destruct L as (c & r & -> & S & F). cbn [append]. unfold scan_tok. rewrite S.
    rewrite (span_complete _ _ _ F Fo). reflexivity.
  - (* string *)
    destruct L as (body & -> & B). crunch. unfold lex_string. rewrite sapp_assoc.
    rewrite (str_loop_complete _ _ B Fo). reflexivity.
  - (* ! *)
    subst lx. crunch. unfold lex_opt_eq. destruct rest as [|c2 r2]; [reflexivity|].
    cbn in Fo. unfold fnot in Fo. destruct (is_c 61 c2); [discriminate|reflexivity].
  - (* < *)
    subst lx. crunch. unfold lex_opt_eq. destruct rest as [|c2 r2]; [reflexivity|].
    cbn in Fo. unfold fnot in Fo. destruct (is_c 61 c2); [discriminate|reflexivity].
  - (* > *)
    subst lx. crunch. unfold lex_opt_eq. destruct rest as [|c2 r2]; [reflexivity|].
    cbn in Fo. unfold fnot in Fo. destruct (is_c 61 c2); [discriminate|reflexivity].
Qed.

Lemma lexeme_head strict plus k lx : lexeme strict plus k lx -> exists c r, lx = String c r /\ is_ws c = false.
Proof.
  destruct k; cbn; intros L;
    try (destruct (num_lexeme_head _ _ _ _ L) as (c & r & -> & _ & _ & W); eauto);
    try (subst lx; eexists; eexists; split; reflexivity).
  - destruct L as (c & r & -> & S & _). exists c, r. split; [reflexivity|].
    destruct (is_ws c) eqn:W; [|reflexivity]. apply ws_not_start in W. destruct W as (W & _). congruence.
  - destruct L as (body & -> & _). eexists; eexists; split; reflexivity.
Qed.

(* ------------------------------------------------------------ positions *)
Lemma adv_str_app p a b : adv_str p (a ++ b) = adv_str (adv_str p a) b.
Proof. revert p. induction a as [|c r IH]; intros p; cbn; [reflexivity|apply IH]. Qed.

Lemma t_off_adv p c : t_off (adv p c) = (t_off p + 1)%N.
Proof. unfold adv. destruct (is_c 10 c); [reflexivity|]. destruct (is_cont_byte c); reflexivity. Qed.

Lemma t_off_adv_str p s : t_off (adv_str p s) = (t_off p + N.of_nat (String.length s))%N.
Proof.
  revert p. induction s as [|c r IH]; intros p; cbn [adv_str String.length].
  - cbn. lia.
  - rewrite IH, t_off_adv. lia.
Qed.

Lemma substring_prefix b c : substring 0 (String.length b) (b ++ c) = b.
Proof. induction b as [|x b IH]; cbn; [destruct c; reflexivity|]. now rewrite IH. Qed.

Lemma substring_mid a b c : substring (String.length a) (String.length b) (a ++ b ++ c) = b.
Proof. induction a as [|x a IH]; cbn; [apply substring_prefix|exact IH]. Qed.

(* ------------------------------------------------------------ runs of the lexer *)
Lemma lex_next_unfold plus st :
  lex_next plus st =
  let (w, s1) := span is_ws (ls_rest st) in
  let start := adv_str (ls_pos st) w in
  match scan_tok plus s1 with
  | SOk k lx rest => (LTok (mkTok k lx start), mkLS rest (adv_str start lx))
  | SEnd lx rest => (LEnd start, mkLS rest (adv_str start lx))
  | SErr c consumed => (LErr (mkLErr c (adv_str start consumed)) start, mkLS s1 start)
  end.
Proof. reflexivity. Qed.

Local Arguments lex_next : simpl never.
Local Arguments scan_tok : simpl never.

Lemma lex_run_sound plus fuel : forall st ts e a,
  lex_run plus fuel st = (ts, FEnd e a) -> tokenises true plus (ls_pos st) (ls_rest st) ts e a.
Proof.
  induction fuel as [|fuel IH]; intros st ts e a H; [discriminate|].
  cbn [lex_run] in H. rewrite lex_next_unfold in H.
  destruct (span is_ws (ls_rest st)) as [w s1] eqn:S.
  apply span_sound in S. destruct S as (ER & W & _). rewrite ER.
  cbn zeta in H. destruct (scan_tok plus s1) as [k lx rest|lx rest|c consumed] eqn:T.
  - destruct (lex_run plus fuel (mkLS rest (adv_str (adv_str (ls_pos st) w) lx))) as [ts' f'] eqn:R.
    inv H. apply IH in R. cbn in R. apply scan_tok_sound in T. destruct T as (-> & L & Fo).
    apply TK_tok; auto. now rewrite adv_str_app.
  - inv H. apply scan_tok_end in T. destruct T as (-> & ->). cbn [ls_pos].
    rewrite <- adv_str_app. apply TK_end. exact W.
  - discriminate.
Qed.

Lemma lex_run_complete plus p s ts e a :
  tokenises true plus p s ts e a ->
  forall fuel, String.length s < fuel -> lex_run plus fuel (mkLS s p) = (ts, FEnd e a).
Proof.
  induction 1 as [p ws tail W | p ws k lx rest ts e a W L Fo T IH]; intros fuel Hf.
  - destruct fuel; [lia|]. cbn [lex_run]. rewrite lex_next_unfold. cbn [ls_rest ls_pos].
    rewrite (span_complete _ _ _ W) by reflexivity. cbn zeta.
    change (scan_tok plus ("}}" ++ tail)) with (SEnd "}}" tail). cbn [ls_pos].
    now rewrite adv_str_app.
  - destruct fuel; [lia|]. cbn [lex_run]. rewrite lex_next_unfold. cbn [ls_rest ls_pos].
    destruct (lexeme_head _ _ _ _ L) as (c & r & E & Wc).
    rewrite (span_complete is_ws ws (lx ++ rest)); auto.
    2:{ rewrite E. cbn. unfold fnot. now rewrite Wc. }
    cbn zeta. rewrite (scan_tok_complete _ _ _ _ L Fo).
    rewrite <- adv_str_app. rewrite IH; [reflexivity|].
    rewrite !slen_app in Hf. rewrite E in Hf. cbn in Hf. lia.
Qed.

Theorem lex_sound plus src ts e a :
  lex_all plus src = (ts, FEnd e a) -> tokenises true plus pos0 src ts e a.
Proof. unfold lex_all. intros H. now apply lex_run_sound in H. Qed.

Theorem lex_complete plus src ts e a :
  tokenises true plus pos0 src ts e a -> lex_all plus src = (ts, FEnd e a).
Proof. intros T. unfold lex_all. apply (lex_run_complete _ _ _ _ _ _ T). lia. Qed.

(* the fuel of lex_all suffices *)
Lemma lex_run_no_fuel plus fuel : forall st ts f,
  String.length (ls_rest st) < fuel -> lex_run plus fuel st = (ts, f) -> f <> FFuel.
Proof.
  induction fuel as [|fuel IH]; intros st ts f Hf H; [lia|].
  cbn [lex_run] in H. rewrite lex_next_unfold in H.
  destruct (span is_ws (ls_rest st)) as [w s1] eqn:S.
  apply span_sound in S. destruct S as (ER & _ & _).
  cbn zeta in H. destruct (scan_tok plus s1) as [k lx rest|lx rest|c consumed] eqn:T.
  - destruct (lex_run plus fuel (mkLS rest (adv_str (adv_str (ls_pos st) w) lx))) as [ts' f'] eqn:R.
    inv H. apply IH in R; auto. cbn.
    apply scan_tok_sound in T. destruct T as (-> & L & _).
    destruct (lexeme_head _ _ _ _ L) as (c & r & -> & _).
    rewrite ER, !slen_app in Hf. cbn in Hf. lia.
  - inv H. discriminate.
  - inv H. discriminate.
Qed.

Theorem lex_all_no_fuel plus src ts f : lex_all plus src = (ts, f) -> f <> FFuel.
Proof. unfold lex_all. apply lex_run_no_fuel. cbn. lia. Qed.

(* every token handed out (also before a lexical error) is the slice of the
   source at its offset, and STRING tokens are string lexemes *)
Definition tok_ok plus (src : string) (t : token) : Prop :=
  tok_at src t /\ lexeme true plus (tk_kind t) (tk_val t).

Lemma lex_run_tokens plus whole fuel : forall st ts f pre,
  whole = pre ++ ls_rest st -> t_off (ls_pos st) = N.of_nat (String.length pre) ->
  lex_run plus fuel st = (ts, f) -> Forall (tok_ok plus whole) ts.
Proof.
  induction fuel as [|fuel IH]; intros st ts f pre EW EO H.
  { inv H. constructor. }
  cbn [lex_run] in H. rewrite lex_next_unfold in H.
  destruct (span is_ws (ls_rest st)) as [w s1] eqn:S.
  apply span_sound in S. destruct S as (ER & _ & _).
  cbn zeta in H. destruct (scan_tok plus s1) as [k lx rest|lx rest|c consumed] eqn:T.
  - destruct (lex_run plus fuel (mkLS rest (adv_str (adv_str (ls_pos st) w) lx))) as [ts' f'] eqn:R.
    inv H. apply scan_tok_sound in T. destruct T as (-> & L & _).
    constructor.
    + split; [|exact L]. unfold tok_at, tk_off. cbn [tk_pos tk_val].
      rewrite t_off_adv_str, EO, <- Nnat.Nat2N.inj_add, Nnat.Nat2N.id, <- slen_app.
      rewrite ER, <- sapp_assoc. apply substring_mid.
    + apply (IH _ _ _ ((pre ++ w) ++ lx) ) in R; auto.
      * cbn. rewrite ER. now rewrite !sapp_assoc.
      * cbn. rewrite !t_off_adv_str, EO, !slen_app. lia.
  - inv H. constructor.
  - inv H. constructor.
Qed.

Theorem lex_offsets plus src ts f : lex_all plus src = (ts, f) -> Forall (tok_ok plus src) ts.
Proof.
  unfold lex_all. intros H.
  exact (lex_run_tokens plus src (S (String.length src)) (mkLS src pos0) ts f "" eq_refl eq_refl H).
Qed.

Corollary lex_strings_wf plus src ts f : lex_all plus src = (ts, f) ->
  Forall (fun t => tk_kind t = TString -> unquote (tk_val t) <> None) ts.
Proof.
  intros H. apply lex_offsets in H. eapply Forall_impl; [|exact H].
  intros t (_ & L) K. rewrite K in L. now apply string_lexeme_unquote.
Qed.

(* ------------------------------------------------------------ where a lexical error points *)
Lemma scan_tok_err_prefix plus s c consumed :
  scan_tok plus s = SErr c consumed -> exists r, s = consumed ++ r.
Proof.
  unfold scan_tok. destruct s as [|c0 r0].
  { intros H. inv H. exists "". reflexivity. }
  destruct (is_ident_start c0). { destruct (span is_ident_char r0). discriminate. }
  destruct (is_num c0 || is_c 45 c0) eqn:E1.
  { assert (Hfn : forall k cls l s0, follow_num k cls l s0 = SErr c consumed -> consumed = l).
    { intros k cls l s0. unfold follow_num. destruct s0 as [|a s0']; [discriminate|].
      destruct (is_alnum a); [|discriminate]. intros H. now inv H. }
    assert (Hxd : forall acc2 s2, lex_exp_digits acc2 s2 = SErr c consumed -> exists r, acc2 ++ s2 = consumed ++ r).
    { intros acc2 s2. unfold lex_exp_digits. destruct s2 as [|d s3].
      { intros H. inv H. eauto. }
      destruct (is_c 48 d) eqn:Z.
      { intros H. apply Hfn in H. subst consumed. apply zero_is in Z. subst d. exists s3. sa. }
      destruct (is_num d); [|intros H; inv H; eauto].
      destruct (span is_num s3) as [ds s4] eqn:S. apply span_sound in S. destruct S as (-> & _ & _).
      intros H. apply Hfn in H. subst consumed. exists s4. sa. }
    assert (Hex : forall k acc s0, lex_exp plus k acc s0 = SErr c consumed -> exists r, acc ++ s0 = consumed ++ r).
    { intros k acc s0. unfold lex_exp.
      assert (Hf : follow_num k 5 acc s0 = SErr c consumed -> exists r, acc ++ s0 = consumed ++ r).
      { intros H. apply Hfn in H. subst. eauto. }
      destruct s0 as [|e s1]; [exact Hf|].
      destruct (is_c 101 e || is_c 69 e); [|exact Hf].
      destruct s1 as [|g s2].
      { intros H. apply Hxd in H. destruct H as (r & H). exists r. rewrite <- H. sa. }
      destruct (is_c 45 g || plus && is_c 43 g).
      - intros H. apply Hxd in H. destruct H as (r & H). exists r. rewrite <- H. sa.
      - intros H. apply Hxd in H. destruct H as (r & H). exists r. rewrite <- H. sa. }
    assert (Hfr : forall acc s0, lex_frac plus acc s0 = SErr c consumed -> exists r, acc ++ s0 = consumed ++ r).
    { intros acc s0. unfold lex_frac. destruct s0 as [|c1 s1]; [apply Hex|].
      destruct (is_c 46 c1) eqn:D; [|apply Hex]. apply is_c_true in D. subst c1.
      destruct s1 as [|d s2].
      { intros H. inv H. exists "". sa. }
      destruct (is_num d).
      2:{ intros H. inv H. exists (String d s2). sa. }
      destruct (span is_num s2) as [ds s3] eqn:S. apply span_sound in S. destruct S as (-> & _ & _).
      intros H. apply Hex in H. destruct H as (r & H). exists r. rewrite <- H. sa. }
    assert (Hhx : forall pfx s0, lex_hex pfx s0 = SErr c consumed -> exists r, pfx ++ s0 = consumed ++ r).
    { intros pfx s0. unfold lex_hex. destruct s0 as [|c1 s1].
      { intros H. inv H. eauto. }
      destruct (is_c 48 c1) eqn:Z.
      { intros H. apply Hfn in H. subst consumed. apply zero_is in Z. subst c1. exists s1. sa. }
      destruct (is_hexnum c1); [|intros H; inv H; eauto].
      destruct (span is_hexnum s1) as [ds s2] eqn:S. apply span_sound in S. destruct S as (-> & _ & _).
      intros H. apply Hfn in H. subst consumed. exists s2. sa. }
    unfold lex_num.
    assert (Hbody : forall sg s1, String c0 r0 = sg ++ s1 ->
      match s1 with
      | String c1 s2 =>
          if is_c 48 c1 then
            match s2 with
            | String x s3 => if is_c 120 x then lex_hex (sg ++ "0x") s3 else lex_frac plus (sg ++ "0") s2
            | EmptyString => lex_frac plus (sg ++ "0") s2
            end
          else if is_num c1 then let (ds, s3) := span is_num s2 in lex_frac plus (sg ++ String c1 ds) s3
          else SErr 2 sg
      | EmptyString => SErr 2 sg
      end = SErr c consumed -> exists r, String c0 r0 = consumed ++ r).
    { intros sg s1 -> H. destruct s1 as [|c1 s2].
      { inv H. eauto. }
      destruct (is_c 48 c1) eqn:Z.
      - apply zero_is in Z. subst c1.
        assert (Hf : forall s2', lex_frac plus (sg ++ "0") s2' = SErr c consumed ->
                  exists r, sg ++ String "0" s2' = consumed ++ r).
        { intros s2' H'. apply Hfr in H'. destruct H' as (r & H'). exists r. rewrite <- H'. sa. }
        destruct s2 as [|x s3]; [now apply Hf|].
        destruct (is_c 120 x) eqn:X; [|now apply Hf]. apply is_c_true in X. subst x.
        apply Hhx in H. destruct H as (r & H). exists r. rewrite <- H. sa.
      - destruct (is_num c1); [|inv H; eauto].
        destruct (span is_num s2) as [ds s3] eqn:S. apply span_sound in S. destruct S as (-> & _ & _).
        apply Hfr in H. destruct H as (r & H). exists r. rewrite <- H. sa. }
    destruct (is_c 45 c0) eqn:M.
    - apply is_c_true in M. subst c0. apply (Hbody "-" r0). reflexivity.
    - apply (Hbody "" (String c0 r0)). reflexivity. }
  destruct (is_c 39 c0) eqn:Q.
  { unfold lex_string. destruct (str_loop r0) as [[a b]|]; [discriminate|].
    intros H. inv H. exists "". now rewrite sapp_nil_r. }
  destruct (is_c 125 c0) eqn:E3.
  { apply is_c_true in E3. subst c0. destruct r0 as [|c2 r2].
    - intros H. inv H. eexists; reflexivity.
    - destruct (is_c 125 c2); [discriminate|]. intros H. inv H. eexists; reflexivity. }
  unfold lex_opt_eq, lex_double, lex_char.
  repeat match goal with
  | |- (if is_c ?n c0 then _ else _) = _ -> _ =>
      let E := fresh "E" in destruct (is_c n c0) eqn:E
  end;
  try (destruct r0 as [|c2 r2]; [|destruct (is_c 61 c2)]; discriminate);
  try (destruct r0 as [|c2 r2]; [|destruct (Ascii.eqb c2 c0)]; try discriminate; intros H; inv H; eexists; reflexivity);
  try discriminate.
Qed.

(* offsets of everything a run reports stay inside the source *)
Definition fin_bounds (n : N) (f : lex_fin) : Prop :=
  match f with
  | FEnd p a => (t_off p + 2 = t_off a /\ t_off a <= n)%N
  | FErr e endp => (t_off endp <= t_off (le_pos e) /\ t_off (le_pos e) <= n)%N
  | FFuel => True
  end.

Ltac offs := repeat match goal with |- context [t_off (adv_str ?p ?s)] => rewrite (t_off_adv_str p s) end.

Lemma lex_run_bounds plus whole fuel : forall st ts f pre,
  whole = pre ++ ls_rest st -> t_off (ls_pos st) = N.of_nat (String.length pre) ->
  lex_run plus fuel st = (ts, f) ->
  Forall (fun t => (tk_off t < N.of_nat (String.length whole))%N) ts /\
  fin_bounds (N.of_nat (String.length whole)) f.
Proof.
  induction fuel as [|fuel IH]; intros st ts f pre EW EO H.
  { inv H. split; constructor. }
  cbn [lex_run] in H. rewrite lex_next_unfold in H.
  destruct (span is_ws (ls_rest st)) as [w s1] eqn:S.
  apply span_sound in S. destruct S as (ER & _ & _).
  cbn zeta in H. destruct (scan_tok plus s1) as [k lx rest|lx rest|c consumed] eqn:T.
  - destruct (lex_run plus fuel (mkLS rest (adv_str (adv_str (ls_pos st) w) lx))) as [ts' f'] eqn:R.
    inv H. apply scan_tok_sound in T. destruct T as (-> & L & _).
    destruct (lexeme_head _ _ _ _ L) as (c & r & -> & _).
    apply (IH _ _ _ ((pre ++ w) ++ String c r)) in R.
    + destruct R as (B1 & B2). split; [|exact B2].
      constructor; [|exact B1]. unfold tk_off. cbn [tk_pos].
      offs. rewrite EO, ER, !slen_app. cbn [String.length]. lia.
    + cbn. rewrite ER. now rewrite !sapp_assoc.
    + cbn [ls_pos]. offs. rewrite EO, !slen_app. cbn [String.length]. lia.
  - inv H. apply scan_tok_end in T. destruct T as (-> & ->).
    split; [constructor|]. cbn [fin_bounds ls_pos]. split.
    + offs. cbn. lia.
    + offs. rewrite EO, ER, !slen_app. cbn [String.length]. lia.
  - inv H. apply scan_tok_err_prefix in T. destruct T as (r & ->).
    split; [constructor|]. cbn [fin_bounds le_pos]. split.
    + offs. lia.
    + offs. rewrite EO, ER, !slen_app. lia.
Qed.

Theorem lex_all_bounds plus src ts f : lex_all plus src = (ts, f) ->
  Forall (fun t => (tk_off t < N.of_nat (String.length src))%N) ts /\
  fin_bounds (N.of_nat (String.length src)) f.
Proof.
  unfold lex_all. intros H.
  exact (lex_run_bounds plus src (S (String.length src)) (mkLS src pos0) ts f "" eq_refl eq_refl H).
Qed.

(* line and column too: a token's position is the position reached by scanning
   the text in front of it (offset = its length in bytes, line = 1 + number of
   line feeds, column = 1 + characters since the last line feed) *)
Definition tok_pos_ok (src : string) (t : token) : Prop :=
  exists pre post, src = pre ++ tk_val t ++ post /\ tk_pos t = adv_str pos0 pre.

Lemma lex_run_positions plus whole fuel : forall st ts f pre,
  whole = pre ++ ls_rest st -> ls_pos st = adv_str pos0 pre ->
  lex_run plus fuel st = (ts, f) ->
  Forall (tok_pos_ok whole) ts /\
  match f with
  | FEnd p a => exists pre' post', whole = pre' ++ "}}" ++ post' /\ p = adv_str pos0 pre' /\ a = adv_str pos0 (pre' ++ "}}")
  | FErr e endp => exists pre' mid post', whole = pre' ++ mid ++ post' /\ endp = adv_str pos0 pre' /\
                                          le_pos e = adv_str pos0 (pre' ++ mid)
  | FFuel => True
  end.
Proof.
  induction fuel as [|fuel IH]; intros st ts f pre EW EP H.
  { inv H. split; [constructor|exact I]. }
  cbn [lex_run] in H. rewrite lex_next_unfold in H.
  destruct (span is_ws (ls_rest st)) as [w s1] eqn:S.
  apply span_sound in S. destruct S as (ER & _ & _).
  cbn zeta in H. destruct (scan_tok plus s1) as [k lx rest|lx rest|c consumed] eqn:T.
  - destruct (lex_run plus fuel (mkLS rest (adv_str (adv_str (ls_pos st) w) lx))) as [ts' f'] eqn:R.
    inv H. apply scan_tok_sound in T. destruct T as (-> & L & _).
    apply (IH _ _ _ ((pre ++ w) ++ lx)) in R.
    + destruct R as (B1 & B2). split; [|exact B2]. constructor; [|exact B1].
      exists (pre ++ w), rest. cbn [tk_val tk_pos]. split.
      * rewrite ER. now rewrite !sapp_assoc.
      * now rewrite EP, adv_str_app.
    + cbn. rewrite ER. now rewrite !sapp_assoc.
    + cbn [ls_pos]. now rewrite EP, !adv_str_app.
  - inv H. apply scan_tok_end in T. destruct T as (-> & ->).
    split; [constructor|]. exists (pre ++ w), rest. cbn [ls_pos]. repeat split.
    + rewrite ER. now rewrite !sapp_assoc.
    + now rewrite EP, adv_str_app.
    + now rewrite EP, !adv_str_app.
  - inv H. apply scan_tok_err_prefix in T. destruct T as (r & ->).
    split; [constructor|]. exists (pre ++ w), consumed, r. cbn [le_pos]. repeat split.
    + rewrite ER. now rewrite !sapp_assoc.
    + now rewrite EP, adv_str_app.
    + now rewrite EP, !adv_str_app.
Qed.

Theorem lex_positions plus src ts f : lex_all plus src = (ts, f) -> Forall (tok_pos_ok src) ts.
Proof.
  unfold lex_all. intros H.
  exact (proj1 (lex_run_positions plus src (S (String.length src)) (mkLS src pos0) ts f "" eq_refl eq_refl H)).
Qed.
