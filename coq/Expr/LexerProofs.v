(* Expr/LexerProofs.v — the lexer model is sound and complete for the token
   specification of LexerSpec.v (dialect strict = true), token offsets are
   byte indices into the source, the fuel of lex_all suffices, STRING tokens
   are never shorter than two bytes (so parseString cannot panic). *)
From AL Require Import Expr.LexerSpec.
From Coq Require Import Lia.
Local Open Scope string_scope.

Ltac inv H := inversion H; subst; clear H.

(* ------------------------------------------------------------ strings *)
Lemma sapp_nil_r s : s ++ "" = s.
Proof. induction s; cbn; congruence. Qed.
Lemma sapp_assoc a b c : (a ++ b) ++ c = a ++ (b ++ c).
Proof. induction a; cbn; congruence. Qed.
Ltac sa := cbn; rewrite ?sapp_assoc; cbn; rewrite ?sapp_assoc; reflexivity.
Lemma slen_app a b : String.length (a ++ b) = String.length a + String.length b.
Proof. induction a; cbn; congruence. Qed.
Lemma str_forall_app p a b : str_forall p (a ++ b) = str_forall p a && str_forall p b.
Proof. induction a; cbn; [reflexivity|]. rewrite IHa. now rewrite andb_assoc. Qed.

Lemma span_sound p s a b : span p s = (a, b) -> s = a ++ b /\ str_forall p a = true /\ hd_ok (fnot p) b.
Proof.
  revert a b. induction s as [|c r IH]; intros a b H; cbn in H.
  - inv H. cbn. auto.
  - destruct (p c) eqn:E.
    + destruct (span p r) as [a' b'] eqn:S. inv H.
      destruct (IH _ _ eq_refl) as (-> & F & Hd). cbn. rewrite E, F. auto.
    + inv H. cbn. unfold fnot. rewrite E. auto.
Qed.

Lemma span_complete p a b : str_forall p a = true -> hd_ok (fnot p) b -> span p (a ++ b) = (a, b).
Proof.
  induction a as [|c r IH]; cbn; intros F Hd.
  - destruct b as [|c b']; cbn; [reflexivity|]. cbn in Hd. unfold fnot in Hd.
    destruct (p c); [discriminate|reflexivity].
  - apply andb_prop in F. destruct F as (F1 & F2). rewrite F1, (IH F2 Hd). reflexivity.
Qed.

(* ------------------------------------------------------------ characters *)
Lemma is_c_true n c : is_c n c = true -> c = ascii_of_nat n.
Proof.
  unfold is_c, ch. intros H. apply Nat.eqb_eq in H. rewrite <- H. now rewrite ascii_nat_embedding.
Qed.

Ltac ascii_cases c :=
  destruct c as [[] [] [] [] [] [] [] []]; vm_compute; try reflexivity; try discriminate; auto.

Definition is_e (c : ascii) : bool := is_c 101 c || is_c 69 c.

Lemma e_alnum c : is_e c = true -> is_alnum c = true.
Proof. ascii_cases c. Qed.
Lemma num_alnum c : is_num c = true -> is_alnum c = true.
Proof. ascii_cases c. Qed.
Lemma hex_alnum c : is_hexnum c = true -> is_alnum c = true.
Proof. ascii_cases c. Qed.
Lemma num_hex c : is_num c = true -> is_hexnum c = true.
Proof. ascii_cases c. Qed.
Lemma num_not_minus c : is_num c = true -> is_c 45 c = false.
Proof. ascii_cases c. Qed.
Lemma num_not_plus c : is_num c = true -> is_c 43 c = false.
Proof. ascii_cases c. Qed.
Lemma num_not_dot c : is_num c = true -> is_c 46 c = false.
Proof. ascii_cases c. Qed.
Lemma num_not_e c : is_num c = true -> is_e c = false.
Proof. ascii_cases c. Qed.
Lemma num_not_x c : is_num c = true -> is_c 120 c = false.
Proof. ascii_cases c. Qed.
Lemma num_not_start c : is_num c = true -> is_ident_start c = false.
Proof. ascii_cases c. Qed.
Lemma start_char c : is_ident_start c = true -> is_ident_char c = true.
Proof. ascii_cases c. Qed.
Lemma x_alnum c : is_c 120 c = true -> is_alnum c = true.
Proof. ascii_cases c. Qed.
Lemma ws_not_start c : is_ws c = true -> is_ident_start c = false /\ is_num c = false /\ is_c 45 c = false.
Proof. ascii_cases c. Qed.
Lemma zero_is c : is_c 48 c = true <-> c = "0"%char.
Proof.
  split; [intros H; apply is_c_true in H; subst; reflexivity | intros ->; reflexivity].
Qed.
Lemma zero_not c : c <> "0"%char -> is_c 48 c = false.
Proof. intros N. destruct (is_c 48 c) eqn:E; [|reflexivity]. apply zero_is in E. contradiction. Qed.

Lemma hd_ok_weaken (p q : ascii -> bool) s : (forall c, p c = true -> q c = true) -> hd_ok p s -> hd_ok q s.
Proof. destruct s; cbn; auto. Qed.

Lemma not_alnum_not_num s : hd_ok (fnot is_alnum) s -> hd_ok (fnot is_num) s.
Proof.
  apply hd_ok_weaken. unfold fnot. intros c H. destruct (is_num c) eqn:E; [|reflexivity].
  apply num_alnum in E. rewrite E in H. discriminate.
Qed.
Lemma not_alnum_not_hex s : hd_ok (fnot is_alnum) s -> hd_ok (fnot is_hexnum) s.
Proof.
  apply hd_ok_weaken. unfold fnot. intros c H. destruct (is_hexnum c) eqn:E; [|reflexivity].
  apply hex_alnum in E. rewrite E in H. discriminate.
Qed.

(* ------------------------------------------------------------ numbers: soundness *)
Lemma follow_num_ok k cls lx s k' lx' rest :
  follow_num k cls lx s = SOk k' lx' rest -> k' = k /\ lx' = lx /\ rest = s /\ hd_ok (fnot is_alnum) s.
Proof.
  unfold follow_num. destruct s as [|c r].
  - intros H. inv H. cbn. auto.
  - destruct (is_alnum c) eqn:E; intros H; [discriminate|]. inv H. cbn. unfold fnot. rewrite E. auto.
Qed.

Lemma follow_num_complete k cls lx s : hd_ok (fnot is_alnum) s -> follow_num k cls lx s = SOk k lx s.
Proof.
  unfold follow_num. destruct s as [|c r]; [reflexivity|]. cbn. unfold fnot.
  destruct (is_alnum c); [discriminate|reflexivity].
Qed.

Lemma nolead_zero isd : nolead isd "0".
Proof. now left. Qed.

Lemma lex_hex_sound pfx s k lx rest :
  lex_hex pfx s = SOk k lx rest ->
  exists ds, k = TInt /\ lx = pfx ++ ds /\ s = ds ++ rest /\ nolead is_hexnum ds /\ hd_ok (fnot is_alnum) rest.
Proof.
  unfold lex_hex. destruct s as [|c s1]; [discriminate|].
  destruct (is_c 48 c) eqn:Z.
  - intros H. apply follow_num_ok in H. destruct H as (-> & -> & -> & Hd).
    apply zero_is in Z. subst c. exists "0". repeat split; auto. apply nolead_zero.
  - destruct (is_hexnum c) eqn:Hx; [|discriminate].
    destruct (span is_hexnum s1) as [ds s2] eqn:S. intros H.
    apply follow_num_ok in H. destruct H as (-> & -> & -> & Hd).
    apply span_sound in S. destruct S as (-> & F & _).
    exists (String c ds). repeat split; auto.
    right. exists c, ds. repeat split; auto. intros ->. discriminate.
Qed.

Lemma lex_exp_sound plus k acc s k' lx rest :
  lex_exp plus k acc s = SOk k' lx rest ->
  exists ex, lx = acc ++ ex /\ s = ex ++ rest /\ expo true plus ex /\
             k' = (match ex with EmptyString => k | _ => TFloat end) /\ hd_ok (fnot is_alnum) rest.
Proof.
  unfold lex_exp.
  assert (Hnone : forall s0, follow_num k 5 acc s0 = SOk k' lx rest ->
            exists ex, lx = acc ++ ex /\ s0 = ex ++ rest /\ expo true plus ex /\
                       k' = (match ex with EmptyString => k | _ => TFloat end) /\ hd_ok (fnot is_alnum) rest).
  { intros s0 H. apply follow_num_ok in H. destruct H as (-> & -> & -> & Hd).
    exists "". rewrite sapp_nil_r. repeat split; auto. now left. }
  destruct s as [|e s1]; [apply Hnone|].
  destruct (is_c 101 e || is_c 69 e) eqn:E; [|apply Hnone].
  assert (He : e = "e"%char \/ e = "E"%char).
  { apply orb_prop in E. destruct E as [E|E]; apply is_c_true in E; subst; auto. }
  clear Hnone.
  (* the sign *)
  assert (Hdigits : forall acc2 sg s2, acc2 = (acc ++ String e "") ++ sg -> esign plus sg -> s1 = sg ++ s2 ->
            match s2 with
            | String d s3 =>
                if is_c 48 d then follow_num TFloat 5 (acc2 ++ "0") s3
                else if is_num d then
                       let (ds, s4) := span is_num s3 in follow_num TFloat 5 (acc2 ++ String d ds) s4
                     else SErr 4 acc2
            | EmptyString => SErr 4 acc2
            end = SOk k' lx rest ->
            exists ex, lx = acc ++ ex /\ String e s1 = ex ++ rest /\ expo true plus ex /\
                       k' = (match ex with EmptyString => k | _ => TFloat end) /\ hd_ok (fnot is_alnum) rest).
  { intros acc2 sg s2 -> Hsg -> H. destruct s2 as [|d s3]; [discriminate|].
    destruct (is_c 48 d) eqn:Z.
    - apply follow_num_ok in H. destruct H as (-> & -> & -> & Hd). apply zero_is in Z. subst d.
      exists (String e (sg ++ "0")). split.
      { rewrite !sapp_assoc. reflexivity. }
      split. { cbn. rewrite sapp_assoc. reflexivity. }
      split. { right. exists e, sg, "0". repeat split; auto. cbn. apply nolead_zero. }
      auto.
    - destruct (is_num d) eqn:Nd; [|discriminate].
      destruct (span is_num s3) as [ds s4] eqn:S.
      apply follow_num_ok in H. destruct H as (-> & -> & -> & Hd).
      apply span_sound in S. destruct S as (-> & F & _).
      exists (String e (sg ++ String d ds)). split.
      { rewrite !sapp_assoc. reflexivity. }
      split. { cbn. rewrite sapp_assoc. reflexivity. }
      split.
      { right. exists e, sg, (String d ds). repeat split; auto. cbn.
        right. exists d, ds. repeat split; auto. intros ->. discriminate. }
      auto. }
  destruct s1 as [|g s2].
  - intros H. cbn in H. discriminate.
  - destruct (is_c 45 g || plus && is_c 43 g) eqn:G.
    + intros H. apply (Hdigits (acc ++ String e "" ++ String g "") (String g "") s2).
      * now rewrite sapp_assoc.
      * apply orb_prop in G. destruct G as [G|G].
        { apply is_c_true in G. subst g. right. now left. }
        { apply andb_prop in G. destruct G as (P & G). apply is_c_true in G. subst g. right. right. auto. }
      * reflexivity.
      * rewrite sapp_assoc in H. exact H.
    + intros H. apply (Hdigits (acc ++ String e "") "" (String g s2)).
      * now rewrite sapp_nil_r.
      * now left.
      * reflexivity.
      * exact H.
Qed.

Lemma lex_frac_sound plus acc s k lx rest :
  lex_frac plus acc s = SOk k lx rest ->
  exists fr ex, lx = acc ++ fr ++ ex /\ s = fr ++ ex ++ rest /\ frac fr /\ expo true plus ex /\
                k = (match fr, ex with EmptyString, EmptyString => TInt | _, _ => TFloat end) /\
                hd_ok (fnot is_alnum) rest /\
                (fr = "" -> ex = "" -> hd_ok (fnot (is_c 46)) rest).
Proof.
  unfold lex_frac.
  assert (Hnone : forall s0, hd_ok (fnot (is_c 46)) s0 -> lex_exp plus TInt acc s0 = SOk k lx rest ->
    exists fr ex, lx = acc ++ fr ++ ex /\ s0 = fr ++ ex ++ rest /\ frac fr /\ expo true plus ex /\
                k = (match fr, ex with EmptyString, EmptyString => TInt | _, _ => TFloat end) /\
                hd_ok (fnot is_alnum) rest /\ (fr = "" -> ex = "" -> hd_ok (fnot (is_c 46)) rest)).
  { intros s0 Hdot H. apply lex_exp_sound in H. destruct H as (ex & -> & -> & He & -> & Hd).
    exists "", ex. repeat split; auto. { now left. }
    intros _ ->. exact Hdot. }
  destruct s as [|c s1]; [apply Hnone; exact I|].
  destruct (is_c 46 c) eqn:D.
  2:{ apply Hnone. cbn. unfold fnot. now rewrite D. }
  apply is_c_true in D. subst c. clear Hnone.
  destruct s1 as [|d s2]; [discriminate|].
  destruct (is_num d) eqn:Nd; [|discriminate].
  destruct (span is_num s2) as [ds s3] eqn:S. intros H.
  apply span_sound in S. destruct S as (-> & F & _).
  apply lex_exp_sound in H. destruct H as (ex & -> & -> & He & -> & Hd).
  exists (String "." (String d ds)), ex. split.
  { sa. }
  split. { sa. }
  split.
  { right. exists (String d ds). split; [reflexivity|]. split; [discriminate|]. cbn. now rewrite Nd, F. }
  split; [exact He|]. split; [destruct ex; reflexivity|]. split; [exact Hd|]. discriminate.
Qed.

Lemma sign_no_x sg : sign sg -> str_forall (fnot (is_c 120)) sg = true.
Proof. intros [->| ->]; reflexivity. Qed.

Lemma lex_frac_num plus sg ip s2 k lx rest :
  sign sg -> nolead is_num ip -> lex_frac plus (sg ++ ip) s2 = SOk k lx rest ->
  sg ++ ip ++ s2 = lx ++ rest /\ num_lexeme true plus k lx /\ follow_ok k lx rest.
Proof.
  intros Hsg Hip H. apply lex_frac_sound in H.
  destruct H as (fr & ex & -> & -> & Hfr & Hex & -> & Hd & Hdot).
  split. { sa. }
  split. { rewrite sapp_assoc. apply NL_dec; auto. }
  destruct fr; destruct ex; cbn; auto.
Qed.

Lemma lex_num_sound plus s k lx rest :
  lex_num plus s = SOk k lx rest ->
  s = lx ++ rest /\ num_lexeme true plus k lx /\ follow_ok k lx rest.
Proof.
  unfold lex_num.
  assert (Hbody : forall sg s1, sign sg -> s = sg ++ s1 ->
    match s1 with
    | String c s2 =>
        if is_c 48 c then
          match s2 with
          | String x s3 => if is_c 120 x then lex_hex (sg ++ "0x") s3 else lex_frac plus (sg ++ "0") s2
          | EmptyString => lex_frac plus (sg ++ "0") s2
          end
        else if is_num c then let (ds, s3) := span is_num s2 in lex_frac plus (sg ++ String c ds) s3
        else SErr 2 sg
    | EmptyString => SErr 2 sg
    end = SOk k lx rest ->
    s = lx ++ rest /\ num_lexeme true plus k lx /\ follow_ok k lx rest).
  { intros sg s1 Hsg -> H. destruct s1 as [|c s2]; [discriminate|].
    destruct (is_c 48 c) eqn:Z.
    - apply zero_is in Z. subst c.
      assert (Hf : forall s2', lex_frac plus (sg ++ "0") s2' = SOk k lx rest ->
                sg ++ String "0" s2' = lx ++ rest /\ num_lexeme true plus k lx /\ follow_ok k lx rest).
      { intros s2' H'. exact (lex_frac_num plus sg "0" s2' k lx rest Hsg (nolead_zero _) H'). }
      destruct s2 as [|x s3]; [now apply Hf|].
      destruct (is_c 120 x) eqn:X; [|now apply Hf].
      apply is_c_true in X. subst x.
      apply lex_hex_sound in H. destruct H as (ds & -> & -> & -> & Hds & Hd).
      split. { sa. }
      split. { rewrite sapp_assoc. apply NL_hex; auto. }
      cbn. split; [exact Hd|]. intros Hx. exfalso.
      rewrite !str_forall_app in Hx. cbn in Hx. rewrite andb_false_r in Hx. discriminate.
    - destruct (is_num c) eqn:Nc; [|discriminate].
      destruct (span is_num s2) as [ds s3] eqn:S.
      apply span_sound in S. destruct S as (-> & F & _).
      assert (Hip : nolead is_num (String c ds)).
      { right. exists c, ds. repeat split; auto. intros ->. discriminate. }
      destruct (lex_frac_num plus sg (String c ds) s3 k lx rest Hsg Hip H) as (E & L & Fo).
      split; [|auto]. rewrite <- E. cbn. reflexivity. }
  destruct s as [|c0 r0].
  - intros H. apply (Hbody "" ""); auto. now left.
  - destruct (is_c 45 c0) eqn:M.
    + apply is_c_true in M. subst c0. intros H. apply (Hbody "-" r0); auto. now right.
    + intros H. apply (Hbody "" (String c0 r0)); auto. now left.
Qed.

(* ------------------------------------------------------------ numbers: completeness *)
Local Arguments lex_hex : simpl never.
Local Arguments lex_frac : simpl never.
Local Arguments lex_exp : simpl never.
Local Arguments lex_exp_digits : simpl never.
Local Arguments follow_num : simpl never.
Local Arguments span : simpl never.
Local Arguments is_c : simpl never.
Local Arguments is_num : simpl never.
Local Arguments is_alnum : simpl never.
Local Arguments is_hexnum : simpl never.
Local Arguments is_ident_start : simpl never.
Local Arguments is_ident_char : simpl never.
Local Arguments is_ws : simpl never.

(* evaluate character tests on literal characters *)
Ltac cchar := repeat match goal with
  | |- context [is_c ?n (Ascii ?a ?b ?c ?d ?e ?f ?g ?h)] =>
      let t := constr:(is_c n (Ascii a b c d e f g h)) in
      let v := eval vm_compute in t in change t with v
  | |- context [?p (Ascii ?a ?b ?c ?d ?e ?f ?g ?h)] =>
      match p with
      | is_num => idtac | is_alnum => idtac | is_hexnum => idtac
      | is_ident_start => idtac | is_ident_char => idtac | is_ws => idtac
      end;
      let t := constr:(p (Ascii a b c d e f g h)) in
      let v := eval vm_compute in t in change t with v
  end.
Ltac crunch := repeat (progress (cbn; cchar)).

Lemma lex_hex_complete pfx ds rest :
  nolead is_hexnum ds -> hd_ok (fnot is_alnum) rest -> lex_hex pfx (ds ++ rest) = SOk TInt (pfx ++ ds) rest.
Proof.
  intros [->|(c & r & -> & Hc & Nz & F)] Hd; unfold lex_hex; cbn.
  - now apply follow_num_complete.
  - rewrite (zero_not _ Nz), Hc. rewrite (span_complete _ _ _ F (not_alnum_not_hex _ Hd)).
    now apply follow_num_complete.
Qed.

Lemma exp_digits_complete acc2 ds rest :
  nolead is_num ds -> hd_ok (fnot is_alnum) rest ->
  lex_exp_digits acc2 (ds ++ rest) = SOk TFloat (acc2 ++ ds) rest.
Proof.
  intros [->|(c & r & -> & Hc & Nz & F)] Hd; unfold lex_exp_digits; cbn.
  - now apply follow_num_complete.
  - rewrite (zero_not _ Nz), Hc. rewrite (span_complete _ _ _ F (not_alnum_not_num _ Hd)).
    now apply follow_num_complete.
Qed.

Lemma nolead_head_num ds : nolead is_num ds -> exists d r, ds = String d r /\ is_num d = true.
Proof. intros [->|(c & r & -> & Hc & _)]; eexists; eexists; split; eauto. Qed.

Lemma lex_exp_complete plus k acc ex rest :
  expo true plus ex -> hd_ok (fnot is_alnum) rest ->
  lex_exp plus k acc (ex ++ rest) = SOk (match ex with EmptyString => k | _ => TFloat end) (acc ++ ex) rest.
Proof.
  intros [->|(e & sg & ds & -> & He & Hsg & Hds)] Hd.
  - cbn. rewrite sapp_nil_r. unfold lex_exp. destruct rest as [|c r]; [now apply follow_num_complete|].
    change (is_c 101 c || is_c 69 c) with (is_e c).
    destruct (is_e c) eqn:E.
    + apply e_alnum in E. cbn in Hd. unfold fnot in Hd. rewrite E in Hd. discriminate.
    + now apply follow_num_complete.
  - cbn in Hds. unfold lex_exp. cbn [append].
    replace (is_c 101 e || is_c 69 e) with true by (destruct He as [->| ->]; reflexivity).
    rewrite sapp_assoc.
    destruct Hsg as [->|[->|(-> & ->)]].
    + cbn [append]. destruct (nolead_head_num _ Hds) as (d & r & -> & Nd). cbn [append].
      rewrite (num_not_minus _ Nd), (num_not_plus _ Nd), andb_false_r. cbn [orb].
      change (String d (r ++ rest)) with (String d r ++ rest).
      rewrite exp_digits_complete; auto. f_equal. sa.
    + cbn [append]. change (is_c 45 "-") with true. cbn [orb].
      rewrite exp_digits_complete; auto. f_equal. sa.
    + cbn [append]. change (is_c 45 "+") with false. change (is_c 43 "+") with true. cbn [orb andb].
      rewrite exp_digits_complete; auto. f_equal. sa.
Qed.

Lemma expo_head ex (q : ascii -> bool) : (q "e"%char = true) -> (q "E"%char = true) ->
  forall strict plus e r, expo strict plus ex -> ex = String e r -> q e = true.
Proof.
  intros Q1 Q2 strict plus e r [->|(e' & sg & ds & -> & He & _)] E; [discriminate|].
  inv E. destruct He as [->| ->]; auto.
Qed.

(* what follows the integer part: a fraction, an exponent, or a delimiter *)
Lemma tail_head (q : ascii -> bool) fr ex rest strict plus :
  q "."%char = true -> q "e"%char = true -> q "E"%char = true ->
  frac fr -> expo strict plus ex -> hd_ok q rest -> hd_ok q (fr ++ ex ++ rest).
Proof.
  intros Q0 Q1 Q2 [->|(ds & -> & _)] Hex Hr; [|exact Q0].
  cbn. destruct ex as [|e r]; [exact Hr|]. cbn. eapply expo_head; eauto.
Qed.

Lemma hd_ok_and (p q : ascii -> bool) s : hd_ok p s -> hd_ok q s -> hd_ok (fun c => p c && q c) s.
Proof. destruct s; cbn; auto. intros -> ->. reflexivity. Qed.

Lemma lex_frac_complete plus acc fr ex rest :
  frac fr -> expo true plus ex -> hd_ok (fnot is_alnum) rest ->
  (fr = "" -> ex = "" -> hd_ok (fnot (is_c 46)) rest) ->
  lex_frac plus acc (fr ++ ex ++ rest) =
  SOk (match fr, ex with EmptyString, EmptyString => TInt | _, _ => TFloat end) (acc ++ fr ++ ex) rest.
Proof.
  intros [->|(ds & -> & (Nn & F))] Hex Hd Hdot.
  - cbn [append]. unfold lex_frac.
    assert (G : lex_exp plus TInt acc (ex ++ rest) =
                SOk (match ex with EmptyString => TInt | _ => TFloat end) (acc ++ ex) rest)
      by now apply lex_exp_complete.
    destruct ex as [|e r].
    + cbn [append] in *. destruct rest as [|c r']; [exact G|].
      specialize (Hdot eq_refl eq_refl). cbn in Hdot. unfold fnot in Hdot.
      destruct (is_c 46 c); [discriminate|exact G].
    + cbn [append] in *.
      assert (Q : fnot (is_c 46) e = true) by (eapply (expo_head _ (fnot (is_c 46))); eauto).
      unfold fnot in Q. apply negb_true_iff in Q. rewrite Q. exact G.
  - destruct ds as [|d r]; [congruence|]. cbn in F. apply andb_prop in F. destruct F as (Nd & F).
    unfold lex_frac. cbn [append]. replace (is_c 46 ".") with true by reflexivity. rewrite Nd.
    assert (Hn : hd_ok (fnot is_num) (ex ++ rest)).
    { destruct ex as [|e r']; [now apply not_alnum_not_num|]. cbn.
      eapply (expo_head _ (fnot is_num)); eauto. }
    rewrite (span_complete _ _ _ F Hn).
    rewrite lex_exp_complete; auto. f_equal; [destruct ex; reflexivity|sa].
Qed.

Lemma nolead_no_x ip : nolead is_num ip -> str_forall (fnot (is_c 120)) ip = true.
Proof.
  intros [->|(c & r & -> & Hc & _ & F)]; [reflexivity|]. cbn. unfold fnot at 1.
  rewrite (num_not_x _ Hc). cbn. clear Hc. induction r as [|c' r IH]; [reflexivity|].
  cbn in *. apply andb_prop in F. destruct F as (F1 & F2). unfold fnot at 1.
  rewrite (num_not_x _ F1). cbn. auto.
Qed.

Lemma lex_num_complete plus k lx rest :
  num_lexeme true plus k lx -> follow_ok k lx rest -> lex_num plus (lx ++ rest) = SOk k lx rest.
Proof.
  intros L Fo. destruct L as [sg ds Hsg Hds | sg ip fr ex Hsg Hip Hfr Hex].
  - cbn in Hds, Fo. destruct Fo as (Hd & _). rewrite !sapp_assoc. unfold lex_num.
    destruct Hsg as [->| ->]; crunch; rewrite lex_hex_complete; auto.
  - assert (Hd : hd_ok (fnot is_alnum) rest) by (destruct fr; destruct ex; cbn in Fo; tauto).
    assert (Hdot : fr = "" -> ex = "" -> hd_ok (fnot (is_c 46)) rest).
    { intros -> ->. cbn in Fo. destruct Fo as (_ & Fo). apply Fo.
      rewrite !sapp_nil_r, str_forall_app, (sign_no_x _ Hsg), (nolead_no_x _ Hip). reflexivity. }
    pose proof (lex_frac_complete plus) as LF.
    assert (Hx : hd_ok (fnot (is_c 120)) (fr ++ ex ++ rest)).
    { eapply tail_head; eauto; try reflexivity. revert Hd. apply hd_ok_weaken.
      unfold fnot. intros c H. destruct (is_c 120 c) eqn:X; [|reflexivity].
      apply x_alnum in X. rewrite X in H. discriminate. }
    assert (Hn : hd_ok (fnot is_num) (fr ++ ex ++ rest)).
    { eapply tail_head; eauto; try reflexivity. now apply not_alnum_not_num. }
    replace ((sg ++ ip ++ fr ++ ex) ++ rest) with (sg ++ ip ++ (fr ++ ex ++ rest)) by sa.
    unfold lex_num.
    destruct Hip as [->|(c & r & -> & Hc & Nz & F)].
    + assert (G : forall sg', lex_frac plus (sg' ++ "0") (fr ++ ex ++ rest) =
                 SOk (match fr, ex with EmptyString, EmptyString => TInt | _, _ => TFloat end)
                     (sg' ++ "0" ++ fr ++ ex) rest).
      { intros sg'. rewrite LF; auto. f_equal. sa. }
      destruct Hsg as [->| ->]; crunch.
      * destruct (fr ++ ex ++ rest) as [|x s3] eqn:T; [apply (G "")|].
        cbn in Hx. unfold fnot in Hx. destruct (is_c 120 x); [discriminate|apply (G "")].
      * destruct (fr ++ ex ++ rest) as [|x s3] eqn:T; [apply (G "-")|].
        cbn in Hx. unfold fnot in Hx. destruct (is_c 120 x); [discriminate|apply (G "-")].
    + assert (G : forall sg', lex_frac plus (sg' ++ String c r) (fr ++ ex ++ rest) =
                 SOk (match fr, ex with EmptyString, EmptyString => TInt | _, _ => TFloat end)
                     (sg' ++ String c r ++ fr ++ ex) rest).
      { intros sg'. rewrite LF; auto. f_equal. sa. }
      destruct Hsg as [->| ->]; cbn [append].
      * crunch. rewrite (num_not_minus _ Hc). crunch. rewrite (zero_not _ Nz), Hc.
        rewrite (span_complete _ _ _ F Hn). apply (G "").
      * crunch. rewrite (zero_not _ Nz), Hc. rewrite (span_complete _ _ _ F Hn). apply (G "-").
Qed.
