(* Expr/UntrustedObs.v — the observable of the C11 correspondence check: the
   model (repaired automaton driven by the Sema traversal, generated tree and
   function table) evaluated on a dumped ExprNode tree, projected to number
   tuples [line; col; kind; leaf indices…] in emission order.  kind 1 = the
   one-path message, 2 = the object-filter message; a path is identified by its
   index among the leaves of the generated tree (DFS order). *)
From AL Require Import Base.Corr Expr.Untrusted Gen.GenUntrusted.
From Coq Require Import NArith.

Definition P (o l c : N) : tpos := {| t_off := o; t_line := l; t_col := c |}.
Arguments P (o l c)%N.

Fixpoint leaves_of (pre : path) (t : utree) : list path :=
  let 'UT n cs := t in
  match cs with
  | [] => [pre ++ [n]]
  | _ :: _ => flat_map (leaves_of (pre ++ [n])) cs
  end.

Definition all_leaves (ts : list utree) : list path := flat_map (leaves_of []) ts.

Fixpoint path_eqb (a b : path) : bool :=
  match a, b with
  | [], [] => true
  | x :: a', y :: b' => String.eqb x y && path_eqb a' b'
  | _, _ => false
  end.

Fixpoint index_of (p : path) (l : list path) (i : N) : N :=
  match l with
  | [] => 9999%N
  | q :: l' => if path_eqb p q then i else index_of p l' (N.succ i)
  end.

Fixpoint insert_n (x : N) (l : list N) : list N :=
  match l with
  | [] => [x]
  | y :: l' => if N.leb x y then x :: l else y :: insert_n x l'
  end.

Definition obs_of_report (leaves : list path) (r : report) : tuple :=
  let '(start, ps) := r in
  let '(line, col) := match start with Some p => (t_line p, t_col p) | None => (0%N, 0%N) end in
  let kind := match ps with [_] => 1%N | _ => 2%N end in
  line :: col :: kind :: fold_right insert_n [] (map (fun p => index_of p leaves 0%N) ps).

Definition run_c11 (e : expr) : list tuple :=
  map (obs_of_report (all_leaves tree)) (check_untrusted true tree funcs true e).

(* the automaton as it was before repo_patches/untrusted, for replaying the findings *)
Definition run_c11_old (e : expr) : list tuple :=
  map (obs_of_report (all_leaves tree)) (check_untrusted false tree funcs true e).

(* the same with an arbitrary tree (the harness swaps BuiltinUntrustedInputs) *)
Definition run_c11_tree (te : list utree * expr) : list tuple :=
  map (obs_of_report (all_leaves (fst te))) (check_untrusted true (fst te) funcs true (snd te)).

(* the automaton alone, driven through the exported callbacks by VisitExprNode *)
Definition run_c11_visit (e : expr) : list tuple :=
  map (obs_of_report (all_leaves tree)) (reported true tree (visit_events e)).
