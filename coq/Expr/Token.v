(* Expr/Token.v — tokens of the expression lexer (expr_lexer.go: TokenKind,
   Token) and the literal-denotation functions shared by the parser model and
   the grammar (expr_parser.go: parseInt, parseString).

   TokenKindUnknown and TokenKindEnd are not token kinds of the model: the End
   marker is modelled as the end of the token list together with the position
   the End token carries, so that a token list is always a well-formed stream
   (every stream the real lexer delivers is: tokens, then End forever). *)
From AL Require Export Expr.Ast.

Inductive tkind :=
| TIdent | TString | TInt | TFloat
| TLParen | TRParen | TLBracket | TRBracket
| TDot | TNot | TLess | TLessEq | TGreater | TGreaterEq | TEq | TNotEq
| TAnd | TOr | TStar | TComma.

Scheme Equality for tkind.

(* numeric value of the Go constant (TokenKindEnd = 1, TokenKindIdent = 2, ...) *)
Definition kind_code (k : tkind) : N :=
  match k with
  | TIdent => 2 | TString => 3 | TInt => 4 | TFloat => 5
  | TLParen => 6 | TRParen => 7 | TLBracket => 8 | TRBracket => 9
  | TDot => 10 | TNot => 11 | TLess => 12 | TLessEq => 13 | TGreater => 14
  | TGreaterEq => 15 | TEq => 16 | TNotEq => 17 | TAnd => 18 | TOr => 19
  | TStar => 20 | TComma => 21
  end%N.
Definition end_code : N := 1%N.

Record token := mkTok { tk_kind : tkind; tk_val : string; tk_pos : tpos }.

Definition tk_off (t : token) : N := t_off (tk_pos t).

Definition cmp_of_kind (k : tkind) : option cmpop :=
  match k with
  | TLess => Some CLess | TLessEq => Some CLessEq
  | TGreater => Some CGreater | TGreaterEq => Some CGreaterEq
  | TEq => Some CEq | TNotEq => Some CNotEq
  | _ => None
  end.

(* ------------------------------------------------------------------ *)
(* character classes of expr_lexer.go *)
Definition ch (c : ascii) : nat := nat_of_ascii c.
Definition is_ws (c : ascii) : bool :=
  let n := ch c in (n =? 32) || (n =? 10) || (n =? 13) || (n =? 9).
Definition is_alpha (c : ascii) : bool :=
  let n := ch c in ((97 <=? n) && (n <=? 122)) || ((65 <=? n) && (n <=? 90)).
Definition is_num (c : ascii) : bool := let n := ch c in (48 <=? n) && (n <=? 57).
Definition is_hexnum (c : ascii) : bool :=
  let n := ch c in is_num c || ((97 <=? n) && (n <=? 102)) || ((65 <=? n) && (n <=? 70)).
Definition is_alnum (c : ascii) : bool := is_alpha c || is_num c.
Definition is_ident_start (c : ascii) : bool := is_alpha c || (ch c =? 95).
Definition is_ident_char (c : ascii) : bool := is_alnum c || (ch c =? 95) || (ch c =? 45).

(* ------------------------------------------------------------------ *)
(* strconv.ParseInt(s, 0, 32) on the literals the lexer can produce:
   -? ( decimal digits | 0x hex digits ).  None = strconv reports an error
   (out of the int32 range; or, for texts the lexer never produces, a text
   that is not of this shape). *)
Definition digit_val (c : ascii) : option Z :=
  if is_num c then Some (Z.of_nat (ch c - 48)) else None.
Definition hex_val (c : ascii) : option Z :=
  let n := ch c in
  if is_num c then Some (Z.of_nat (n - 48))
  else if (97 <=? n) && (n <=? 102) then Some (Z.of_nat (n - 87))
  else if (65 <=? n) && (n <=? 70) then Some (Z.of_nat (n - 55))
  else None.

Fixpoint digits_value (base : Z) (dv : ascii -> option Z) (acc : Z) (s : string) : option Z :=
  match s with
  | EmptyString => Some acc
  | String c r =>
      match dv c with
      | Some d => digits_value base dv (acc * base + d)%Z r
      | None => None
      end
  end.

Definition magnitude (s : string) : option Z :=
  match s with
  | String "0" (String "x" h) =>
      match h with EmptyString => None | _ => digits_value 16 hex_val 0 h end
  | EmptyString => None
  | _ => digits_value 10 digit_val 0 s
  end.

Definition signed_value (s : string) : option Z :=
  match s with
  | String "-" r => option_map Z.opp (magnitude r)
  | _ => magnitude s
  end.

Definition in_int32 (z : Z) : bool := ((-2147483648 <=? z) && (z <=? 2147483647))%Z.

Definition int32_lit (s : string) : option Z :=
  match signed_value s with
  | Some z => if in_int32 z then Some z else None
  | None => None
  end.

(* the documented language has no range restriction on integer literals *)
Definition int_lit_unbounded (s : string) : option Z := signed_value s.

(* ------------------------------------------------------------------ *)
(* parseString: s[1:len(s)-1] then strings.ReplaceAll(s, "''", "'").
   None = the slice expression would panic (len(s) < 2). *)
Fixpoint drop_last (s : string) : option string :=
  match s with
  | EmptyString => None
  | String c EmptyString => Some EmptyString
  | String c r => option_map (String c) (drop_last r)
  end.

Fixpoint unescape (s : string) : string :=
  match s with
  | EmptyString => EmptyString
  | String c r =>
      match r with
      | String c2 r2 =>
          if (ch c =? 39) && (ch c2 =? 39) then String c (unescape r2) else String c (unescape r)
      | EmptyString => String c EmptyString
      end
  end.

Definition unquote (s : string) : option string :=
  match s with
  | EmptyString => None
  | String _ r => option_map unescape (drop_last r)
  end.

(* keywords are case sensitive; variable names are folded to lower case *)
Definition ident_node (t : token) : expr :=
  if String.eqb (tk_val t) "null" then ENull (tk_pos t)
  else if String.eqb (tk_val t) "true" then EBool (tk_pos t) true
  else if String.eqb (tk_val t) "false" then EBool (tk_pos t) false
  else EVar (tk_pos t) (lower (tk_val t)).
