(* Expr/UntrustedSpec.v — what C11 demands, written from the property text
   and independent of the automaton (Untrusted.v is not imported).

   "every expression that reads one of the documented untrusted inputs is
    reported, whatever syntactic form reaches it: dot or ['name'] access in any
    letter case, array index or .* filter, nested inside operators,
    parentheses, index expressions or non-sanitising function calls, alone or
    several per expression; the report names the path(s).  Expressions that
    read no such input, reads inside contains/startsWith/endsWith […] are
    never reported."

   Reading:
   * an *access chain* is a variable followed by any number of `.name`,
     `['name']`, `[expr]`, `.*` steps; only maximal chains count (a prefix of a
     longer chain is not an expression of its own);
   * a chain is followed through the tree of documented inputs: a name step
     (dot or string-literal index, compared in lower case) goes to the child of
     that name; `[expr]` goes to the array element (`*` child); `.*` goes to
     the array element, or, on an object, to every member; after a `.*` the
     value is the array of the selected members, so the next `[expr]` selects
     one of them and does not move in the tree;
   * the chain reads a documented input iff it ends on a leaf; it is reported
     once, at its variable, with all the leaves it ends on;
   * the name `*` written as a property (`x['*']`) is not the element marker;
   * chains inside dynamic indices, operator operands and arguments of
     non-sanitising calls count; nothing inside a call of
     contains/startsWith/endsWith (in any letter case) counts;
   * arguments of an undefined function are not looked at (the call itself is
     rejected with "undefined function"; the expression is not valid). *)
From AL Require Export Expr.Ast Expr.UntrustedTree.

Inductive seg := SName (n : string) | SElem | SStar.

Record chain := { ch_pos : tpos; ch_root : string; ch_segs : list seg }.

Definition add_seg (s : seg) (c : chain) : chain :=
  {| ch_pos := ch_pos c; ch_root := ch_root c; ch_segs := ch_segs c ++ [s] |}.

(* e read as an access chain rooted at a variable *)
Fixpoint chain_of (e : expr) : option chain :=
  match e with
  | EVar p n => Some {| ch_pos := p; ch_root := lower n; ch_segs := [] |}
  | EDeref r n => option_map (add_seg (SName (lower n))) (chain_of r)
  | EArrDeref r => option_map (add_seg SStar) (chain_of r)
  | EIndex o (EStr _ v) => option_map (add_seg (SName (lower v))) (chain_of o)
  | EIndex o _ => option_map (add_seg SElem) (chain_of o)
  | _ => None
  end.

Definition top_chain (e : expr) : list chain :=
  match chain_of e with Some c => [c] | None => [] end.

Definition sanitising (callee : string) : bool :=
  let c := lower callee in
  String.eqb c "contains" || String.eqb c "startswith" || String.eqb c "endswith".

Section Spec.
Variable roots : list utree.
Variable defined : string -> bool.      (* the function name is a defined function *)

(* maximal chains strictly below the chain position of e, in evaluation order
   (index before operand, arguments left to right) *)
Fixpoint sub_chains (e : expr) : list chain :=
  match e with
  | EVar _ _ | ENull _ | EBool _ _ | EInt _ _ | EFloat _ _ | EStr _ _ => []
  | EDeref r _ => sub_chains r
  | EArrDeref r => sub_chains r
  | EIndex o i => (sub_chains i ++ top_chain i) ++ sub_chains o
  | ENot _ a => sub_chains a ++ top_chain a
  | ECmp _ l r => (sub_chains l ++ top_chain l) ++ (sub_chains r ++ top_chain r)
  | ELog _ l r => (sub_chains l ++ top_chain l) ++ (sub_chains r ++ top_chain r)
  | ECall _ c args =>
      if sanitising c then []
      else if defined c then flat_map (fun a => sub_chains a ++ top_chain a) args
      else []
  end.

(* all maximal chains of e outside sanitising calls *)
Definition chains (e : expr) : list chain := sub_chains e ++ top_chain e.

(* ---- following a chain through the tree ------------------------------- *)

Definition tpos_in_tree : Type := path * utree.   (* a tree node with its path *)

Definition child_named (n : string) (p : tpos_in_tree) : list tpos_in_tree :=
  match find_named n (ut_children (snd p)) with
  | Some t => [(fst p ++ [n], t)]
  | None => []
  end.

Definition members (p : tpos_in_tree) : list tpos_in_tree :=
  map (fun t => (fst p ++ [ut_name t], t)) (ut_children (snd p)).

Definition star_of (p : tpos_in_tree) : list tpos_in_tree :=
  match child_named "*" p with
  | [] => members p
  | l => l
  end.

(* positions reached, and whether a `.*` result array is still to be indexed *)
Definition walk_seg (w : list tpos_in_tree * bool) (s : seg) : list tpos_in_tree * bool :=
  match s with
  | SName n => if String.eqb n "*" then ([], snd w) else (flat_map (child_named n) (fst w), snd w)
  | SElem => if snd w then (fst w, false) else (flat_map (child_named "*") (fst w), false)
  | SStar => (flat_map star_of (fst w), true)
  end.

Definition walk_start (root : string) : list tpos_in_tree * bool :=
  (match find_named root roots with Some t => [([root], t)] | None => [] end, false).

Definition walk (c : chain) : list tpos_in_tree * bool :=
  fold_left walk_seg (ch_segs c) (walk_start (ch_root c)).

Definition is_leaf (p : tpos_in_tree) : bool :=
  match ut_children (snd p) with [] => true | _ :: _ => false end.

(* the documented inputs the chain reads *)
Definition reads (c : chain) : list path := map fst (filter is_leaf (fst (walk c))).

Definition sreport : Type := tpos * list path.

Definition report_of (c : chain) : list sreport :=
  match reads c with [] => [] | ps => [(ch_pos c, ps)] end.

Definition spec_paths (e : expr) : list sreport := flat_map report_of (chains e).

End Spec.

(* shape of the trees the parser produces (expr_parser.go lower-cases variable
   and property names; `.*` is an ArrayDerefNode, never a property named `*`).
   The harness asserts it on every tree it dumps. *)
Fixpoint parser_normal (e : expr) : Prop :=
  match e with
  | EVar _ n => lower n = n
  | ENull _ | EBool _ _ | EInt _ _ | EFloat _ _ | EStr _ _ => True
  | EDeref r n => lower n = n /\ n <> "*" /\ parser_normal r
  | EArrDeref r => parser_normal r
  | EIndex o i => parser_normal o /\ parser_normal i
  | ENot _ a => parser_normal a
  | ECmp _ l r => parser_normal l /\ parser_normal r
  | ELog _ l r => parser_normal l /\ parser_normal r
  | ECall _ _ args => (fix go (l : list expr) : Prop :=
                         match l with [] => True | a :: l' => parser_normal a /\ go l' end) args
  end.
