(* Expr/UntrustedSpec.v — what C11 demands, written from the property text
   and independent of the automaton (Untrusted.v is not imported).

   "every expression that reads one of the documented untrusted inputs is
    reported, whatever syntactic form reaches it: dot or ['name'] access in any
    letter case, array index or .* filter, nested inside operators,
    parentheses, index expressions or non-sanitising function calls, alone or
    several per expression; the report names the path(s).  Expressions that
    read no such input, reads inside contains/startsWith/endsWith […] are
    never reported."

   Reading:
   * an *access chain* is a variable followed by any number of `.name`,
     `['name']`, `[expr]`, `.*` steps; only maximal chains count (a prefix of a
     longer chain is not an expression of its own);
   * a chain is followed through the tree of documented inputs: a name step
     (dot or string-literal index, compared in lower case) goes to the child of
     that name; `[expr]` goes to the array element (`*` child); `.*` goes to
     the array element, or, on an object, to every member; after a `.*` the
     value is the array of the selected members, so the next `[expr]` selects
     one of them and does not move in the tree;
   * the chain reads a documented input iff it ends on a leaf; it is reported
     once, at its variable, with all the leaves it ends on;
   * the name `*` written as a property (`x['*']`) is not the element marker;
   * chains inside dynamic indices, operator operands and arguments of
     non-sanitising calls count; nothing inside a call of
     contains/startsWith/endsWith (in any letter case) counts;
   * arguments of an undefined function are not looked at (the call itself is
     rejected with "undefined function"; the expression is not valid). *)
From AL Require Export Expr.Ast Expr.UntrustedTree.

Inductive seg := SName (n : string) | SElem | SStar.

Record chain := { ch_pos : tpos; ch_root : string; ch_segs : list seg }.

Definition add_seg (s : seg) (c : chain) : chain :=
  {| ch_pos := ch_pos c; ch_root := ch_root c; ch_segs := ch_segs c ++ [s] |}.

(* e read as an access chain rooted at a variable *)
Fixpoint chain_of (e : expr) : option chain :=
  match e with
  | EVar p n => Some {| ch_pos := p; ch_root := lower n; ch_segs := [] |}
  | EDeref r n => option_map (add_seg (SName (lower n))) (chain_of r)
  | EArrDeref r => option_map (add_seg SStar) (chain_of r)
  | EIndex o (EStr _ v) => option_map (add_seg (SName (lower v))) (chain_of o)
  | EIndex o _ => option_map (add_seg SElem) (chain_of o)
  | _ => None
  end.

Definition top_chain (e : expr) : list chain :=
  match chain_of e with Some c => [c] | None => [] end.

Definition sanitising (callee : string) : bool :=
  let c := lower callee in
  String.eqb c "contains" || String.eqb c "startswith" || String.eqb c "endswith".

Section Spec.
Variable roots : list utree.
Variable defined : string -> bool.      (* the function name is a defined function *)

(* maximal chains strictly below the chain position of e, in evaluation order
   (index before operand, arguments left to right) *)
Fixpoint sub_chains (e : expr) : list chain :=
  match e with
  | EVar _ _ | ENull _ | EBool _ _ | EInt _ _ | EFloat _ _ | EStr _ _ => []
  | EDeref r _ => sub_chains r
  | EArrDeref r => sub_chains r
  | EIndex o i => (sub_chains i ++ top_chain i) ++ sub_chains o
  | ENot _ a => sub_chains a ++ top_chain a
  | ECmp _ l r => (sub_chains l ++ top_chain l) ++ (sub_chains r ++ top_chain r)
  | ELog _ l r => (sub_chains l ++ top_chain l) ++ (sub_chains r ++ top_chain r)
  | ECall _ c args =>
      if sanitising c then []
      else if defined c then flat_map (fun a => sub_chains a ++ top_chain a) args
      else []
  end.

(* all maximal chains of e outside sanitising calls *)
Definition chains (e : expr) : list chain := sub_chains e ++ top_chain e.

(* ---- following a chain through the tree ------------------------------- *)

Definition tpos_in_tree : Type := path * utree.   (* a tree node with its path *)

Definition child_named (n : string) (p : tpos_in_tree) : list tpos_in_tree :=
  match find_named n (ut_children (snd p)) with
  | Some t => [(fst p ++ [n], t)]
  | None => []
  end.

Definition members (p : tpos_in_tree) : list tpos_in_tree :=
  map (fun t => (fst p ++ [ut_name t], t)) (ut_children (snd p)).

Definition star_of (p : tpos_in_tree) : list tpos_in_tree :=
  match child_named "*" p with
  | [] => members p
  | l => l
  end.

(* positions reached, and whether a `.*` result array is still to be indexed *)
Definition walk_seg (w : list tpos_in_tree * bool) (s : seg) : list tpos_in_tree * bool :=
  match s with
  | SName n => if String.eqb n "*" then ([], snd w) else (flat_map (child_named n) (fst w), snd w)
  | SElem => if snd w then (fst w, false) else (flat_map (child_named "*") (fst w), false)
  | SStar => (flat_map star_of (fst w), true)
  end.

Definition walk_start (root : string) : list tpos_in_tree * bool :=
  (match find_named root roots with Some t => [([root], t)] | None => [] end, false).

Definition walk (c : chain) : list tpos_in_tree * bool :=
  fold_left walk_seg (ch_segs c) (walk_start (ch_root c)).

Definition is_leaf (p : tpos_in_tree) : bool :=
  match ut_children (snd p) with [] => true | _ :: _ => false end.

(* the documented inputs the chain reads *)
Definition reads (c : chain) : list path := map fst (filter is_leaf (fst (walk c))).

Definition sreport : Type := tpos * list path.

Definition report_of (c : chain) : list sreport :=
  match reads c with [] => [] | ps => [(ch_pos c, ps)] end.

Definition spec_paths (e : expr) : list sreport := flat_map report_of (chains e).

End Spec.

(* shape of the trees the parser produces (expr_parser.go lower-cases variable
   and property names; `.*` is an ArrayDerefNode, never a property named `*`).
   The harness asserts it on every tree it dumps. *)
Fixpoint parser_normal (e : expr) : Prop :=
  match e with
  | EVar _ n => lower n = n
  | ENull _ | EBool _ _ | EInt _ _ | EFloat _ _ | EStr _ _ => True
  | EDeref r n => lower n = n /\ n <> "*" /\ parser_normal r
  | EArrDeref r => parser_normal r
  | EIndex o i => parser_normal o /\ parser_normal i
  | ENot _ a => parser_normal a
  | ECmp _ l r => parser_normal l /\ parser_normal r
  | ELog _ l r => parser_normal l /\ parser_normal r
  | ECall _ _ args => (fix go (l : list expr) : Prop :=
                         match l with [] => True | a :: l' => parser_normal a /\ go l' end) args
  end.

(* ---- vocabulary of the secondary theorems ----------------------------- *)

(* all sub-expressions of e, e included *)
Fixpoint subterms (e : expr) : list expr :=
  e :: match e with
       | EDeref r _ => subterms r
       | EArrDeref r => subterms r
       | EIndex o i => subterms o ++ subterms i
       | ENot _ a => subterms a
       | ECmp _ l r => subterms l ++ subterms r
       | ELog _ l r => subterms l ++ subterms r
       | ECall _ _ args => flat_map subterms args
       | _ => []
       end.

(* the variable an access chain starts at *)
Fixpoint root_var (e : expr) : option (tpos * string) :=
  match e with
  | EVar p n => Some (p, n)
  | EDeref r _ => root_var r
  | EArrDeref r => root_var r
  | EIndex o _ => root_var o
  | _ => None
  end.

(* e with the arguments of every sanitising call removed *)
Fixpoint erase_safe (e : expr) : expr :=
  match e with
  | EDeref r n => EDeref (erase_safe r) n
  | EArrDeref r => EArrDeref (erase_safe r)
  | EIndex o i => EIndex (erase_safe o) (erase_safe i)
  | ENot p a => ENot p (erase_safe a)
  | ECmp op l r => ECmp op (erase_safe l) (erase_safe r)
  | ELog op l r => ELog op (erase_safe l) (erase_safe r)
  | ECall p c args => if sanitising c then ECall p c [] else ECall p c (map erase_safe args)
  | _ => e
  end.

(* what expr_parser.go does to names: VariableNode.Name and
   ObjectDerefNode.Property are lower-cased, string literals are kept *)
Fixpoint pnorm (e : expr) : expr :=
  match e with
  | EVar p n => EVar p (lower n)
  | EDeref r n => EDeref (pnorm r) (lower n)
  | EArrDeref r => EArrDeref (pnorm r)
  | EIndex o i => EIndex (pnorm o) (pnorm i)
  | ENot p a => ENot p (pnorm a)
  | ECmp op l r => ECmp op (pnorm l) (pnorm r)
  | ELog op l r => ELog op (pnorm l) (pnorm r)
  | ECall p c args => ECall p c (map pnorm args)
  | _ => e
  end.

(* the same expression written in another letter case: variable, property and
   function names and string literals may differ in case, nothing else *)
Fixpoint recase (e e' : expr) {struct e} : Prop :=
  match e, e' with
  | EVar p n, EVar p' n' => p = p' /\ lower n = lower n'
  | ENull p, ENull p' => p = p'
  | EBool p b, EBool p' b' => p = p' /\ b = b'
  | EInt p z, EInt p' z' => p = p' /\ z = z'
  | EFloat p r, EFloat p' r' => p = p' /\ r = r'
  | EStr p s, EStr p' s' => p = p' /\ lower s = lower s'
  | EDeref r n, EDeref r' n' => recase r r' /\ lower n = lower n'
  | EArrDeref r, EArrDeref r' => recase r r'
  | EIndex o i, EIndex o' i' => recase o o' /\ recase i i'
  | ENot p a, ENot p' a' => p = p' /\ recase a a'
  | ECmp op l r, ECmp op' l' r' => op = op' /\ recase l l' /\ recase r r'
  | ELog op l r, ELog op' l' r' => op = op' /\ recase l l' /\ recase r r'
  | ECall p c args, ECall p' c' args' =>
      p = p' /\ lower c = lower c' /\
      (fix go (l l' : list expr) : Prop :=
         match l, l' with
         | [], [] => True
         | a :: t, a' :: t' => recase a a' /\ go t t'
         | _, _ => False
         end) args args'
  | _, _ => False
  end.
