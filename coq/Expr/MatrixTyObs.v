(* Expr/MatrixTyObs.v — observable of the matrix-typing model: the case
   carries the type the implementation computed (RuleExpression.checkMatrix,
   through the verif-tagged VerifMatrixTypeOf); 0 = equal up to member order. *)
From AL Require Import Base.Corr Expr.Types Expr.MatrixTy.

Definition run_matrix_ty (c : mtx * ty) : list tuple :=
  if ty_eqb (canon (matrix_ty (fst c))) (canon (snd c)) then [[0%N]] else [[1%N]].
