(* Expr/Parser.v — model of expr_parser.go: recursive descent with one token
   of look-ahead.  The token stream is a list; the End token is the end of the
   list ([peek] of the empty list is End).  Every parse function of the Go
   code is one function of a mutual fixpoint over fuel (each call spends one
   unit); [parse_toks] supplies 8*length+8, which is proved sufficient in
   ParserProofs.v (p_or_no_fuel).

   strconv.ParseFloat is an oracle input: [float_ok raw] says whether it
   accepts the literal.  strconv.ParseInt(s, 0, 32) is modelled by
   Token.int32_lit on the literals the lexer produces. *)
From AL Require Export Expr.Token.

(* diagnostics of the parser: class + the token p.cur at the time of the
   first error (None = the End token) *)
Inductive perr_class :=
| PEUnexpected (site : N)   (* p.unexpected(...): 1 primary, 2 call arguments, 3 closing paren,
                               4 after '.', 5 closing bracket *)
| PEBadInt                  (* "parsing invalid integer literal" *)
| PEBadFloat                (* "parsing invalid float literal" *)
| PERemaining (count : nat) (* "parser did not reach end of input ... %d remaining token(s)" *).

Record perr := mkPErr { pe_class : perr_class; pe_at : option token }.

Inductive res (A : Type) :=
| ROk (a : A) (rest : list token)
| RErr (d : perr)
| RFuel
| RPanic.   (* slice bounds out of range in parseString; unreachable for lexed tokens *)
Arguments ROk {A}. Arguments RErr {A}. Arguments RFuel {A}. Arguments RPanic {A}.

Definition rbind {A B} (r : res A) (f : A -> list token -> res B) : res B :=
  match r with
  | ROk a rest => f a rest
  | RErr d => RErr d
  | RFuel => RFuel
  | RPanic => RPanic
  end.

(* p.error at the current token *)
Definition err_here {A} (c : perr_class) (ts : list token) : res A :=
  RErr (mkPErr c (hd_error ts)).

Section Parser.
Variable int_lit : string -> option Z.
Variable float_ok : string -> bool.

Fixpoint p_or (n : nat) (ts : list token) {struct n} : res expr :=
  match n with
  | 0 => RFuel
  | S n =>
      rbind (p_and n ts) (fun l rest =>
        match rest with
        | t :: rest' =>
            match tk_kind t with
            | TOr => rbind (p_or n rest') (fun r rest'' => ROk (ELog LOr l r) rest'')
            | _ => ROk l rest
            end
        | [] => ROk l rest
        end)
  end

with p_and (n : nat) (ts : list token) {struct n} : res expr :=
  match n with
  | 0 => RFuel
  | S n =>
      rbind (p_cmp n ts) (fun l rest =>
        match rest with
        | t :: rest' =>
            match tk_kind t with
            | TAnd => rbind (p_and n rest') (fun r rest'' => ROk (ELog LAnd l r) rest'')
            | _ => ROk l rest
            end
        | [] => ROk l rest
        end)
  end

with p_cmp (n : nat) (ts : list token) {struct n} : res expr :=
  match n with
  | 0 => RFuel
  | S n =>
      rbind (p_pre n ts) (fun l rest =>
        match rest with
        | t :: rest' =>
            match cmp_of_kind (tk_kind t) with
            | Some op => rbind (p_cmp n rest') (fun r rest'' => ROk (ECmp op l r) rest'')
            | None => ROk l rest
            end
        | [] => ROk l rest
        end)
  end

with p_pre (n : nat) (ts : list token) {struct n} : res expr :=
  match n with
  | 0 => RFuel
  | S n =>
      match ts with
      | t :: rest =>
          match tk_kind t with
          | TNot => rbind (p_pre n rest) (fun o rest' => ROk (ENot (tk_pos t) o) rest')
          | _ => p_post n ts
          end
      | [] => p_post n ts
      end
  end

with p_post (n : nat) (ts : list token) {struct n} : res expr :=
  match n with
  | 0 => RFuel
  | S n => rbind (p_prim n ts) (fun e rest => p_postloop n e rest)
  end

(* the for-loop of parsePostfixOp *)
with p_postloop (n : nat) (ret : expr) (ts : list token) {struct n} : res expr :=
  match n with
  | 0 => RFuel
  | S n =>
      match ts with
      | t :: rest =>
          match tk_kind t with
          | TDot =>
              match rest with
              | t2 :: rest2 =>
                  match tk_kind t2 with
                  | TStar => p_postloop n (EArrDeref ret) rest2
                  | TIdent => p_postloop n (EDeref ret (lower (tk_val t2))) rest2
                  | _ => err_here (PEUnexpected 4) rest
                  end
              | [] => err_here (PEUnexpected 4) rest
              end
          | TLBracket =>
              rbind (p_or n rest) (fun idx rest1 =>
                match rest1 with
                | t2 :: rest2 =>
                    match tk_kind t2 with
                    | TRBracket => p_postloop n (EIndex ret idx) rest2
                    | _ => err_here (PEUnexpected 5) rest1
                    end
                | [] => err_here (PEUnexpected 5) rest1
                end)
          | _ => ROk ret ts
          end
      | [] => ROk ret ts
      end
  end

with p_prim (n : nat) (ts : list token) {struct n} : res expr :=
  match n with
  | 0 => RFuel
  | S n =>
      match ts with
      | t :: rest =>
          match tk_kind t with
          | TIdent =>                                     (* parseIdent *)
              match rest with
              | lp :: rest1 =>
                  match tk_kind lp with
                  | TLParen =>
                      match rest1 with
                      | rp :: rest2 =>
                          match tk_kind rp with
                          | TRParen => ROk (ECall (tk_pos t) (tk_val t) []) rest2
                          | _ => rbind (p_args n rest1) (fun args rest3 =>
                                   ROk (ECall (tk_pos t) (tk_val t) args) rest3)
                          end
                      | [] => rbind (p_args n rest1) (fun args rest3 =>
                                ROk (ECall (tk_pos t) (tk_val t) args) rest3)
                      end
                  | _ => ROk (ident_node t) rest
                  end
              | [] => ROk (ident_node t) rest
              end
          | TLParen =>                                    (* parseNestedExpr *)
              rbind (p_or n rest) (fun e rest1 =>
                match rest1 with
                | rp :: rest2 =>
                    match tk_kind rp with
                    | TRParen => ROk e rest2
                    | _ => err_here (PEUnexpected 3) rest1
                    end
                | [] => err_here (PEUnexpected 3) rest1
                end)
          | TInt =>                                       (* parseInt *)
              match int_lit (tk_val t) with
              | Some z => ROk (EInt (tk_pos t) z) rest
              | None => err_here PEBadInt ts
              end
          | TFloat =>                                     (* parseFloat *)
              if float_ok (tk_val t) then ROk (EFloat (tk_pos t) (tk_val t)) rest
              else err_here PEBadFloat ts
          | TString =>                                    (* parseString *)
              match unquote (tk_val t) with
              | Some s => ROk (EStr (tk_pos t) s) rest
              | None => RPanic
              end
          | _ => err_here (PEUnexpected 1) ts
          end
      | [] => err_here (PEUnexpected 1) ts
      end
  end

(* the LoopArgs loop of parseIdent; the list is the arguments from here on *)
with p_args (n : nat) (ts : list token) {struct n} : res (list expr) :=
  match n with
  | 0 => RFuel
  | S n =>
      rbind (p_or n ts) (fun a rest =>
        match rest with
        | t :: rest' =>
            match tk_kind t with
            | TComma => rbind (p_args n rest') (fun more rest'' => ROk (a :: more) rest'')
            | TRParen => ROk [a] rest'
            | _ => err_here (PEUnexpected 2) rest
            end
        | [] => err_here (PEUnexpected 2) rest
        end)
  end.

Definition parse_fuel (ts : list token) : nat := 8 * length ts + 8.

(* ExprParser.Parse on a stream without lexical error *)
Inductive presult :=
| POk (e : expr)
| PErr (d : perr)
| PFuel
| PPanic.

Definition parse_toks (ts : list token) : presult :=
  match p_or (parse_fuel ts) ts with
  | ROk e [] => POk e
  | ROk e (t :: rest) => PErr (mkPErr (PERemaining (length (t :: rest))) (Some t))
  | RErr d => PErr d
  | RFuel => PFuel
  | RPanic => PPanic
  end.

End Parser.
