(* Expr/SemaVisit.v — the semantic checker skips no sub-expression: whatever the
   position of a variable reference inside an expression (receiver, index,
   operand of !, of a comparison, either side of && / || in both narrowing
   modes, argument of a defined function), the diagnostics the reference gets
   on its own — "undefined variable", "context is not allowed here" — are
   among the diagnostics of the whole expression.  (C05 "every position from
   which a reference can be made", C12 "does not depend on where inside the
   value the name occurs".)  The one place that is not visited is the argument
   list of an UNDEFINED function: the call itself is reported instead. *)
From AL Require Import Expr.Types Expr.Sema Expr.SemaProofs.

Section Visit.
Variables (mg : ty -> ty -> ty) (fa : bool) (E : env).
Notation chk' := (chk mg fa E).

(* [reach e x]: checking e checks x *)
Inductive reach : expr -> expr -> Prop :=
| R_refl e : reach e e
| R_deref r n x : reach r x -> reach (EDeref r n) x
| R_arr r x : reach r x -> reach (EArrDeref r) x
| R_idx_o o i x : reach o x -> reach (EIndex o i) x
| R_idx_i o i x : reach i x -> reach (EIndex o i) x
| R_not p e x : reach e x -> reach (ENot p e) x
| R_cmp_l op l r x : reach l x -> reach (ECmp op l r) x
| R_cmp_r op l r x : reach r x -> reach (ECmp op l r) x
| R_log_l op l r x : reach l x -> reach (ELog op l r) x
| R_log_r op l r x : reach r x -> reach (ELog op l r) x
| R_call p c args a x sigs : lookup (lower c) (e_funcs E) = Some sigs -> In a args -> reach a x -> reach (ECall p c args) x.

Lemma in_app_l {A} (x : A) l1 l2 : In x l1 -> In x (l1 ++ l2).
Proof. intros; apply in_or_app; now left. Qed.
Lemma in_app_r {A} (x : A) l1 l2 : In x l2 -> In x (l1 ++ l2).
Proof. intros; apply in_or_app; now right. Qed.

Lemma chk_args_in args : forall a d,
  In a args -> In d (snd (chk' None a)) -> In d (snd (chk_args mg fa E args)).
Proof.
  induction args as [|b args IH]; intros a d Ha Hd; [contradiction|].
  cbn [chk_args]. destruct Ha as [->|Ha].
  - destruct (chk' None a) as [ta da]. destruct (chk_args mg fa E args) as [ts ds]. cbn in *. now apply in_app_l.
  - specialize (IH a d Ha Hd). destruct (chk' None b) as [tb db]. destruct (chk_args mg fa E args) as [ts ds].
    cbn in *. now apply in_app_r.
Qed.

(* the diagnostics of a reachable sub-expression (checked in some mode) are
   diagnostics of the whole; for a variable node the mode does not matter *)
Theorem chk_reaches_var e : forall nw p name d,
  reach e (EVar p name) -> In d (snd (var_node E p name)) -> In d (snd (chk' nw e)).
Proof.
  induction e as [q n|q|q b|q z|q r|q s|r n IHr|r IHr|o i IHo IHi|q x IHx|op l r IHl IHr|op l r IHl IHr|q c args IHargs]
    using expr_ind'; intros nw p name d R Hd; inversion R; subst.
  - now rewrite chk_var.
  - (* deref *)
    rewrite chk_deref. match goal with H : reach r (EVar p name) |- _ => specialize (IHr None p name d H Hd) end.
    destruct (chk' None r) as [t ds]. destruct (deref_node E r n t). cbn in *. now apply in_app_l.
  - rewrite chk_arrderef. match goal with H : reach r (EVar p name) |- _ => specialize (IHr None p name d H Hd) end.
    destruct (chk' None r) as [t ds]. destruct (arrderef_node fa (etok r) t). cbn in *. now apply in_app_l.
  - rewrite chk_index. match goal with H : reach o (EVar p name) |- _ => specialize (IHo None p name d H Hd) end.
    destruct (chk' None i) as [ti di]. destruct (chk' None o) as [t dop]. destruct (index_node o i ti t). cbn in *.
    apply in_app_l. now apply in_app_r.
  - rewrite chk_index. match goal with H : reach i (EVar p name) |- _ => specialize (IHi None p name d H Hd) end.
    destruct (chk' None i) as [ti di]. destruct (chk' None o) as [t dop]. destruct (index_node o i ti t). cbn in *.
    apply in_app_l. now apply in_app_l.
  - destruct nw as [tr|].
    + rewrite chk_not_some. match goal with H : reach x (EVar p name) |- _ => exact (IHx _ p name d H Hd) end.
    + rewrite chk_not_none. match goal with H : reach x (EVar p name) |- _ => specialize (IHx None p name d H Hd) end.
      destruct (chk' None x) as [t ds]. destruct (not_node q t). cbn in *. now apply in_app_l.
  - rewrite chk_cmp. match goal with H : reach l (EVar p name) |- _ => specialize (IHl None p name d H Hd) end.
    destruct (chk' None l) as [tl dl]. destruct (chk' None r) as [tr dr]. destruct (cmp_node op (etok l) tl tr). cbn in *.
    apply in_app_l. now apply in_app_l.
  - rewrite chk_cmp. match goal with H : reach r (EVar p name) |- _ => specialize (IHr None p name d H Hd) end.
    destruct (chk' None l) as [tl dl]. destruct (chk' None r) as [tr dr]. destruct (cmp_node op (etok l) tl tr). cbn in *.
    apply in_app_l. now apply in_app_r.
  - (* left of && / || *)
    assert (L : In d (snd (logical_of mg fa E op l r))).
    { unfold logical_of. match goal with H : reach l (EVar p name) |- _ => specialize (IHl (Some match op with LAnd => false | LOr => true end) p name d H Hd) end.
      destruct (chk' (Some _) l). destruct (chk' None r). cbn in *. now apply in_app_l. }
    destruct nw as [tr|]; [|rewrite chk_log_none; exact L].
    rewrite chk_log_some. destruct (match op with LAnd => tr | LOr => negb tr end); [|exact L].
    unfold seq2_of. match goal with H : reach l (EVar p name) |- _ => specialize (IHl None p name d H Hd) end.
    destruct (chk' None l). destruct (chk' None r). cbn in *. now apply in_app_l.
  - (* right of && / || *)
    assert (L : In d (snd (logical_of mg fa E op l r))).
    { unfold logical_of. match goal with H : reach r (EVar p name) |- _ => specialize (IHr None p name d H Hd) end.
      destruct (chk' (Some _) l). destruct (chk' None r). cbn in *. now apply in_app_r. }
    destruct nw as [tr|]; [|rewrite chk_log_none; exact L].
    rewrite chk_log_some. destruct (match op with LAnd => tr | LOr => negb tr end); [|exact L].
    unfold seq2_of. match goal with H : reach r (EVar p name) |- _ => specialize (IHr None p name d H Hd) end.
    destruct (chk' None l). destruct (chk' None r). cbn in *. now apply in_app_r.
  - (* argument of a defined function *)
    rewrite chk_call.
    match goal with H : lookup (lower c) (e_funcs E) = Some _ |- _ => rewrite H end.
    assert (A : In d (snd (chk_args mg fa E args))).
    { match goal with Ha : In ?a args, Hr : reach ?a (EVar p name) |- _ =>
        apply (chk_args_in args a d Ha); rewrite Forall_forall in IHargs; exact (IHargs a Ha None p name d Hr Hd) end. }
    destruct (chk_args mg fa E args) as [tys ds]. destruct (call_node mg E q c args sigs tys). cbn in *. now apply in_app_l.
Qed.

(* an out-of-scope name is reported wherever it stands *)
Corollary undefined_var_reported e nw p name :
  reach e (EVar p name) -> lookup name (e_vars E) = None ->
  In (mkdiag p DUndefVar) (snd (chk' nw e)).
Proof.
  intros R L. eapply chk_reaches_var; [exact R|]. unfold var_node. rewrite L. now left.
Qed.

(* ... and so is a context that is not available at the key *)
Corollary unavailable_context_reported e nw p name t :
  reach e (EVar p name) -> lookup name (e_vars E) = Some t -> mem (lower name) (e_avail E) = false ->
  In (mkdiag p DCtxNotAllowed) (snd (chk' nw e)).
Proof.
  intros R L M. eapply chk_reaches_var; [exact R|]. unfold var_node. rewrite L, M. now left.
Qed.

End Visit.

(* the arguments of an undefined function are the one place that is not visited *)
Example undefined_function_hides_arguments :
  let E := {| e_vars := []; e_funcs := []; e_avail := []; e_spavail := []; e_special := []; e_config := None; e_json := [] |} in
  snd (check E (ECall (Build_tpos 1 1 1) "nosuch" [EVar (Build_tpos 1 8 8) "zzz"])) = [mkdiag (Build_tpos 1 1 1) DUndefFunc].
Proof. reflexivity. Qed.

(* non-vacuity: the condition of `c && a || b` and the operand of `!(l && r)` *)
Example reach_example :
  let E := {| e_vars := []; e_funcs := []; e_avail := []; e_spavail := []; e_special := []; e_config := None; e_json := [] |} in
  let v := EVar (Build_tpos 1 1 1) "zzz" in
  In (mkdiag (Build_tpos 1 1 1) DUndefVar) (snd (check E (ELog LOr (ELog LAnd v (EStr (Build_tpos 1 9 9) "a")) (EStr (Build_tpos 1 16 16) "b")))) /\
  In (mkdiag (Build_tpos 1 1 1) DUndefVar) (snd (check E (ELog LAnd (ENot (Build_tpos 1 0 0) (ELog LAnd v (EInt (Build_tpos 1 9 9) 1%Z))) (EInt (Build_tpos 1 14 14) 2%Z)))).
Proof. cbn. split; tauto. Qed.
