(* Expr/TemplateObs.v — observables of the C07 models compared with the
   implementation by the correspondence check (harness/cmd/c07). *)
From AL Require Import Base.Str Base.Corr Expr.PosModel Expr.Template.

Definition pos_bytes (l : list N) : string :=
  string_of_list_ascii (map (fun n => ascii_of_nat (N.to_nat n)) l).

Inductive c07_case :=
| CExpr (site line col : N) (quoted : bool) (text : string) (os tb : list N)
| CGlob (line col : N) (quoted : bool) (cols : list N)
| CNode (line col : N)
| CLex (src : string).

Definition tuple_of_fpos (p : fpos) : tuple := [N.of_nat (fst p); N.of_nat (snd p)].

(* site numbers of the harness: 0 checkString / checkScriptString,
   1 checkOneExpression, 2 checkIfCondition, 3 checkRawYAMLString *)
Definition run_expr (site line col : N) (quoted : bool) (text : string) (os tb : list N) : list fpos :=
  let sem := pos_sem (map N.to_nat os) (map N.to_nat tb) in
  let y := mkYstr text quoted (N.to_nat line) (N.to_nat col) in
  match site with
  | 0%N => check_string sem y
  | 1%N => check_one_expression sem y
  | 2%N => check_if_condition sem y
  | _ => check_raw_yaml_string sem y
  end.

Definition lex_obs (src : string) : list tuple :=
  let tok (i : nat) (t : spos * bool) : tuple :=
    [N.of_nat i; N.of_nat (sp_off (fst t)); N.of_nat (sp_line (fst t)); N.of_nat (sp_col (fst t));
     if snd t then 1%N else 0%N] in
  let fix number (i : nat) (l : list (spos * bool)) : list tuple :=
    match l with [] => [] | t :: l' => tok i t :: number (S i) l' end in
  match pos_lex_all src with
  | LAOk toks after => number 0 toks ++ [[1000%N; N.of_nat after]]
  | LAErr _ e => [[999%N; N.of_nat (sp_off e); N.of_nat (sp_line e); N.of_nat (sp_col e)]]
  | LAFuel => [[998%N]]
  end.

Definition run_c07 (c : c07_case) : list tuple :=
  match c with
  | CExpr site line col q text os tb => map tuple_of_fpos (run_expr site line col q text os tb)
  | CGlob line col q cols =>
      map tuple_of_fpos (glob_errors (map N.to_nat cols) (N.to_nat line) (N.to_nat col) q)
  | CNode line col => [tuple_of_fpos (value_diag (N.to_nat line, N.to_nat col))]
  | CLex src => lex_obs src
  end.
