(* Expr/LexWs.v — whitespace between tokens is irrelevant: two texts that are
   built from the same lexemes with different (possibly empty) runs of
   whitespace between them, each lexeme being properly delimited in both, lex to
   token lists that differ in positions only. *)
From AL Require Import Expr.LexerSpec Expr.LexerProofs.
From Coq Require Import Lia.
Local Open Scope string_scope.

Definition kv (t : token) : tkind * string := (tk_kind t, tk_val t).

Inductive ws_variant (strict plus : bool) : string -> string -> Prop :=
| WV_end ws ws' tail tail' :
    str_forall is_ws ws = true -> str_forall is_ws ws' = true ->
    ws_variant strict plus (ws ++ "}}" ++ tail) (ws' ++ "}}" ++ tail')
| WV_tok ws ws' k lx rest rest' :
    str_forall is_ws ws = true -> str_forall is_ws ws' = true ->
    lexeme strict plus k lx -> follow_ok k lx rest -> follow_ok k lx rest' ->
    ws_variant strict plus rest rest' ->
    ws_variant strict plus (ws ++ lx ++ rest) (ws' ++ lx ++ rest').

Lemma ws_variant_tokens strict plus src1 src2 :
  ws_variant strict plus src1 src2 -> forall p1 p2,
  exists ts1 e1 a1 ts2 e2 a2,
    tokenises strict plus p1 src1 ts1 e1 a1 /\ tokenises strict plus p2 src2 ts2 e2 a2 /\
    map kv ts1 = map kv ts2.
Proof.
  induction 1 as [ws ws' tail tail' W W' | ws ws' k lx rest rest' W W' L F F' V IH]; intros p1 p2.
  - do 6 eexists. split; [apply TK_end; exact W|]. split; [apply TK_end; exact W'|]. reflexivity.
  - destruct (IH (adv_str p1 (ws ++ lx)) (adv_str p2 (ws' ++ lx))) as (ts1 & e1 & a1 & ts2 & e2 & a2 & T1 & T2 & E).
    do 6 eexists. split; [eapply TK_tok; eauto|]. split; [eapply TK_tok; eauto|].
    cbn. now rewrite E.
Qed.

Theorem lex_ws_irrelevant plus src1 src2 :
  ws_variant true plus src1 src2 ->
  exists ts1 e1 a1 ts2 e2 a2,
    lex_all plus src1 = (ts1, FEnd e1 a1) /\ lex_all plus src2 = (ts2, FEnd e2 a2) /\
    map kv ts1 = map kv ts2.
Proof.
  intros V. destruct (ws_variant_tokens _ _ _ _ V pos0 pos0) as (ts1 & e1 & a1 & ts2 & e2 & a2 & T1 & T2 & E).
  exists ts1, e1, a1, ts2, e2, a2. repeat split; auto; now apply lex_complete.
Qed.

(* a non-empty run of whitespace delimits every lexeme *)
Lemma ws_char_delimits c : is_ws c = true ->
  is_ident_char c = false /\ is_alnum c = false /\ is_c 46 c = false /\ is_c 39 c = false /\ is_c 61 c = false.
Proof. destruct c as [[] [] [] [] [] [] [] []]; vm_compute; intros H; try discriminate H; auto. Qed.

Lemma follow_ok_ws k lx c ws rest : is_ws c = true -> follow_ok k lx (String c ws ++ rest).
Proof.
  intros W. destruct (ws_char_delimits c W) as (A & B & C & D & E).
  destruct k; cbn; unfold fnot; rewrite ?A, ?B, ?C, ?D, ?E; auto.
Qed.
