(* Expr/TypesProofs.v — facts about the type system model (Expr/Types.v). *)
From AL Require Import Expr.Types.

(* AnyType is assignable to every type ("X.Assignable(AnyType{})" is true for all X) *)
Lemma assignable_any_r p : assignable p TAny = true.
Proof. destruct p; reflexivity. Qed.
