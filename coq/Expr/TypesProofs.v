(* Expr/TypesProofs.v — facts about the type system model (Expr/Types.v):
   the `looser` preorder, monotonicity of Assignable, Merge. *)
From AL Require Import Expr.Types.

(* AnyType is assignable to every type ("X.Assignable(AnyType{})" is true for all X) *)
Lemma assignable_any_r p : assignable p TAny = true.
Proof. destruct p; reflexivity. Qed.

(* ---- looser: characterisation ------------------------------------------------- *)
Lemma looser_any_r a : looser a TAny.
Proof. destruct a; exact I. Qed.

Lemma looser_obj_iff ps : forall qs m n,
  looser (TObj ps m) (TObj qs n) <-> props_looser ps qs /\ olooser m n.
Proof.
  induction ps as [|p ps IH]; intros qs m n.
  - destruct qs as [|q qs]; cbn.
    + split; [intros [_ H]; split; [constructor|exact H] | intros [_ H]; split; [exact I|exact H]].
    + split; [intros [[] _] | intros [H _]; inversion H].
  - destruct qs as [|q qs].
    + cbn. split; [intros [[] _] | intros [H _]; inversion H].
    + specialize (IH qs m n).
      change (looser (TObj (p :: ps) m) (TObj (q :: qs) n))
        with ((fst p = fst q /\ looser (snd p) (snd q) /\
               (fix go (ps qs : list (string * ty)) {struct ps} : Prop :=
                  match ps, qs with
                  | [], [] => True
                  | p :: ps', q :: qs' => fst p = fst q /\ looser (snd p) (snd q) /\ go ps' qs'
                  | _, _ => False
                  end) ps qs) /\ olooser m n).
      change (looser (TObj ps m) (TObj qs n))
        with ((fix go (ps qs : list (string * ty)) {struct ps} : Prop :=
                  match ps, qs with
                  | [], [] => True
                  | p :: ps', q :: qs' => fst p = fst q /\ looser (snd p) (snd q) /\ go ps' qs'
                  | _, _ => False
                  end) ps qs /\ olooser m n) in IH.
      split.
      * intros [(H1 & H2 & H3) H4]. destruct IH as [IH _]. destruct (IH (conj H3 H4)) as [F _].
        split; [constructor; [split; assumption|exact F]|exact H4].
      * intros [F H4]. inversion F as [|? ? ? ? [H1 H2] F']; subst.
        destruct IH as [_ IH]. destruct (IH (conj F' H4)) as [H3 _].
        split; [split; [exact H1|split; [exact H2|exact H3]]|exact H4].
Qed.

Lemma looser_arr_iff e d f d' : looser (TArr e d) (TArr f d') <-> looser e f /\ (d = true -> d' = true).
Proof. reflexivity. Qed.

(* what can be above / below a given shape *)
Lemma looser_any_l b : looser TAny b -> b = TAny.
Proof. destruct b; cbn; intros H; try reflexivity; contradiction. Qed.

Lemma looser_inv a b : looser a b ->
  b = TAny \/
  match a with
  | TAny => False
  | TNull => b = TNull | TNum => b = TNum | TBool => b = TBool | TStr => b = TStr
  | TObj ps m => exists qs n, b = TObj qs n /\ props_looser ps qs /\ olooser m n
  | TArr e d => exists f d', b = TArr f d' /\ looser e f /\ (d = true -> d' = true)
  end.
Proof.
  intros H. destruct b; [now left|..]; right; destruct a; try (cbn in H; contradiction); try reflexivity.
  - apply looser_obj_iff in H. eauto.
  - apply looser_arr_iff in H. eauto.
Qed.

Lemma looser_refl a : looser a a.
Proof.
  induction a as [| | | | |ps m IHps IHm|e d IH] using ty_ind'; try exact I.
  - apply looser_obj_iff. split.
    + induction IHps as [|p ps Hp _ IH]; constructor; [split; [reflexivity|exact Hp]|exact IH].
    + destruct m; cbn in *; [exact IHm|exact I].
  - apply looser_arr_iff. split; [exact IH|auto].
Qed.

Lemma props_looser_lookup ps qs k : props_looser ps qs ->
  match lookup k ps, lookup k qs with
  | Some t, Some t' => looser t t'
  | None, None => True
  | _, _ => False
  end.
Proof.
  induction 1 as [|p q ps qs [Hk Ht] _ IH]; cbn; [exact I|].
  destruct p as [k1 t1], q as [k2 t2]; cbn in *; subst k2.
  destruct (String.eqb k k1); [exact Ht|exact IH].
Qed.

Lemma props_looser_length ps qs : props_looser ps qs -> length ps = length qs.
Proof. induction 1; cbn; congruence. Qed.

Lemma looser_trans a : forall b c, looser a b -> looser b c -> looser a c.
Proof.
  induction a as [| | | | |ps m IHps IHm|e d IH] using ty_ind'; intros b c Hab Hbc.
  1-5: destruct (looser_inv _ _ Hab) as [->|H]; [apply looser_any_l in Hbc; subst; exact I|cbn in H; try contradiction; subst; exact Hbc].
  - destruct (looser_inv _ _ Hab) as [->|(qs & n & -> & Hps & Hm)]; [apply looser_any_l in Hbc; subst; exact I|].
    destruct (looser_inv _ _ Hbc) as [->|(rs & o & -> & Hqs & Hn)]; [exact I|].
    apply looser_obj_iff. split.
    + clear Hm Hn IHm Hab Hbc. revert qs rs Hps Hqs.
      induction IHps as [|p ps Hp _ IH]; intros qs rs Hps Hqs.
      * inversion Hps; subst. inversion Hqs; subst. constructor.
      * inversion Hps as [|? q ? qs' [K1 L1] Hps']; subst. inversion Hqs as [|? r ? rs' [K2 L2] Hqs']; subst.
        constructor; [split; [congruence|eapply Hp; eauto]|eapply IH; eauto].
    + destruct m as [x|], n as [y|], o as [z|]; cbn in *; try contradiction; try exact I; subst.
      * eapply IHm; eauto.
      * apply looser_any_l in Hn. exact Hn.
      * reflexivity.
  - destruct (looser_inv _ _ Hab) as [->|(f & d' & -> & He & Hd)]; [apply looser_any_l in Hbc; subst; exact I|].
    destruct (looser_inv _ _ Hbc) as [->|(g & d'' & -> & Hf & Hd')]; [exact I|].
    apply looser_arr_iff. split; [eapply IH; eauto|auto].
Qed.

Lemma forallb_eq {A} (f g : A -> bool) l : (forall x, f x = g x) -> forallb f l = forallb g l.
Proof. intros H. induction l as [|x l IH]; cbn; [reflexivity|]. now rewrite H, IH. Qed.

(* ---- Assignable: unfolding of the object case ---------------------------------- *)
Definition find_assignable (ps : list (string * ty)) (kr : string * ty) : bool :=
  match lookup (fst kr) ps with Some t => assignable t (snd kr) | None => false end.

Lemma assignable_obj ps m qs n :
  assignable (TObj ps m) (TObj qs n) =
  match m, n with
  | Some mt, Some nt => assignable mt nt
  | Some mt, None => forallb (fun kv : string * ty => assignable mt (snd kv)) qs
  | None, Some nt => forallb (fun kv : string * ty => assignable (snd kv) nt) ps
  | None, None => forallb (find_assignable ps) qs
  end.
Proof.
  destruct m as [mt|], n as [nt|]; cbn; try reflexivity.
  apply forallb_eq. intros [k r]. unfold find_assignable. cbn [fst snd].
  induction ps as [|[k1 t1] ps IH]; cbn; [reflexivity|].
  destruct (String.eqb k k1); [reflexivity|exact IH].
Qed.

(* assignable_mono: a looser argument is still assignable *)
Lemma assignable_mono p : forall a a', looser a a' -> assignable p a = true -> assignable p a' = true.
Proof.
  induction p as [| | | | |ps m IHps IHm|e d IH] using ty_ind'; intros a a' L H.
  1-5: destruct (looser_inv _ _ L) as [->|L']; [apply assignable_any_r|];
       destruct a; cbn in L'; try contradiction; subst; try exact H; try discriminate;
       destruct L' as (? & ? & -> & _); cbn in H |- *; try discriminate; reflexivity.
  - destruct (looser_inv _ _ L) as [->|L']; [reflexivity|].
    destruct a as [| | | | |qs n|]; cbn in L'; try contradiction; try (cbn in H; discriminate).
    destruct L' as (qs' & n' & -> & Lps & Ln).
    rewrite assignable_obj in H |- *.
    destruct m as [mt|]; cbn in IHm.
    + destruct n as [nt|], n' as [nt'|]; cbn in Ln; try contradiction.
      * eapply IHm; eauto.
      * subst. apply assignable_any_r.
      * clear L. induction Lps as [|q q' qs qs' [_ Lq] _ IHq]; cbn in *; [reflexivity|].
        apply andb_prop in H. destruct H as [H1 H2].
        rewrite (IHm _ _ Lq H1). cbn. now apply IHq.
    + destruct n as [nt|], n' as [nt'|]; cbn in Ln; try contradiction.
      * clear L Lps. induction IHps as [|p ps Hp _ IHp]; cbn in *; [reflexivity|].
        apply andb_prop in H. destruct H as [H1 H2].
        rewrite (Hp _ _ Ln H1). cbn. now apply IHp.
      * subst. clear. induction ps as [|p ps IHp]; cbn; [reflexivity|]. now rewrite assignable_any_r.
      * clear L. induction Lps as [|q q' qs qs' [Kq Lq] _ IHq]; cbn in *; [reflexivity|].
        apply andb_prop in H. destruct H as [H1 H2]. rewrite IHq by exact H2. rewrite andb_true_r.
        unfold find_assignable in *. rewrite <- Kq.
        destruct (lookup (fst q) ps) as [t|] eqn:Elk; [|discriminate].
        apply lookup_In in Elk. rewrite Forall_forall in IHps.
        exact (IHps _ Elk _ _ Lq H1).
  - destruct (looser_inv _ _ L) as [->|L']; [reflexivity|].
    destruct a; cbn in L'; try contradiction; try (cbn in H; discriminate).
    destruct L' as (f & d' & -> & Le & _). cbn in *. eapply IH; eauto.
Qed.

(* ---- Merge: unfolding of the object case ---------------------------------------- *)
Definition mapped0 (mg : ty -> ty -> ty) (m n : option ty) : option ty :=
  match m with
  | None => n
  | Some mt => match n with None => Some mt | Some nt => Some (mg mt nt) end
  end.

Definition merge_step (mg : ty -> ty -> ty) (ps : list (string * ty))
  (acc : list (string * ty) * option ty) (kr : string * ty) : list (string * ty) * option ty :=
  match lookup (fst kr) ps with
  | Some l0 => (upsert (fst kr) (mg l0 (snd kr)) (fst acc), snd acc)
  | None => (fst acc ++ [(fst kr, snd kr)],
             match snd acc with Some x => Some (mg x (snd kr)) | None => None end)
  end.

Lemma merge_gen_obj aa ps m qs n :
  merge_gen aa (TObj ps m) (TObj qs n) =
  if is_nil ps && is_loose n then TObj qs n
  else if is_nil qs && is_loose m then TObj ps m
  else let acc := fold_left (merge_step (merge_gen aa) ps) qs (ps, mapped0 (merge_gen aa) m n) in
       TObj (fst acc) (snd acc).
Proof.
  cbn [merge_gen].
  destruct (is_nil ps && is_loose n); [reflexivity|].
  destruct (is_nil qs && is_loose m); [reflexivity|].
  change (match m with
          | Some mt => match n with Some nt => Some (merge_gen aa mt nt) | None => Some mt end
          | None => n
          end) with (mapped0 (merge_gen aa) m n).
  generalize (ps, mapped0 (merge_gen aa) m n) as acc.
  induction qs as [|kr qs IH]; intros acc; [reflexivity|].
  cbn [fold_left]. etransitivity; [|exact (IH (merge_step (merge_gen aa) ps acc kr))]. reflexivity.
Qed.

Lemma merge_gen_any_r aa a : merge_gen aa a TAny = TAny.
Proof. destruct a; reflexivity. Qed.

Lemma merge_gen_any_l aa b : merge_gen aa TAny b = TAny.
Proof. destruct b; reflexivity. Qed.

Lemma is_loose_looser m n : olooser m n -> is_loose m = true -> is_loose n = true.
Proof.
  destruct m as [[]|]; cbn; try discriminate. destruct n as [y|]; cbn; [|contradiction].
  intros H _. apply looser_any_l in H. now subst.
Qed.

Lemma olooser_any_r m : olooser m (Some TAny).
Proof. destruct m; cbn; [apply looser_any_r|reflexivity]. Qed.

Lemma is_loose_eq m : is_loose m = true -> m = Some TAny.
Proof. destruct m as [[]|]; cbn; try discriminate. reflexivity. Qed.

Lemma is_nil_eq {A} (l : list A) : is_nil l = true -> l = [].
Proof. destruct l; cbn; [reflexivity|discriminate]. Qed.

Lemma is_nil_looser ps qs : props_looser ps qs -> is_nil ps = is_nil qs.
Proof. destruct 1; reflexivity. Qed.

Lemma props_looser_upsert ps qs k t t' : props_looser ps qs -> looser t t' ->
  props_looser (upsert k t ps) (upsert k t' qs).
Proof.
  intros H L. induction H as [|[k1 t1] [k2 t2] ps qs [K T] H' IH]; cbn in *.
  - constructor; [split; [reflexivity|exact L]|constructor].
  - subst k2. destruct (String.eqb k k1).
    + constructor; [split; [reflexivity|exact L]|assumption].
    + constructor; [split; [reflexivity|exact T]|exact IH].
Qed.

Lemma props_looser_app ps qs ps' qs' : props_looser ps qs -> props_looser ps' qs' -> props_looser (ps ++ ps') (qs ++ qs').
Proof. apply Forall2_app. Qed.

Ltac lany := first [exact I | apply looser_any_r].

Section MergeMono.
(* the array<any> case of the two variants is all that differs *)
Variable aa : ty -> ty -> ty.
Hypothesis aa_mono : forall e d f d2 e' d' f' d2',
  looser e e' -> (d = true -> d' = true) -> looser f f' -> (d2 = true -> d2' = true) ->
  is_any e || is_any f = true ->
  looser (aa (TArr e d) (TArr f d2)) (aa (TArr e' d') (TArr f' d2')).
Hypothesis aa_any : forall e d f d2 , is_any e || is_any f = true -> looser (TArr TAny false) (aa (TArr e d) (TArr f d2)).

Let mg := merge_gen aa.

Lemma merge_gen_mono b : forall a a' b', looser a a' -> looser b b' -> looser (mg a b) (mg a' b').
Proof.
  induction b as [| | | | |qs n IHqs IHn|f d2 IH] using ty_ind'; intros a a' b' La Lb.
  1-5: destruct (looser_inv _ _ Lb) as [->|Lb']; [unfold mg; rewrite ?merge_gen_any_r; lany|];
       cbn in Lb'; try contradiction; subst b';
       destruct (looser_inv _ _ La) as [->|La']; try lany;
       destruct a; cbn in La'; try contradiction; subst; try lany;
       destruct La' as (? & ? & -> & _); lany.
  - (* b is an object *)
    destruct (looser_inv _ _ Lb) as [->|(qs' & n' & -> & Lqs & Ln)]; [unfold mg; rewrite ?merge_gen_any_r; lany|].
    destruct (looser_inv _ _ La) as [->|La']; [lany|].
    destruct a as [| | | | |ps m|e d]; cbn in La'; try contradiction; subst; try lany.
    2: { destruct La' as (? & ? & -> & _). lany. }
    destruct La' as (ps' & m' & -> & Lps & Lm).
    unfold mg. rewrite !merge_gen_obj.
    rewrite <- (is_nil_looser _ _ Lps), <- (is_nil_looser _ _ Lqs).
    destruct (is_nil ps && is_loose n) eqn:C1.
    { apply andb_prop in C1. destruct C1 as [C1a C1b]. rewrite C1a, (is_loose_looser _ _ Ln C1b). cbn. exact Lb. }
    destruct (is_nil ps && is_loose n') eqn:C1'.
    { (* the looser side takes the first shortcut only *)
      apply andb_prop in C1'. destruct C1' as [C1a C1b]. apply is_nil_eq in C1a. subst ps.
      inversion Lps; subst ps'. apply is_loose_eq in C1b. subst n'.
      destruct (is_nil qs && is_loose m) eqn:C2.
      - apply andb_prop in C2. destruct C2 as [C2a C2b]. apply is_nil_eq in C2a. subst qs. inversion Lqs; subst.
        apply is_loose_eq in C2b. subst m. apply looser_obj_iff. split; [constructor|lany].
      - cbn zeta. apply looser_obj_iff. split; [|apply olooser_any_r].
        (* with no props in the receiver every member of [other] is appended *)
        assert (G : forall acc, fst (fold_left (merge_step (merge_gen aa) []) qs acc) = fst acc ++ qs).
        { clear. induction qs as [|[k r] qs IH]; intros acc; cbn; [now rewrite app_nil_r|].
          rewrite IH. cbn. now rewrite <- app_assoc. }
        rewrite G. exact Lqs. }
    destruct (is_nil qs && is_loose m) eqn:C2.
    { apply andb_prop in C2. destruct C2 as [C2a C2b]. rewrite C2a, (is_loose_looser _ _ Lm C2b). cbn. exact La. }
    destruct (is_nil qs && is_loose m') eqn:C2'.
    { apply andb_prop in C2'. destruct C2' as [C2a C2b]. apply is_nil_eq in C2a. subst qs.
      inversion Lqs; subst qs'. apply is_loose_eq in C2b. subst m'. cbn [fold_left fst snd].
      apply looser_obj_iff. split; [exact Lps|apply olooser_any_r]. }
    cbn zeta.
    (* both sides run the general case in lockstep *)
    assert (M0 : olooser (mapped0 (merge_gen aa) m n) (mapped0 (merge_gen aa) m' n')).
    { destruct m as [mt|], m' as [mt'|]; cbn in Lm; try contradiction.
      - destruct n as [nt|], n' as [nt'|]; cbn in Ln; try contradiction; cbn.
        + apply (IHn _ _ _ Lm Ln).
        + subst. rewrite merge_gen_any_r. apply looser_any_r.
        + exact Lm.
      - subst. destruct n' as [nt'|]; cbn; rewrite ?merge_gen_any_l; apply olooser_any_r.
      - exact Ln. }
    assert (G : forall acc acc', props_looser (fst acc) (fst acc') -> olooser (snd acc) (snd acc') ->
      let r := fold_left (merge_step (merge_gen aa) ps) qs acc in
      let r' := fold_left (merge_step (merge_gen aa) ps') qs' acc' in
      props_looser (fst r) (fst r') /\ olooser (snd r) (snd r')).
    { clear C1 C1' C2 C2' M0 Lb La IHn Ln.
      induction Lqs as [|[k r] [k2 r'] qs qs' [K R] _ IHq]; intros acc acc' A1 A2; cbn in *; [split; assumption|].
      subst k2. inversion IHqs as [|? ? Hr IHqs']; subst.
      apply IHq; [exact IHqs'| |]; unfold merge_step; cbn [fst snd];
        pose proof (props_looser_lookup ps ps' k Lps) as LK;
        destruct (lookup k ps) as [l0|], (lookup k ps') as [l0'|]; try contradiction; cbn [fst snd].
      - apply props_looser_upsert; [exact A1|]. apply Hr; assumption.
      - apply props_looser_app; [exact A1|]. constructor; [split; [reflexivity|exact R]|constructor].
      - exact A2.
      - destruct (snd acc) as [x|], (snd acc') as [x'|]; cbn in A2 |- *; try contradiction; try lany.
        + apply Hr; assumption.
        + subst. apply merge_gen_any_l. }
    destruct (G (ps, mapped0 (merge_gen aa) m n) (ps', mapped0 (merge_gen aa) m' n') Lps M0) as [G1 G2].
    apply looser_obj_iff. split; assumption.
  - (* b is an array *)
    destruct (looser_inv _ _ Lb) as [->|(f' & d2' & -> & Lf & Ld2)]; [unfold mg; rewrite ?merge_gen_any_r; lany|].
    destruct (looser_inv _ _ La) as [->|La']; [lany|].
    destruct a as [| | | | |ps m|e d]; cbn in La'; try contradiction; subst; try lany.
    { destruct La' as (? & ? & -> & _). lany. }
    destruct La' as (e' & d' & -> & Le & Ld).
    unfold mg. cbn [merge_gen].
    destruct (is_any e || is_any f) eqn:C.
    + assert (C' : is_any e' || is_any f' = true).
      { apply orb_prop in C. destruct C as [C|C]; [destruct e|destruct f]; try discriminate.
        - apply looser_any_l in Le. now subst.
        - apply looser_any_l in Lf. subst. apply orb_true_r. }
      rewrite C'. apply aa_mono; assumption.
    + destruct (is_any e' || is_any f') eqn:C'.
      * eapply looser_trans; [|apply aa_any; exact C']. apply looser_arr_iff. split; [apply looser_any_r|discriminate].
      * apply looser_arr_iff. split; [apply IH; assumption|auto].
Qed.
End MergeMono.

Lemma merge_mono a a' b b' : looser a a' -> looser b b' -> looser (merge a b) (merge a' b').
Proof.
  apply merge_gen_mono.
  - intros e d f d2 e' d' f' d2' _ Hd _ Hd2 _. cbn. split; [exact I|].
    intros H. apply orb_prop in H. destruct H as [H|H]; [rewrite (Hd H)|rewrite (Hd2 H), orb_true_r]; reflexivity.
  - intros e d f d2 _. cbn. split; [exact I|discriminate].
Qed.

(* the code before the repair: the Deref flag of the result depended on which operand is array<any> *)
Lemma merge_old_not_mono : exists a a' b,
  looser a a' /\ ~ looser (merge_old a b) (merge_old a' b).
Proof.
  exists (TArr TNum false), (TArr TAny false), (TArr TAny true).
  split; [cbn; auto|]. cbn. intros [_ H]. specialize (H eq_refl). discriminate.
Qed.
