(* Expr/ParsePrec.v — precedence for all sentences, grouping included.

   [tops 0 ts] lists the kinds of the tokens of [ts] that are not enclosed in
   parentheses or brackets.  For every derivable sentence: if an unenclosed `||`
   occurs, the root of the tree is `||`; otherwise, if an unenclosed `&&` occurs,
   the root is `&&`; otherwise, if an unenclosed comparison operator occurs, the
   root is that kind of node.  Hence `&&` binds tighter than `||`, comparison
   tighter than `&&`, and `!` (and postfix operators) tighter than comparison:
   an operand of a tighter level never contains a looser unenclosed operator. *)
From AL Require Import Expr.Parser Expr.Grammar Expr.ParserProofs.
From Coq Require Import Lia.

Definition opener (k : tkind) : bool := match k with TLParen | TLBracket => true | _ => false end.
Definition closer (k : tkind) : bool := match k with TRParen | TRBracket => true | _ => false end.

(* bracket depth after ts when starting at depth d; None when a closer has no opener *)
Fixpoint closes (d : nat) (ts : list token) : option nat :=
  match ts with
  | [] => Some d
  | t :: r =>
      if opener (tk_kind t) then closes (S d) r
      else if closer (tk_kind t) then match d with 0 => None | S d' => closes d' r end
      else closes d r
  end.

(* kinds of the tokens met at depth 0 (an opener counts at the depth it is met) *)
Fixpoint tops (d : nat) (ts : list token) : list tkind :=
  match ts with
  | [] => []
  | t :: r =>
      if opener (tk_kind t) then (match d with 0 => [tk_kind t] | _ => [] end) ++ tops (S d) r
      else if closer (tk_kind t) then tops (pred d) r
      else (match d with 0 => [tk_kind t] | _ => [] end) ++ tops d r
  end.

Lemma closes_app a : forall d b,
  closes d (a ++ b) = match closes d a with Some d' => closes d' b | None => None end.
Proof.
  induction a as [|t a IH]; intros d b; cbn; [reflexivity|].
  destruct (opener (tk_kind t)); [apply IH|].
  destruct (closer (tk_kind t)); [|apply IH]. destruct d; [reflexivity|apply IH].
Qed.

Lemma tops_app a : forall d d' b, closes d a = Some d' -> tops d (a ++ b) = tops d a ++ tops d' b.
Proof.
  induction a as [|t a IH]; intros d d' b H; cbn in *.
  - now inv H.
  - destruct (opener (tk_kind t)).
    + rewrite (IH _ _ _ H). now rewrite app_assoc.
    + destruct (closer (tk_kind t)).
      * destruct d; [discriminate|]. cbn. now apply IH.
      * rewrite (IH _ _ _ H). now rewrite app_assoc.
Qed.

(* a balanced segment: returns to the depth it started from, never below it *)
Definition seg (ts : list token) : Prop :=
  (forall d, closes d ts = Some d) /\ (forall d, tops (S d) ts = []).

Lemma seg_nil : seg [].
Proof. split; reflexivity. Qed.

Lemma seg_app a b : seg a -> seg b -> seg (a ++ b).
Proof.
  intros (A1 & A2) (B1 & B2). split; intros d.
  - now rewrite closes_app, A1, B1.
  - now rewrite (tops_app _ _ _ _ (A1 (S d))), A2, B2.
Qed.

Lemma seg_plain t : opener (tk_kind t) = false -> closer (tk_kind t) = false -> seg [t].
Proof. intros O C. split; intros d; cbn; now rewrite O, C. Qed.

Lemma seg_cons t ts : opener (tk_kind t) = false -> closer (tk_kind t) = false -> seg ts -> seg (t :: ts).
Proof. intros O C S. change (t :: ts) with ([t] ++ ts). apply seg_app; auto. now apply seg_plain. Qed.

Lemma seg_wrap lp ts rp :
  opener (tk_kind lp) = true -> opener (tk_kind rp) = false -> closer (tk_kind rp) = true ->
  seg ts -> seg (lp :: ts ++ [rp]).
Proof.
  intros O O' C (S1 & S2). split; intros d; cbn; rewrite O.
  - rewrite closes_app, S1. cbn. now rewrite O', C.
  - rewrite (tops_app _ _ _ _ (S1 (S (S d)))), S2. cbn. now rewrite O', C.
Qed.

Lemma tops0_app a b : seg a -> tops 0 (a ++ b) = tops 0 a ++ tops 0 b.
Proof. intros (A1 & _). now apply tops_app. Qed.

Lemma tops0_plain t r : opener (tk_kind t) = false -> closer (tk_kind t) = false ->
  tops 0 (t :: r) = tk_kind t :: tops 0 r.
Proof. intros O C. cbn. now rewrite O, C. Qed.

Lemma tops0_wrap lp ts rp r :
  opener (tk_kind lp) = true -> opener (tk_kind rp) = false -> closer (tk_kind rp) = true -> seg ts ->
  tops 0 (lp :: ts ++ rp :: r) = tk_kind lp :: tops 0 r.
Proof.
  intros O O' C (S1 & S2). cbn. rewrite O. rewrite (tops_app _ _ _ _ (S1 1)), S2. cbn.
  now rewrite O', C.
Qed.

(* operators that may not occur unenclosed inside a phrase of the level *)
Definition f_and (k : tkind) : bool := match k with TOr => true | _ => false end.
Definition f_cmp (k : tkind) : bool := match k with TOr | TAnd => true | _ => false end.
Definition f_pre (k : tkind) : bool :=
  match k with TOr | TAnd => true | _ => match cmp_of_kind k with Some _ => true | None => false end end.

Definition free (f : tkind -> bool) (ts : list token) : Prop := Forall (fun k => f k = false) (tops 0 ts).

Lemma free_weaken (f g : tkind -> bool) ts : (forall k, f k = false -> g k = false) -> free f ts -> free g ts.
Proof. intros H. apply Forall_impl. exact H. Qed.

Section Prec.
Variable int_lit : string -> option Z.
Variable float_ok : string -> bool.
Notation d_or := (d_or int_lit float_ok).
Notation d_and := (d_and int_lit float_ok).
Notation d_cmp := (d_cmp int_lit float_ok).
Notation d_pre := (d_pre int_lit float_ok).
Notation d_post := (d_post int_lit float_ok).
Notation d_prim := (d_prim int_lit float_ok).
Notation d_args := (d_args int_lit float_ok).

Ltac kind_facts :=
  repeat match goal with
  | H : tk_kind ?t = _ |- _ => rewrite H in *; clear H
  end.

Lemma levels_all :
  (forall ts e, d_or ts e -> seg ts) /\
  (forall ts e, d_and ts e -> seg ts /\ free f_and ts) /\
  (forall ts e, d_cmp ts e -> seg ts /\ free f_cmp ts) /\
  (forall ts e, d_pre ts e -> seg ts /\ free f_pre ts) /\
  (forall ts e, d_post ts e -> seg ts /\ free f_pre ts) /\
  (forall ts e, d_prim ts e -> seg ts /\ free f_pre ts) /\
  (forall ts es, d_args ts es -> seg ts).
Proof.
  apply derives_mutind.
  - (* D_or_and *) intros ts e _ (S & _). exact S.
  - (* D_or *) intros ts1 t ts2 l r _ (S1 & _) K _ S2. apply seg_app; auto. apply seg_cons; auto; now rewrite K.
  - (* D_and_cmp *) intros ts e _ (S & F). split; auto. revert F. apply free_weaken. intros k; destruct k; cbn; congruence.
  - (* D_and *) intros ts1 t ts2 l r _ (S1 & F1) K _ (S2 & F2). split.
    + apply seg_app; auto. apply seg_cons; auto; now rewrite K.
    + unfold free in *. rewrite tops0_app by auto. rewrite tops0_plain by now rewrite K.
      apply Forall_app. split.
      * revert F1. apply Forall_impl. intros k; destruct k; cbn; congruence.
      * constructor; auto. now rewrite K.
  - (* D_cmp_pre *) intros ts e _ (S & F). split; auto. revert F. apply free_weaken. intros k; destruct k; cbn; congruence.
  - (* D_cmp *) intros ts1 t ts2 op l r _ (S1 & F1) K _ (S2 & F2).
    assert (O : opener (tk_kind t) = false /\ closer (tk_kind t) = false /\ f_cmp (tk_kind t) = false)
      by (destruct (tk_kind t); cbn in K; try discriminate; auto).
    destruct O as (O1 & O2 & O3). split.
    + apply seg_app; auto. apply seg_cons; auto.
    + unfold free in *. rewrite tops0_app by auto. rewrite tops0_plain by auto.
      apply Forall_app. split.
      * revert F1. apply Forall_impl. intros k; destruct k; cbn; congruence.
      * constructor; auto.
  - (* D_pre_post *) intros ts e _ H. exact H.
  - (* D_not *) intros t ts e K _ (S & F). split.
    + apply seg_cons; auto; now rewrite K.
    + unfold free in *. rewrite tops0_plain by now rewrite K. constructor; auto. now rewrite K.
  - (* D_post_prim *) intros ts e _ H. exact H.
  - (* D_deref *) intros ts e t1 t2 _ (S & F) K1 K2. split.
    + apply seg_app; auto. apply seg_cons; [now rewrite K1|now rewrite K1|]. apply seg_plain; now rewrite K2.
    + unfold free in *. rewrite tops0_app by auto. apply Forall_app. split; auto.
      rewrite tops0_plain by now rewrite K1. rewrite tops0_plain by now rewrite K2.
      rewrite K1, K2. repeat constructor.
  - (* D_star *) intros ts e t1 t2 _ (S & F) K1 K2. split.
    + apply seg_app; auto. apply seg_cons; [now rewrite K1|now rewrite K1|]. apply seg_plain; now rewrite K2.
    + unfold free in *. rewrite tops0_app by auto. apply Forall_app. split; auto.
      rewrite tops0_plain by now rewrite K1. rewrite tops0_plain by now rewrite K2.
      rewrite K1, K2. repeat constructor.
  - (* D_index *) intros ts e tl ti i tr _ (S & F) K1 _ Si K2. split.
    + apply seg_app; auto. apply seg_wrap; auto; now rewrite ?K1, ?K2.
    + unfold free in *. rewrite tops0_app by auto. apply Forall_app. split; auto.
      rewrite (tops0_wrap tl ti tr []) by (auto; now rewrite ?K1, ?K2). rewrite K1. repeat constructor.
  - (* D_ident *) intros t K. split; [apply seg_plain; now rewrite K|].
    unfold free. rewrite tops0_plain by now rewrite K. rewrite K. repeat constructor.
  - (* D_call0 *) intros t lp rp K KL KR. split.
    + apply seg_cons; [now rewrite K|now rewrite K|]. apply (seg_wrap lp [] rp); auto using seg_nil; now rewrite ?KL, ?KR.
    + unfold free. rewrite tops0_plain by now rewrite K.
      change [lp; rp] with (lp :: [] ++ rp :: []).
      rewrite (tops0_wrap lp [] rp []) by (auto using seg_nil; now rewrite ?KL, ?KR).
      rewrite K, KL. repeat constructor.
  - (* D_call *) intros t lp ta args rp K KL _ Sa KR. split.
    + apply seg_cons; [now rewrite K|now rewrite K|]. apply seg_wrap; auto; now rewrite ?KL, ?KR.
    + unfold free. rewrite tops0_plain by now rewrite K.
      rewrite (tops0_wrap lp ta rp []) by (auto; now rewrite ?KL, ?KR).
      rewrite K, KL. repeat constructor.
  - (* D_paren *) intros lp ts e rp KL _ S KR. split.
    + apply seg_wrap; auto; now rewrite ?KL, ?KR.
    + unfold free. rewrite (tops0_wrap lp ts rp []) by (auto; now rewrite ?KL, ?KR).
      rewrite KL. repeat constructor.
  - (* D_int *) intros t z K _. split; [apply seg_plain; now rewrite K|].
    unfold free. rewrite tops0_plain by now rewrite K. rewrite K. repeat constructor.
  - (* D_float *) intros t K _. split; [apply seg_plain; now rewrite K|].
    unfold free. rewrite tops0_plain by now rewrite K. rewrite K. repeat constructor.
  - (* D_string *) intros t s K _. split; [apply seg_plain; now rewrite K|].
    unfold free. rewrite tops0_plain by now rewrite K. rewrite K. repeat constructor.
  - (* D_arg1 *) intros ts e _ S. exact S.
  - (* D_args *) intros ts e c rest es _ S KC _ Sr. apply seg_app; auto. apply seg_cons; auto; now rewrite KC.
Qed.

Lemma free_not_in f k ts : free f ts -> f k = true -> ~ In k (tops 0 ts).
Proof. unfold free. rewrite Forall_forall. intros F Fk I. apply F in I. congruence. Qed.

(* an unenclosed `||` makes `||` the root *)
Theorem root_or ts e : d_or ts e -> In TOr (tops 0 ts) -> exists l r, e = ELog LOr l r.
Proof.
  destruct levels_all as (_ & LA & _).
  intros D I. destruct D as [ts e D | ts1 t ts2 l r D1 K D2]; [|do 2 eexists; reflexivity].
  exfalso. destruct (LA _ _ D) as (_ & F). exact (free_not_in f_and TOr ts F eq_refl I).
Qed.

(* no unenclosed `||` but an unenclosed `&&`: the root is `&&` *)
Theorem root_and ts e : d_or ts e -> ~ In TOr (tops 0 ts) -> In TAnd (tops 0 ts) ->
  exists l r, e = ELog LAnd l r.
Proof.
  destruct levels_all as (_ & LA & LC & _).
  intros D N I. destruct D as [ts e D | ts1 t ts2 l r D1 K D2].
  - destruct D as [ts e D | ts1 t ts2 l r D1 K D2]; [|do 2 eexists; reflexivity].
    exfalso. destruct (LC _ _ D) as (_ & F). exact (free_not_in f_cmp TAnd ts F eq_refl I).
  - exfalso. apply N. destruct (LA _ _ D1) as (S1 & _). rewrite tops0_app by auto.
    apply in_or_app. right. rewrite tops0_plain by now rewrite K. left. exact K.
Qed.

(* neither: an unenclosed comparison operator makes a comparison the root *)
Theorem root_cmp ts e k op : d_or ts e -> ~ In TOr (tops 0 ts) -> ~ In TAnd (tops 0 ts) ->
  In k (tops 0 ts) -> cmp_of_kind k = Some op -> exists op' l r, e = ECmp op' l r.
Proof.
  destruct levels_all as (_ & LA & LC & LP & _).
  intros D N1 N2 I C.
  assert (Fk : f_pre k = true) by (destruct k; cbn in C; try discriminate; reflexivity).
  destruct D as [ts e D | ts1 t ts2 l r D1 K D2].
  - destruct D as [ts e D | ts1 t ts2 l r D1 K D2].
    + destruct D as [ts e D | ts1 t ts2 op' l r D1 K D2]; [|do 3 eexists; reflexivity].
      exfalso. destruct (LP _ _ D) as (_ & F). exact (free_not_in f_pre k ts F Fk I).
    + exfalso. apply N2. destruct (LC _ _ D1) as (S1 & _). rewrite tops0_app by auto.
      apply in_or_app. right. rewrite tops0_plain by now rewrite K. left. exact K.
  - exfalso. apply N1. destruct (LA _ _ D1) as (S1 & _). rewrite tops0_app by auto.
    apply in_or_app. right. rewrite tops0_plain by now rewrite K. left. exact K.
Qed.

(* the operand of `!` (and every postfix/primary phrase) has no unenclosed binary operator *)
Theorem not_binds_tightest ts e : d_pre ts e -> free f_pre ts.
Proof. destruct levels_all as (_ & _ & _ & LP & _). intros D. now destruct (LP _ _ D). Qed.

End Prec.

(* stated on the parser: combine with parse_sound *)
Theorem parse_root_or int_lit float_ok ts e :
  parse_toks int_lit float_ok ts = POk e -> In TOr (tops 0 ts) -> exists l r, e = ELog LOr l r.
Proof. intros H. apply parse_sound in H. eapply root_or; eauto. Qed.

Theorem parse_root_and int_lit float_ok ts e :
  parse_toks int_lit float_ok ts = POk e -> ~ In TOr (tops 0 ts) -> In TAnd (tops 0 ts) ->
  exists l r, e = ELog LAnd l r.
Proof. intros H. apply parse_sound in H. eapply root_and; eauto. Qed.

Theorem parse_root_cmp int_lit float_ok ts e k op :
  parse_toks int_lit float_ok ts = POk e -> ~ In TOr (tops 0 ts) -> ~ In TAnd (tops 0 ts) ->
  In k (tops 0 ts) -> cmp_of_kind k = Some op -> exists op' l r, e = ECmp op' l r.
Proof. intros H. apply parse_sound in H. eapply root_cmp; eauto. Qed.
