(* Expr/Grammar.v — the documented expression grammar, written declaratively
   as an inductive derivation relation over token lists (not derived from the
   parser code):

     or   ::= and | and '||' or
     and  ::= cmp | cmp '&&' and
     cmp  ::= pre | pre cmpop cmp              cmpop ::= < <= > >= == !=
     pre  ::= post | '!' pre
     post ::= prim | post '.' IDENT | post '.' '*' | post '[' or ']'
     prim ::= IDENT | IDENT '(' ')' | IDENT '(' args ')' | '(' or ')'
            | INT | FLOAT | STRING
     args ::= or | or ',' args

   `!` binds tighter than comparison, comparison tighter than `&&`, `&&`
   tighter than `||`.  Comparison and the logical operators nest to the right
   (DESIGN.md Appendix B: the documentation does not fix associativity, the
   grammar follows the implementation).

   The relation also gives the tree each sentence denotes.  Which INT / FLOAT
   literal texts are admitted is a parameter:  [int_lit] (text -> value, None =
   not admitted) and [float_ok]. The documented language is the instance
   [int_lit_unbounded]; the implementation's is [int32_lit] (known finding). *)
From AL Require Export Expr.Token.

Section Grammar.
Variable int_lit : string -> option Z.
Variable float_ok : string -> bool.

Inductive d_or : list token -> expr -> Prop :=
| D_or_and ts e : d_and ts e -> d_or ts e
| D_or ts1 t ts2 l r :
    d_and ts1 l -> tk_kind t = TOr -> d_or ts2 r -> d_or (ts1 ++ t :: ts2) (ELog LOr l r)

with d_and : list token -> expr -> Prop :=
| D_and_cmp ts e : d_cmp ts e -> d_and ts e
| D_and ts1 t ts2 l r :
    d_cmp ts1 l -> tk_kind t = TAnd -> d_and ts2 r -> d_and (ts1 ++ t :: ts2) (ELog LAnd l r)

with d_cmp : list token -> expr -> Prop :=
| D_cmp_pre ts e : d_pre ts e -> d_cmp ts e
| D_cmp ts1 t ts2 op l r :
    d_pre ts1 l -> cmp_of_kind (tk_kind t) = Some op -> d_cmp ts2 r ->
    d_cmp (ts1 ++ t :: ts2) (ECmp op l r)

with d_pre : list token -> expr -> Prop :=
| D_pre_post ts e : d_post ts e -> d_pre ts e
| D_not t ts e : tk_kind t = TNot -> d_pre ts e -> d_pre (t :: ts) (ENot (tk_pos t) e)

with d_post : list token -> expr -> Prop :=
| D_post_prim ts e : d_prim ts e -> d_post ts e
| D_deref ts e t1 t2 :
    d_post ts e -> tk_kind t1 = TDot -> tk_kind t2 = TIdent ->
    d_post (ts ++ [t1; t2]) (EDeref e (lower (tk_val t2)))
| D_star ts e t1 t2 :
    d_post ts e -> tk_kind t1 = TDot -> tk_kind t2 = TStar ->
    d_post (ts ++ [t1; t2]) (EArrDeref e)
| D_index ts e tl ti i tr :
    d_post ts e -> tk_kind tl = TLBracket -> d_or ti i -> tk_kind tr = TRBracket ->
    d_post (ts ++ tl :: ti ++ [tr]) (EIndex e i)

with d_prim : list token -> expr -> Prop :=
| D_ident t : tk_kind t = TIdent -> d_prim [t] (ident_node t)
| D_call0 t lp rp :
    tk_kind t = TIdent -> tk_kind lp = TLParen -> tk_kind rp = TRParen ->
    d_prim [t; lp; rp] (ECall (tk_pos t) (tk_val t) [])
| D_call t lp ta args rp :
    tk_kind t = TIdent -> tk_kind lp = TLParen -> d_args ta args -> tk_kind rp = TRParen ->
    d_prim (t :: lp :: ta ++ [rp]) (ECall (tk_pos t) (tk_val t) args)
| D_paren lp ts e rp :
    tk_kind lp = TLParen -> d_or ts e -> tk_kind rp = TRParen -> d_prim (lp :: ts ++ [rp]) e
| D_int t z : tk_kind t = TInt -> int_lit (tk_val t) = Some z -> d_prim [t] (EInt (tk_pos t) z)
| D_float t : tk_kind t = TFloat -> float_ok (tk_val t) = true ->
    d_prim [t] (EFloat (tk_pos t) (tk_val t))
| D_string t s : tk_kind t = TString -> unquote (tk_val t) = Some s -> d_prim [t] (EStr (tk_pos t) s)

with d_args : list token -> list expr -> Prop :=
| D_arg1 ts e : d_or ts e -> d_args ts [e]
| D_args ts e c rest es :
    d_or ts e -> tk_kind c = TComma -> d_args rest es -> d_args (ts ++ c :: rest) (e :: es).

Definition derives := d_or.

End Grammar.

Scheme d_or_mut := Minimality for d_or Sort Prop
with d_and_mut := Minimality for d_and Sort Prop
with d_cmp_mut := Minimality for d_cmp Sort Prop
with d_pre_mut := Minimality for d_pre Sort Prop
with d_post_mut := Minimality for d_post Sort Prop
with d_prim_mut := Minimality for d_prim Sort Prop
with d_args_mut := Minimality for d_args Sort Prop.
Combined Scheme derives_mutind from d_or_mut, d_and_mut, d_cmp_mut, d_pre_mut, d_post_mut, d_prim_mut, d_args_mut.

(* precedence strata of a tree built without grouping tokens *)
Inductive s_post : expr -> Prop :=
| SP_var p n : s_post (EVar p n) | SP_null p : s_post (ENull p) | SP_bool p b : s_post (EBool p b)
| SP_int p z : s_post (EInt p z) | SP_float p r : s_post (EFloat p r) | SP_str p s : s_post (EStr p s)
| SP_deref e n : s_post e -> s_post (EDeref e n)
| SP_star e : s_post e -> s_post (EArrDeref e).
Inductive s_pre : expr -> Prop :=
| SPre_post e : s_post e -> s_pre e
| SPre_not p e : s_pre e -> s_pre (ENot p e).
Inductive s_cmp : expr -> Prop :=
| SC_pre e : s_pre e -> s_cmp e
| SC_cmp op l r : s_pre l -> s_cmp r -> s_cmp (ECmp op l r).
Inductive s_and : expr -> Prop :=
| SA_cmp e : s_cmp e -> s_and e
| SA_and l r : s_cmp l -> s_and r -> s_and (ELog LAnd l r).
Inductive s_or : expr -> Prop :=
| SO_and e : s_and e -> s_or e
| SO_or l r : s_and l -> s_or r -> s_or (ELog LOr l r).
