(* Expr/Sema.v — model of expr_sema.go: ExprSemanticsChecker.

   [chk] mirrors sema.check / checkWithNarrowing case by case and returns the
   result type together with the diagnostics in the order the Go code appends
   them.  Diagnostics carry the types the message names, so that theorems can
   speak about "the type that is blamed".

   Parameters of the generic checker [chk_gen]: the Merge function and whether
   object filtering on a strict object accepts members typed `any`
   (repo_patches/sema/01-fix-filter-any-members.patch).  [check] is the
   repaired code, [check_old] the code before the two repairs.

   Not modelled: the untrusted-input checker hooked into check (C11), the
   message texts, ObjectType.String. *)
From AL Require Export Expr.Ast Expr.Types.

(* ---- diagnostics ------------------------------------------------------------ *)
Inductive dkind : Type :=
| DUndefVar                         (* undefined variable *)
| DCtxNotAllowed                    (* context %q is not allowed here *)
| DFuncNotAllowed                   (* calling function %q is not allowed here *)
| DPropUndef (o : ty)               (* property %q is not defined in object type %s *)
| DPropUndefFiltered (o : ty)       (* … as element of filtered array *)
| DDerefRecv (t : ty)               (* receiver of object dereference %q must be type of object but got t *)
| DFilterElem (t : ty)              (* property filtered by %q at object filtering must be type of object but got t *)
| DFilterMapElem (m o : ty)         (* elements of object at receiver of object filtering `.*` must be type of object but got m *)
| DFilterNoObj (o : ty)             (* object type %q cannot be filtered … since it has no object element *)
| DFilterRecv (t : ty)              (* receiver of object filtering `.*` must be type of array or object but got t *)
| DIndexArr (i : ty)                (* index access of array must be type of number but got i *)
| DIndexObj (i : ty)                (* property access of object must be type of string but got i *)
| DIndexOperand (t : ty)            (* index access operand must be type of object or array but got t *)
| DArity                            (* number of arguments is wrong *)
| DNotAssignable (i : nat) (a p : ty) (* i-th argument … %q cannot be assigned to %q *)
| DUndefFunc
| DNotOp (t : ty)                   (* type of operand of ! operator %q is not assignable to type "bool" *)
| DCompare (l r : ty)               (* %q value cannot be compared to %q value *)
| DFmtMissing (i : nat)             (* format string does not contain placeholder {i} *)
| DFmtUnused (i : N)                (* format string contains placeholder {i} but only … arguments *)
| DBrokenJSON
| DCfgPrefix | DCfgChars | DCfgEmptyList | DCfgUndefined.

Record diag := mkdiag { d_pos : tpos; d_kind : dkind }.

(* ---- environment ------------------------------------------------------------ *)
Record env := {
  e_vars : list (string * ty);            (* sema.vars *)
  e_funcs : list (string * list fsig);    (* sema.funcs *)
  e_avail : list string;                  (* sema.availableContexts *)
  e_spavail : list string;                (* sema.availableSpecialFuncs *)
  e_special : list string;                (* keys of SpecialFunctionNames *)
  e_config : option (list string);        (* sema.configVars (nil = None) *)
  e_json : list (string * jres)           (* oracle: encoding/json on string literals *)
}.

Definition mem (s : string) (l : list string) : bool := existsb (String.eqb s) l.

(* ---- parseFormatFuncSpecifiers ----------------------------------------------
   state: None = start < 0; Some (s, acc) = start = s and the digits f[s:i] read so far.
   Bytes instead of runes: every byte that matters is ASCII, and the two index
   comparisons only involve positions separated by one-byte characters.
   strconv.Atoi overflow is not modelled. *)
Definition digit_val (c : ascii) : option N :=
  let n := nat_of_ascii c in
  if (48 <=? n) && (n <=? 57) then Some (N.of_nat (n - 48)) else None.

Fixpoint parse_fmt (f : string) (i : nat) (st : option (nat * N)) : list N :=
  match f with
  | EmptyString => []
  | String c f' =>
      if Ascii.eqb c "{"%char then
        match st with
        | Some (s, _) => if s =? i then parse_fmt f' (S i) None else parse_fmt f' (S i) (Some (S i, 0%N))
        | None => parse_fmt f' (S i) (Some (S i, 0%N))
        end
      else
        match st with
        | None => parse_fmt f' (S i) None
        | Some (s, acc) =>
            match digit_val c with
            | Some d => parse_fmt f' (S i) (Some (s, (acc * 10 + d)%N))
            | None =>
                if Ascii.eqb c "}"%char && (s <? i) then acc :: parse_fmt f' (S i) None
                else parse_fmt f' (S i) None
            end
        end
  end.

Fixpoint insert_N (x : N) (l : list N) : list N :=
  match l with
  | [] => [x]
  | y :: l' => if N.ltb x y then x :: l else if N.eqb x y then l else y :: insert_N x l'
  end.
Definition sort_dedup_N (l : list N) : list N := fold_right insert_N [] l.

(* diagnostics of the format() special check: [l] = number of arguments after the format string *)
Definition format_diags (pos : tpos) (fmt : string) (l : nat) : list diag :=
  let holders := parse_fmt fmt 0 None in
  map (fun i => mkdiag pos (DFmtMissing i))
      (filter (fun i => negb (existsb (N.eqb (N.of_nat i)) holders)) (seq 0 l))
  ++ map (fun h => mkdiag pos (DFmtUnused h))
         (filter (fun h => negb (N.ltb h (N.of_nat l))) (sort_dedup_N holders)).

(* ---- checkConfigVariables ---------------------------------------------------- *)
Definition cfg_char_ok (c : ascii) : bool :=
  let n := nat_of_ascii c in
  ((48 <=? n) && (n <=? 57)) || ((97 <=? n) && (n <=? 122)) || (n =? 95).

Fixpoint str_forallb (f : ascii -> bool) (s : string) : bool :=
  match s with EmptyString => true | String c s' => f c && str_forallb f s' end.

Definition check_config (cfg : option (list string)) (prop : string) : option dkind :=
  if String.prefix "github_" prop then Some DCfgPrefix
  else if negb (str_forallb cfg_char_ok prop) then Some DCfgChars
  else match cfg with
       | None => None
       | Some [] => Some DCfgEmptyList
       | Some vs => if existsb (fun v => String.eqb (lower v) (lower prop)) vs then None else Some DCfgUndefined
       end.

(* ---- validateCompareOpOperands ------------------------------------------------ *)
Definition is_eq_op (op : cmpop) : bool := match op with CEq | CNotEq => true | _ => false end.

Fixpoint compare_ok (op : cmpop) (l r : ty) {struct l} : bool :=
  if is_eq_op op then
    match l with
    | TAny | TNull => true
    | TNum | TBool | TStr => match r with TObj _ _ | TArr _ _ => false | _ => true end
    | TObj _ _ => match r with TObj _ _ | TNull | TAny => true | _ => false end
    | TArr e _ => match r with TArr f _ => compare_ok op e f | TNull | TAny => true | _ => false end
    end
  else
    match l with
    | TAny | TNum | TStr => match r with TNull | TBool | TObj _ _ | TArr _ _ => false | _ => true end
    | _ => false
    end.

(* ---- checkFuncSignature -------------------------------------------------------- *)
Fixpoint sig_loop (i : nat) (ps : list ty) (args : list (ty * tpos)) : option diag :=
  match ps, args with
  | p :: ps', a :: args' =>
      if assignable p (fst a) then sig_loop (S i) ps' args'
      else Some (mkdiag (snd a) (DNotAssignable (S i) (fst a) p))
  | _, _ => None
  end.

Fixpoint rest_loop (i : nat) (p : ty) (args : list (ty * tpos)) : option diag :=
  match args with
  | [] => None
  | a :: args' =>
      if assignable p (fst a) then rest_loop (S i) p args'
      else Some (mkdiag (snd a) (DNotAssignable (S i) (fst a) p))
  end.

(* None = the signature accepts the arguments.  (VariableLengthParams with an empty
   parameter list would index out of range in Go; [last _ TAny] here.  No built-in
   signature has that shape: GenFuncsFacts.) *)
Definition check_sig (cpos : tpos) (sig : fsig) (args : list (ty * tpos)) : option diag :=
  let lp := length (fs_params sig) in
  let la := length args in
  if (fs_varlen sig && (la <? lp)) || (negb (fs_varlen sig) && negb (lp =? la)) then Some (mkdiag cpos DArity)
  else match sig_loop 0 (fs_params sig) args with
       | Some d => Some d
       | None =>
           if fs_varlen sig then rest_loop lp (last (fs_params sig) TAny) (skipn lp args)
           else None
       end.

(* overload resolution of checkFuncCall: the first signature that accepts, or every candidate's error *)
Fixpoint resolve (cpos : tpos) (sigs : list fsig) (args : list (ty * tpos)) : fsig + list diag :=
  match sigs with
  | [] => inr []
  | s :: rest =>
      match check_sig cpos s args with
      | None => inl s
      | Some d =>
          match resolve cpos rest args with
          | inl s' => inl s'
          | inr ds => inr (d :: ds)
          end
      end
  end.

Section Checker.
Variable mg : ty -> ty -> ty.      (* Merge *)
Variable filter_any : bool.        (* `.*` on a strict object accepts members typed any *)
Variable E : env.

(* checkBuiltinFuncCall *)
Definition builtin_call (pos : tpos) (callee : string) (args : list expr) (sig : fsig) : ty * list diag :=
  let f := lower callee in
  let avail := if mem f (e_special E) && negb (mem f (e_spavail E)) then [mkdiag pos DFuncNotAllowed] else [] in
  if String.eqb f "format" then
    match args with
    | EStr _ s :: rest => (fs_ret sig, avail ++ format_diags pos s (length rest))
    | _ => (fs_ret sig, avail)
    end
  else if String.eqb f "fromjson" then
    match args with
    | EStr p s :: _ =>
        match lookup s (e_json E) with
        | Some (JOk v) => (type_of_json_gen mg v, avail)
        | Some JSyntaxErr => (fs_ret sig, avail ++ [mkdiag p DBrokenJSON])
        | _ => (fs_ret sig, avail)
        end
    | _ => (fs_ret sig, avail)
    end
  else (fs_ret sig, avail).

(* ---- one function per node kind: result type and the node's own diagnostics,
   given the result types of the children --------------------------------------- *)

(* checkVariable (+ checkAvailableContext) *)
Definition var_node (p : tpos) (name : string) : ty * list diag :=
  match lookup name (e_vars E) with
  | None => (TAny, [mkdiag p DUndefVar])
  | Some t => (t, if mem (lower name) (e_avail E) then [] else [mkdiag p DCtxNotAllowed])
  end.

(* checkObjectDeref; [t] = type of the receiver *)
Definition deref_node (recv : expr) (prop : string) (t : ty) : ty * list diag :=
  let pos := etok recv in
  match t with
  | TAny => (TAny, [])
  | TObj ps m =>
      match lookup prop ps with
      | Some pt => (pt, [])
      | None =>
          match m with
          | Some mt =>
              (mt, match recv with
                   | EVar _ "vars" =>
                       match check_config (e_config E) prop with
                       | Some k => [mkdiag pos k]
                       | None => []
                       end
                   | _ => []
                   end)
          | None => (TAny, [mkdiag pos (DPropUndef t)])
          end
      end
  | TArr el d =>
      if negb d then (TAny, [mkdiag pos (DDerefRecv t)])
      else match el with
           | TAny => (t, [])
           | TObj ps m =>
               match lookup prop ps with
               | Some pt => (TArr pt true, [])
               | None =>
                   match m with
                   | Some mt => (TArr mt true, [])
                   | None => (TArr TAny true, [mkdiag pos (DPropUndefFiltered el)])
                   end
               end
           | _ => (TAny, [mkdiag pos (DFilterElem el)])
           end
  | _ => (TAny, [mkdiag pos (DDerefRecv t)])
  end.

(* checkArrayDeref *)
Definition has_obj_member (ps : list (string * ty)) : bool :=
  existsb (fun kv : string * ty => is_obj (snd kv) || (filter_any && is_any (snd kv))) ps.

Definition arrderef_node (pos : tpos) (t : ty) : ty * list diag :=
  match t with
  | TAny => (TArr TAny true, [])
  | TArr el _ => (TArr el true, [])
  | TObj ps m =>
      match m with
      | Some TAny => (TArr TAny true, [])
      | Some (TObj qs n) => (TArr (TObj qs n) true, [])
      | Some mt => (TAny, [mkdiag pos (DFilterMapElem mt t)])
      | None =>
          if has_obj_member ps then (TArr TAny true, [])
          else (TAny, [mkdiag pos (DFilterNoObj t)])
      end
  | _ => (TAny, [mkdiag pos (DFilterRecv t)])
  end.

(* checkIndexAccess; [ti] = type of the index, [t] = type of the operand.
   [fold_lit]: true = the repaired code, a string literal index is looked up lower-cased
   (repo_patches/case/01-fix-index-literal-case.patch); false = the code before the repair. *)
Definition index_node_gen (fold_lit : bool) (operand index : expr) (ti t : ty) : ty * list diag :=
  match t with
  | TAny => (TAny, [])
  | TArr el _ =>
      match ti with
      | TAny | TNum => (el, [])
      | _ => (TAny, [mkdiag (etok index) (DIndexArr ti)])
      end
  | TObj ps m =>
      match ti with
      | TAny => (TAny, [])
      | TStr =>
          match index with
          | EStr _ s =>
              match lookup (if fold_lit then lower s else s) ps with
              | Some pt => (pt, [])
              | None =>
                  match m with
                  | Some mt => (mt, [])
                  | None => (TAny, [mkdiag (etok operand) (DPropUndef t)])
                  end
              end
          | _ => (match m with Some mt => mt | None => TAny end, [])
          end
      | _ => (TAny, [mkdiag (etok index) (DIndexObj ti)])
      end
  | _ => (TAny, [mkdiag (etok operand) (DIndexOperand t)])
  end.
Definition index_node := index_node_gen true.
Definition index_node_old := index_node_gen false.

(* checkNotOp *)
Definition not_node (p : tpos) (t : ty) : ty * list diag :=
  (TBool, if assignable TBool t then [] else [mkdiag p (DNotOp t)]).

(* checkCompareOp *)
Definition cmp_node (op : cmpop) (pos : tpos) (tl tr : ty) : ty * list diag :=
  (TBool, if compare_ok op tl tr then [] else [mkdiag pos (DCompare tl tr)]).

(* checkFuncCall after the arguments have been checked *)
Definition call_node (p : tpos) (callee : string) (args : list expr) (sigs : list fsig)
  (tys : list (ty * tpos)) : ty * list diag :=
  match resolve p sigs tys with
  | inl sig => builtin_call p callee args sig
  | inr errs =>
      (* whether the function may be called here does not depend on whether its arguments fit
         (from a8? on: checkSpecialFunctionAvailability runs before the overloads are tried) *)
      (TAny, (if mem (lower callee) (e_special E) && negb (mem (lower callee) (e_spavail E))
              then [mkdiag p DFuncNotAllowed] else []) ++ errs)
  end.

(* nw = None: sema.check;  nw = Some truthy: sema.checkWithNarrowing(_, truthy) *)
Fixpoint chk (nw : option bool) (e : expr) {struct e} : ty * list diag :=
  let logical (op : logop) (l r : expr) : ty * list diag :=
    let '(tl, dl) := chk (Some (match op with LAnd => false | LOr => true end)) l in
    let '(tr, dr) := chk None r in
    (mg tl tr, dl ++ dr) in
  let seq2 (l r : expr) : ty * list diag :=
    let '(_, dl) := chk None l in let '(tr, dr) := chk None r in (tr, dl ++ dr) in
  match nw, e with
  | Some truthy, ELog LAnd l r => if truthy then seq2 l r else logical LAnd l r
  | Some truthy, ELog LOr l r => if negb truthy then seq2 l r else logical LOr l r
  | Some truthy, ENot _ x => chk (Some (negb truthy)) x
  | _, EVar p name => var_node p name
  | _, ENull _ => (TNull, [])
  | _, EBool _ _ => (TBool, [])
  | _, EInt _ _ => (TNum, [])
  | _, EFloat _ _ => (TNum, [])
  | _, EStr _ _ => (TStr, [])
  | _, EDeref recv prop =>
      let '(t, ds) := chk None recv in
      let '(u, own) := deref_node recv prop t in (u, ds ++ own)
  | _, EArrDeref recv =>
      let '(t, ds) := chk None recv in
      let '(u, own) := arrderef_node (etok recv) t in (u, ds ++ own)
  | _, EIndex operand index =>
      let '(ti, di) := chk None index in
      let '(t, dop) := chk None operand in
      let '(u, own) := index_node operand index ti t in (u, (di ++ dop) ++ own)
  | _, ENot p x =>
      let '(t, ds) := chk None x in
      let '(u, own) := not_node p t in (u, ds ++ own)
  | _, ECmp op l r =>
      let '(tl, dl) := chk None l in
      let '(tr, dr) := chk None r in
      let '(u, own) := cmp_node op (etok l) tl tr in (u, (dl ++ dr) ++ own)
  | _, ELog op l r => logical op l r
  | _, ECall p callee args =>
      match lookup (lower callee) (e_funcs E) with
      | None => (TAny, [mkdiag p DUndefFunc])
      | Some sigs =>
          let '(tys, ds) :=
            (fix go (l : list expr) : list (ty * tpos) * list diag :=
               match l with
               | [] => ([], [])
               | a :: l' =>
                   let '(t, d) := chk None a in
                   let '(ts, ds) := go l' in
                   ((t, etok a) :: ts, d ++ ds)
               end) args in
          let '(u, own) := call_node p callee args sigs tys in (u, ds ++ own)
      end
  end.
End Checker.

(* ExprSemanticsChecker.Check (without the untrusted-input checker) *)
Definition check (E : env) (e : expr) : ty * list diag := chk merge true E None e.
(* the code before the two repairs *)
Definition check_old (E : env) (e : expr) : ty * list diag := chk merge_old false E None e.

(* ---- Update* methods: the environment the rules build ------------------------- *)
Definition set_var (k : string) (t : ty) (E : env) : env :=
  {| e_vars := upsert k t (e_vars E); e_funcs := e_funcs E; e_avail := e_avail E; e_spavail := e_spavail E;
     e_special := e_special E; e_config := e_config E; e_json := e_json E |}.

Definition obj_props (t : ty) : list (string * ty) := match t with TObj ps _ => ps | _ => [] end.

(* m[k] = v for every (k, v) of [src], in order *)
Definition upsert_all {V} (src dst : list (string * V)) : list (string * V) :=
  fold_left (fun acc kv => upsert (fst kv) (snd kv) acc) src dst.

Definition auto_secrets : list (string * ty) :=
  [("github_token", TStr); ("actions_step_debug", TStr); ("actions_runner_debug", TStr)].

Definition set_prop (k : string) (v : ty) (o : ty) : ty :=
  match o with TObj ps m => TObj (upsert k v ps) m | _ => o end.

Inductive upd :=
| UMatrix (t : ty) | USteps (t : ty) | UNeeds (t : ty) | USecrets (t : ty)
| UInputs (t : ty) | UDispatch (t : ty) | UJobs (t : ty).

Definition update_inputs (t : ty) (E : env) : env :=
  match lookup "inputs" (e_vars E) with
  | Some (TObj [] None) => set_var "inputs" t E
  | Some o => set_var "inputs" (merge o t) E
  | None => E    (* Go: type assertion on a missing entry panics; "inputs" is always present *)
  end.

Definition apply_upd (E : env) (u : upd) : env :=
  match u with
  | UMatrix t => set_var "matrix" t E
  | USteps t => set_var "steps" t E
  | UNeeds t => set_var "needs" t E
  | UJobs t => set_var "jobs" t E
  | USecrets t => set_var "secrets" (TObj (upsert_all (obj_props t) auto_secrets) None) E
  | UInputs t => update_inputs t E
  | UDispatch t =>
      let E1 := update_inputs t E in
      let strs := TObj (map (fun kv : string * ty => (fst kv, TStr)) (obj_props t)) None in
      match lookup "github" (e_vars E1) with
      | Some g =>
          match lookup "event" (obj_props g) with
          | Some ev => set_var "github" (set_prop "event" (set_prop "inputs" strs ev) g) E1
          | None => E1
          end
      | None => E1
      end
  end.

(* ---- the type checks RuleExpression applies to the result of Check (rule_expression.go) -- *)
(* checkTemplateEvaluatedType: object, array and null values must not be evaluated in ${{ }} *)
Definition template_ok (t : ty) : bool :=
  match t with TObj _ _ | TArr _ _ | TNull => false | _ => true end.
(* checkIfCondition: the condition must be assignable to bool *)
Definition if_cond_ok (t : ty) : bool := assignable TBool t.
(* checkWorkflowCall input / typed input: declared.Assignable(actual) *)
Definition typed_input_ok (declared actual : ty) : bool := assignable declared actual.
