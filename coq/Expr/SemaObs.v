(* Expr/SemaObs.v — input and observable of the correspondence check for the
   semantic-checker model: a case is the list of Update* calls made on a fresh
   checker (built-in variables and functions from Gen/GenFuncs.v, every context
   and special function available), the configured variables, the JSON oracle
   and the parsed tree; the observable is the ordered list of
   (line, column, class) plus the result type (compared up to member order). *)
From AL Require Import Base.Corr Expr.Sema Gen.GenFuncs.

Definition P (o l c : N) : tpos := {| t_off := o; t_line := l; t_col := c |}.
Definition D (l c k : N) : tuple := [l; c; k].

Record kcase := KC {
  k_upds : list upd;
  k_config : option (list string);
  k_json : list (string * jres);
  k_expr : expr
}.

Definition all_contexts : list string := "jobs" :: map fst builtin_vars.

Definition base_env (cfg : option (list string)) (js : list (string * jres)) : env :=
  {| e_vars := builtin_vars; e_funcs := builtin_funcs; e_avail := all_contexts;
     e_spavail := special_funcs; e_special := special_funcs; e_config := cfg; e_json := js |}.

Definition case_env (c : kcase) : env := fold_left apply_upd (k_upds c) (base_env (k_config c) (k_json c)).

Definition class_code (k : dkind) : N :=
  match k with
  | DUndefVar => 1 | DCtxNotAllowed => 2 | DFuncNotAllowed => 3
  | DPropUndef _ => 4 | DPropUndefFiltered _ => 5 | DDerefRecv _ => 6 | DFilterElem _ => 7
  | DFilterMapElem _ _ => 8 | DFilterNoObj _ => 9 | DFilterRecv _ => 10
  | DIndexArr _ => 11 | DIndexObj _ => 12 | DIndexOperand _ => 13
  | DArity => 14 | DNotAssignable _ _ _ => 15 | DUndefFunc => 16 | DNotOp _ => 17 | DCompare _ _ => 18
  | DFmtMissing _ => 19 | DFmtUnused _ => 20 | DBrokenJSON => 21
  | DCfgPrefix => 22 | DCfgChars => 23 | DCfgEmptyList => 24 | DCfgUndefined => 25
  end%N.

Definition obs_of (d : diag) : tuple := [t_line (d_pos d); t_col (d_pos d); class_code (d_kind d)].

(* the expected result type travels with the input; a wrong type poisons the observable *)
Definition run_k (c : kcase * ty) : list tuple :=
  let '(t, ds) := check (case_env (fst c)) (k_expr (fst c)) in
  if ty_eqb (canon t) (canon (snd c)) then map obs_of ds else [[999%N]].
