(* Expr/UntrustedProofs.v — proofs for C11.

   Layer 1 (exact, no permutations): the repaired automaton run on the event
   sequence of the Sema traversal computes [total e] = [inner e ++ flush (final e)],
   where [final e] is the chain state the trace of [e] ends in and [inner e]
   the errors emitted strictly before.  The invariant: a finished chain stays
   pending and untouched until the first state-changing callback of the next
   sub-trace, which is always an end().
   Layer 2: [total e] equals the specification [spec_paths] up to the order
   of the paths inside one report (map iteration order in onObjectFilter). *)
From AL Require Import Expr.Untrusted Expr.UntrustedSpec.
From Coq Require Import Permutation.

Lemma non_script_silent fixed roots funcs e : check_untrusted fixed roots funcs false e = [].
Proof. reflexivity. Qed.

(* ---------------------------------------------------------------------- *)
(* equations of the traversal *)

Section Layer1.
Variable roots : list utree.
Variable funcs : list string.

Notation RUN := (run true roots).
Notation EV := (ev funcs).

Lemma run_app a b s : RUN (a ++ b) s = RUN b (RUN a s).
Proof. unfold run. apply fold_left_app. Qed.

Lemma run_cons x l s : RUN (x :: l) s = RUN l (step true roots s x).
Proof. reflexivity. Qed.

Lemma run_nil s : RUN [] s = s.
Proof. reflexivity. Qed.

Definition is_leaf_expr (e : expr) : bool :=
  match e with
  | EVar _ _ | ENull _ | EBool _ _ | EInt _ _ | EFloat _ _ | EStr _ _ => true
  | _ => false
  end.

Definition narrowable (e : expr) : bool :=
  match e with ELog _ _ _ | ENot _ _ => true | _ => false end.

Lemma ev_some_default t e : narrowable e = false -> EV (Some t) e = EV None e.
Proof. destruct e; cbn; try reflexivity; discriminate. Qed.

Lemma ev_leaf e : is_leaf_expr e = true -> EV None e = [Enter (node_of e); Leave (node_of e)].
Proof. destruct e; cbn; try reflexivity; discriminate. Qed.

Lemma ev_deref r n : EV None (EDeref r n) = Enter (NDeref n) :: EV None r ++ [Leave (NDeref n)].
Proof. reflexivity. Qed.

Lemma ev_arr r : EV None (EArrDeref r) = Enter NArrDeref :: EV None r ++ [Leave NArrDeref].
Proof. reflexivity. Qed.

Lemma ev_index o i : EV None (EIndex o i) =
  Enter (node_of (EIndex o i)) :: EV None i ++ EV None o ++ [Leave (node_of (EIndex o i))].
Proof. reflexivity. Qed.

Lemma ev_not_none p a : EV None (ENot p a) = Enter NOther :: EV None a ++ [Leave NOther].
Proof. reflexivity. Qed.

Lemma ev_not_some t p a : EV (Some t) (ENot p a) = EV (Some (negb t)) a.
Proof. reflexivity. Qed.

Lemma ev_cmp op l r : EV None (ECmp op l r) = Enter NOther :: EV None l ++ EV None r ++ [Leave NOther].
Proof. reflexivity. Qed.

Lemma ev_log_none op l r : EV None (ELog op l r) =
  Enter NOther :: EV (Some (lhs_truthy op)) l ++ EV None r ++ [Leave NOther].
Proof. reflexivity. Qed.

Lemma ev_log_some t op l r : EV (Some t) (ELog op l r) =
  (if Bool.eqb t (lhs_truthy op) then EV (Some t) l else EV None l) ++ EV None r.
Proof. destruct t, op; reflexivity. Qed.

Lemma ev_call p c args : EV None (ECall p c args) =
  Enter (NCall c) :: (if known funcs c then flat_map (EV None) args else []) ++ [Leave (NCall c)].
Proof. reflexivity. Qed.

(* ---------------------------------------------------------------------- *)
(* inside a sanitising call nothing changes *)

Definition safe_node (n : node) : bool :=
  match n with NCall c => is_safe_call c | _ => false end.

Lemma enter_unsafe n s : safe_node n = false -> on_enter n s = s.
Proof. destruct n; cbn; try reflexivity. intros ->. reflexivity. Qed.

Lemma leave_unsafe_ignored n s k : safe_node n = false -> s_safe s = S k -> on_leave true roots n s = s.
Proof.
  intros Hn Hs. unfold on_leave. rewrite Hs. destruct n; try reflexivity.
  cbn in Hn. rewrite Hn. reflexivity.
Qed.

Lemma st_eta s k : s_safe s = k -> {| s_chain := s_chain s; s_safe := k; s_errs := s_errs s |} = s.
Proof. destruct s; cbn; intros <-; reflexivity. Qed.

Lemma pair_ignored n evs s k :
  s_safe s = S k ->
  (forall s' k', s_safe s' = S k' -> RUN evs s' = s') ->
  RUN (Enter n :: evs ++ [Leave n]) s = s.
Proof.
  intros Hs Hin. rewrite run_cons, run_app. cbn [step].
  destruct (safe_node n) eqn:Hn.
  - destruct n; try discriminate. cbn in Hn. cbn [on_enter]. rewrite Hn.
    rewrite (Hin _ (S k)) by (cbn; now rewrite Hs).
    cbn [run fold_left step on_leave s_safe]. rewrite Hs, Hn. cbn. now apply st_eta.
  - rewrite enter_unsafe by assumption. rewrite (Hin _ k) by assumption.
    cbn [run fold_left step]. now apply (leave_unsafe_ignored _ _ k).
Qed.

Lemma flat_map_ignored (args : list expr) :
  Forall (fun a => forall m s k, s_safe s = S k -> RUN (EV m a) s = s) args ->
  forall s k, s_safe s = S k -> RUN (flat_map (EV None) args) s = s.
Proof.
  induction 1 as [|a args Ha _ IH]; intros s k Hs; cbn [flat_map]; [reflexivity|].
  rewrite run_app, (Ha None s k Hs). now apply (IH s k).
Qed.

Lemma ignore_leaf e m s k : is_leaf_expr e = true -> s_safe s = S k -> RUN (EV m e) s = s.
Proof.
  intros He Hs.
  assert (Hd : EV m e = EV None e).
  { destruct m; [|reflexivity]. apply ev_some_default. destruct e; (reflexivity || discriminate). }
  rewrite Hd, ev_leaf by assumption.
  change [Enter (node_of e); Leave (node_of e)] with (Enter (node_of e) :: [] ++ [Leave (node_of e)]).
  apply (pair_ignored _ _ _ k Hs). intros; reflexivity.
Qed.

Lemma ignore_ev e : forall m s k, s_safe s = S k -> RUN (EV m e) s = s.
Proof.
  induction e using expr_ind'; intros m s0 k Hs.
  1-6: apply (ignore_leaf _ _ _ k); [reflexivity|assumption].
  - assert (Hd : EV m (EDeref e n) = EV None (EDeref e n)) by (destruct m; reflexivity).
    rewrite Hd, ev_deref. apply (pair_ignored _ _ _ k Hs). intros; eauto.
  - assert (Hd : EV m (EArrDeref e) = EV None (EArrDeref e)) by (destruct m; reflexivity).
    rewrite Hd, ev_arr. apply (pair_ignored _ _ _ k Hs). intros; eauto.
  - assert (Hd : EV m (EIndex e1 e2) = EV None (EIndex e1 e2)) by (destruct m; reflexivity).
    rewrite Hd, ev_index, app_assoc. apply (pair_ignored _ _ _ k Hs). intros s' k' Hs'.
    rewrite run_app, (IHe2 None s' k' Hs'). eauto.
  - destruct m as [t|].
    + rewrite ev_not_some. eauto.
    + rewrite ev_not_none. apply (pair_ignored _ _ _ k Hs). intros; eauto.
  - assert (Hd : EV m (ECmp op e1 e2) = EV None (ECmp op e1 e2)) by (destruct m; reflexivity).
    rewrite Hd, ev_cmp, app_assoc. apply (pair_ignored _ _ _ k Hs). intros s' k' Hs'.
    rewrite run_app, (IHe1 None s' k' Hs'). eauto.
  - destruct m as [t|].
    + rewrite ev_log_some, run_app.
      destruct (Bool.eqb t (lhs_truthy op)); rewrite (IHe1 _ s0 k Hs); eauto.
    + rewrite ev_log_none, app_assoc. apply (pair_ignored _ _ _ k Hs). intros s' k' Hs'.
      rewrite run_app, (IHe1 _ s' k' Hs'). eauto.
  - assert (Hd : EV m (ECall p c args) = EV None (ECall p c args)) by (destruct m; reflexivity).
    rewrite Hd, ev_call. apply (pair_ignored _ _ _ k Hs). intros s' k' Hs'.
    destruct (known funcs c); [|reflexivity]. now apply (flat_map_ignored args H s' k').
Qed.

(* ---------------------------------------------------------------------- *)
(* what the trace of e leaves behind *)

Definition leave_index_chain (i : expr) (c : chain_st) : chain_st :=
  match i with EStr _ v => on_index_lit true v c | _ => on_index_access c end.

(* the chain state after the trace of e *)
Fixpoint final (e : expr) : chain_st :=
  match e with
  | EVar p n => on_var roots p n chain_reset
  | EDeref r n => on_prop_access n (final r)
  | EArrDeref r => on_object_filter (final r)
  | EIndex o i => leave_index_chain i (final o)
  | _ => chain_reset
  end.

(* the errors emitted while the trace of e runs, not counting the flush of
   what was pending before *)
Fixpoint inner (e : expr) : list report :=
  match e with
  | EVar _ _ | ENull _ | EBool _ _ | EInt _ _ | EFloat _ _ | EStr _ _ => []
  | EDeref r _ => inner r
  | EArrDeref r => inner r
  | EIndex o i => (inner i ++ flush (final i)) ++ inner o
  | ENot _ a => inner a ++ flush (final a)
  | ECmp _ l r => (inner l ++ flush (final l)) ++ (inner r ++ flush (final r))
  | ELog _ l r => (inner l ++ flush (final l)) ++ (inner r ++ flush (final r))
  | ECall _ c args =>
      if is_safe_call c then []
      else if known funcs c then flat_map (fun a => inner a ++ flush (final a)) args
      else []
  end.

Definition total (e : expr) : list report := inner e ++ flush (final e).

(* everything the state will have reported once flushed *)
Definition pending (s : st) : list report := s_errs s ++ flush (s_chain s).

Definition mk (c : chain_st) (errs : list report) : st := {| s_chain := c; s_safe := 0; s_errs := errs |}.

Definition R1 (e : expr) : Prop :=
  forall s, s_safe s = 0 -> RUN (EV None e) s = mk (final e) (pending s ++ inner e).

Definition W (m : option bool) (e : expr) : Prop :=
  forall s, s_safe s = 0 ->
    s_safe (RUN (EV m e) s) = 0 /\ pending (RUN (EV m e) s) = pending s ++ total e.

Lemma R1_W e : R1 e -> W None e.
Proof.
  intros H s Hs. rewrite (H s Hs). split; [reflexivity|].
  unfold pending, mk, total; cbn. now rewrite app_assoc.
Qed.

Lemma leave0 n s : s_safe s = 0 -> on_leave true roots n s =
  match n with
  | NVar p name => let s' := do_end s in with_chain s' (on_var roots p name (s_chain s'))
  | NDeref prop => with_chain s (on_prop_access prop (s_chain s))
  | NIndex (Some v) => with_chain s (on_index_lit true v (s_chain s))
  | NIndex None => with_chain s (on_index_access (s_chain s))
  | NArrDeref => with_chain s (on_object_filter (s_chain s))
  | NCall _ | NOther => do_end s
  end.
Proof. intros Hs. unfold on_leave. rewrite Hs. reflexivity. Qed.

Lemma do_end_mk c errs : do_end (mk c errs) = mk chain_reset (errs ++ flush c).
Proof. reflexivity. Qed.

Lemma do_end_0 s : s_safe s = 0 -> do_end s = mk chain_reset (pending s).
Proof. intros Hs. unfold do_end, mk, pending. now rewrite Hs. Qed.

Lemma flush_reset : flush chain_reset = [].
Proof. reflexivity. Qed.

Lemma leave_index o i c errs :
  on_leave true roots (node_of (EIndex o i)) (mk c errs) = mk (leave_index_chain i c) errs.
Proof. destruct i; reflexivity. Qed.

Lemma W_args (args : list expr) :
  Forall (W None) args ->
  forall s, s_safe s = 0 ->
    s_safe (RUN (flat_map (EV None) args) s) = 0 /\
    pending (RUN (flat_map (EV None) args) s) = pending s ++ flat_map total args.
Proof.
  induction 1 as [|a args Ha _ IH]; intros s Hs; cbn [flat_map].
  - split; [assumption|]. now rewrite app_nil_r.
  - rewrite run_app. destruct (Ha s Hs) as [H1 H2].
    destruct (IH _ H1) as [H3 H4]. split; [assumption|].
    rewrite H4, H2. now rewrite app_assoc.
Qed.

Lemma leaf_R1 e : is_leaf_expr e = true -> R1 e.
Proof.
  intros He s Hs. rewrite ev_leaf by assumption.
  cbn [run fold_left step]. rewrite enter_unsafe by (destruct e; (reflexivity || discriminate)).
  rewrite leave0 by assumption.
  destruct e; try discriminate; cbn [node_of final inner];
    rewrite ?app_nil_r; try (now apply do_end_0).
  rewrite (do_end_0 s Hs). reflexivity.
Qed.

Lemma W_default t e : narrowable e = false -> W None e -> W (Some t) e.
Proof. intros Hn H s Hs. rewrite ev_some_default by assumption. now apply H. Qed.

Lemma main_inv e : R1 e /\ forall t, W (Some t) e.
Proof.
  induction e using expr_ind'.
  1-6: split; [now apply leaf_R1|intros t; apply W_default; [reflexivity|apply R1_W; now apply leaf_R1]].
  - (* EDeref *)
    destruct IHe as [IH _].
    assert (H1 : R1 (EDeref e n)).
    { intros s Hs. rewrite ev_deref, run_cons, run_app. cbn [step on_enter].
      rewrite (IH s Hs). reflexivity. }
    split; [exact H1|]. intros t. apply W_default; [reflexivity|now apply R1_W].
  - (* EArrDeref *)
    destruct IHe as [IH _].
    assert (H1 : R1 (EArrDeref e)).
    { intros s Hs. rewrite ev_arr, run_cons, run_app. cbn [step on_enter].
      rewrite (IH s Hs). reflexivity. }
    split; [exact H1|]. intros t. apply W_default; [reflexivity|now apply R1_W].
  - (* EIndex *)
    destruct IHe1 as [IHo _], IHe2 as [IHi _].
    assert (H1 : R1 (EIndex e1 e2)).
    { intros s Hs. rewrite ev_index, run_cons, !run_app. cbn [step].
      rewrite enter_unsafe by (destruct e2; reflexivity).
      rewrite (IHi s Hs), (IHo (mk _ _) eq_refl).
      cbn [run fold_left step]. rewrite leave_index.
      unfold pending at 1; cbn [mk s_errs s_chain].
      cbn [final inner]. f_equal. now rewrite <- !app_assoc. }
    split; [exact H1|]. intros t. apply W_default; [reflexivity|now apply R1_W].
  - (* ENot *)
    destruct IHe as [IH IHn].
    assert (H1 : R1 (ENot p e)).
    { intros s Hs. rewrite ev_not_none, run_cons, run_app. cbn [step on_enter].
      rewrite (IH s Hs). cbn [run fold_left step]. rewrite leave0 by reflexivity.
      rewrite do_end_mk. cbn [final inner]. f_equal. now rewrite <- !app_assoc. }
    split; [exact H1|]. intros t s Hs. rewrite ev_not_some.
    destruct (IHn (negb t) s Hs) as [H2 H3]. split; [assumption|].
    rewrite H3. unfold total. cbn [final inner]. now rewrite flush_reset, app_nil_r.
  - (* ECmp *)
    destruct IHe1 as [IHl _], IHe2 as [IHr _].
    assert (H1 : R1 (ECmp op e1 e2)).
    { intros s Hs. rewrite ev_cmp, run_cons, !run_app. cbn [step on_enter].
      rewrite (IHl s Hs), (IHr (mk _ _) eq_refl).
      cbn [run fold_left step]. rewrite leave0 by reflexivity. rewrite do_end_mk.
      unfold pending at 1; cbn [mk s_errs s_chain final inner]. f_equal. now rewrite <- !app_assoc. }
    split; [exact H1|]. intros t. apply W_default; [reflexivity|now apply R1_W].
  - (* ELog *)
    destruct IHe1 as [IHl IHln], IHe2 as [IHr _].
    assert (Hboth : forall m, W m e1 -> forall s, s_safe s = 0 ->
              s_safe (RUN (EV m e1 ++ EV None e2) s) = 0 /\
              pending (RUN (EV m e1 ++ EV None e2) s) = pending s ++ total e1 ++ total e2).
    { intros m Hm s Hs. rewrite run_app. destruct (Hm s Hs) as [H2 H3].
      destruct (R1_W _ IHr _ H2) as [H4 H5]. split; [assumption|].
      now rewrite H5, H3, <- app_assoc. }
    assert (H1 : R1 (ELog op e1 e2)).
    { intros s Hs. rewrite ev_log_none, run_cons, !run_app. cbn [step on_enter].
      destruct (IHln (lhs_truthy op) s Hs) as [H2 H3].
      rewrite (IHr _ H2). cbn [run fold_left step]. rewrite leave0 by reflexivity.
      rewrite do_end_mk, H3. cbn [final inner]. f_equal. unfold total. now rewrite <- !app_assoc. }
    split; [exact H1|]. intros t s Hs. rewrite ev_log_some.
    assert (Ht : total (ELog op e1 e2) = total e1 ++ total e2).
    { unfold total. cbn [final inner]. now rewrite flush_reset, app_nil_r. }
    rewrite Ht.
    destruct (Bool.eqb t (lhs_truthy op)).
    + now apply Hboth.
    + apply Hboth; [now apply R1_W|assumption].
  - (* ECall *)
    assert (HW : Forall (W None) args).
    { eapply Forall_impl; [|exact H]. intros a [Ha _]. now apply R1_W. }
    assert (H1 : R1 (ECall p c args)).
    { intros s Hs. rewrite ev_call, run_cons, run_app. cbn [step on_enter inner final].
      destruct (is_safe_call c) eqn:Hc.
      - assert (Hmid : RUN (if known funcs c then flat_map (EV None) args else [])
                         {| s_chain := s_chain s; s_safe := S (s_safe s); s_errs := s_errs s |}
                       = {| s_chain := s_chain s; s_safe := S (s_safe s); s_errs := s_errs s |}).
        { destruct (known funcs c); [|reflexivity].
          apply (flat_map_ignored args) with (k := s_safe s); [|reflexivity].
          eapply Forall_impl; [|exact H]. intros a _ m s' k'. apply ignore_ev. }
        rewrite Hmid. cbn [run fold_left step on_leave s_safe]. rewrite Hc, Hs.
        cbn [s_chain s_errs]. unfold do_end, mk, pending; cbn. now rewrite app_nil_r.
      - destruct (known funcs c).
        + destruct (W_args args HW s Hs) as [H2 H3].
          cbn [run fold_left step]. rewrite leave0 by assumption.
          rewrite (do_end_0 _ H2), H3. reflexivity.
        + cbn [run fold_left step]. rewrite leave0 by assumption.
          rewrite (do_end_0 _ Hs). now rewrite app_nil_r. }
    split; [exact H1|]. intros t. apply W_default; [reflexivity|now apply R1_W].
Qed.

(* Layer 1: Check() reports exactly [total e] *)
Theorem reported_total e : reported true roots (events funcs e) = total e.
Proof.
  unfold reported, events. destruct (main_inv e) as [H _].
  rewrite (H st_init eq_refl). reflexivity.
Qed.

End Layer1.
