(* Expr/UntrustedProofs.v — proofs for C11 (see the section comments). *)
From AL Require Import Expr.Untrusted Expr.UntrustedSpec.

Lemma non_script_silent fixed roots funcs e : check_untrusted fixed roots funcs false e = [].
Proof. reflexivity. Qed.
